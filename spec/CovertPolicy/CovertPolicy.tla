---------------------------- MODULE CovertPolicy ----------------------------
(***************************************************************************)
(* The station's covert-address policy                                     *)
(* (pkg/station/lib/registration_config.go ParseOrResolveBlocklisted,      *)
(*  registration_ingest.go: reg.Covert is overwritten with the result,     *)
(*  proxies.go: Proxy dials reg.Covert).                                   *)
(*                                                                         *)
(* Stages, in the order the code applies them (pc):                        *)
(*   parse    bare IP without port -> reject; SplitHostPort error -> reject*)
(*   domain   host matches a blocklisted domain pattern -> reject          *)
(*   port     not an unsigned 16-bit decimal -> reject                     *)
(*   resolve  one resolution of the host (a literal resolves to itself)    *)
(*   subnet   allowlist (when configured) takes precedence over blocklist  *)
(*   return   literal IP:port of the resolved address                      *)
(*   store    ingest overwrites the registration's covert with the result  *)
(*   dial     the proxy dials the stored string                            *)
(* Addresses and networks are symbolic (Addr, Net, InNet).  A name's       *)
(* answers are a SEQUENCE: the n-th lookup returns the n-th answer, so a   *)
(* second lookup (re-resolution at dial time = DNS rebinding) is visible.  *)
(***************************************************************************)
EXTENDS Naturals, Sequences, FiniteSets, TLC

\* "loop4" is the loopback interface's own address (127.0.0.1), "loopnet4" another address of that interface's subnet
\* (127.0.0.2 in 127.0.0.1/8).  "n127" is the whole 127.0.0.0/8, "n127h" the host route 127.0.0.1/32 the shipped
\* configuration lists, "iflo" the loopback interface's subnet as covert_blocklist_public_addrs adds it.
Addr == {"pub4", "priv4", "loop4", "loopnet4", "pub6", "ula6"}
Net  == {"n10", "n127", "n127h", "nfc", "npub4", "npub6", "iflo"}
InNet(a, n) == \/ (a = "priv4" /\ n = "n10") \/ (a \in {"loop4", "loopnet4"} /\ n \in {"n127", "iflo"}) \/ (a = "loop4" /\ n = "n127h")
               \/ (a = "ula6" /\ n = "nfc")
               \/ (a = "pub4" /\ n = "npub4") \/ (a = "pub6" /\ n = "npub6")
IfaceNets == {"iflo"}
IfaceAddr(n) == "loop4"           \* the interface address the subnet was read from
\* blockedname / blockedlit: a name / an IP literal whose host text a configured domain pattern matches.  pm says how:
\* "whole" - the pattern describes the entire host;  "part" - it matches a proper part of it only (an unanchored pattern inside a longer
\* name, a "^prefix" or "suffix$" pattern).  Patterns are SEARCHED in the host (regexp MatchString), so both are matches.
Forms == {"lit", "mapped", "zone", "bare", "nobracket", "name", "blockedname", "blockedlit", "garbage", "empty"}
Blocked == {"blockedname", "blockedlit"}
Ports == {"ok", "empty", "oversized", "nonnumeric", "negative", "missing"}
NoAddr == "none"

\* input: form of the host part, port class, address the literal denotes (lit/mapped/zone/bare/nobracket) or the name's answers
Inputs == [form : Forms, port : Ports, addr : Addr, answers : {<<a>> : a \in Addr} \cup {<<a, b>> : a, b \in Addr} \cup {<<>>},
           pm : {"whole", "part"}]
\* pub: covert_blocklist_public_addrs - every local interface SUBNET joins the blocklist
Policies == [block : (SUBSET {"n10", "n127", "nfc"}) \cup {{"n127h"}, {"n127h", "n10", "nfc"}},
             allow : {{}, {"npub4"}, {"npub4", "npub6"}, {"n10"}}, patterns : BOOLEAN, pub : BOOLEAN]

CONSTANT MatchMode      \* "search": a pattern matches a host if it matches any part of it (what the property demands);
                        \* "full": only if it matches the entire host (a broken instance: must violate CheckedIsPermitted)
CONSTANT PubMode        \* "all": every interface subnet is added (intended); "skip-covered": a subnet whose interface ADDRESS a
                        \* configured entry already contains is skipped - with 127.0.0.1/32 listed the rest of 127/8 stays
                        \* dialable (a broken instance: must violate CheckedIsPermitted)
CONSTANT StoreLiteral   \* TRUE: ingest stores the checked literal (intended); FALSE: it keeps the client's string and the
                        \* dial resolves it again (DNS rebinding window) - used to show the invariants are not vacuous

VARIABLES inp, pol, pc, lookups, resolved, result, stored, dialed, obs
vars == <<inp, pol, pc, lookups, resolved, result, stored, dialed, obs>>

IsName(i) == i.form \in {"name", "blockedname"}
PatternHits(i) == i.form \in Blocked                                   \* by construction of the input
PatternApplied(i) == i.form \in Blocked /\ (MatchMode = "search" \/ i.pm = "whole")
\* what the property demands: outside every configured blocklisted subnet - the listed ones and, with pub, the interface subnets
Permitted(a, p) == IF p.allow # {} THEN \E n \in p.allow : InNet(a, n)
                   ELSE ~\E n \in p.block \cup (IF p.pub THEN IfaceNets ELSE {}) : InNet(a, n)
\* what ParseBlocklists builds and isBlocklistedCovertAddr applies
BuiltBlock(p) == p.block \cup (IF p.pub THEN {n \in IfaceNets : PubMode = "all" \/ ~\E m \in p.block : InNet(IfaceAddr(n), m)} ELSE {})
Applied(a, p) == IF p.allow # {} THEN \E n \in p.allow : InNet(a, n)
                 ELSE ~\E n \in BuiltBlock(p) : InNet(a, n)

Init == /\ inp \in Inputs /\ pol \in Policies
        /\ (IsName(inp) \/ inp.answers = <<>>)            \* answers only matter for names
        /\ (inp.pm = "whole" \/ inp.form \in Blocked)     \* pm only matters for hosts a pattern hits
        /\ (inp.form = "blockedlit" => inp.pm = "part")   \* patterns for literals are prefixes of the address text
        /\ (inp.form = "blockedlit" => inp.addr # "loop4") \* (no second spelling of the interface address itself)
        /\ pc = "parse" /\ lookups = 0 /\ resolved = NoAddr /\ result = NoAddr /\ stored = NoAddr /\ dialed = NoAddr
        /\ obs = [a |-> "Init"]

Reject(why) == /\ pc' = "done" /\ result' = "rejected" /\ obs' = [a |-> "Reject", why |-> why]
               /\ UNCHANGED <<inp, pol, lookups, resolved, stored, dialed>>
Go(next) == /\ pc' = next /\ obs' = [a |-> next] /\ UNCHANGED <<inp, pol, lookups, resolved, result, stored, dialed>>

Parse == /\ pc = "parse"
         /\ IF inp.form \in {"bare", "nobracket", "garbage", "empty"} \/ inp.port = "missing" THEN Reject("parse") ELSE Go("domain")
Domain == /\ pc = "domain"
          /\ IF pol.patterns /\ PatternApplied(inp) THEN Reject("domain") ELSE Go("port")
Port == /\ pc = "port"
        /\ IF inp.port # "ok" THEN Reject("port") ELSE Go("resolve")
Resolve == /\ pc = "resolve"
           /\ IF IsName(inp)
                THEN /\ lookups' = lookups + 1
                     /\ IF Len(inp.answers) > lookups
                          THEN resolved' = inp.answers[lookups + 1] /\ pc' = "subnet" /\ result' = result /\ obs' = [a |-> "resolved"]
                          ELSE resolved' = resolved /\ pc' = "done" /\ result' = "rejected" /\ obs' = [a |-> "Reject", why |-> "nxdomain"]
                ELSE /\ resolved' = inp.addr /\ lookups' = lookups /\ pc' = "subnet" /\ result' = result /\ obs' = [a |-> "resolved"]
           /\ UNCHANGED <<inp, pol, stored, dialed>>
Subnet == /\ pc = "subnet"
          /\ IF Applied(resolved, pol)
               THEN /\ result' = resolved /\ pc' = "store" /\ obs' = [a |-> "accept"]
                    /\ UNCHANGED <<inp, pol, lookups, resolved, stored, dialed>>
               ELSE Reject("subnet")
\* ingest: reg.Covert := result (a literal) -- the dial goes to exactly that literal, no further lookup
Store == /\ pc = "store" /\ stored' = result /\ pc' = "dial" /\ obs' = [a |-> "store"]
         /\ UNCHANGED <<inp, pol, lookups, resolved, result, dialed>>
Dial == /\ pc = "dial" /\ pc' = "done" /\ obs' = [a |-> "dial"]
        /\ IF StoreLiteral \/ ~IsName(inp)
             THEN dialed' = stored /\ UNCHANGED lookups
             ELSE /\ lookups' = lookups + 1
                  /\ dialed' = IF Len(inp.answers) > lookups THEN inp.answers[lookups + 1] ELSE NoAddr
        /\ UNCHANGED <<inp, pol, resolved, result, stored>>
Next == Parse \/ Domain \/ Port \/ Resolve \/ Subnet \/ Store \/ Dial
Spec == Init /\ [][Next]_vars

\* ------------------------------ properties ------------------------------
\* the address that is dialed is the address that was checked
DialedIsChecked == dialed # NoAddr => (dialed = stored /\ stored = result /\ result = resolved)
\* whatever is accepted lies outside every blocklisted subnet (inside the allowlist when one is configured) and its
\* host did not match a blocklisted pattern
CheckedIsPermitted == (result \in Addr) => (Permitted(result, pol) /\ ~(pol.patterns /\ PatternHits(inp)))
\* names are resolved once, at admission
ResolvedOnce == lookups <= 1
\* a well-formed permitted literal is accepted, and as the same address
PermittedLiteralAccepted ==
  (pc = "done" /\ (inp.form \in {"lit", "mapped", "zone"} \/ (inp.form = "blockedlit" /\ ~pol.patterns))
     /\ inp.port = "ok" /\ Permitted(inp.addr, pol)) => dialed = inp.addr
\* nothing malformed is ever accepted
MalformedRejected == (pc = "done" /\ (inp.form \in {"bare", "nobracket", "garbage", "empty"} \/ inp.port # "ok")) => result = "rejected"
=============================================================================
