//go:build verif

package obfs4

// X08 adapter for the obfs4 client transport (see harness/pkg_transports_wrapping_prefix/x08_shared_verif_test.go).
// The station end of every connection is the obfs4 library's server factory fed exactly as the station's
// Transport.WrapConnection feeds it (node-id, private-key, drbg-seed from keys derived with the package's own
// generateObfs4Keys); what it decodes is what "the peer got".

import (
	"sync/atomic"

	"github.com/refraction-networking/conjure/pkg/transports"
	pb "github.com/refraction-networking/conjure/proto"
	"github.com/refraction-networking/obfs4/common/drbg"
	"github.com/refraction-networking/obfs4/transports/obfs4"
	pt "gitlab.torproject.org/tpo/anti-censorship/pluggable-transports/goptlib"
	"google.golang.org/protobuf/proto"
	"google.golang.org/protobuf/types/known/anypb"
)

type x08ObfsAd struct{ n atomic.Int64 }

func x08NewAdapter() x08Adapter { return &x08ObfsAd{} }

func (a *x08ObfsAd) Kind() string       { return "obfs4" }
func (a *x08ObfsAd) UsesRand() bool     { return false }
func (a *x08ObfsAd) New(field int) x08T { return &ClientTransport{} }

func (a *x08ObfsAd) generic(m map[string]any) *pb.GenericTransportParams {
	r, _ := m["rand"].(bool)
	if !r && a.n.Add(1)%2 == 0 {
		return &pb.GenericTransportParams{}
	}
	return &pb.GenericTransportParams{RandomizeDstPort: proto.Bool(r)}
}

func (a *x08ObfsAd) SetArg(arg map[string]any) any {
	switch arg["t"] {
	case "nil":
		return nil
	case "pnil":
		return (*pb.GenericTransportParams)(nil)
	case "gen":
		return a.generic(arg)
	}
	if a.n.Add(1)%2 == 0 {
		return &pb.PrefixTransportParams{PrefixId: proto.Int32(1)}
	}
	return "not parameters"
}

func (a *x08ObfsAd) Inc(inc map[string]any) *anypb.Any {
	switch inc["t"] {
	case "nil":
		return nil
	case "gen":
		x, _ := anypb.New(a.generic(inc))
		if a.n.Add(1)%3 == 0 {
			x.TypeUrl = "type.googleapis.com/tapdance.GenericTransportParams"
		}
		return x
	}
	x, _ := anypb.New(&pb.PrefixTransportParams{PrefixId: proto.Int32(1)})
	return x
}

func x08ProjGeneric(p *pb.GenericTransportParams) any {
	if p == nil {
		return x08None
	}
	return map[string]any{"rand": p.GetRandomizeDstPort()}
}

func x08KeysFor(sec string) Obfs4Keys {
	k, err := generateObfs4Keys(&x08KeyReader{label: "keys-" + sec})
	if err != nil {
		panic(err)
	}
	return k
}

func (a *x08ObfsAd) Proj(tt x08T) (P, S, pfx, keys any) {
	t := tt.(*ClientTransport)
	P, S, pfx, keys = x08ProjGeneric(t.Parameters), x08ProjGeneric(t.sessionParams), x08None, x08None
	if t.keys.PublicKey != nil || t.keys.PrivateKey != nil || t.keys.NodeID != nil {
		keys = map[string]any{"sec": "junk"}
		if t.keys.PublicKey != nil && t.keys.PrivateKey != nil && t.keys.NodeID != nil {
			for _, sec := range x08SecretNames {
				k := x08KeysFor(sec)
				if *k.PublicKey == *t.keys.PublicKey && *k.PrivateKey == *t.keys.PrivateKey && *k.NodeID == *t.keys.NodeID {
					keys = map[string]any{"sec": sec}
				}
			}
		}
	}
	return
}

func (a *x08ObfsAd) ProjMsg(m proto.Message) any {
	if m == nil {
		return x08None
	}
	if p, ok := m.(*pb.GenericTransportParams); ok {
		return x08ProjGeneric(p)
	}
	return map[string]any{"type": string(m.ProtoReflect().Descriptor().FullName())}
}

func (a *x08ObfsAd) Why(err error) string { return "other" }

func (a *x08ObfsAd) Port(seedName string, seed []byte, port uint16) any {
	if p, err := transports.PortSelectorRange(portRangeMin, portRangeMax, seed); err == nil && p == port {
		return map[string]any{"k": "seeded", "seed": seedName, "v": 0}
	}
	return map[string]any{"k": "fixed", "seed": "-", "v": int(port)}
}

func (a *x08ObfsAd) Header(raw []byte) (string, string, int, int) { return "", "none", 0, 0 }

func (a *x08ObfsAd) StartPeer(p *x08Pipe, sec string) *x08Peer {
	pe := &x08Peer{sec: sec, ready: make(chan error, 1)}
	go func() {
		k := x08KeysFor(sec)
		args := pt.Args{}
		args.Add("node-id", k.NodeID.Hex())
		args.Add("private-key", k.PrivateKey.Hex())
		seed, err := drbg.NewSeed()
		if err != nil {
			pe.ready <- err
			return
		}
		args.Add("drbg-seed", seed.Hex())
		factory, err := (&obfs4.Transport{}).ServerFactory("", &args)
		if err != nil {
			pe.ready <- err
			return
		}
		wrapped, err := factory.WrapConn(x08PipeS{p})
		if err != nil {
			x08PipeS{p}.Close()
			pe.ready <- err
			return
		}
		pe.mu.Lock()
		pe.conn = wrapped
		pe.mu.Unlock()
		pe.ready <- nil
		buf := make([]byte, 16384)
		for {
			n, err := wrapped.Read(buf)
			if n > 0 {
				pe.mu.Lock()
				pe.buf = append(pe.buf, buf[:n]...)
				pe.mu.Unlock()
			}
			if err != nil {
				return
			}
		}
	}()
	return pe
}
