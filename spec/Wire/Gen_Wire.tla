------------------------------ MODULE Gen_Wire ------------------------------
(* Explores Wire.tla's behaviours (so every invariant is checked on every row) and emits each row as JSON, one object
   per row: ep, f (field -> class), nominal, expect (outcomes the specification allows), triggers (guards exercised).
   Rows come from the union of the enabled modes:
     "design"  the rows Wire.tla's Init explores (full product, or base-choice covering design of strength Strength);
     "sample"  NSample rows per entry point drawn by TLC (RandomElement, seeded by -seed): even draws field by field
               from the whole product, odd draws around a base (every field moved with probability 1/4). *)
EXTENDS Wire, Json, Randomization
CONSTANTS Modes, NSample

SampleRow(e, r) ==
  LET D == Dom(e)
      B == Bases(e)
  IN \E i \in 1..NSample :
       r = IF i % 2 = 0 \/ B = {}
             THEN [f \in DOMAIN D |-> RandomElement(D[f])]
             ELSE LET b == RandomElement(B) IN [f \in DOMAIN D |-> IF RandomElement(1..4) = 1 THEN RandomElement(D[f]) ELSE b[f]]

GenInit == /\ ep \in EPs
           /\ \/ "design" \in Modes /\ RowChoice(ep, row)
              \/ "sample" \in Modes /\ ~FullProduct(ep) /\ SampleRow(ep, row)
           /\ pc = "deliver"
           /\ outcome = None
GenSpec == GenInit /\ [][Next]_vars
Emit == pc = "deliver" => PrintT(ToJson([ep |-> ep, f |-> row, nominal |-> Nominal(ep, row), expect |-> Expect(ep, row),
                                         triggers |-> Triggers(ep, row)]))
=============================================================================
