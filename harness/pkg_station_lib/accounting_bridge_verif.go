//go:build verif

package lib

// Bridge for the X04 (Accounting) handler driver in cmd/application: read access to the Stats singleton's
// connection gauge.  Exists only in the build overlay, never in the repository.

import "sync/atomic"

// VerifStatActiveConns returns Stat().activeConns (AddConn +1, CloseConn / ConnErr -1; never reset).
func VerifStatActiveConns() int64 { return atomic.LoadInt64(&Stat().activeConns) }
