---------------------------- MODULE RegistrarData ----------------------------
(***************************************************************************)
(* Data flow of a bidirectional registration through the registrar         *)
(* (pkg/regserver/regprocessor: RegisterBidirectional = processBdReq +     *)
(* processC2SWrapper + sendToZMQ; pkg/regserver/overrides) and into a      *)
(* station (pkg/station/lib NewRegistrationC2SWrapper).  Property C12.     *)
(*                                                                         *)
(* One behaviour = one decision-table row:  Init picks a request, a        *)
(* registrar configuration, a subnet configuration and the value `u` of    *)
(* the weighted draw; the single action Register computes the three views  *)
(*   resp   what RegisterBidirectional returns to the client               *)
(*   fwd    what is handed to the ZMQ sender (the forwarded C2SWrapper)    *)
(*   sv     what a station builds from fwd, per requested family           *)
(* as the property demands them (Variant = "intended"); the other Variants *)
(* are deliberately broken instances used to show that every invariant can *)
(* fail (non-vacuity) - they are also the classic ways the code could be   *)
(* wrong.                                                                  *)
(*                                                                         *)
(* Abstract values (strings, so JSON maps 1:1):                            *)
(*   addresses  "-" absent | "orig" the phantom the selector derived |     *)
(*              "sub:<name>" an address inside override subnet <name> |    *)
(*              "forged" the client-supplied one                           *)
(*   params     [kind |-> "none"]  response carries no transport params    *)
(*              (client keeps its own) | "ovr" the configured override set *)
(*              rewrote the client's prefix params | "subnet" the prefix   *)
(*              bound to the chosen override subnet | "forged"             *)
(*   port       "p443" | "client" (what the transport derives from the     *)
(*              client's own params) | "subnet:<name>" | "forged"          *)
(*   sig        "none" | "registrar" (RegRespBytes = marshalled response,  *)
(*              signed with the registrar key) | "client" (forged bytes)   *)
(*                                                                         *)
(* The weighted choice of an override subnet is modelled exactly: integer  *)
(* weights, u in 0..Total-1 stands for the draw falling into the u-th unit *)
(* of the cumulative scale, and the chosen subnet is the FIRST one whose   *)
(* cumulative weight exceeds u.  So every subnet of weight w is chosen by  *)
(* exactly w of the Total draws and a zero-weight subnet by none.          *)
(***************************************************************************)
EXTENDS Naturals, FiniteSets, Sequences, TLC

CONSTANTS Transports,    \* subset of {"min", "prefix", "obfs4"}
          Families,      \* subset of {"v4", "v6", "dual"}
          OverrideSets,  \* subset of {"none", "rand", "fixed"}
          SubnetCfgs,    \* subset of DOMAIN SubnetTable
          Exclusions,    \* subset of {"none", "orig", "other"}
          Percents,      \* subset of DOMAIN PctTable: which transports have 100 % (the others 0 %) of registrations substituted
          ForgedKinds,   \* subset of {"none", "resp", "sig", "both"}
          Outdated,      \* subset of BOOLEAN: the client's ClientConf generation is behind the registrar's.  A front end then
                         \* ATTACHES its ClientConf to what the client is told - and changes nothing else of it
          Variant        \* "intended" | "clone-early" | "forward-forged" | "override-despite-disable" | "noauth-drops-exclusions"
                         \* (the registrar is BUILT from its configuration by one of two constructors - NewRegProcessor for
                         \* zmq_auth_type CURVE, NewRegProcessorNoAuth for NULL; in this variant the second one loses the exclusion list)
                         \* | "exclude-after-subst" | "last-wins" | "rebuild-for-outdated" (the answer for an outdated client is
                         \* rebuilt field by field and the transport parameters are left out)

VARIABLES req, cfg, u, phase, resp, fwd, sv, obs
vars == <<req, cfg, u, phase, resp, fwd, sv, obs>>
view == <<req, cfg, u, phase, resp, fwd, sv>>

S(n, w) == [n |-> n, w |-> w]
\* override-subnet configurations: per transport a sequence of <name, weight>, in configuration-file order
SubnetTable ==
  [none  |-> [min |-> <<>>,                                  prefix |-> <<>>],
   one   |-> [min |-> <<S("m1", 1)>>,                        prefix |-> <<S("x1", 1)>>],
   two   |-> [min |-> <<S("m1", 1), S("m2", 3)>>,            prefix |-> <<S("x1", 2), S("x2", 1)>>],
   zero  |-> [min |-> <<S("m1", 1), S("m2", 0)>>,            prefix |-> <<S("x1", 0), S("x2", 1)>>],
   three |-> [min |-> <<S("m1", 2), S("m2", 0), S("m3", 1)>>, prefix |-> <<S("x1", 1), S("x2", 1), S("x3", 2)>>],
   \* "ms" and "xs" are ONE address block configured for both transports, each entry with its own weight / port / prefix
   shared |-> [min |-> <<S("ms", 1), S("m1", 1)>>,            prefix |-> <<S("xs", 1), S("x1", 1)>>]]

SubsOf(c, t) == IF t \in {"min", "prefix"} THEN SubnetTable[c.subs][t] ELSE <<>>
RECURSIVE CumW(_, _)
CumW(ws, i) == IF i = 0 THEN 0 ELSE ws[i].w + CumW(ws, i - 1)
Total(ws) == CumW(ws, Len(ws))
Hits(ws, x) == {i \in 1..Len(ws) : x < CumW(ws, i)}
Min(Sx) == CHOOSE i \in Sx : \A j \in Sx : i <= j
Max(Sx) == CHOOSE i \in Sx : \A j \in Sx : i >= j
\* index of the chosen subnet for draw x (0 = none)
Pick(ws, x) == IF Hits(ws, x) = {} THEN 0
               ELSE IF Variant = "last-wins" THEN Max(Hits(ws, x)) ELSE Min(Hits(ws, x))

HasV4(f) == f \in {"v4", "dual"}
HasV6(f) == f \in {"v6", "dual"}
Fams(f) == IF f = "dual" THEN {"v4", "v6"} ELSE {f}
PctTable == [neither |-> <<0, 0>>, both |-> <<100, 100>>, minonly |-> <<100, 0>>, prefixonly |-> <<0, 100>>]
PctOf(c, t) == IF t = "min" THEN PctTable[c.pct][1] ELSE IF t = "prefix" THEN PctTable[c.pct][2] ELSE 0

Requests == {[t |-> t, fam |-> f, disable |-> d, randomize |-> r, pid |-> p, forged |-> g, outdated |-> o] :
               t \in Transports, f \in Families, d \in BOOLEAN, r \in BOOLEAN, p \in {"pmin", "pget"}, g \in ForgedKinds, o \in Outdated}
ValidReq(q) == q.t # "prefix" => q.pid = "pmin"      \* the prefix id only exists for the prefix transport
Configs == {[ovr |-> o, enforce |-> e, subs |-> s, excl |-> x, pct |-> p, auth |-> a, rnd |-> r] :
              o \in OverrideSets, e \in BOOLEAN, s \in SubnetCfgs, x \in Exclusions, p \in Percents, a \in BOOLEAN, r \in BOOLEAN}

NoParams == [kind |-> "none", of |-> "-"]
NoneRR == [v4 |-> "-", v6 |-> "-", port |-> "-", params |-> NoParams]
ForgedRR == [v4 |-> "forged", v6 |-> "forged", port |-> "forged", params |-> [kind |-> "forged", of |-> "-"]]

\* ---- what the registrar is meant to do ----
\* transport-parameter overrides (pkg/regserver/overrides): prefix transport only, and only if the client allows
ParamsOverridden(q, c) ==
  /\ c.ovr # "none" /\ q.t = "prefix"
  /\ (Variant = "override-despite-disable" \/ ~q.disable)
\* the phantom originally selected lies in a subnet excluded from substitution
OrigExcluded(q, c) == c.excl = "orig" /\ HasV4(q.fam)
\* phantom substitution is attempted for this row
SubstWanted(q, c) ==
  /\ c.enforce
  /\ q.t \in {"min", "prefix"}
  /\ (q.t = "prefix" => ~q.disable)      \* it rewrites the prefix parameters too, so the client must allow overrides
  /\ PctOf(c, q.t) = 100
  /\ Total(SubsOf(c, q.t)) > 0
\* the exclusion list the constructed processor holds (Construct: configuration -> processor state)
KeptExcl(c) == IF Variant = "noauth-drops-exclusions" /\ ~c.auth THEN "none" ELSE c.excl
HeldExcluded(q, c) == KeptExcl(c) = "orig" /\ HasV4(q.fam)
SubstActive(q, c) == SubstWanted(q, c) /\ (Variant = "exclude-after-subst" \/ ~HeldExcluded(q, c))
Draws(q, c) == IF SubstWanted(q, c) THEN 0..(Total(SubsOf(c, q.t)) - 1) ELSE {0}

Chosen(q, c, x) == SubsOf(c, q.t)[Pick(SubsOf(c, q.t), x)].n

\* v6-only request under substitution: there is no IPv4 phantom to replace; whether the response is then substituted
\* at all (an IPv4 address the client did not ask for, the subnet's prefix and port) is not stated by the property -
\* left open (both allowed), but it is all or nothing
Applied(q, c) == IF SubstActive(q, c) THEN (IF HasV4(q.fam) THEN {TRUE} ELSE {TRUE, FALSE}) ELSE {FALSE}

RespV4(q, c, x, app) == IF app THEN "sub:" \o Chosen(q, c, x) ELSE IF HasV4(q.fam) THEN "orig" ELSE "-"
RespParams(q, c, x, app) ==
  IF app /\ q.t = "prefix" THEN [kind |-> "subnet", of |-> Chosen(q, c, x)]
  ELSE IF ParamsOverridden(q, c) THEN [kind |-> "ovr", of |-> c.ovr]
  ELSE NoParams
RespPort(q, c, x, app) ==
  IF app /\ q.t = "prefix" THEN "subnet:" \o Chosen(q, c, x)
  ELSE IF c.rnd THEN "client" ELSE "p443"

MkResp(q, c, x, app) == [v4 |-> RespV4(q, c, x, app), v6 |-> IF HasV6(q.fam) THEN "orig" ELSE "-",
                         port |-> RespPort(q, c, x, app), params |-> RespParams(q, c, x, app)]

\* the forwarded wrapper: payload as sent by the client, the response object, the signature material
FwdResponse(q, c, r) ==
  IF Variant = "clone-early" /\ c.rnd THEN [r EXCEPT !.port = "p443"]      \* copied before the port was finalised
  ELSE r
FwdSig(q, c) ==
  IF Variant = "forward-forged" /\ q.forged \in {"sig", "both"} /\ ~c.auth THEN "client"
  ELSE IF c.auth THEN "registrar" ELSE "none"

\* ---- what a station makes of the forwarded wrapper (computed from fwd ONLY) ----
StationView(w) ==
  [f \in Fams(w.payload.fam) |->
     [phantom |-> IF f = "v4" THEN (IF w.response.v4 # "-" THEN w.response.v4 ELSE "orig")
                             ELSE (IF w.response.v6 # "-" THEN w.response.v6 ELSE "orig"),
      port    |-> w.response.port,
      params  |-> IF w.response.params.kind # "none" /\ ~w.payload.disable THEN w.response.params ELSE [kind |-> "client", of |-> "-"]]]

\* ---- what the client ends up using, from resp ----
ClientPhantom(r, f) == IF f = "v4" THEN r.v4 ELSE r.v6
ClientParams(r, q) == IF r.params.kind # "none" /\ ~q.disable THEN r.params ELSE [kind |-> "client", of |-> "-"]

Init == /\ req \in {q \in Requests : ValidReq(q)}
        /\ cfg \in Configs
        /\ u \in Draws(req, cfg)
        /\ phase = "init"
        /\ resp = NoneRR /\ fwd = [payload |-> req, response |-> NoneRR, sig |-> "none"] /\ sv = <<>>
        /\ obs = [a |-> "Init"]

Register ==
  /\ phase = "init"
  /\ \E app \in Applied(req, cfg) :
       /\ resp' = IF Variant = "rebuild-for-outdated" /\ req.outdated
                  THEN [MkResp(req, cfg, u, app) EXCEPT !.params = NoParams]
                  ELSE MkResp(req, cfg, u, app)
       /\ fwd' = [payload |-> req, response |-> FwdResponse(req, cfg, MkResp(req, cfg, u, app)), sig |-> FwdSig(req, cfg)]
  /\ sv' = StationView(fwd')
  /\ phase' = "done"
  /\ UNCHANGED <<req, cfg, u>>
  /\ obs' = [a |-> "Register", req |-> req, cfg |-> cfg, u |-> u,
             total |-> IF SubstWanted(req, cfg) THEN Total(SubsOf(cfg, req.t)) ELSE 0,
             subst |-> SubstActive(req, cfg),
             resp |-> resp', fwd |-> [response |-> fwd'.response, sig |-> fwd'.sig], sv |-> sv']

Next == Register
Spec == Init /\ [][Next]_vars

\* ---- C12 ----
Done == phase = "done"
\* "returned to the client are exactly those carried in the message forwarded to the stations"
RespEqualsForwarded == Done => fwd.response = resp
\* "a station ingesting that message ends up with that same phantom, port and parameters"
StationAgrees == Done => \A f \in Fams(req.fam) :
                    /\ sv[f].phantom = ClientPhantom(resp, f)
                    /\ sv[f].port = resp.port
                    /\ sv[f].params = ClientParams(resp, req)
\* "registration-response and signature fields supplied by the client are discarded"
ForgedFieldsDropped == Done => /\ fwd.response.v4 # "forged" /\ fwd.response.v6 # "forged" /\ fwd.response.port # "forged"
                               /\ fwd.response.params.kind # "forged" /\ resp.v4 # "forged" /\ resp.params.kind # "forged"
                               /\ fwd.sig # "client"
                               /\ (fwd.sig = "registrar") = cfg.auth
\* "overrides of transport parameters are applied only when the client has not disabled them"
OverridesOnlyIfAllowed == Done => /\ (req.disable => resp.params.kind = "none")
                                  /\ (resp.params.kind = "ovr" => (cfg.ovr # "none" /\ req.t = "prefix" /\ resp.params.of = cfg.ovr))
                                  /\ (req.t # "prefix" => resp.params.kind = "none")
IsSub(a) == a \notin {"-", "orig", "forged"}
SubNames(q, c) == {"sub:" \o SubsOf(c, q.t)[i].n : i \in {j \in 1..Len(SubsOf(c, q.t)) : SubsOf(c, q.t)[j].w > 0}}
\* "taken from the override subnets configured for that transport" (and only when substitution is configured at all)
SubstituteFromConfiguredSubnets ==
  Done => /\ (IsSub(resp.v4) => (cfg.enforce /\ PctOf(cfg, req.t) = 100 /\ resp.v4 \in SubNames(req, cfg)))
          /\ ~IsSub(resp.v6)
          /\ (resp.params.kind = "subnet" => (IsSub(resp.v4) /\ resp.v4 = "sub:" \o resp.params.of /\ resp.port = "subnet:" \o resp.params.of))
\* "every such subnet with a non-zero weight being used": each one is the outcome of at least one draw, a zero weight of none
EveryNonZeroSubnetUsed ==
  \A t \in {"min", "prefix"} :
    LET ws == SubsOf(cfg, t) IN
    \A i \in 1..Len(ws) : (ws[i].w > 0) = (\E x \in 0..(Total(ws) - 1) : Pick(ws, x) = i)
\* "it never replaces a phantom that lies in an excluded subnet"
ExcludedNeverReplaced == Done => (OrigExcluded(req, cfg) => (resp.v4 = "orig" /\ resp.params.kind # "subnet"))
\* secondary: a response answers exactly the families asked for (v4 may additionally appear as a substitute, see above)
FamiliesAnswered == Done => /\ (HasV6(req.fam) = (resp.v6 # "-")) /\ (HasV4(req.fam) => resp.v4 # "-")
                            /\ (resp.v4 # "-" /\ ~HasV4(req.fam) => IsSub(resp.v4))
                            /\ resp.port # "-"
TypeOK == /\ phase \in {"init", "done"} /\ u \in Nat
          /\ resp.params.kind \in {"none", "ovr", "subnet"}
          /\ fwd.sig \in {"none", "registrar", "client"}
=============================================================================
