#!/bin/sh
# build.sh <repo> <outdir>: compiles the repository's src/sessions.rs, unmodified, behind the stub crates
set -e
REPO=$1; OUT=$2; HERE=$(cd "$(dirname "$0")" && pwd)
mkdir -p "$OUT"
for c in log pnet protobuf redis; do
  rustc --edition 2018 --crate-type rlib --crate-name $c -o "$OUT/lib$c.rlib" "$HERE/stubs/$c.rs" 2>"$OUT/$c.err" || { cat "$OUT/$c.err"; exit 1; }
done
sed "s|@SESSIONS_RS@|$REPO/src/sessions.rs|" "$HERE/main.rs.tmpl" > "$OUT/main.rs"
rustc --edition 2015 -A warnings -L "$OUT" --extern log="$OUT/liblog.rlib" --extern pnet="$OUT/libpnet.rlib" --extern protobuf="$OUT/libprotobuf.rlib" --extern redis="$OUT/libredis.rlib" -o "$OUT/detector" "$OUT/main.rs"
