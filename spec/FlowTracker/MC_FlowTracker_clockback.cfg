\* the wall clock stepped backwards (SystemTime is not monotone): the queue is no longer sorted and a clean-up leaves an overdue flow tracked
SPECIFICATION Spec
CONSTANTS
  FlowInfo <- FlowsApi2
  Keys = {"k1"}
  T = 2
  K = 20
  SessTimeouts = {1, 3}
  TickSteps <- BackSteps
  MaxT = 4
  MaxQ = 3
  MaxLag = 2
  StaleEvent = "kills"
  DropRemoves = TRUE
  DueCmp = "le"
  KeepLonger = TRUE
  Level = "api"
  FlagKinds = {"syn"}
  PayloadKinds = {"none"}
  FrameKinds = {"eth"}
VIEW view
CONSTRAINT Bounded
INVARIANTS PostDropFresh
CHECK_DEADLOCK FALSE
