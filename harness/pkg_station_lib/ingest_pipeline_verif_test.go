//go:build verif

package lib

// Drivers for spec/Pipeline (C09: overload and shutdown of HandleRegUpdates) and the race-detector stress that
// conformance-checks the specification's atomicity assumption.

import (
	"context"
	"fmt"
	"io"
	"net"
	"net/http"
	"net/http/httptest"
	"os"
	"sync"
	"sync/atomic"
	"testing"
	"time"

	"github.com/refraction-networking/conjure/pkg/core"
	"github.com/refraction-networking/conjure/pkg/station/log"
	"github.com/refraction-networking/conjure/pkg/transports/wrapping/min"
	"github.com/refraction-networking/conjure/pkg/verifhook"
	pb "github.com/refraction-networking/conjure/proto"
	"google.golang.org/protobuf/proto"
)

func vpipMsg(i int, src pb.RegistrationSource) []byte {
	secret := vSecret(fmt.Sprintf("pipe-%d", i))
	tt := pb.TransportType_Min
	gen := uint32(957)
	ver := core.CurrentClientLibraryVersion()
	tr, fl := true, false
	covert := "192.0.2.99:443"
	c2s := &pb.ClientToStation{Transport: &tt, DecoyListGeneration: &gen, ClientLibVersion: &ver, V4Support: &tr, V6Support: &fl,
		CovertAddress: &covert, Flags: &pb.RegistrationFlags{Prescanned: &tr}}
	c2sw := &pb.C2SWrapper{SharedSecret: secret, RegistrationPayload: c2s, RegistrationSource: &src,
		RegistrationAddress: net.ParseIP("198.51.100.7").To4()}
	raw, err := proto.Marshal(c2sw)
	if err != nil {
		panic(err)
	}
	return raw
}

type vpipWorld struct {
	rm       *RegistrationManager
	arrivals int64 // workers that reached the first gate (took a message)
	released int64
	finished int64 // New announcements == messages fully processed (all messages are distinct and admissible)
	gate     chan struct{}
	block    atomic.Bool
}

func vpipNew(t testing.TB, workers int) *vpipWorld {
	os.Setenv("PHANTOM_SUBNET_LOCATION", vingSubnetFile(t))
	rm := NewRegistrationManager(&RegConfig{EnableIPv4: true, EnableIPv6: true, IngestWorkerCount: workers})
	if rm == nil {
		t.Fatal("no registration manager")
	}
	rm.Logger = log.New(io.Discard, "", 0)
	rm.LivenessTester = &vingLive{live: false}
	_ = rm.AddTransport(pb.TransportType_Min, min.Transport{})
	w := &vpipWorld{rm: rm, gate: make(chan struct{})}
	rm.registeredDecoys.registerForDetector = func(d *DecoyRegistration) { atomic.AddInt64(&w.finished, 1) }
	rm.registeredDecoys.updateInDetector = func(d *DecoyRegistration) {}
	w.block.Store(true)
	verifhook.SetYield(func(point string, id any) {
		if point != "ingest.exists" || !w.block.Load() {
			return
		}
		atomic.AddInt64(&w.arrivals, 1)
		<-w.gate
	})
	return w
}

func (w *vpipWorld) counters() (ing, drop int64, buf int) {
	return atomic.LoadInt64(&w.rm.totalIngestMessages), atomic.LoadInt64(&w.rm.totalDroppedMessages), len(w.rm.ingestChan)
}

// quiesce waits until the pipeline has nothing left to do by itself; false = it did not get there in time
func (w *vpipWorld) quiesce(offered int64, workers int) (map[string]any, bool) {
	deadline := time.Now().Add(5 * time.Second)
	stable := 0
	for time.Now().Before(deadline) {
		ing, drop, buf := w.counters()
		taken := atomic.LoadInt64(&w.arrivals)
		rel := atomic.LoadInt64(&w.released)
		fin := atomic.LoadInt64(&w.finished)
		busy := taken - rel
		idle := int64(workers) - busy
		if ing == offered && ing == taken+int64(buf)+drop && fin == rel && (buf == 0 || idle == 0) {
			stable++
			if stable >= 3 {
				return map[string]any{"ingested": ing, "dropped": drop, "buf": buf, "busy": busy}, true
			}
		} else {
			stable = 0
		}
		time.Sleep(150 * time.Microsecond)
	}
	ing, drop, buf := w.counters()
	return map[string]any{"ingested": ing, "dropped": drop, "buf": buf, "busy": atomic.LoadInt64(&w.arrivals) - atomic.LoadInt64(&w.released),
		"offered": offered, "finished": atomic.LoadInt64(&w.finished)}, false
}

// TestVerifPipelineTrace: seeded overload / release / shutdown scenarios on the real HandleRegUpdates, recorded for
// Trace_Pipeline.  Worker count 10 => buffer capacity 1 (Trace_Pipeline.cfg uses the same constants).
func TestVerifPipelineTrace(t *testing.T) {
	out := vOpenOut(t)
	defer out.Close()
	const workers = 10
	ntr := vEnvInt("VERIF_TRACES", 6)
	seed := vSeed()
	msgID := 0
	for tr := 0; tr < ntr; tr++ {
		w := vpipNew(t, workers)
		ctx, cancel := context.WithCancel(context.Background())
		regChan := make(chan interface{}, 10000)
		wg := new(sync.WaitGroup)
		wg.Add(1)
		returned := make(chan struct{})
		go func() { w.rm.HandleRegUpdates(ctx, regChan, wg) }()
		go func() { wg.Wait(); close(returned) }()
		for w.rm.ingestChan == nil {
			time.Sleep(100 * time.Microsecond)
		}
		out.Emit(map[string]any{"a": "Reset"})
		offered := int64(0)
		ok := true
		step := func(ev string) {
			if !ok {
				return
			}
			out.Emit(map[string]any{"a": ev})
			st, q := w.quiesce(offered, workers)
			if !q {
				ok = false
				out.Emit(map[string]any{"kind": "prop", "prop": "NeverBlocksReceiver", "detail": st, "after": ev, "trace": tr})
				return
			}
			out.Emit(map[string]any{"a": "Quiesce", "st": st})
		}
		// phase 1: offers and releases in a seeded pattern; enough offers to overflow workers + buffer
		rng := newVRand(seed*1000 + int64(tr))
		nsteps := 25 + rng.Intn(20)
		for i := 0; i < nsteps && ok; i++ {
			busy := atomic.LoadInt64(&w.arrivals) - atomic.LoadInt64(&w.released)
			if busy > 0 && rng.Intn(100) < 25 {
				atomic.AddInt64(&w.released, 1)
				w.gate <- struct{}{}
				step("Finish")
			} else {
				msgID++
				regChan <- vpipMsg(msgID, pb.RegistrationSource_API)
				offered++
				step("Offer")
			}
		}
		// phase 2: stop request with an IDLE input; parked workers are released so they can finish
		if ok {
			cancel()
			out.Emit(map[string]any{"a": "Cancel"})
			for atomic.LoadInt64(&w.arrivals)-atomic.LoadInt64(&w.released) > 0 {
				atomic.AddInt64(&w.released, 1)
				w.gate <- struct{}{}
				out.Emit(map[string]any{"a": "Finish"})
			}
			w.block.Store(false)
			select {
			case <-returned:
				out.Emit(map[string]any{"a": "Returned"})
			case <-time.After(3 * time.Second):
				out.Emit(map[string]any{"kind": "prop", "prop": "ShutdownBounded", "variant": "idle-input", "trace": tr,
					"detail": "HandleRegUpdates had not returned 3 s after the stop request while the input channel was idle"})
				// let it go so the goroutines do not pile up
				regChan <- vpipMsg(0, pb.RegistrationSource_API)
				select {
				case <-returned:
				case <-time.After(2 * time.Second):
					close(regChan)
					<-returned
				}
			}
		} else {
			cancel()
			w.block.Store(false)
			close(w.gate)
			close(regChan)
			select {
			case <-returned:
			case <-time.After(3 * time.Second):
			}
		}
		verifhook.SetYield(nil)
	}
}

// TestVerifPipelineBusyShutdown: stop request while registrations keep arriving; the call must return in bounded time
// and every message taken from the input must be accounted for (handed to a worker or dropped and counted).
func TestVerifPipelineBusyShutdown(t *testing.T) {
	out := vOpenOut(t)
	defer out.Close()
	for round := 0; round < vEnvInt("VERIF_ROUNDS", 5); round++ {
		w := vpipNew(t, 10)
		w.block.Store(false)
		ctx, cancel := context.WithCancel(context.Background())
		regChan := make(chan interface{}, 10000)
		wg := new(sync.WaitGroup)
		wg.Add(1)
		returned := make(chan struct{})
		go func() { w.rm.HandleRegUpdates(ctx, regChan, wg) }()
		go func() { wg.Wait(); close(returned) }()
		stop := make(chan struct{})
		var sent int64
		var pwg sync.WaitGroup
		pwg.Add(1)
		go func() {
			defer pwg.Done()
			i := 0
			for {
				select {
				case <-stop:
					return
				default:
				}
				i++
				select {
				case regChan <- vpipMsg(100000+round*100000+i%500, pb.RegistrationSource_API):
					atomic.AddInt64(&sent, 1)
				default:
					time.Sleep(50 * time.Microsecond)
				}
			}
		}()
		time.Sleep(time.Duration(20+10*round) * time.Millisecond)
		cancel()
		t0 := time.Now()
		select {
		case <-returned:
			out.Emit(map[string]any{"kind": "busy", "round": round, "returned_ms": time.Since(t0).Milliseconds(), "sent": atomic.LoadInt64(&sent)})
		case <-time.After(5 * time.Second):
			out.Emit(map[string]any{"kind": "prop", "prop": "ShutdownBounded", "variant": "busy-input", "round": round,
				"detail": "HandleRegUpdates had not returned 5 s after the stop request while registrations kept arriving"})
		}
		close(stop)
		pwg.Wait()
		verifhook.SetYield(nil)
	}
}

type vRand struct{ s uint64 }

func newVRand(seed int64) *vRand { return &vRand{uint64(seed)*2862933555777941757 + 3037000493} }
func (r *vRand) Intn(n int) int {
	r.s ^= r.s << 13
	r.s ^= r.s >> 7
	r.s ^= r.s << 17
	return int(r.s % uint64(n))
}

// ---- race-detector stress: workers + duplicates + sweeper + connection handler (+ configuration reload)
func vraceRun(t *testing.T, withReload bool, churn bool) {
	os.Setenv("PHANTOM_SUBNET_LOCATION", vingSubnetFile(t))
	rm := NewRegistrationManager(&RegConfig{EnableIPv4: true, EnableIPv6: true, IngestWorkerCount: 20})
	rm.Logger = log.New(io.Discard, "", 0)
	rm.LivenessTester = &vingLive{live: false}
	_ = rm.AddTransport(pb.TransportType_Min, min.Transport{})
	rm.registeredDecoys.registerForDetector = func(d *DecoyRegistration) {}
	rm.registeredDecoys.updateInDetector = func(d *DecoyRegistration) {}
	// Lifetimes are shortened so the sweeper has work, but stay far above the time one ingest takes: the
	// specification assumes a registration does not expire while its own ingest is still in progress
	// (production: 10 min vs. seconds).  See DESIGN.md section 8.
	rm.registeredDecoys.timeoutUnused = 400 * time.Millisecond
	rm.registeredDecoys.timeoutActive = 800 * time.Millisecond
	verifhook.SetYield(nil)
	ctx, cancel := context.WithCancel(context.Background())
	regChan := make(chan interface{}, 10000)
	wg := new(sync.WaitGroup)
	wg.Add(1)
	go rm.HandleRegUpdates(ctx, regChan, wg)
	dur := time.Duration(vEnvInt("VERIF_RACE_MS", 2500)) * time.Millisecond
	stop := time.Now().Add(dur)
	var aux sync.WaitGroup
	aux.Add(3)
	go func() { // producer: few secrets => many duplicates; churn: mostly fresh secrets => validations and expiries at a high rate
		defer aux.Done()
		r := newVRand(vSeed())
		fresh := 12
		for time.Now().Before(stop) {
			src := pb.RegistrationSource_API
			if r.Intn(2) == 0 {
				src = pb.RegistrationSource_Detector
			}
			id := r.Intn(12)
			if churn && r.Intn(4) != 0 {
				fresh++
				id = fresh
			}
			select {
			case regChan <- vpipMsg(id, src):
			default:
			}
			if r.Intn(8) == 0 {
				time.Sleep(100 * time.Microsecond)
			}
		}
	}()
	go func() { // sweeper
		defer aux.Done()
		for time.Now().Before(stop) {
			rm.RemoveOldRegistrations()
			time.Sleep(500 * time.Microsecond)
		}
	}()
	go func() { // connection handler: count, lookup, mark active, read what a proxy would read
		defer aux.Done()
		probe := make([]*DecoyRegistration, 0)
		for i := 0; i < 12; i++ {
			regs, err := rm.parseRegMessage(vpipMsg(i, pb.RegistrationSource_API))
			if err == nil && len(regs) > 0 {
				probe = append(probe, regs[0])
			}
		}
		for time.Now().Before(stop) {
			for _, p := range probe {
				if rm.CountRegistrations(p.PhantomIp) == 0 {
					continue
				}
				for _, r := range vMapAs[*DecoyRegistration](rm.registeredDecoys.getRegistrations(p.PhantomIp)) {
					_ = r.Covert + r.String()
					rm.MarkActive(r)
				}
			}
		}
	}()
	if withReload {
		aux.Add(1)
		go func() {
			defer aux.Done()
			for time.Now().Before(stop) {
				c := &RegConfig{EnableIPv4: true, EnableIPv6: true, CovertBlocklistSubnets: []string{"10.0.0.0/8"}, PhantomBlocklist: []string{"203.0.113.0/24"}}
				c.ParseBlocklists()
				rm.OnReload(c)
				time.Sleep(2 * time.Millisecond)
			}
		}()
	}
	aux.Wait()
	cancel()
	regChan <- vpipMsg(0, pb.RegistrationSource_API) // unblocks a distributor that only observes cancellation on receive
	done := make(chan struct{})
	go func() { wg.Wait(); close(done) }()
	select {
	case <-done:
	case <-time.After(5 * time.Second):
		close(regChan)
		<-done
	}
}

func TestVerifIngestRaceNoReload(t *testing.T) { vraceRun(t, false, false) }
func TestVerifIngestRaceReload(t *testing.T)   { vraceRun(t, true, false) }

// churn: a stream of fresh registrations, so that validations (statistics updates after the registry lock was released) and
// the sweep's removal of VALID registrations (statistics updates under the registry lock) run against each other all the time
func TestVerifIngestRaceChurn(t *testing.T) { vraceRun(t, false, true) }

// ---- connection vs sweep under real concurrency (no gates): a linearizability oracle at quiescence.
// Every registration is valid, unused and 11 minutes old when one sweep and several connection handlers start together.
// Whatever the interleaving INSIDE the locked methods, each registration must end in one of the two serial outcomes:
//
//	handler first : marked used (Update announced)  => younger than 6 h and used => the sweep must keep it
//	sweep first   : removed                          => the handler finds nothing, no Update is announced
//
// "Update announced and removed" (a used registration younger than 6 h dropped) or "kept although never used" are violations.
func TestVerifSweepMarkStress(t *testing.T) {
	out := vOpenOut(t)
	defer out.Close()
	rounds := vEnvInt("VERIF_ROUNDS", 30)
	nregs := vEnvInt("VERIF_REGS", 400)
	verifhook.SetYield(nil)
	logger := log.New(io.Discard, "", 0)
	Stat() // the statistics singleton must exist before the sweep uses it
	removedUsed, keptUnused, usedKept, removedTotal := 0, 0, 0, 0
	for round := 0; round < rounds; round++ {
		rd := NewRegisteredDecoys()
		rd.transports[pb.TransportType_Min] = min.Transport{}
		var updMu sync.Mutex
		upd := map[*DecoyRegistration]int{}
		rd.registerForDetector = func(d *DecoyRegistration) {}
		rd.updateInDetector = func(d *DecoyRegistration) { updMu.Lock(); upd[d]++; updMu.Unlock() }
		regs := make([]*DecoyRegistration, nregs)
		src := pb.RegistrationSource_API
		for i := range regs {
			secret := vSecret(fmt.Sprintf("sweepmark-%d-%d", round, i))
			keys, _ := core.GenSharedKeys(uint(core.CurrentClientLibraryVersion()), secret, pb.TransportType_Min)
			d := &DecoyRegistration{PhantomIp: net.ParseIP(fmt.Sprintf("192.0.2.%d", 1+i%200)), PhantomPort: 443, Keys: &keys,
				Transport: pb.TransportType_Min, RegistrationSource: &src, registrationAddr: net.ParseIP("198.51.100.7")}
			if err := rd.register(d.PhantomIp.String(), d); err != nil {
				t.Fatal(err)
			}
			regs[i] = d
		}
		for _, to := range rd.decoysTimeouts {
			to.registrationTime = time.Now().Add(-11 * time.Minute)
		}
		start := make(chan struct{})
		var wg sync.WaitGroup
		wg.Add(1)
		go func() { defer wg.Done(); <-start; rd.removeOldRegistrations(logger) }()
		for h := 0; h < 6; h++ {
			wg.Add(1)
			go func(h int) {
				defer wg.Done()
				r := newVRand(vSeed()*7919 + int64(round*100+h))
				<-start
				// walk the registrations in the order a sweep is likely to visit them is unknowable (map order): visit all, twice
				for pass := 0; pass < 2; pass++ {
					off := r.Intn(nregs)
					for i := 0; i < nregs; i++ {
						d := regs[(i+off)%nregs]
						id := min.Transport{}.GetIdentifier(d)
						if found, ok := vMapAs[*DecoyRegistration](rd.getRegistrations(d.PhantomIp))[id]; ok {
							rd.markActive(found)
						}
					}
				}
			}(h)
		}
		close(start)
		wg.Wait()
		for i, d := range regs {
			updMu.Lock()
			used := upd[d] > 0
			updMu.Unlock()
			present := rd.registrationExists(d) != nil
			switch {
			case used && !present:
				removedUsed++
				if removedUsed <= 5 {
					out.Emit(map[string]any{"kind": "prop", "prop": "NeverRemovedEarly", "round": round, "reg": i,
						"detail": "a connection marked the registration used (Update announced, 6 h lifetime) while the sweep was removing it; the sweep removed it anyway although it is younger than 6 h"})
				}
			case used && present:
				usedKept++
			case !used && !present:
				removedTotal++
			}
		}
		// what was neither used nor removed (a handler lost the race after the sweep collected) must go with the next sweep
		rd.removeOldRegistrations(logger)
		for i, d := range regs {
			updMu.Lock()
			used := upd[d] > 0
			updMu.Unlock()
			if !used && rd.registrationExists(d) != nil {
				keptUnused++
				if keptUnused <= 5 {
					out.Emit(map[string]any{"kind": "prop", "prop": "PostSweepExact", "round": round, "reg": i,
						"detail": "an unused registration older than 10 min is still tracked after a completed sweep"})
				}
			}
		}
	}
	out.Emit(map[string]any{"kind": "summary", "rounds": rounds, "regs": nregs, "used_kept": usedKept, "removed": removedTotal,
		"removed_although_used": removedUsed, "kept_although_unused": keptUnused})
}

// ---- duplicate burst without gates: K workers ingest the same detector registration at the same instant.  Whatever happens
// inside the locked methods, the outcome must be the serial one: one worker treats it as new (one liveness probe, one share with
// the peer stations, one New announcement), the others as duplicates; every delivery is counted.
func TestVerifDuplicateBurst(t *testing.T) {
	out := vOpenOut(t)
	defer out.Close()
	rounds := vEnvInt("VERIF_ROUNDS", 200)
	const K = 8
	verifhook.SetYield(nil)
	bad := map[string]int{}
	for round := 0; round < rounds; round++ {
		w := vingNewWorld(t, false)
		verifhook.SetYield(nil)
		key := fmt.Sprintf("burst-%d", round)
		regs := make([]*DecoyRegistration, K)
		for i := range regs {
			regs[i] = w.mkReg(key, "detector", false)
		}
		start := make(chan struct{})
		var wg sync.WaitGroup
		for i := range regs {
			wg.Add(1)
			go func(r *DecoyRegistration) { defer wg.Done(); <-start; w.rm.ingestRegistration(r) }(regs[i])
		}
		close(start)
		wg.Wait()
		// the share request is asynchronous: wait for the first, then give a second one time to show up
		deadline := time.Now().Add(2 * time.Second)
		for time.Now().Before(deadline) {
			w.mu.Lock()
			n := w.shares[key]
			w.mu.Unlock()
			if n >= 1 {
				break
			}
			time.Sleep(100 * time.Microsecond)
		}
		time.Sleep(3 * time.Millisecond)
		st := w.project([]string{key}, nil)
		reg := st["reg"].(map[string]any)[key].(map[string]any)
		probes := int(atomic.LoadInt32(&w.live.calls))
		obs := map[string]any{"probes": probes, "shares": st["shares"].(map[string]any)[key], "announced": st["ann"].(map[string]any)[key],
			"count": reg["count"], "valid": reg["valid"]}
		want := map[string]any{"probes": 1, "shares": 1, "announced": 1, "count": K, "valid": true}
		for k, v := range want {
			if fmt.Sprint(obs[k]) != fmt.Sprint(v) {
				bad[k]++
				if bad[k] <= 3 {
					out.Emit(map[string]any{"kind": "prop", "prop": "SerialOutcome:" + k, "round": round, "observed": obs, "serial": want,
						"detail": fmt.Sprintf("%d workers ingesting one registration at once: %s = %v, every serial order gives %v", K, k, obs[k], v)})
				}
			}
		}
		w.close()
	}
	out.Emit(map[string]any{"kind": "summary", "rounds": rounds, "workers": K, "bad": bad})
}

// ---- a peer station that accepts the share request and never answers (Ingest.tla: PeerAnswers carries no fairness).
// Registrations learned from the detector are passed on to the peer stations by a request of its own goroutine: whatever the peer
// does, the registration must become usable at once, further registrations must keep being processed, and a stop request must wind
// the pipeline down in bounded time.
func TestVerifStalledPeer(t *testing.T) {
	out := vOpenOut(t)
	defer out.Close()
	release := make(chan struct{})
	var reached int64
	peer := httptest.NewServer(http.HandlerFunc(func(rw http.ResponseWriter, r *http.Request) {
		_, _ = io.Copy(io.Discard, r.Body)
		atomic.AddInt64(&reached, 1)
		<-release // never answers while the test runs
	}))
	defer func() { close(release); peer.CloseClientConnections(); peer.Close() }()
	w := vpipNew(t, 10)
	w.block.Store(false)
	w.rm.EnableShareOverAPI = true
	w.rm.PreshareEndpoint = peer.URL
	ctx, cancel := context.WithCancel(context.Background())
	regChan := make(chan interface{}, 100)
	wg := new(sync.WaitGroup)
	wg.Add(1)
	returned := make(chan struct{})
	go func() { w.rm.HandleRegUpdates(ctx, regChan, wg) }()
	go func() { wg.Wait(); close(returned) }()
	time.Sleep(20 * time.Millisecond) // workers up (a message offered before that may be dropped as overload)
	const n = 14                      // more detector registrations than there are workers
	for i := 0; i < n; i++ {
		regChan <- vpipMsg(700000+i, pb.RegistrationSource_Detector)
		time.Sleep(2 * time.Millisecond)
	}
	deadline := time.Now().Add(3 * time.Second)
	for atomic.LoadInt64(&w.finished) < n && time.Now().Before(deadline) {
		time.Sleep(time.Millisecond)
	}
	fin := atomic.LoadInt64(&w.finished)
	_, dropped, _ := w.counters()
	if fin+dropped < n {
		out.Emit(map[string]any{"kind": "prop", "prop": "StalledPeerDoesNotHoldRegistrations", "detail": fmt.Sprintf(
			"%d detector registrations offered while the peer station does not answer its share requests: %d announced, %d dropped as overload, "+
				"%d neither after 3 s (share requests that reached the peer: %d)", n, fin, dropped, int64(n)-fin-dropped, atomic.LoadInt64(&reached))})
	}
	cancel()
	t0 := time.Now()
	select {
	case <-returned:
		out.Emit(map[string]any{"kind": "stalledpeer", "announced": fin, "dropped": dropped, "shares_reached_peer": atomic.LoadInt64(&reached), "returned_ms": time.Since(t0).Milliseconds()})
	case <-time.After(5 * time.Second):
		out.Emit(map[string]any{"kind": "prop", "prop": "ShutdownBounded", "variant": "stalled-peer",
			"detail": "HandleRegUpdates had not returned 5 s after the stop request while a peer station left share requests unanswered"})
	}
	verifhook.SetYield(nil)
	out.Emit(map[string]any{"kind": "summary"})
}
