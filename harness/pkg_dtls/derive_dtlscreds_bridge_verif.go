//go:build verif

package dtls

// Bridge for the C01 driver (exists only in the go-test overlay): the DTLS credentials both ends derive from the
// pre-shared key (dial.go / listener.go / server.go all call these two functions with config.PSK).

import (
	"crypto/ecdsa"
	"crypto/elliptic"
	"fmt"
)

// VerifCreds returns the ClientHello random and the public keys of the client and server certificates.
func VerifCreds(psk []byte) (hello []byte, clientPub []byte, serverPub []byte, err error) {
	r, err := clientHelloRandomFromSeed(psk)
	if err != nil {
		return nil, nil, nil, err
	}
	cc, sc, err := certsFromSeed(psk)
	if err != nil {
		return nil, nil, nil, err
	}
	ck, ok1 := cc.PrivateKey.(*ecdsa.PrivateKey)
	sk, ok2 := sc.PrivateKey.(*ecdsa.PrivateKey)
	if !ok1 || !ok2 {
		return nil, nil, nil, fmt.Errorf("unexpected key type")
	}
	return r[:], elliptic.Marshal(ck.Curve, ck.X, ck.Y), elliptic.Marshal(sk.Curve, sk.X, sk.Y), nil
}
