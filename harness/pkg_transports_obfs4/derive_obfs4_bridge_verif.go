//go:build verif

package obfs4

// Bridge for the C01 driver (exists only in the go-test overlay): lets a driver in another package observe
// the keys the real client transport derived in PrepareKeys.

// VerifClientKeys returns (public key, node id, private key) held by the client transport.
func VerifClientKeys(t *ClientTransport) (pub, nodeID, priv []byte) {
	if t.keys.PublicKey == nil || t.keys.NodeID == nil || t.keys.PrivateKey == nil {
		return nil, nil, nil
	}
	return append([]byte(nil), t.keys.PublicKey[:]...), append([]byte(nil), t.keys.NodeID[:]...), append([]byte(nil), t.keys.PrivateKey[:]...)
}

// VerifStationKeys unpacks the station's transport keys object.
func VerifStationKeys(k interface{}) (pub, nodeID, priv []byte, ok bool) {
	keys, ok := k.(Obfs4Keys)
	if !ok || keys.PublicKey == nil {
		return nil, nil, nil, false
	}
	return append([]byte(nil), keys.PublicKey[:]...), append([]byte(nil), keys.NodeID[:]...), append([]byte(nil), keys.PrivateKey[:]...), true
}
