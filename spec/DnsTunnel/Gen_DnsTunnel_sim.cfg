SPECIFICATION GenSpec
CONSTANTS
  Clients = {"c1", "c2"}
  MaxReq = 3
  JunkKinds = {"garbage", "foreign", "nontxt", "badb32", "noedns", "isresp", "badframe", "badnoise", "cberr"}
  MaxJunk = 3
  MaxDup = 3
  MaxDrop = 2
  MaxClose = 1
  Faults = {"DropQ", "DupQ", "ReplayQ", "DropR", "DupR"}
  StaleMode = "fail"
  KeyCheck = TRUE
  Timeout = FALSE
  Depth = 40
INVARIANT Emit
CHECK_DEADLOCK FALSE
