//go:build verif

package phantoms

// History independence (property C14, purity clause "the result depends on those inputs alone: repeating a selection ...
// never changes any result"): a long-lived selector / subnet list serves a seeded sequence of mixed selections (station
// Select for every library version and family, client weighted and unweighted selection); every result must equal the result
// of the same call on a FRESH selector built from the same configuration, and the configuration object must be unchanged
// afterwards.  Configurations include non-ascending weights, weighted sets without subnets, duplicates.

import (
	"encoding/hex"
	"fmt"
	mrand "math/rand"
	"testing"

	pb "github.com/refraction-networking/conjure/proto"
	"google.golang.org/protobuf/proto"
)

type vphConf struct {
	weights []uint32
	rps     []bool
	cidrs   [][]string
}

func vphConfigs(r *mrand.Rand, n int) []vphConf {
	pool4 := []string{"192.0.2.0/24", "198.51.100.0/25", "203.0.113.64/26", "10.9.0.0/16", "172.20.0.0/30", "192.122.190.0/24", "141.219.0.0/16", "35.8.0.0/16", "100.64.1.1/32"}
	pool6 := []string{"2001:db8:1::/64", "2001:db8:2::/96", "2001:48a8:687f:1::/64", "fd00:1::/48", "2001:db8:3::7/128"}
	out := []vphConf{
		{[]uint32{9, 1}, []bool{true, false}, [][]string{{"192.122.190.0/24", "2001:48a8:687f:1::/64"}, {"141.219.0.0/16", "35.8.0.0/16"}}},                  // shipped shape, descending
		{[]uint32{5, 3, 7}, []bool{false, true, false}, [][]string{{}, {"192.0.2.0/24", "2001:db8:1::/64"}, {"198.51.100.0/25", "2001:db8:2::/96"}}},        // first set empty
		{[]uint32{4, 4, 2, 9}, []bool{true, true, false, false}, [][]string{{"10.9.0.0/16"}, {"2001:db8:1::/64"}, {}, {"192.0.2.0/24", "fd00:1::/48"}}},     // ties, empty in the middle
		{[]uint32{1, 2, 3}, []bool{true, false, true}, [][]string{{"192.0.2.0/24"}, {"192.0.2.0/24", "2001:db8:1::/64"}, {"2001:db8:1::/64"}}},             // ascending, overlapping / duplicate
	}
	for len(out) < n {
		k := 1 + r.Intn(5)
		c := vphConf{}
		for i := 0; i < k; i++ {
			c.weights = append(c.weights, uint32(r.Intn(10)))
			c.rps = append(c.rps, r.Intn(2) == 0)
			var cs []string
			m := r.Intn(4) // 0 => a weighted set without subnets
			for j := 0; j < m; j++ {
				if r.Intn(2) == 0 {
					cs = append(cs, pool4[r.Intn(len(pool4))])
				} else {
					cs = append(cs, pool6[r.Intn(len(pool6))])
				}
			}
			c.cidrs = append(c.cidrs, cs)
		}
		out = append(out, c)
	}
	return out
}

func vphSnapshot(list *pb.PhantomSubnetsList) string {
	b, _ := proto.MarshalOptions{Deterministic: true}.Marshal(list)
	return hex.EncodeToString(b)
}

func TestVerifPhantomHistory(t *testing.T) {
	out := vOpenOut(t)
	defer out.Close()
	rng := mrand.New(mrand.NewSource(vSeed()))
	nconf, nops := vEnvInt("VERIF_CONFIGS", 40), vEnvInt("VERIF_OPS", 60)
	calls, depends, rewritten := 0, 0, 0
	for ci, c := range vphConfigs(rng, nconf) {
		name := fmt.Sprintf("hist-%d", ci)
		long := vpBuild(name, c.weights, c.rps, c.cidrs)
		before := vphSnapshot(long.list)
		type op struct {
			kind string
			seed []byte
			lv   int
			fam  int
		}
		run := func(w *vpWorld, o op) vpGot {
			switch o.kind {
			case "station":
				return w.station(o.seed, 1, o.lv, o.fam)
			case "client":
				return w.client(o.seed, o.fam)
			default:
				f := SubnetFilter(V4Only)
				if o.fam == 6 {
					f = V6Only
				}
				return vpWrap(func() (*PhantomIP, error) { return SelectPhantomUnweighted(o.seed, w.list, f) })
			}
		}
		var ops []op
		for i := 0; i < nops; i++ {
			ops = append(ops, op{[]string{"station", "station", "client", "unweighted"}[rng.Intn(4)], vpRandSeed(rng), rng.Intn(5), []int{4, 6}[rng.Intn(2)]})
		}
		// each seed is also used a second time later in the sequence (repeating a selection)
		for i := 0; i < nops/3; i++ {
			ops = append(ops, ops[rng.Intn(nops)])
		}
		for i, o := range ops {
			got := run(long, o)
			fresh := run(vpBuild(name, c.weights, c.rps, c.cidrs), o)
			calls += 2
			if !got.same(fresh) {
				depends++
				if depends <= 20 {
					out.Emit(map[string]any{"kind": "histviol", "what": "result-depends-on-earlier-selections", "op": o.kind, "lv": o.lv, "fam": o.fam,
						"position": i, "seed": hex.EncodeToString(o.seed), "long_lived": got, "fresh": fresh,
						"config": map[string]any{"weights": c.weights, "cidrs": c.cidrs}})
				}
			}
		}
		if after := vphSnapshot(long.list); after != before {
			rewritten++
			if rewritten <= 10 {
				out.Emit(map[string]any{"kind": "histviol", "what": "configuration-rewritten-by-selection", "config": map[string]any{"weights": c.weights, "cidrs": c.cidrs}})
			}
		}
	}
	out.Emit(map[string]any{"kind": "summary", "stage": "history", "configs": nconf, "calls": calls, "depends": depends, "rewritten": rewritten})
}
