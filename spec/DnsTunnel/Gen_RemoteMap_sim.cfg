SPECIFICATION GenSpec
CONSTANTS
  Addrs = {"a1", "a2", "a3", "a4", "a5", "a6", "a7", "a8", "a9"}
  T = 3
  MaxTime = 1000
  TickSteps = {1, 2}
  MaxClk = 1000
  FixOnRefresh = TRUE
  Depth = 60
INVARIANT Emit
CHECK_DEADLOCK FALSE
