# Claims table (exec'd by bin/mkmanifest).  One entry per property that has a working check.
CLAIMS["C08"] = dict(
    category="model_checking",
    technique="TLA+ spec Registry.tla: TLC exhaustive + replay of all bounded paths into real RegisteredDecoys + trace validation of random real histories",
    text="Registry.tla models decoys/decoysTimeouts with one action per locked method; TLC checks PostSweepExact, "
         "OneRecordPerRegistration, NeverRemovedEarly, OnlyIngestAdds (MarkActive through the stale handle of a swept registration "
         "changes nothing) exhaustively (2 secrets x 2 phantoms x 2 transports, <=2..3 tracked). "
         "Every path of depth 4 (quick) / 5 (thorough) plus thousands of simulated depth-16 behaviours are replayed on the "
         "real object with real transports and default lifetimes (state compared after every step), and random real "
         "histories over 8 secrets x 3 phantoms x 3 transports are validated against the spec with all invariants on.",
    note="Time is advanced by back-dating stored registration times to age classes around the 10 min / 6 h limits (+-2 s); "
         "sweeps run to completion (interleavings are C09); TLC bounds as stated in the cfg files.",
)
CLAIMS["C09"] = dict(
    category="model_checking",
    technique="TLA+ specs Ingest.tla + Pipeline.tla: TLC exhaustive (serialisability, liveness) + replay of every enumerated interleaving into the real code through verifhook.Yield gates + trace validation of HandleRegUpdates + race-detector conformance of the atomicity assumption",
    text="Ingest.tla models workers, sweeper and connection handler with one action per lock-protected section; TLC checks that "
         "every terminal outcome equals some serial order's outcome (SerialOutcomes computed in TLA+), VisibleOnlyAfterValidate, "
         "AnnounceOnce, ShareOnce, NoCrash and termination for 8 (quick) / 10 (thorough) scenarios. Every maximal interleaving "
         "(2 245 quick) is replayed on the real ingestRegistration/removeOldRegistrations/lookup+MarkActive with a deterministic "
         "scheduler at the Yield gates, state compared after every step and real final outcomes checked against the serial set. "
         "Pipeline.tla (distributor, buffer, workers, cancel) is checked for DropsCounted/NeverBlocksReceiver/ShutdownBounded and "
         "bound by validating overload+shutdown event logs of the real HandleRegUpdates. A -race stress checks the spec's "
         "atomicity assumption.",
    note="Interleavings are enumerated at lock-release points only (the race detector run is what justifies treating locked "
         "sections as atomic); a registration is assumed not to expire while its own ingest is in progress; one sweeper. "
         "Known finding H-C09-2 (unsynchronised OnReload publication) is listed in known_findings.json.",
)
_CLASSIFY_NOTE = ("Connections are driven through connManager.handleNewTCPConn (handleNewConn needs SO_ORIGINAL_DST and cannot run offline) "
                  "with a scripted in-memory connection; the oracle (should this flight match, which registration) is computed from the case "
                  "definition, never from the code; cryptographic strength of the tags is assumed; wall-clock bounds carry 1 s slack.")
CLAIMS["C02"] = dict(
    category="model_checking",
    technique="TLA+ specs Classify.tla + Registry.tla: TLC exhaustive (MatchSound, lookup scoping) + trace validation of real handleNewTCPConn runs over genuine / replayed / altered first flights against real registries",
    text="Classify.tla states when a transport may answer 'match' (flight genuine, unaltered, registration with the same secret, transport "
         "and prefix currently valid on the destination phantom) and TLC checks MatchSound/ConsumeExact exhaustively on scaled thresholds; "
         "Registry.tla gives which registrations a lookup may return. Real flights from the real client transports are offered to the real "
         "handler unaltered, replayed to other phantoms, for other transports/prefixes, against unvalidated/expired registrations, with single "
         "bits flipped (all tag bits in thorough) or truncated; every event log (each transport's verdict per round, writes, close, which "
         "registration was returned, what reached the covert) is validated against the spec.",
    note=_CLASSIFY_NOTE,
)
CLAIMS["C03"] = dict(
    category="model_checking",
    technique="TLA+ spec Classify.tla: TLC exhaustive (NoBytes, NoEarlyClose, KeepsReading) + trace validation of real handleNewTCPConn probe runs with a deadline-honouring scripted connection",
    text="TLC checks on all segmentations/pacings/peer-close positions of all stream kinds that nothing is written, nothing returns before the "
         "deadline unless the peer closed, and no phase stops reading. ~420 (quick) / ~2500 (thorough) real probes (random, look-alikes, every "
         "static prefix + garbage, threshold lengths, flipped/truncated genuine flights; phantoms with no/one/many registrations) are run in "
         "parallel against the real handler; each recorded call sequence must be a behaviour of the spec (first deadline 5-10 s ahead, every "
         "verdict equal to the spec's, no Write, no Close/return before the observed deadline, everything sent was read); deadlines must spread "
         "over the window.",
    note=_CLASSIFY_NOTE,
)
CLAIMS["C04"] = dict(
    category="model_checking",
    technique="TLA+ spec Classify.tla: TLC exhaustive over all segmentations (FoundWhenComplete, ConsumeExact, Recognised) + trace validation of real end-to-end runs under every 1-cut / 2-cut segmentation",
    text="TLC checks that accumulate-and-retry finds a complete valid flight under every segmentation and consumes exactly the handshake. "
         "Real runs: genuine flights of the real min / prefix (every id x flush policy) / obfs4 (live, behind a segmenting shim) clients plus "
         "early and late data are delivered under every 1-cut (quick) and every 2-cut (thorough) segmentation and random k-cuts with pauses "
         "into the real handler with other registrations on the phantom; the bytes at the loopback covert and the echo at the client must "
         "equal what was sent, the registration must be marked used, and every event log must be a behaviour of the spec.",
    note=_CLASSIFY_NOTE,
)
CLAIMS["C07"] = dict(
    category="model_checking",
    technique="TLA+ spec Admission.tla: TLC over the full 5 013 504-row admission table (incl. registrar address overrides) (declarative statement vs staged transcription, necessity of every condition) + execution of TLC-emitted rows on the real parseRegMessage/ingestRegistration",
    text="The admission rule is written twice in Admission.tla (the property's statement and a staged transcription of the code) and TLC checks "
         "on every row that they agree, that probes are sent only when required, sharing happens at most once / only after the probe / marked "
         "pre-scanned, and that every condition is necessary. Every admitted row plus all single-condition neighbours (39 200) and 20 000 "
         "(quick) / 400 000 (thorough) seeded random rows are executed on the real ingest with real C2SWrapper bytes; visible / tracked / "
         "announced / probes / shares must equal the specification's outcome.",
    note="Library version = current, transport min; registrar overrides / prefix parameters are C12 / C02. 'Complete' read as in DESIGN section 8. "
         "Liveness tester, detector announcements and the peer-station endpoint are in-process stand-ins.",
)
CLAIMS["C05"] = dict(
    category="model_checking",
    technique="TLA+ spec Relay.tla: TLC exhaustive (10 invariants + liveness under fairness) + replay of every one-/two-fault behaviour into the real halfPipe/Proxy with scripted connections + trace validation of seeded fault scripts",
    text="Relay.tla models the two half-pipe processes call by call (SetDeadline, Read, Write, Close) with environment-chosen outcomes; TLC checks "
         "PrefixFidelity, NothingReadIsLost (incl. data returned with an error), CountsMatch, BothClosed, gauge balance and termination. Every "
         "complete behaviour with <=1 fault (4 185, quick) / <=2 faults (77 337, thorough) is replayed on the real halfPipe pair wired as Proxy "
         "wires them and on the real Proxy with a loopback covert (goroutine leak, session gauge, byte counts), and seeded random fault scripts "
         "recorded from the real code are validated by Trace_Relay.",
    note="Scripted connections return the scripted outcome for the k-th call; the covert side of real-Proxy runs is a loopback socket whose calls are "
         "silent steps; real 30 s / 2 min deadlines are checked as SetDeadline arguments, not awaited.",
)
CLAIMS["C17"] = dict(
    category="model_checking",
    technique="TLA+ spec LogTaint.tla: TLC enumeration of site x error kind x wrapping x outcome x family taint flows (NoTaintAtSink) + replay of every case on the real handleNewTCPConn / Proxy / halfPipe / ingest with log capture",
    text="LogTaint.tla models every I/O call site of classification and relay, the error shapes the network stack produces and the sanitiser as a "
         "function on kinds; TLC checks NoTaintAtSink (the as-implemented sanitiser instance violates it and predicts exactly the leaking paths). "
         "All 4 734 cases are replayed on the real code with a scripted connection whose RemoteAddr is a distinctive IPv4 / IPv6 / v4-mapped "
         "address and which fails the k-th call with a realistically built *net.OpError; stdout, the log package and every Logger are captured and "
         "searched for every textual form of the address; with LOG_CLIENT_IP on the address must appear (non-vacuity).",
    note="Default log level only (Warn/Debug/Trace output is outside the property); handleNewConn (needs a real TCPConn), SetLinger and PROXY-header "
         "errors are not driven. Known finding: the ingest covert-drop log line names the registrant (known_findings.json).",
)
CLAIMS["C14"] = dict(
    category="model_checking",
    technique="TLA+ spec Phantom.tla: TLC exhaustive (Contained, WellFormed, RandPortFromSubnet, Pure over interleavings of 2-3 selectors) + replay of every enumerated (configuration, id) case into the real selectors + trace validation of concurrent selections",
    text="Phantom.tla transcribes the three selection algorithms (v0, v1 varint, v2+ HKDF) and the weighted choice as integer arithmetic over small "
         "configurations (every CIDR size 1..8, /32, /128, overlapping / duplicate subnets, zero / equal weights) and models the legacy paths' "
         "process-global RNG as interleaved seed/draw steps; TLC checks containment, well-formedness, port-randomisation flag and purity (the "
         "global-RNG and minimal-byte-width instances violate, as they must). Every TLC case is reached on the real code with a searched seed "
         "(2 706/2 706) and compared; generated large configurations are checked against a net/netip oracle; 378 000 (quick) ungated concurrent "
         "selections are compared with serial results and validated by Trace_Phantom.",
    note="Real-code interleavings of the legacy path are ungated stress (no hook); blocks too large for TLC integers are checked by execution only; "
         "cryptographic draws are recomputed by an independent HKDF/HMAC interpreter.",
)
CLAIMS["C01"] = dict(
    category="exploration",
    technique="TLA+ spec Derive.tla (ordered draw lists and port rule of client and station per libver x transport x params: Agreement checked by TLC) + execution of every tuple on real station code, real client code and an independent interpreter of the spec's draw list; golden vectors",
    text="Derive.tla states, per (library version, transport, parameter class, subnet randomisation, registrar override), which labelled HKDF/HMAC "
         "draws client and station make in which order and the port rule; TLC checks client = station on all 1 170 tuples (two broken instances "
         "violate). Each applicable tuple x 17 subnet configurations x 10 (quick) seeded secrets x both families is executed three ways - real "
         "station (NewRegistrationC2SWrapper, transports' identifiers/keys/ports), real client code (SelectPhantom, internal/compatability v0/v1, "
         "client transports) and an independent crypto/hmac-only interpreter of the draw list TLC printed - and compared field by field, plus 608 "
         "golden rows that pin the derivation.",
    note="Exploration level: equality of cryptographic outputs is decided by execution on sampled secrets, not by TLC; the gotapdance end-to-end path "
         "is not driven; ECDSA certificate keys are pinned by golden vectors only.",
)
CLAIMS["C16"] = dict(
    category="model_checking",
    technique="TLA+ specs DtlsListener.tla, SctpStream.tla, SctpWrite.tla, HbWatchdog.tla, DtlsSetup.tla: TLC exhaustive + replay of every read-path / write-path behaviour into the real hbConn/SCTPConn with a scripted msgStream + real loopback listener scenarios + trace validation",
    text="DtlsListener.tla (acceptors registering cert+channel with deferred removals, handshakes, cancellation at any pc; 2.4 M states) checks "
         "NoCrossDelivery, OnlyMatchingCompletes, NothingLeftRegistered, DuplicateSecretDoesNotDisturbFirst; SctpStream.tla checks StreamFidelity, "
         "HeartbeatsNeverSurface, ErrorAfterItsData, NoSpuriousError; SctpWrite.tla BufferedBounded; HbWatchdog.tla DeadPeerCloses (8 broken "
         "instances violate). About 184 k read-path behaviours (TLC-exhaustive at maxMessageSize 3, simulated at 5 and 8) and 20 k write-path "
         "behaviours are replayed on the real code with the same constants; 911 real-time watchdog runs; 96 listener scenarios from TLC run on "
         "real loopback DTLS listeners (incl. forged dialers, duplicates, cancellations) with event traces validated by Trace_DtlsListener; DtlsSetup.tla "
         "(set-up deadline per layer, SetupDeadlineEndsWithSetup, EstablishedOutlivesContext) with its 21 rows run on the real client / server / accept set-up calls; "
         "certificates derived twice for sampled secrets.",
    note="Handshake internals are not scheduled (only call order is imposed); the scripted msgStream follows the pion/sctp contract; certificate "
         "laws are sampled; slow-reader path and Read after local Close are not modelled.",
)
CLAIMS["C20"] = dict(
    category="fault_enumeration",
    technique="TLA+ spec AtomicStore.tla: TLC exhaustive over crash points and failing steps (TargetAlwaysWhole ...) + replay of TLC crash/fail behaviours on the real assets package under strace syscall-level fault injection + validation of the recorded syscall traces",
    text="AtomicStore.tla models a store as marshal / create temp in the target's directory / write* / close / rename with environment actions Crash "
         "(any state) and Fail(step, errno) and the in-memory rollback; TLC checks TargetAlwaysWhole, FailedStoreKeepsOldOnDisk, "
         "FailedReplaceKeepsOldInMemory, TempInSameDirectory (in-place / other-directory / no-rollback instances violate). TLC behaviours are "
         "instantiated on a child process built from the real assets package under strace: Crash = SIGKILL at the k-th syscall, Fail = injected "
         "errno; real faults (RLIMIT_FSIZE short write, EACCES as nobody, vanished directory, full tmpfs, read-only remount, immutable target) "
         "and random-instant kills complement them; after every run the target must parse and equal the old or new configuration. Every strace "
         "log is validated by Trace_AtomicStore.",
    note="Needs ptrace/strace (exit 2 if unavailable). strace kills land at syscall entry (mid-write faults come from the real-fault cases and random "
         "kills); power-loss durability (fsync) is not part of the statement.",
)
CLAIMS["C15"] = dict(
    category="exploration",
    technique="TLA+ spec Codec.tla (framing / chunking / pointer / symbolic obfuscator laws checked exhaustively by TLC at scaled limits) + TLC-emitted boundary cases instantiated at the real limits on the real encoders/decoders",
    text="Codec.tla transcribes the length-prefix framings, label / TXT chunking with the name limit, compression-pointer chains and symbolic "
         "obfuscators with CONSTANT limits; TLC checks RoundTrip, RejectNotAlter, DecoderTotal, Fresh, WrongKeyNeverReveals exhaustively at scaled "
         "limits (three broken instances violate) and emits the boundary partition at the real limits (255/256, 63/64, 255-byte names, 65535/65536, "
         "pointer limit, datagram size); four drivers run the real msgformat, dns, requester<->responder (in-memory and loopback UDP with fresh "
         "Noise keys) and obfuscator / UnmarshalAnypbTo code on every case plus seeded samples and mutated wire bytes.",
    note="Exploration level: cryptographic round trips are decided by execution on sampled key pairs; decoders on arbitrary bytes are covered by "
         "structured inputs and their mutation neighbourhoods, not coverage-guided fuzzing. The empty tag is outside the obfuscators' domain.",
)
CLAIMS["C10"] = dict(
    category="model_checking",
    technique="TLA+ spec Detector.tla: TLC exhaustive (EveryAnnouncementAccepted, DetectorOutlivesStation, SessionMatchesRegistration, ClearEmpties) + trace validation of the real station's published bytes and of the real Rust detector's (src/sessions.rs, compiled unmodified behind stub crates) session map after every message",
    text="Detector.tla models the station's New / Update / Clear announcements and transcribes the detector's acceptance rules and session map "
         "(keep-the-longer update, expiry, clear) from src/sessions.rs in the order the Rust code applies them; TLC checks that every announcement is "
         "accepted, that the detector's session outlives the station's registration in every state and that Clear empties the map (the pre-fix "
         "dispatch order violates). Both sides of the wire are then real code: admitted registrations of every shape (4 transports incl. UDP x family "
         "x registrant absent/v4/v6/v4-mapped x port and phantom overrides) go through the real ingest, MarkActive and Cleanup; the published bytes "
         "are captured by an in-process RESP server, decoded and compared with the registration field by field, then fed to the unmodified "
         "sessions.rs whose session map is dumped after every message; the combined log is validated against the spec.",
    note="sessions.rs is built with rustc against stub crates (cargo cannot fetch pnet/redis/protobuf offline); packet-path code is not exercised; "
         "Redis is an in-process stand-in; remaining lifetimes compared with 3% tolerance.",
)
CLAIMS["C06"] = dict(
    category="model_checking",
    technique="TLA+ spec CovertPolicy.tla: TLC exhaustive over input forms x ports x resolver scripts x policies (DialedIsChecked, CheckedIsPermitted, ResolvedOnce ...) + execution of every TLC row on the real ParseOrResolveBlocklisted with a scripted DNS server + coupling through the real ingest and Proxy",
    text="CovertPolicy.tla models the policy as the stages the code applies (parse, domain pattern, port, one resolution, allow-/blocklist, "
         "literal result), the ingest overwrite and the dial, over symbolic addresses/networks and resolver answers given as a sequence so a "
         "second lookup is visible; TLC checks the five invariants on 490 880 states (the instance that keeps the client's string and "
         "re-resolves at dial time violates). 63 k (quick) / 132 k rows are concretised with several spellings per class and executed on the "
         "real function behind an in-process DNS server, with an independent net/netip containment oracle; coupling rows go through the real "
         "ingestRegistration and the real Proxy with loopback listeners on a permitted and a forbidden address while the name's answer flips; "
         "30 k / 300 k random strings x policies incl. the shipped app_config.toml.",
    note="'accepted unchanged' = same IP and port; DNS through net.DefaultResolver (PreferGo) to a local UDP server; dial observed on 127.0.0.2/3.",
)
CLAIMS["C18"] = dict(
    category="model_checking",
    technique="TLA+ spec LivenessCache.tla: TLC exhaustive over every cache configuration shape (HitIsFresh, HitIsMeasuredVerdict, MissProbes, Bounded, EvictedNeverServed ...) + replay of every bounded path into the real tester built by liveness.New + trace validation of random histories + concurrent run under -race",
    text="LivenessCache.tla models the live and non-live caches (off / map / LRU(cap)) with Query = lookupLive, lookupNonLive, probe, store, "
         "time advance and expiry clean-up against a scripted world; TLC checks ten invariants on 1.35 M states over 49 configuration shapes "
         "(four broken instances violate). All 69 621 paths of bounded depth + 2 500 simulated behaviours are replayed on the real tester "
         "returned by the real liveness.New(Config) (so the configuration -> cache kind mapping is under test), time by back-dating cachedTime, "
         "comparing verdict, error, probe calls, statistics and both caches' contents after every step; 30 random traces are validated by "
         "Trace_LivenessCache; 8 goroutines hammer one tester under -race with bounds judged at quiescence.",
    note="phantomIsLive (the network probe) is replaced by a scripted world; LRU recency is inferred by TLC, not projected; concurrent answers are "
         "judged against the probes actually made, not a linearisation.",
)
CLAIMS["C19"] = dict(
    category="model_checking",
    technique="TLA+ spec Config.tla: TLC over configuration-key combinations and reload sequences (AcceptedMeansEnforced, HousekeepingTotal, BadReloadChangesNothing, NoCrash) + execution of every TLC row / reload sequence on the real ParseConfig, NewRegistrationManager, stats modules, RemoveOldRegistrations and OnReload with measured enforcement",
    text="Config.tla models each optional key as unset / zero / valid / malformed, Load, the housekeeping actions and reload sequences with per-part "
         "versions; TLC checks that an accepted configuration enforces every entry, that no housekeeping action crashes and that a failed reload "
         "leaves each part's previous version in force (five broken instances violate). 6 853 table rows (incl. the shipped app_config.toml), "
         "1 728 reload sequences and pairwise-covering samples are executed on the real code: TOML and subnet files are written, ParseConfig -> "
         "NewRegistrationManager (Fatal paths in a child process) -> every registered stats module's PrintAndReset/PrintStats, "
         "RemoveOldRegistrations, then ParseConfig + OnReload as main.go does on SIGHUP; enforcement is measured by probing "
         "ParseOrResolveBlocklisted / IsBlocklistedPhantom before and after; 300 recorded decision traces validated by Trace_Config.",
    note="main.go's four-line SIGHUP branch is transcribed in the driver; no valid GeoIP database exists offline (unset / empty / missing / garbage "
         "states only); the OnReload data race is C09's known finding.",
)
CLAIMS["C12"] = dict(
    category="model_checking",
    technique="TLA+ spec RegistrarData.tla: TLC exhaustive over request x registrar configuration x subnet configuration x weighted draw (RespEqualsForwarded, StationAgrees, ForgedFieldsDropped, OverridesOnlyIfAllowed, ...) + execution of every TLC row on the real RegisterBidirectional (also through the real API and DNS front ends) with the forwarded bytes ingested by the real station constructor + trace validation",
    text="RegistrarData.tla models what the registrar returns to the client (resp), what it forwards to the stations (fwd) and what a station makes "
         "of the forwarded message (stationView) for every request shape (transport / params / families / disable-overrides / forged response "
         "and signature fields) and registrar configuration (override sets, weighted override subnets incl. weight 0, exclusions, authenticated "
         "or not); TLC checks eight invariants (five broken instances violate theirs). Every row is executed on the real RegProcessor with real "
         "transports and override objects and a recording zmqSender, a seeded subset also through the real API HTTP handler and DNS request "
         "processor; the forwarded bytes go through the real station NewRegistrationC2SWrapper; the three real views are compared with the row "
         "(the weighted draw is steered by seeding math/rand). Probabilistic clause: N = ceil(ln(1e-12)/ln(1-w_min)) registrations per weighted "
         "configuration must hit every non-zero-weight subnet and nothing outside. Recorded tuples validated by Trace_RegistrarData.",
    note="ZMQ is replaced by a recording sender (as the repository's own tests do); the false-alarm probability of the probabilistic clause is "
         "<= 1e-12 per run.",
)
CLAIMS["C13"] = dict(
    category="model_checking",
    technique="TLA+ spec RegistrarLocks.tla (faithful sync.RWMutex with writer preference, request and reload processes): TLC exhaustive (no deadlock, <>[]AllDone under fairness, WholeGeneration) + replay of every enumerated interleaving on the real RegProcessor / ReloadSubnets through in-package selector gates + trace validation of ungated stress (also under -race)",
    text="RegistrarLocks.tla models Go's RWMutex (readers, writer announced / holding; RLock blocked once a writer is announced) and the request "
         "(v4 / v6 / dual-stack) and reload processes under three lock protocols: 'single' satisfies no-deadlock, eventual completion and "
         "WholeGeneration, the as-found 'nested-deferred' deadlocks, 'per-selection' mixes generations. The driver identifies which protocol the real "
         "processBdReq follows (read locks held at the gates of one dual-stack request) and then forces every maximal interleaving TLC enumerates "
         "(33 275 in the quick tier) on a fresh real RegProcessor with the real ReloadSubnets and subnet files swapped on disk: state compared at "
         "every quiescent step, completion within a bound, every answer inside the old or the new subnet set in full. Ungated seeded stress with "
         "and without -race is validated by Trace_RegistrarLocks.",
    note="No production hook: gates are installed in-package around the ipSelector interface; Lock's announce and acquire cannot be observed "
         "separately and are composed in the trace spec; a stall is re-run once before it is reported.",
)
CLAIMS["C11"] = dict(
    category="exploration",
    technique="TLA+ spec Wire.tla (field-shape grammar of every externally supplied message, the code's guards as trigger predicates; NeverCrash / NeverHangs / AlwaysAnswersHTTP checked by TLC, rows emitted by TLC) + delivery of every TLC row and its truncation / bit-flip neighbourhood to the real entry points under recover() and per-call timeouts",
    text="Wire.tla describes C2SWrapper / ClientToStation / RegistrationResponse / transport parameters / HTTP and DNS envelopes as records of fields "
         "ranging over shape classes (absent, empty, short, exact, long, wrong type, out-of-range enum, ...) for 10 entry points and models the "
         "code as 20 named guards; TLC checks that the outcome is always error / ignored / accepted, that HTTP always answers and nothing hangs "
         "(as-found and no-pointer-limit instances violate) and emits the rows: full products for the small entry points, base-choice covering "
         "designs of strength 2 (quick, 210 k rows) / 3 (thorough, 1.4 M rows) for the message-shaped ones, plus seeded random rows. Every row is "
         "serialised and delivered - also truncated and bit-flipped - to the real parseRegMessage+ingestRegistration, the transports' "
         "WrapConnection / ParseParams / GetDstPort, the real dtls Connect with the real DNAT packet builder, RegProcessor, the API handlers behind "
         "a real net/http server on loopback (a missing status line = net/http's panic recovery), the DNS registrar server and responder over "
         "loopback UDP and the codecs; a process-killing panic is attributed to the row in flight and the driver resumes behind it.",
    note="Exploration level: structured inputs and their mutation neighbourhoods, not coverage-guided fuzzing of arbitrary bytes (bytes far from any "
         "well-formed message, e.g. inside proto.Unmarshal, are not reached); ZMQ / TUN / a real DTLS peer are outside; the model's accept / reject "
         "expectations are necessary conditions only.",
)
