SPECIFICATION GenSpec
CONSTANTS
  LD = {"unset", "valid"}
  LC = {"unset"}
  ND = {"unset", "valid"}
  NC = {"unset"}
  CBS = {"unset", "ws"}
  CAS = {"unset"}
  CBD = {"unset"}
  PBL = {"unset"}
  GEO = {"unset", "empty", "missing", "garbage"}
  WK = {"unset", "zero", "valid"}
  PUB = {"unset", "true"}
  FK = {"ok"}
  SF = {"S1", "S2", "missing"}
  RCBS = {"unset", "A", "B", "ws", "bad", "badfirst"}
  RCAS = {"unset", "A", "bad", "badfirst", "badonly"}
  RCBD = {"unset", "A", "B", "bad", "badfirst"}
  RPBL = {"unset", "A", "bad", "badfirst"}
  RGEO = {"unset", "missing"}
  RPUB = {"unset", "true"}
  RFK = {"ok", "syntax", "wrongtype", "unreadable"}
  RSF = {"S1", "S2", "malformed", "missing", "badgen"}
  WithShipped = FALSE
  Defects = {}
  Depth = 1
  GoodWeight = 6
  Mode = "exh"
INVARIANT Emit
CHECK_DEADLOCK FALSE
