SPECIFICATION Spec
CONSTANTS
  Ups = {"c1"}
  BadUps = {}
  MaxSend = 1
  ChanCap = 1
  MaxEpochs = 0
  AuthEnforced = TRUE
  StatsMode = "swap"
  ShutdownMode = "onmessage"
VIEW view
INVARIANTS TypeOK
PROPERTIES Terminates
CHECK_DEADLOCK FALSE
