\* packet level: a UDP flow to port 443, a TCP flow to port 80, a TCP 443 flow without session
SPECIFICATION Spec
CONSTANTS
  FlowInfo <- FlowsUdp
  Keys = {"k3", "k4"}
  T = 2
  K = 3
  SessTimeouts = {1}
  TickSteps = {1, 2}
  MaxT = 0
  MaxQ = 2
  MaxLag = 1
  StaleEvent = "kills"
  DropRemoves = TRUE
  DueCmp = "le"
  KeepLonger = TRUE
  Level = "packet"
  FlagKinds = {"syn", "synack", "ack"}
  PayloadKinds = {"none", "app_tag"}
  FrameKinds = {"eth", "arp"}
VIEW viewRel
CONSTRAINT BoundedRel
INVARIANTS TypeOK TrackedHasEvent QueueSorted EventHorizon PostDropWindow PostDropFresh PostDropPhantoms CountsExact PacketLaws
PROPERTIES RemovedOnlyByStopOrDue PhantomNeverShortened PhantomDroppedOnlyWhenDue DropCountExact
CHECK_DEADLOCK FALSE
