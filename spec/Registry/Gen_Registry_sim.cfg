SPECIFICATION GenSpec
CONSTANTS
  Secrets = {"s1", "s2"}
  Phantoms = {"p4", "p6"}
  Transports = {"min", "prefix", "obfs4"}
  KeyMode = "ident"
  TU = 2
  TA = 5
  MaxAge = 6
  MaxCount = 1000
  TickSteps = {1, 2, 3}
  MaxTracked = 100
  StaleMark = "ignore"
  SweepCap = 0
  IndexMode = "exact"
  Depth = 16
INVARIANT Emit
CHECK_DEADLOCK FALSE
