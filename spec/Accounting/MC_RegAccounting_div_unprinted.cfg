\* MUST VIOLATE Ledger: as found newBlocklistedPhantomReg is reset but never printed (R2)
SPECIFICATION Spec
CONSTANTS
  Regs = {"r1"}
  Srcs = {"api"}
  RFams = {"v4", "v6"}
  Gens = {"g1"}
  TTs = {"min"}
  LVs = {"l1"}
  Variant = "as_found"
  Broken = "none"
  MapWindow = TRUE
  MaxPrints = 2
  MaxFree = 0
VIEW view
ACTION_CONSTRAINT NoCallsInsidePrint
INVARIANTS Ledger
CHECK_DEADLOCK FALSE
