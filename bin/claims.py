# Claims table (exec'd by bin/mkmanifest).  One entry per property that has a working check.
CLAIMS["C08"] = dict(
    category="model_checking",
    technique="TLA+ spec Registry.tla: TLC exhaustive + replay of all bounded paths into real RegisteredDecoys + trace validation of random real histories",
    text="Registry.tla models decoys/decoysTimeouts with one action per locked method; TLC checks PostSweepExact, "
         "OneRecordPerRegistration, NeverRemovedEarly exhaustively (2 secrets x 2 phantoms x 2 transports, <=2..3 tracked). "
         "Every path of depth 4 (quick) / 5 (thorough) plus thousands of simulated depth-16 behaviours are replayed on the "
         "real object with real transports and default lifetimes (state compared after every step), and random real "
         "histories over 8 secrets x 3 phantoms x 3 transports are validated against the spec with all invariants on.",
    note="Time is advanced by back-dating stored registration times to age classes around the 10 min / 6 h limits (+-2 s); "
         "sweeps run to completion (interleavings are C09); TLC bounds as stated in the cfg files.",
)
CLAIMS["C09"] = dict(
    category="model_checking",
    technique="TLA+ specs Ingest.tla + Pipeline.tla: TLC exhaustive (serialisability, liveness) + replay of every enumerated interleaving into the real code through verifhook.Yield gates + trace validation of HandleRegUpdates + race-detector conformance of the atomicity assumption",
    text="Ingest.tla models workers, sweeper and connection handler with one action per lock-protected section; TLC checks that "
         "every terminal outcome equals some serial order's outcome (SerialOutcomes computed in TLA+), VisibleOnlyAfterValidate, "
         "AnnounceOnce, ShareOnce, NoCrash and termination for 8 (quick) / 10 (thorough) scenarios. Every maximal interleaving "
         "(2 245 quick) is replayed on the real ingestRegistration/removeOldRegistrations/lookup+MarkActive with a deterministic "
         "scheduler at the Yield gates, state compared after every step and real final outcomes checked against the serial set. "
         "Pipeline.tla (distributor, buffer, workers, cancel) is checked for DropsCounted/NeverBlocksReceiver/ShutdownBounded and "
         "bound by validating overload+shutdown event logs of the real HandleRegUpdates. A -race stress checks the spec's "
         "atomicity assumption.",
    note="Interleavings are enumerated at lock-release points only (the race detector run is what justifies treating locked "
         "sections as atomic); a registration is assumed not to expire while its own ingest is in progress; one sweeper. "
         "Known finding H-C09-2 (unsynchronised OnReload publication) is listed in known_findings.json.",
)
_CLASSIFY_NOTE = ("Connections are driven through connManager.handleNewTCPConn (handleNewConn needs SO_ORIGINAL_DST and cannot run offline) "
                  "with a scripted in-memory connection; the oracle (should this flight match, which registration) is computed from the case "
                  "definition, never from the code; cryptographic strength of the tags is assumed; wall-clock bounds carry 1 s slack.")
CLAIMS["C02"] = dict(
    category="model_checking",
    technique="TLA+ specs Classify.tla + Registry.tla: TLC exhaustive (MatchSound, lookup scoping) + trace validation of real handleNewTCPConn runs over genuine / replayed / altered first flights against real registries",
    text="Classify.tla states when a transport may answer 'match' (flight genuine, unaltered, registration with the same secret, transport "
         "and prefix currently valid on the destination phantom) and TLC checks MatchSound/ConsumeExact exhaustively on scaled thresholds; "
         "Registry.tla gives which registrations a lookup may return. Real flights from the real client transports are offered to the real "
         "handler unaltered, replayed to other phantoms, for other transports/prefixes, against unvalidated/expired registrations, with single "
         "bits flipped (all tag bits in thorough) or truncated; every event log (each transport's verdict per round, writes, close, which "
         "registration was returned, what reached the covert) is validated against the spec.",
    note=_CLASSIFY_NOTE,
)
CLAIMS["C03"] = dict(
    category="model_checking",
    technique="TLA+ spec Classify.tla: TLC exhaustive (NoBytes, NoEarlyClose, KeepsReading) + trace validation of real handleNewTCPConn probe runs with a deadline-honouring scripted connection",
    text="TLC checks on all segmentations/pacings/peer-close positions of all stream kinds that nothing is written, nothing returns before the "
         "deadline unless the peer closed, and no phase stops reading. ~420 (quick) / ~2500 (thorough) real probes (random, look-alikes, every "
         "static prefix + garbage, threshold lengths, flipped/truncated genuine flights; phantoms with no/one/many registrations) are run in "
         "parallel against the real handler; each recorded call sequence must be a behaviour of the spec (first deadline 5-10 s ahead, every "
         "verdict equal to the spec's, no Write, no Close/return before the observed deadline, everything sent was read); deadlines must spread "
         "over the window.",
    note=_CLASSIFY_NOTE,
)
CLAIMS["C04"] = dict(
    category="model_checking",
    technique="TLA+ spec Classify.tla: TLC exhaustive over all segmentations (FoundWhenComplete, ConsumeExact, Recognised) + trace validation of real end-to-end runs under every 1-cut / 2-cut segmentation",
    text="TLC checks that accumulate-and-retry finds a complete valid flight under every segmentation and consumes exactly the handshake. "
         "Real runs: genuine flights of the real min / prefix (every id x flush policy) / obfs4 (live, behind a segmenting shim) clients plus "
         "early and late data are delivered under every 1-cut (quick) and every 2-cut (thorough) segmentation and random k-cuts with pauses "
         "into the real handler with other registrations on the phantom; the bytes at the loopback covert and the echo at the client must "
         "equal what was sent, the registration must be marked used, and every event log must be a behaviour of the spec.",
    note=_CLASSIFY_NOTE,
)
