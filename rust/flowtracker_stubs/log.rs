// stub of the `log` crate: the macros sessions.rs uses; messages go to stderr when VERIF_RUST_LOG is set
#[macro_export] macro_rules! debug { ($($a:tt)*) => { if std::env::var("VERIF_RUST_LOG").is_ok() { eprintln!("[debug] {}", format!($($a)*)); } } }
#[macro_export] macro_rules! info  { ($($a:tt)*) => { if std::env::var("VERIF_RUST_LOG").is_ok() { eprintln!("[info] {}", format!($($a)*)); } } }
#[macro_export] macro_rules! warn  { ($($a:tt)*) => { if std::env::var("VERIF_RUST_LOG").is_ok() { eprintln!("[warn] {}", format!($($a)*)); } } }
#[macro_export] macro_rules! error { ($($a:tt)*) => { if std::env::var("VERIF_RUST_LOG").is_ok() { eprintln!("[error] {}", format!($($a)*)); } } }
