//go:build verif

package phantoms

// Conformance driver for spec/Phantom (property C14).
//
//   stage "replay"     every case TLC enumerated for the small configurations (Gen_Phantom: configuration x
//                      library version x family x every draw) is reached with a real seed - the draws of a
//                      seed are recomputed by the independent interpreter (derive_interp_verif_test.go; math/rand
//                      with a private generator for the legacy versions) - and the real
//                      PhantomIPSelector.Select / SelectPhantom result is compared with the specification's
//                      (block, offset, port flag), and checked for well-formedness.
//   stage "generated"  seeded large configurations (any prefix length, leading-zero networks, v4-mapped
//                      spellings, /32, /128, duplicates, overlaps, zero / equal / large weights):
//                      containment with a net/netip oracle, well-formedness, port-flag origin, determinism,
//                      station entry point = client entry point.
//   stage "fresh"      first selections of 2..32 goroutines on a NEW configuration object per round against one goroutine alone
//                      on an identical new object (phantom_fresh_verif_test.go)
//   stage "purity"     2..32 concurrent selectors (ungated) against the serial results, every library
//                      version; for the small configurations each concurrent call is also recorded as an
//                      event for Trace_Phantom (stage C).

import (
	"encoding/binary"
	"encoding/hex"
	"encoding/json"
	"fmt"
	"math/big"
	mrand "math/rand"
	"net"
	"net/netip"
	"sort"
	"sync"
	"testing"

	pb "github.com/refraction-networking/conjure/proto"
)

type vpNet struct {
	Fam  int    `json:"fam"`
	Base int64  `json:"base"`
	Hb   int    `json:"hb"`
	Hi   string `json:"hi"`
	Hz   int    `json:"hz"`
	Ho   int64  `json:"ho"` // host part of the address as written in the configuration (0 = canonical CIDR)
}
type vpGroup struct {
	W    uint32  `json:"w"`
	Rp   bool    `json:"rp"`
	Nets []vpNet `json:"nets"`
}
type vpRes struct {
	Ok   bool   `json:"ok"`
	G    int    `json:"g"`
	N    int    `json:"n"`
	Off  int64  `json:"off"`
	Fam  int    `json:"fam"`
	Hi   string `json:"hi"`
	Low  int64  `json:"low"`
	Rp   bool   `json:"rp"`
	Blen int    `json:"blen"`
	Err  string `json:"err,omitempty"`
}
type vpLine struct {
	Kind   string    `json:"kind"`
	C      string    `json:"c"`
	Totw   int64     `json:"totw"`
	Maxsz  int64     `json:"maxsz"`
	Groups []vpGroup `json:"groups"`
	Lv     int       `json:"lv"`
	Fam    int       `json:"fam"`
	Gen    string    `json:"gen"`
	W      int64     `json:"w"`
	Id     int64     `json:"id"`
	H      int64     `json:"h"`
	T      int64     `json:"t"`
	Res    vpRes     `json:"res"`
}

func (n vpNet) addr(off int64) netip.Addr {
	if n.Fam == 4 {
		var b [4]byte
		binary.BigEndian.PutUint32(b[:], uint32(n.Base+off))
		return netip.AddrFrom4(b)
	}
	a := netip.MustParseAddr(n.Hi).As16()
	binary.BigEndian.PutUint32(a[12:], uint32(n.Base+off))
	return netip.AddrFrom16(a)
}

// cidr renders the block the way the configuration writes it: possibly with host bits set (10.0.0.5/29)
func (n vpNet) cidr() string {
	if n.Fam == 4 {
		return fmt.Sprintf("%s/%d", n.addr(n.Ho), 32-n.Hb)
	}
	return fmt.Sprintf("%s/%d", n.addr(n.Ho), 128-n.Hb)
}

func vpHiInt(fam int, hi string) *big.Int {
	if fam == 4 || hi == "" {
		return new(big.Int)
	}
	a := netip.MustParseAddr(hi).As16()
	return new(big.Int).SetBytes(a[:])
}

type vpWorld struct {
	name   string
	totw   int64
	maxsz  int64
	groups []vpGroup
	conf   *SubnetConfig
	list   *pb.PhantomSubnetsList
	sel    *PhantomIPSelector
	// oracle view of the configuration: prefix, family class, port flag
	pfx []vpPfx
}
type vpPfx struct {
	p   netip.Prefix // masked; v4-mapped prefixes kept in their 16-byte form
	fam int          // 4 when the selector treats it as IPv4 (4-byte or v4-mapped network address)
	rp  bool
	lz  bool // network address starts with a zero byte
}

func vpOtherGen() *SubnetConfig {
	w := uint32(1)
	return &SubnetConfig{WeightedSubnets: []*pb.PhantomSubnets{{Weight: &w, Subnets: []string{"203.0.113.0/24", "2001:db8:ffff::/64"}}}}
}

func vpBuild(name string, weights []uint32, rps []bool, cidrs [][]string) *vpWorld {
	w := &vpWorld{name: name}
	ws := []*pb.PhantomSubnets{}
	for i := range weights {
		wt, rp := weights[i], rps[i]
		ws = append(ws, &pb.PhantomSubnets{Weight: &wt, RandomizeDstPort: &rp, Subnets: append([]string(nil), cidrs[i]...)})
		for _, c := range cidrs[i] {
			p := netip.MustParsePrefix(c).Masked()
			fam := 6
			if p.Addr().Is4() || p.Addr().Is4In6() {
				fam = 4
			}
			b := p.Addr().AsSlice()
			if p.Addr().Is4In6() {
				b = b[12:]
			}
			w.pfx = append(w.pfx, vpPfx{p: p, fam: fam, rp: rp, lz: b[0] == 0})
		}
	}
	w.conf = &SubnetConfig{WeightedSubnets: ws}
	w.list = &pb.PhantomSubnetsList{WeightedSubnets: ws}
	w.sel = &PhantomIPSelector{Networks: map[uint]*SubnetConfig{1: w.conf, 2: vpOtherGen()}}
	return w
}

func vpFromSpec(l *vpLine) *vpWorld {
	var weights []uint32
	var rps []bool
	var cidrs [][]string
	for _, g := range l.Groups {
		weights = append(weights, g.W)
		rps = append(rps, g.Rp)
		var cs []string
		for _, n := range g.Nets {
			cs = append(cs, n.cidr())
		}
		cidrs = append(cidrs, cs)
	}
	w := vpBuild(l.C, weights, rps, cidrs)
	w.totw, w.maxsz, w.groups = l.Totw, l.Maxsz, l.Groups
	return w
}

// ---- one real selection, panics turned into a value
type vpGot struct {
	Err    string `json:"err,omitempty"`
	Panic  string `json:"panic,omitempty"`
	IPHex  string `json:"ip_hex,omitempty"`
	IPLen  int    `json:"ip_len"`
	IP     string `json:"ip,omitempty"`
	Rp     bool   `json:"rp"`
	failed bool
	raw    net.IP
}

func (g vpGot) same(o vpGot) bool {
	return g.failed == o.failed && g.IPHex == o.IPHex && g.Rp == o.Rp && g.Panic == o.Panic
}

func vpWrap(f func() (*PhantomIP, error)) (g vpGot) {
	defer func() {
		if r := recover(); r != nil {
			g = vpGot{Panic: fmt.Sprint(r), failed: true}
		}
	}()
	p, err := f()
	if err != nil {
		return vpGot{Err: err.Error(), failed: true}
	}
	if p == nil || p.IP() == nil {
		return vpGot{Err: "nil result without error", failed: true}
	}
	ip := *p.IP()
	return vpGot{IPHex: hex.EncodeToString(ip), IPLen: len(ip), IP: ip.String(), Rp: p.SupportRandomPort(), raw: append(net.IP(nil), ip...)}
}

func (w *vpWorld) station(seed []byte, gen uint, lv int, fam int) vpGot {
	return vpWrap(func() (*PhantomIP, error) { return w.sel.Select(seed, gen, uint(lv), fam == 6) })
}

func (w *vpWorld) client(seed []byte, fam int) vpGot {
	f := SubnetFilter(V4Only)
	if fam == 6 {
		f = V6Only
	}
	return vpWrap(func() (*PhantomIP, error) { return SelectPhantom(seed, w.list, f, true) })
}

// byte width = family width.  (An IPv6 block an operator configures may cover ::ffff:0:0/96, so a 16-byte
// result is not required to be outside the v4-mapped range; the family is judged by containment.)
func vpWellFormed(ip net.IP, fam int) bool {
	if fam == 4 {
		return len(ip) == 4 || (len(ip) == 16 && ip.To4() != nil)
	}
	return len(ip) == 16
}

// value of the address whatever its byte width
func vpVal(ip net.IP) *big.Int { return new(big.Int).SetBytes(ip) }

// the address left-padded to its family's width (so that containment is judged separately from well-formedness)
func vpPad(ip net.IP, fam int) (netip.Addr, bool) {
	n := 16
	if fam == 4 {
		n = 4
		if len(ip) == 16 && ip.To4() != nil {
			ip = ip.To4()
		}
	}
	if len(ip) > n {
		return netip.Addr{}, false
	}
	b := make([]byte, n)
	copy(b[n-len(ip):], ip)
	a, ok := netip.AddrFromSlice(b)
	return a, ok
}

func (w *vpWorld) contains(a netip.Addr, fam int) (in bool, rpTrue bool, rpFalse bool) {
	for _, p := range w.pfx {
		if p.fam != fam {
			continue
		}
		x := a
		if p.p.Addr().Is4In6() && a.Is4() {
			x = netip.AddrFrom16(a.As16())
		}
		if p.p.Contains(x) {
			in = true
			if p.rp {
				rpTrue = true
			} else {
				rpFalse = true
			}
		}
	}
	return
}

// ---- reference draws of a seed
func vpDrawsHkdf(seed []byte, totw, t int64) (w, id int64) {
	w, _ = vdRandInt64(vdNewHKDF(seed, nil, []byte("phantom-select-subnet")), totw)
	if t > 0 {
		id, _ = vdRandInt64(vdNewHKDF(seed, nil, []byte("phantom-addr-id")), t)
	}
	return
}

func vpDrawsLegacy(seed []byte, totw int64, fam int, maxsz int64) (w, h int64, idraw *big.Int) {
	seedInt, _ := binary.Varint(seed)
	if totw > 0 {
		w = int64(mrand.New(mrand.NewSource(seedInt)).Intn(int(totw)))
	}
	n := 4
	if fam == 6 {
		n = 16
	}
	buf := make([]byte, n)
	mrand.New(mrand.NewSource(seedInt)).Read(buf)
	h = int64(buf[n-1]) & (maxsz - 1)
	idraw = new(big.Int).SetBytes(seed)
	return
}

type vpTables struct {
	worlds map[string]*vpWorld
	order  []string
	cases  map[string]*vpLine  // key c|lv|fam|w|id|h   (gen known)
	tt     map[string]int64    // key c|lv|fam|w -> reduction total
	idmax  map[string]int64    // key c|lv|fam -> largest id enumerated
	req    map[string][]string // key c|lv|fam -> case keys that a real seed must reach
	unk    []*vpLine
}

func vpKey(c string, lv, fam int, w, id, h int64) string {
	return fmt.Sprintf("%s|%d|%d|%d|%d|%d", c, lv, fam, w, id, h)
}

func vpLoad(t testing.TB) *vpTables {
	tb := &vpTables{worlds: map[string]*vpWorld{}, cases: map[string]*vpLine{}, tt: map[string]int64{},
		idmax: map[string]int64{}, req: map[string][]string{}}
	vReadLines(t, func(line []byte) {
		l := &vpLine{}
		if err := json.Unmarshal(line, l); err != nil {
			t.Fatalf("bad line %s: %v", line, err)
		}
		switch l.Kind {
		case "config":
			if _, ok := tb.worlds[l.C]; !ok {
				tb.worlds[l.C] = vpFromSpec(l)
				tb.order = append(tb.order, l.C)
			}
		case "case":
			if l.Gen != "known" {
				tb.unk = append(tb.unk, l)
				return
			}
			k := vpKey(l.C, l.Lv, l.Fam, l.W, l.Id, l.H)
			tb.cases[k] = l
			g := fmt.Sprintf("%s|%d|%d", l.C, l.Lv, l.Fam)
			tb.tt[fmt.Sprintf("%s|%d", g, l.W)] = l.T
			if l.Id > tb.idmax[g] {
				tb.idmax[g] = l.Id
			}
			if l.Id < l.T || (l.T == 0 && l.Id == 0) {
				tb.req[g] = append(tb.req[g], k)
			}
		}
	})
	sort.Strings(tb.order)
	return tb
}

// key of the specification case a real seed falls into
func (tb *vpTables) keyOf(w *vpWorld, lv, fam int, seed []byte) string {
	g := fmt.Sprintf("%s|%d|%d", w.name, lv, fam)
	if w.totw <= 0 {
		return vpKey(w.name, lv, fam, 0, 0, 0) // nothing has weight: no draw is made
	}
	if lv >= 2 {
		wd, _ := vpDrawsHkdf(seed, w.totw, 0)
		t := tb.tt[fmt.Sprintf("%s|%d", g, wd)]
		_, id := vpDrawsHkdf(seed, w.totw, t)
		return vpKey(w.name, lv, fam, wd, id, 0)
	}
	wd, h, idraw := vpDrawsLegacy(seed, w.totw, fam, w.maxsz)
	t := tb.tt[fmt.Sprintf("%s|%d", g, wd)]
	var id int64
	if idraw.IsInt64() && idraw.Int64() <= tb.idmax[g] {
		id = idraw.Int64() // small literal seed: the specification applies the reduction rule itself
	} else if t > 0 {
		id = new(big.Int).Mod(idraw, big.NewInt(t)).Int64()
	}
	return vpKey(w.name, lv, fam, wd, id, h)
}

type vpReplayStats struct {
	calls, compared, malformed, mismatches int
}

// compare one real result with the specification's case; returns rows to emit
func vpCompare(out *vOut, stage string, w *vpWorld, c *vpLine, seed []byte, who string, got vpGot, st *vpReplayStats) {
	st.compared++
	base := map[string]any{"stage": stage, "c": c.C, "lv": c.Lv, "fam": c.Fam, "w": c.W, "id": c.Id, "h": c.H,
		"seed": hex.EncodeToString(seed), "who": who, "want": c.Res, "got": got}
	emit := func(kind, what string) {
		r := map[string]any{"kind": kind, "what": what}
		for k, v := range base {
			r[k] = v
		}
		out.Emit(r)
	}
	if got.Panic != "" {
		st.mismatches++
		emit("mismatch", "panic")
		return
	}
	if c.Res.Ok == got.failed {
		st.mismatches++
		emit("mismatch", "status")
		return
	}
	if !c.Res.Ok {
		return
	}
	want := new(big.Int).Add(vpHiInt(c.Res.Fam, c.Res.Hi), big.NewInt(c.Res.Low))
	if vpVal(got.raw).Cmp(want) != 0 {
		st.mismatches++
		emit("mismatch", "address")
	}
	if got.Rp != c.Res.Rp {
		st.mismatches++
		emit("mismatch", "randport")
	}
	if !vpWellFormed(got.raw, c.Fam) {
		st.malformed++
		emit("malformed", "address length")
	}
}

func vpRandSeed(r *mrand.Rand) []byte {
	b := make([]byte, 16)
	r.Read(b)
	return b
}

func TestVerifPhantom(t *testing.T) {
	out := vOpenOut(t)
	defer out.Close()
	tb := vpLoad(t)
	rng := mrand.New(mrand.NewSource(vSeed()*7919 + 17))
	thorough := vEnvInt("VERIF_THOROUGH", 0) == 1
	vpStageReplay(t, out, tb, rng, thorough)
	vpStageGenerated(t, out, rng, thorough)
	vpStagePurity(t, out, tb, rng, thorough)
	vpStageFresh(t, out, tb, rng, thorough)
	out.Emit(map[string]any{"kind": "end"})
}

// ------------------------------------------------------------------------------------------- stage replay
func vpStageReplay(t *testing.T, out *vOut, tb *vpTables, rng *mrand.Rand, thorough bool) {
	st := &vpReplayStats{}
	covered := map[string]bool{}
	extra := 150
	if thorough {
		extra = 3000
	}
	runSeed := func(w *vpWorld, lv, fam int, seed []byte, force bool) {
		k := tb.keyOf(w, lv, fam, seed)
		c, ok := tb.cases[k]
		if !ok {
			out.Emit(map[string]any{"kind": "nokey", "key": k, "seed": hex.EncodeToString(seed)})
			return
		}
		if covered[k] && !force {
			return
		}
		covered[k] = true
		st.calls++
		vpCompare(out, "replay", w, c, seed, "station", w.station(seed, 1, lv, fam), st)
		if lv >= 2 {
			vpCompare(out, "replay", w, c, seed, "client", w.client(seed, fam), st)
		}
	}
	for _, name := range tb.order {
		w := tb.worlds[name]
		for lv := 0; lv <= 4; lv++ {
			for _, fam := range []int{4, 6} {
				g := fmt.Sprintf("%s|%d|%d", name, lv, fam)
				need := tb.req[g]
				left := func() int {
					n := 0
					for _, k := range need {
						if !covered[k] {
							n++
						}
					}
					return n
				}
				if lv >= 2 {
					for i := 0; i < 200000 && left() > 0; i++ {
						runSeed(w, lv, fam, vpRandSeed(rng), false)
					}
				} else {
					// (w,h) depend on the varint head only; the id is steered through the last 6 bytes
					classes := map[string]bool{}
					want := int(w.totw * w.maxsz)
					for i := 0; i < 20000 && len(classes) < want; i++ {
						seed := vpRandSeed(rng)
						seed[9] &= 0x7f // the varint ends within the first 10 bytes
						wd, h, _ := vpDrawsLegacy(seed, w.totw, fam, w.maxsz)
						ck := fmt.Sprintf("%d|%d", wd, h)
						if classes[ck] {
							continue
						}
						classes[ck] = true
						tt := tb.tt[fmt.Sprintf("%s|%d", g, wd)]
						if tt <= 0 {
							runSeed(w, lv, fam, seed, false)
							continue
						}
						for i := 10; i < 16; i++ {
							seed[i] = 0
						}
						a := new(big.Int).Mod(new(big.Int).SetBytes(seed), big.NewInt(tt)).Int64()
						for target := int64(0); target < tt; target++ {
							b := (target - a) % tt
							if b < 0 {
								b += tt
							}
							s2 := append([]byte(nil), seed...)
							binary.BigEndian.PutUint32(s2[12:], uint32(b))
							runSeed(w, lv, fam, s2, false)
						}
					}
					// literal small seeds: the seed as an integer is below / at / just above the total
					for v := int64(0); v <= tb.idmax[g]; v++ {
						seed := make([]byte, 16)
						binary.BigEndian.PutUint64(seed[8:], uint64(v))
						runSeed(w, lv, fam, seed, true)
					}
				}
				// plain random seeds on top
				for i := 0; i < extra; i++ {
					runSeed(w, lv, fam, vpRandSeed(rng), true)
				}
				if n := left(); n > 0 {
					out.Emit(map[string]any{"kind": "uncovered", "group": g, "left": n, "of": len(need)})
				}
			}
		}
	}
	// unknown generation: always an error
	unk := 0
	for _, c := range tb.unk {
		w := tb.worlds[c.C]
		seed := vpRandSeed(rng)
		got := w.station(seed, 99, c.Lv, c.Fam)
		unk++
		if !got.failed || got.Panic != "" {
			st.mismatches++
			out.Emit(map[string]any{"kind": "mismatch", "stage": "replay", "what": "unknown-generation", "c": c.C, "lv": c.Lv, "fam": c.Fam, "got": got})
		}
	}
	nreq := 0
	ncov := 0
	for _, ks := range tb.req {
		for _, k := range ks {
			nreq++
			if covered[k] {
				ncov++
			}
		}
	}
	out.Emit(map[string]any{"kind": "summary", "stage": "replay", "cases": len(tb.cases), "required": nreq, "required_covered": ncov,
		"covered_total": len(covered), "calls": st.calls, "compared": st.compared, "mismatches": st.mismatches,
		"malformed": st.malformed, "unknown_gen": unk, "configs": len(tb.order)})
}

// ---------------------------------------------------------------------------------------- stage generated
func vpGenConfig(r *mrand.Rand, idx int) *vpWorld {
	ng := 1 + r.Intn(5)
	weights := make([]uint32, ng)
	switch r.Intn(5) {
	case 0: // all equal
		v := uint32(1 + r.Intn(4))
		for i := range weights {
			weights[i] = v
		}
	case 1: // distinct
		for i := range weights {
			weights[i] = uint32(1 + i*2 + r.Intn(2))
		}
		r.Shuffle(ng, func(i, j int) { weights[i], weights[j] = weights[j], weights[i] })
	case 2: // zeros and ties
		for i := range weights {
			weights[i] = uint32(r.Intn(3))
		}
	case 3: // large
		for i := range weights {
			weights[i] = uint32(1 + r.Intn(1000000))
		}
	default:
		for i := range weights {
			weights[i] = uint32(r.Intn(10))
		}
	}
	tot := uint32(0)
	for _, v := range weights {
		tot += v
	}
	if tot == 0 && r.Intn(3) != 0 {
		weights[r.Intn(ng)] = 1 + uint32(r.Intn(3)) // (one in three all-zero draws stays all-zero: selection must fail cleanly)
	}
	rps := make([]bool, ng)
	cidrs := make([][]string, ng)
	var all []netip.Prefix
	rb := func(n int) []byte {
		b := make([]byte, n)
		r.Read(b)
		return b
	}
	for g := 0; g < ng; g++ {
		rps[g] = r.Intn(2) == 0
		nn := 1 + r.Intn(4)
		for k := 0; k < nn; k++ {
			var p netip.Prefix
			switch c := r.Intn(12); {
			case c <= 2: // v4 any length
				a, _ := netip.AddrFromSlice(rb(4))
				p = netip.PrefixFrom(a, r.Intn(33))
			case c <= 4: // v6 any length
				a, _ := netip.AddrFromSlice(rb(16))
				p = netip.PrefixFrom(a, r.Intn(129))
			case c == 5: // v4, first byte zero
				b := rb(4)
				b[0] = 0
				if r.Intn(3) == 0 {
					b[1] = 0
				}
				a, _ := netip.AddrFromSlice(b)
				p = netip.PrefixFrom(a, 8+r.Intn(25))
			case c == 6: // v6, leading zero bytes (not v4-mapped)
				b := rb(16)
				z := 1 + r.Intn(9)
				for i := 0; i < z; i++ {
					b[i] = 0
				}
				a, _ := netip.AddrFromSlice(b)
				p = netip.PrefixFrom(a, 8*z+r.Intn(129-8*z))
			case c == 7: // /32 and /128
				if r.Intn(2) == 0 {
					a, _ := netip.AddrFromSlice(rb(4))
					p = netip.PrefixFrom(a, 32)
				} else {
					a, _ := netip.AddrFromSlice(rb(16))
					p = netip.PrefixFrom(a, 128)
				}
			case c == 8 && len(all) > 0: // duplicate
				p = all[r.Intn(len(all))]
			case c == 9 && len(all) > 0: // overlap: a shorter or longer prefix of an earlier block
				q := all[r.Intn(len(all))]
				bits := q.Bits() + r.Intn(9) - 4
				if bits < 0 {
					bits = 0
				}
				if bits > q.Addr().BitLen() {
					bits = q.Addr().BitLen()
				}
				p = netip.PrefixFrom(q.Addr(), bits)
			case c == 10: // v4-mapped spelling of an IPv4 block
				b := append([]byte{0, 0, 0, 0, 0, 0, 0, 0, 0, 0, 0xff, 0xff}, rb(4)...)
				a, _ := netip.AddrFromSlice(b)
				p = netip.PrefixFrom(a, 96+r.Intn(33))
			default: // the shipped style
				if r.Intn(2) == 0 {
					a, _ := netip.AddrFromSlice(rb(4))
					p = netip.PrefixFrom(a, 16+r.Intn(9))
				} else {
					a, _ := netip.AddrFromSlice(rb(16))
					p = netip.PrefixFrom(a, 32+r.Intn(33))
				}
			}
			p = p.Masked()
			all = append(all, p)
			// configuration files carry the network address; sometimes write a host address of the block instead
			cidrs[g] = append(cidrs[g], p.String())
		}
	}
	return vpBuild(fmt.Sprintf("gen%d", idx), weights, rps, cidrs)
}

func (w *vpWorld) describe() map[string]any {
	gs := []map[string]any{}
	for _, g := range w.conf.WeightedSubnets {
		gs = append(gs, map[string]any{"w": g.GetWeight(), "rp": g.GetRandomizeDstPort(), "subnets": g.GetSubnets()})
	}
	return map[string]any{"name": w.name, "groups": gs}
}

func vpStageGenerated(t *testing.T, out *vOut, rng *mrand.Rand, thorough bool) {
	nconf, nseeds := 60, 40
	if thorough {
		nconf, nseeds = 400, 250
	}
	fixed := []*vpWorld{
		vpBuild("fixed-lead0", []uint32{1, 1}, []bool{true, false}, [][]string{{"0.1.0.0/16", "0100::/64", "0.0.0.0/8"}, {"::/64", "0:0:1::/48", "0.0.1.0/24"}}),
		vpBuild("fixed-default", []uint32{9, 1}, []bool{false, true}, [][]string{{"192.122.190.0/24", "2001:48a8:687f:1::/64"}, {"141.219.0.0/16", "35.8.0.0/16"}}),
		vpBuild("fixed-wide", []uint32{1}, []bool{true}, [][]string{{"0.0.0.0/0", "::/0"}}),
		vpBuild("fixed-noweight", []uint32{0, 0}, []bool{true, false}, [][]string{{"192.0.2.0/24", "2001:db8:7::/64"}, {"198.51.100.0/24"}}),
	}
	calls, sel, errs, malformed, viol := 0, 0, 0, 0, 0
	classes := map[string]bool{}
	for ci := 0; ci < nconf+len(fixed); ci++ {
		var w *vpWorld
		if ci < len(fixed) {
			w = fixed[ci]
		} else {
			w = vpGenConfig(rng, ci)
		}
		desc := w.describe()
		if ci < 4 {
			out.Emit(map[string]any{"kind": "sample", "stage": "generated", "config": desc})
		}
		report := func(kind, what string, lv, fam int, seed []byte, got vpGot, more map[string]any) {
			r := map[string]any{"kind": kind, "stage": "generated", "what": what, "lv": lv, "fam": fam, "seed": hex.EncodeToString(seed), "got": got, "config": desc}
			for k, v := range more {
				r[k] = v
			}
			out.Emit(r)
		}
		for si := 0; si < nseeds; si++ {
			seed := vpRandSeed(rng)
			for lv := 0; lv <= 4; lv++ {
				for _, fam := range []int{4, 6} {
					g1 := w.station(seed, 1, lv, fam)
					g2 := w.station(seed, 1, lv, fam)
					calls += 2
					if g1.Panic != "" {
						viol++
						report("genviol", "panic", lv, fam, seed, g1, nil)
						continue
					}
					if !g1.same(g2) {
						viol++
						report("genviol", "determinism", lv, fam, seed, g1, map[string]any{"second": g2})
					}
					if lv >= 2 {
						g3 := w.client(seed, fam)
						calls++
						if !g1.same(g3) {
							viol++
							report("genviol", "client-station", lv, fam, seed, g1, map[string]any{"client": g3})
						}
					}
					if g1.failed {
						errs++
						classes[fmt.Sprintf("%s|%d|%d|err", w.name, lv, fam)] = true
						continue
					}
					sel++
					classes[fmt.Sprintf("%s|%d|%d|ok", w.name, lv, fam)] = true
					if !vpWellFormed(g1.raw, fam) {
						malformed++
						report("malformed", "address length", lv, fam, seed, g1, nil)
					}
					a, ok := vpPad(g1.raw, fam)
					if !ok {
						viol++
						report("genviol", "contained", lv, fam, seed, g1, map[string]any{"why": "address wider than its family"})
						continue
					}
					in, rpT, rpF := w.contains(a, fam)
					if !in {
						viol++
						report("genviol", "contained", lv, fam, seed, g1, map[string]any{"padded": a.String()})
						continue
					}
					if (g1.Rp && !rpT) || (!g1.Rp && !rpF) {
						viol++
						report("genviol", "randport", lv, fam, seed, g1, map[string]any{"padded": a.String()})
					}
					// never from the other generation
					if netip.MustParsePrefix("203.0.113.0/24").Contains(a) || netip.MustParsePrefix("2001:db8:ffff::/64").Contains(a) {
						if in2, _, _ := w.contains(a, fam); !in2 {
							viol++
							report("genviol", "generation", lv, fam, seed, g1, nil)
						}
					}
				}
			}
		}
		// an unknown generation fails
		if g := w.station(vpRandSeed(rng), 7, 2, 4); !g.failed {
			viol++
			report("genviol", "unknown-generation", 2, 4, nil, g, nil)
		}
	}
	out.Emit(map[string]any{"kind": "summary", "stage": "generated", "configs": nconf + len(fixed), "seeds_per_config": nseeds, "calls": calls,
		"selected": sel, "errors": errs, "malformed": malformed, "violations": viol, "classes": len(classes)})
}

// ------------------------------------------------------------------------------------------- stage purity
type vpInput struct {
	w    *vpWorld
	seed []byte
	lv   int
	fam  int
}

func vpStagePurity(t *testing.T, out *vOut, tb *vpTables, rng *mrand.Rand, thorough bool) {
	nseeds, rounds := 40, 3
	maxEvents := 4000
	if thorough {
		nseeds, rounds = 150, 8
		maxEvents = 40000
	}
	var worlds []*vpWorld
	small := map[*vpWorld]bool{}
	for _, n := range []string{"wts", "mix3", "ties", "sizes"} {
		if w, ok := tb.worlds[n]; ok {
			worlds = append(worlds, w)
			small[w] = true
		}
	}
	worlds = append(worlds,
		vpBuild("pure-default", []uint32{9, 1}, []bool{false, true}, [][]string{{"192.122.190.0/24", "2001:48a8:687f:1::/64"}, {"141.219.0.0/16", "35.8.0.0/16", "2001:48a8:687f:2::/64"}}),
		vpGenConfig(rng, 9001), vpGenConfig(rng, 9002))
	totalCalls, totalDiv := 0, 0
	events := 0
	var evMu sync.Mutex
	for lv := 0; lv <= 4; lv++ {
		var inputs []vpInput
		for _, w := range worlds {
			for i := 0; i < nseeds; i++ {
				seed := vpRandSeed(rng)
				for _, fam := range []int{4, 6} {
					inputs = append(inputs, vpInput{w, seed, lv, fam})
				}
			}
		}
		serial := make([]vpGot, len(inputs))
		for i, in := range inputs {
			serial[i] = in.w.station(in.seed, 1, in.lv, in.fam)
		}
		// a second serial pass: repeating a selection never changes the result
		for i, in := range inputs {
			if g := in.w.station(in.seed, 1, in.lv, in.fam); !g.same(serial[i]) {
				totalDiv++
				out.Emit(map[string]any{"kind": "impure", "stage": "purity", "what": "repeat", "lv": lv, "goroutines": 1, "fam": in.fam,
					"seed": hex.EncodeToString(in.seed), "config": in.w.describe(), "serial": serial[i], "concurrent": g})
			}
		}
		for _, ng := range []int{2, 3, 8, 32} {
			div := 0
			calls := 0
			for round := 0; round < rounds; round++ {
				var wg sync.WaitGroup
				var mu sync.Mutex
				start := make(chan struct{})
				for gi := 0; gi < ng; gi++ {
					perm := rng.Perm(len(inputs))
					wg.Add(1)
					go func(gi int, perm []int) {
						defer wg.Done()
						<-start
						for _, ix := range perm {
							in := inputs[ix]
							var g vpGot
							if in.lv >= 2 && gi%2 == 1 {
								g = in.w.client(in.seed, in.fam)
							} else {
								g = in.w.station(in.seed, 1, in.lv, in.fam)
							}
							bad := !g.same(serial[ix])
							mu.Lock()
							calls++
							if bad {
								div++
								if div <= 3 {
									out.Emit(map[string]any{"kind": "impure", "stage": "purity", "what": "concurrent", "lv": in.lv, "goroutines": ng, "fam": in.fam,
										"seed": hex.EncodeToString(in.seed), "config": in.w.describe(), "serial": serial[ix], "concurrent": g})
								}
							}
							mu.Unlock()
							if small[in.w] {
								evMu.Lock()
								if events < maxEvents/5*(lv+1) {
									events++
									evMu.Unlock()
									out.Emit(vpEvent(tb, in, g, gi))
								} else {
									evMu.Unlock()
								}
							}
						}
					}(gi, perm)
				}
				close(start)
				wg.Wait()
			}
			totalCalls += calls
			totalDiv += div
			out.Emit(map[string]any{"kind": "purity-round", "lv": lv, "goroutines": ng, "calls": calls, "divergent": div, "inputs": len(inputs), "rounds": rounds})
		}
	}
	out.Emit(map[string]any{"kind": "summary", "stage": "purity", "calls": totalCalls, "divergent": totalDiv, "events": events})
}

// one recorded concurrent call on a small configuration, in the vocabulary of Trace_Phantom
func vpEvent(tb *vpTables, in vpInput, g vpGot, gi int) map[string]any {
	k := tb.keyOf(in.w, in.lv, in.fam, in.seed)
	c := tb.cases[k]
	ev := map[string]any{"kind": "event", "a": "Select", "c": in.w.name, "lv": in.lv, "fam": in.fam, "gi": gi, "seed": hex.EncodeToString(in.seed),
		"ok": !g.failed, "hi": "", "low": 0, "rp": g.Rp, "blen": g.IPLen, "w": -1, "id": -1, "h": -1}
	if c != nil {
		ev["w"], ev["id"], ev["h"] = c.W, c.Id, c.H
	}
	if !g.failed {
		// low part of the address relative to the block prefix the configuration uses for this family
		hi := ""
		if in.fam == 6 {
			for _, gr := range in.w.groups {
				for _, n := range gr.Nets {
					if n.Fam == 6 {
						hi = n.Hi
					}
				}
			}
		}
		low := new(big.Int).Sub(vpVal(g.raw), vpHiInt(in.fam, hi))
		ev["hi"] = hi
		if low.Sign() >= 0 && low.BitLen() <= 31 {
			ev["low"] = low.Int64()
		} else {
			ev["low"] = -1
		}
	}
	return ev
}
