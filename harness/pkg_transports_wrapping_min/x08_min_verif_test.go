//go:build verif

package min

// X08 adapter for the min client transport (see harness/pkg_transports_wrapping_prefix/x08_shared_verif_test.go).

import (
	"bytes"
	"sync/atomic"

	"github.com/refraction-networking/conjure/pkg/core"
	"github.com/refraction-networking/conjure/pkg/transports"
	pb "github.com/refraction-networking/conjure/proto"
	"google.golang.org/protobuf/proto"
	"google.golang.org/protobuf/types/known/anypb"
)

type x08MinAd struct{ n atomic.Int64 }

func x08NewAdapter() x08Adapter { return &x08MinAd{} }

func (a *x08MinAd) Kind() string       { return "min" }
func (a *x08MinAd) UsesRand() bool     { return false }
func (a *x08MinAd) New(field int) x08T { return &ClientTransport{} }

func (a *x08MinAd) generic(m map[string]any) *pb.GenericTransportParams {
	r, _ := m["rand"].(bool)
	if !r && a.n.Add(1)%2 == 0 {
		return &pb.GenericTransportParams{} // unset = false
	}
	return &pb.GenericTransportParams{RandomizeDstPort: proto.Bool(r)}
}

func (a *x08MinAd) SetArg(arg map[string]any) any {
	switch arg["t"] {
	case "nil":
		return nil
	case "pnil":
		return (*pb.GenericTransportParams)(nil)
	case "gen":
		return a.generic(arg)
	}
	if a.n.Add(1)%2 == 0 {
		return &pb.PrefixTransportParams{PrefixId: proto.Int32(1)}
	}
	return "not parameters"
}

func (a *x08MinAd) Inc(inc map[string]any) *anypb.Any {
	switch inc["t"] {
	case "nil":
		return nil
	case "gen":
		x, _ := anypb.New(a.generic(inc))
		if a.n.Add(1)%3 == 0 {
			x.TypeUrl = "type.googleapis.com/tapdance.GenericTransportParams"
		}
		return x
	}
	x, _ := anypb.New(&pb.PrefixTransportParams{PrefixId: proto.Int32(1)})
	return x
}

func x08ProjGeneric(p *pb.GenericTransportParams) any {
	if p == nil {
		return x08None
	}
	return map[string]any{"rand": p.GetRandomizeDstPort()}
}

func (a *x08MinAd) Proj(tt x08T) (P, S, pfx, keys any) {
	t := tt.(*ClientTransport)
	P, S, pfx, keys = x08ProjGeneric(t.Parameters), x08ProjGeneric(t.sessionParams), x08None, x08None
	if t.connectTag != nil {
		keys = map[string]any{"sec": "?"}
		for _, sec := range x08SecretNames {
			if bytes.Equal(t.connectTag, core.ConjureHMAC(vSecret(sec), "MinTrasportHMACString")) {
				keys = map[string]any{"sec": sec}
			}
		}
	}
	return
}

func (a *x08MinAd) ProjMsg(m proto.Message) any {
	if m == nil {
		return x08None
	}
	if p, ok := m.(*pb.GenericTransportParams); ok {
		return x08ProjGeneric(p)
	}
	return map[string]any{"type": string(m.ProtoReflect().Descriptor().FullName())}
}

func (a *x08MinAd) Why(err error) string { return "other" }

func (a *x08MinAd) Port(seedName string, seed []byte, port uint16) any {
	if p, err := transports.PortSelectorRange(portRangeMin, portRangeMax, seed); err == nil && p == port {
		return map[string]any{"k": "seeded", "seed": seedName, "v": 0}
	}
	return map[string]any{"k": "fixed", "seed": "-", "v": int(port)}
}

// Header: the stream starts with the 32-byte HMAC of a named secret, or there is no tag at all
func (a *x08MinAd) Header(raw []byte) (string, string, int, int) {
	if len(raw) >= 32 {
		for _, sec := range x08SecretNames {
			if bytes.Equal(raw[:32], core.ConjureHMAC(vSecret(sec), "MinTrasportHMACString")) {
				return "", sec, 0, 32
			}
		}
	}
	return "", "none", 0, 0
}

func (a *x08MinAd) StartPeer(p *x08Pipe, sec string) *x08Peer { return nil }
