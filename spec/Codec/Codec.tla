------------------------------- MODULE Codec -------------------------------
(***************************************************************************)
(* The encoders / decoders of the registration channels, as case analyses  *)
(* over lengths (the representation limits are CONSTANTS, so the same      *)
(* module is checked exhaustively at 3/2/7/3/15 and evaluated at the real  *)
(* 255/63/255/255/65535 to produce the boundary cases for the real code):  *)
(*                                                                         *)
(*  ReqFrame   msgformat.AddRequestFormat / RemoveRequestFormat   (1-byte  *)
(*             length prefix)                                              *)
(*  RespFrame  msgformat.AddResponseFormat / RemoveResponseFormat (2-byte  *)
(*             big-endian length prefix)                                   *)
(*  Labels     requester DNSPacketConn.send: text-encode (base32: 8 chars   *)
(*             per 5 bytes, no padding), cut into labels of <= MaxLabel,    *)
(*             append the base domain, dns.NewName (labels 1..MaxLabel,    *)
(*             wire length <= MaxName); responder: TrimSuffix, join, decode *)
(*  NameWire   dns.NewName + messageBuilder.WriteName / readName            *)
(*  Txt        dns.EncodeRDataTXT / DecodeRDataTXT (character-strings of   *)
(*             <= MaxTxtChunk, at least one)                               *)
(*  RRData     messageBuilder.WriteRR: RDLENGTH is 16 bits                  *)
(*  Count      messageBuilder.WriteMessage: section counts are 16 bits     *)
(*  MsgNames   name compression: a name may point at an earlier name that  *)
(*             itself ends in a pointer; the reader follows at most        *)
(*             PtrLimit pointers per name                                  *)
(*  Obf        tag obfuscators GCM / CTR / XOR / Nil, symbolic:            *)
(*             Reveal(Obf(t, PK(sk), r), sk) = t, fresh r per encoding     *)
(*  Exchange   one request/response over the DNS channel: Noise-N message  *)
(*             (payload + ReqOverhead) -> ReqFrame -> Labels; response      *)
(*             (payload + RespOverhead) -> RespFrame -> Txt -> one UDP       *)
(*             datagram of <= MaxUDP bytes                                  *)
(*  AnyPack    transports.UnmarshalAnypbTo: a parameters message packed    *)
(*             into an Any whose type URL is kept / stripped / carries the *)
(*             legacy package name / names another type                    *)
(*  Arb        every decoder on arbitrary byte strings                     *)
(*                                                                         *)
(* A byte is a number in 0..MaxU8.  Payload content is parametric: the     *)
(* payload of length n is <<1, 2, ..., n>> (mod MaxU8+1 where it has to be  *)
(* a byte), so any loss, duplication or reordering is visible.             *)
(*                                                                         *)
(* FrameMode  "checked"    the encoder returns an error when the length    *)
(*                         does not fit its prefix (what the property      *)
(*                         demands)                                        *)
(*            "truncating" the length is cast to the prefix width and nil  *)
(*                         is returned (the unrepaired msgformat.go) -      *)
(*                         must violate RejectNotAlter and RoundTrip       *)
(* PtrMode    "bounded"    the writer never builds a pointer chain longer  *)
(*                         than the reader follows                         *)
(*            "unbounded"  the writer always compresses (the unrepaired    *)
(*                         dns.go) - must violate RoundTrip                *)
(* NonceMode  "fresh" | "static" (a reused ephemeral key) - must violate   *)
(*                         Fresh                                           *)
(***************************************************************************)
EXTENDS Naturals, Sequences, FiniteSets, TLC

CONSTANTS MaxU8, MaxLabel, MaxName, MaxTxtChunk, MaxU16, PtrLimit,
          ReqOverhead, RespOverhead, MaxUDP,
          FrameMode, PtrMode, NonceMode,
          UnpackMode,     \* "assign" | "merge" (see AnyPack)
          DecoderMode,    \* "pure": Reveal is a function of (encoding, key) - it may be applied to one buffer again and again, with
                          \*         any keys, in any order (the station tries every key it has on the same bytes);
                          \* "inplace": a Reveal consumes the buffer it was given (a broken instance: must violate RoundTrip)
          ReqLens, RespLens, LabelLens, TxtLens, RRLens, Counts, Chains,   \* sets of lengths explored per codec
          Domains,        \* base domains: sequences of label lengths, e.g. <<>>, <<1>>, <<1, 7, 3>>
          NameShapes,     \* names for NameWire: sequences of label lengths (0 and MaxLabel+1 included on purpose)
          ObfKinds, TagLens, Keys, Nonces,
          ParamTypes,     \* transport parameter message types, e.g. {"generic", "prefix", "dtls"}
          ExReq, ExResp,  \* payload lengths for Exchange
          ArbStrings      \* byte strings for the decoders

VARIABLE obs
vars == <<obs>>
view == obs

B == MaxU8 + 1
ASSUME MaxU16 = B * B - 1

Err == [err |-> TRUE]
Ok(v) == [err |-> FALSE, v |-> v]
Min(a, b) == IF a < b THEN a ELSE b
Iota(n) == [i \in 1..n |-> i]
Bytes(n) == [i \in 1..n |-> i % B]

RECURSIVE SumSeq(_)
SumSeq(s) == IF s = <<>> THEN 0 ELSE Head(s) + SumSeq(Tail(s))
RECURSIVE Flatten(_)
Flatten(ss) == IF ss = <<>> THEN <<>> ELSE Head(ss) \o Flatten(Tail(ss))

\* ---------------------------------------------------------------- length-prefix framing
AddReq(p) == IF FrameMode = "checked" /\ Len(p) > MaxU8 THEN Err ELSE Ok(<<Len(p) % B>> \o p)
RemoveReq(b) == IF Len(b) < 1 THEN Err
                ELSE IF 1 + b[1] > Len(b) THEN Err ELSE Ok(SubSeq(b, 2, 1 + b[1]))
AddResp(p) == IF FrameMode = "checked" /\ Len(p) > MaxU16 THEN Err
              ELSE Ok(<<(Len(p) \div B) % B, Len(p) % B>> \o p)
RemoveResp(b) == IF Len(b) < 2 THEN Err
                 ELSE LET n == b[1] * B + b[2] IN IF 2 + n > Len(b) THEN Err ELSE Ok(SubSeq(b, 3, 2 + n))

\* ---------------------------------------------------------------- labels and names
\* non-empty pieces of at most c elements, only the last one shorter (requester chunks())
Chunks(p, c) == [k \in 1..((Len(p) + c - 1) \div c) |-> SubSeq(p, (k - 1) * c + 1, Min(k * c, Len(p)))]
NameLen(labels) == SumSeq([i \in 1..Len(labels) |-> 1 + Len(labels[i])]) + 1
NewName(labels) ==
  IF \E i \in 1..Len(labels) : Len(labels[i]) = 0 THEN [err |-> TRUE, why |-> "zero-length label"]
  ELSE IF \E i \in 1..Len(labels) : Len(labels[i]) > MaxLabel THEN [err |-> TRUE, why |-> "label too long"]
  ELSE IF NameLen(labels) > MaxName THEN [err |-> TRUE, why |-> "name too long"]
  ELSE Ok(labels)
TextLen(n) == (8 * n + 4) \div 5                    \* base32 without padding
DomainLabels(dom) == [i \in 1..Len(dom) |-> [j \in 1..dom[i] |-> 0]]
SendName(n, dom) == NewName(Chunks(Iota(TextLen(n)), MaxLabel) \o DomainLabels(dom))
\* responder: strip the base domain (by label count), join the rest
RecvText(name, dom) == Flatten(SubSeq(name, 1, Len(name) - Len(dom)))

\* wire format of one name without compression
NameToWire(labels) == Flatten([i \in 1..Len(labels) |-> <<Len(labels[i])>> \o labels[i]]) \o <<0>>
RECURSIVE ReadLabels(_, _)
ReadLabels(b, acc) ==            \* -> labels or Err; the rest after the terminator is ignored here
  IF Len(b) = 0 THEN Err
  ELSE IF b[1] = 0 THEN Ok(acc)
  ELSE IF b[1] > MaxLabel \/ Len(b) < 1 + b[1] THEN Err     \* reserved label type / short read
  ELSE ReadLabels(SubSeq(b, 2 + b[1], Len(b)), Append(acc, SubSeq(b, 2, 1 + b[1])))
NameFromWire(b) == LET r == ReadLabels(b, <<>>) IN IF r.err THEN Err ELSE
                   LET nn == NewName(r.v) IN IF nn.err THEN Err ELSE Ok(r.v)

\* ---------------------------------------------------------------- TXT character-strings
TxtChunks(p) == IF Len(p) = 0 THEN << <<>> >> ELSE Chunks(p, MaxTxtChunk)
EncTxt(p) == Flatten([k \in 1..Len(TxtChunks(p)) |-> <<Len(TxtChunks(p)[k])>> \o TxtChunks(p)[k]])
RECURSIVE DecTxtFrom(_, _)
DecTxtFrom(b, acc) ==
  IF Len(b) = 0 THEN Err
  ELSE IF Len(b) - 1 < b[1] THEN Err
  ELSE IF Len(b) - 1 = b[1] THEN Ok(acc \o SubSeq(b, 2, 1 + b[1]))
  ELSE DecTxtFrom(SubSeq(b, 2 + b[1], Len(b)), acc \o SubSeq(b, 2, 1 + b[1]))
DecTxt(b) == DecTxtFrom(b, <<>>)
TxtLen(n) == IF n = 0 THEN 1 ELSE n + ((n + MaxTxtChunk - 1) \div MaxTxtChunk)

\* ---------------------------------------------------------------- name compression chains
\* k names, name j+1 = one more label in front of name j, written in this order into one message.
\* depth[j] = number of pointers a reader follows when it reads name j.
RECURSIVE Depths(_)
Depths(k) ==
  IF k = 1 THEN <<0>>
  ELSE LET d == Depths(k - 1)
           \* the writer emits labels until it reaches a suffix it may point at: always the longest one
           \* ("unbounded"), or the longest one whose own chain is still shorter than the reader's limit
           \* ("bounded"); every suffix written out on the way is cached anew, one hop from that target
           j == IF PtrMode = "unbounded" THEN k - 1
                ELSE CHOOSE x \in 1..(k - 1) : d[x] < PtrLimit /\ \A y \in (x + 1)..(k - 1) : d[y] >= PtrLimit
       IN [i \in 1..k |-> IF i > j THEN d[j] + 1 ELSE d[i]]
ChainReadable(k) == \A j \in 1..k : Depths(k)[j] <= PtrLimit

\* ---------------------------------------------------------------- tag obfuscators (symbolic)
PK(sk) == <<"pk", sk>>
Randomised == {"gcm", "ctr", "xor"}
Obf(kind, t, pk, r) ==
  CASE kind \in {"gcm", "ctr"} -> [kind |-> kind, eph |-> r, pk |-> pk, body |-> t]
    [] kind = "xor"            -> [kind |-> kind, eph |-> r, pk |-> <<>>, body |-> t]
    [] kind = "nil"            -> [kind |-> kind, eph |-> 0, pk |-> <<>>, body |-> t]
Reveal(c, sk) ==
  CASE c.kind = "gcm" -> IF c.pk = PK(sk) THEN Ok(c.body) ELSE Err                \* authenticated
    [] c.kind = "ctr" -> IF c.pk = PK(sk) THEN Ok(c.body) ELSE Ok(<<B + 1>>)      \* not authenticated: some other bytes
    [] OTHER          -> Ok(c.body)
EncLen(kind, n) == CASE kind = "gcm" -> 32 + n + 16 [] kind = "ctr" -> 32 + n [] kind = "xor" -> 2 * n [] kind = "nil" -> n

\* ---------------------------------------------------------------- actions (one evaluation each)
ReqFrame(n) ==
  LET p == Bytes(n) enc == AddReq(p) IN
  obs' = [a |-> "ReqFrame", n |-> n, accept |-> ~enc.err, representable |-> n <= MaxU8,
          enc_len |-> IF enc.err THEN 0 ELSE Len(enc.v), prefix |-> IF enc.err THEN <<>> ELSE <<enc.v[1]>>,
          rt |-> enc.err \/ RemoveReq(enc.v) = Ok(p)]
RespFrame(n) ==
  LET p == Bytes(n) enc == AddResp(p) IN
  obs' = [a |-> "RespFrame", n |-> n, accept |-> ~enc.err, representable |-> n <= MaxU16,
          enc_len |-> IF enc.err THEN 0 ELSE Len(enc.v), prefix |-> IF enc.err THEN <<>> ELSE <<enc.v[1], enc.v[2]>>,
          rt |-> enc.err \/ RemoveResp(enc.v) = Ok(p)]
Labels(n, dom) ==
  LET nm == SendName(n, dom) IN
  obs' = [a |-> "Labels", n |-> n, dom |-> dom, accept |-> ~nm.err,
          representable |-> NameLen(Chunks(Iota(TextLen(n)), MaxLabel) \o DomainLabels(dom)) <= MaxName,
          nlabels |-> IF nm.err THEN 0 ELSE Len(nm.v) - Len(dom), name_len |-> IF nm.err THEN 0 ELSE NameLen(nm.v),
          last_label |-> IF nm.err \/ Len(nm.v) = Len(dom) THEN 0 ELSE Len(nm.v[Len(nm.v) - Len(dom)]),
          rt |-> nm.err \/ RecvText(nm.v, dom) = Iota(TextLen(n))]
NameWire(shape) ==
  LET labels == [i \in 1..Len(shape) |-> [j \in 1..shape[i] |-> (i + j) % B]] nm == NewName(labels) IN
  obs' = [a |-> "NameWire", shape |-> shape, accept |-> ~nm.err, why |-> IF nm.err THEN nm.why ELSE "",
          representable |-> (\A i \in 1..Len(shape) : shape[i] \in 1..MaxLabel) /\ NameLen(labels) <= MaxName,
          wire_len |-> IF nm.err THEN 0 ELSE Len(NameToWire(labels)),
          rt |-> nm.err \/ NameFromWire(NameToWire(labels)) = Ok(labels)]
Txt(n) ==
  LET p == Bytes(n) enc == EncTxt(p) IN
  obs' = [a |-> "Txt", n |-> n, accept |-> TRUE, representable |-> TRUE, enc_len |-> Len(enc),
          nchunks |-> Len(TxtChunks(p)), last_chunk |-> Len(TxtChunks(p)[Len(TxtChunks(p))]),
          rt |-> DecTxt(enc) = Ok(p) /\ Len(enc) = TxtLen(n)]
RRData(n) == obs' = [a |-> "RRData", n |-> n, accept |-> n <= MaxU16, representable |-> n <= MaxU16, rt |-> TRUE]
Count(n) == obs' = [a |-> "Count", n |-> n, accept |-> n <= MaxU16, representable |-> n <= MaxU16, rt |-> TRUE]
MsgNames(k) ==
  obs' = [a |-> "MsgNames", k |-> k, accept |-> TRUE, representable |-> TRUE, max_depth |-> Depths(k)[k],
          rt |-> ChainReadable(k)]
\* the buffer holding an encoding after a Reveal was applied to it
Spent(c) == [c EXCEPT !.body = <<>>, !.pk = <<"spent">>]
After(c) == IF DecoderMode = "pure" \/ c.kind \notin {"gcm"} THEN c ELSE Spent(c)
ObfTwice(kind, n, sk, other, r1, r2) ==
  LET t == Bytes(n)
      rr2 == IF NonceMode = "static" THEN r1 ELSE r2
      c1 == Obf(kind, t, PK(sk), r1) c2 == Obf(kind, t, PK(sk), rr2)
      w == Reveal(c1, other)
      \* one buffer, three attempts in a row: another station's key, the right key, the right key again
      b1 == After(c1) b2 == After(b1) IN
  /\ r1 # r2
  /\ obs' = [a |-> "Obf", kind |-> kind, n |-> n, key |-> sk, accept |-> TRUE, representable |-> TRUE,
             enc_len |-> EncLen(kind, n),
             rt |-> Reveal(c1, sk) = Ok(t) /\ Reveal(c2, sk) = Ok(t) /\ Reveal(b1, sk) = Ok(t) /\ Reveal(b2, sk) = Ok(t),
             buffer_intact |-> b2 = c1,
             randomised |-> kind \in Randomised, distinct |-> c1 # c2,
             wrongkey |-> IF other = sk THEN "same key" ELSE IF w.err THEN "error"
                          ELSE IF w.v = t THEN "tag (keyless obfuscator)" ELSE "other bytes"]

\* one request / response over the DNS channel
ExchangeOutcome(nreq, nresp, dom) ==
  LET m == nreq + ReqOverhead                       \* Noise-N message: e, encrypted payload, tag
      f == AddReq(Bytes(m))
      nm == IF f.err THEN Err ELSE SendName(Len(f.v), dom)
      rf == AddResp(Bytes(nresp + RespOverhead))
      udp == IF nm.err \/ rf.err THEN 0
             ELSE 12 + (NameLen(nm.v) + 4) + (2 + 10 + TxtLen(Len(rf.v))) + 11   \* header, question, answer (pointer), OPT
  IN IF f.err THEN "request: frame error"
     ELSE IF nm.err THEN "request: name error"
     ELSE IF rf.err THEN "response: frame error"
     ELSE IF udp > MaxUDP THEN "response: dropped, requester gets an error"
     ELSE "ok"
Exchange(nreq, nresp, dom) ==
  LET o == ExchangeOutcome(nreq, nresp, dom) IN
  obs' = [a |-> "Exchange", nreq |-> nreq, nresp |-> nresp, dom |-> dom, outcome |-> o,
          accept |-> o = "ok", representable |-> o = "ok",
          \* the frames and the text transport round-trip (or reject), so an accepted exchange delivers both payloads
          rt |-> LET f == AddReq(Bytes(nreq + ReqOverhead)) rf == AddResp(Bytes(nresp + RespOverhead)) IN
                 (o = "ok") => /\ RemoveReq(f.v) = Ok(Bytes(nreq + ReqOverhead))
                               /\ RemoveResp(rf.v) = Ok(Bytes(nresp + RespOverhead))
                               /\ DecTxt(EncTxt(rf.v)) = Ok(rf.v)]

\* URL-less packing of transport parameters
UrlModes == {"own", "stripped", "legacy", "other type"}
Pack(ty, m, url) == [url |-> CASE url = "own" -> ty [] url = "stripped" -> "" [] url = "legacy" -> "legacy " \o ty
                                  [] OTHER -> "not " \o ty, bytes |-> <<ty, m>>]
Unpack(a, ty) == IF a.url \in {ty, "", "legacy " \o ty} THEN Ok(a.bytes[2]) ELSE Err
\* A parameters message is a set of OPTIONAL fields; the packed value sets all, some or none of them.  The destination the
\* caller unpacks into is freshly allocated or still holds the parameters of an earlier registration (every field set).
\* Unpacking ASSIGNS: fields the packed value leaves unset are unset afterwards, whatever the destination held.
\* UnpackMode = "merge" (a broken instance) decodes into a scratch message and merges it into the destination: what the
\* destination held shows through wherever the value is silent.
MsgShapes == {"full", "partial", "empty"}
DstStates == {"fresh", "used"}
PFields == {"f1", "f2"}
SetIn(m) == CASE m = "full" -> PFields [] m = "partial" -> {"f1"} [] OTHER -> {}
Original(m) == [f \in PFields |-> IF f \in SetIn(m) THEN "new" ELSE "unset"]
Unpacked(m, d) == [f \in PFields |-> IF f \in SetIn(m) THEN "new"
                                     ELSE IF UnpackMode = "merge" /\ d = "used" THEN "old" ELSE "unset"]
AnyPack(ty, url, m, d) ==
  LET a == Pack(ty, "m", url) r == Unpack(a, ty) IN
  obs' = [a |-> "AnyPack", ty |-> ty, url |-> url, mshape |-> m, dst |-> d, accept |-> ~r.err, representable |-> url # "other type",
          rt |-> r.err \/ (r.v = "m" /\ Unpacked(m, d) = Original(m))]

Total(r) == r.err \/ "v" \in DOMAIN r
Arb(s) ==
  obs' = [a |-> "Arb", s |-> s,
          total |-> Total(RemoveReq(s)) /\ Total(RemoveResp(s)) /\ Total(DecTxt(s)) /\ Total(NameFromWire(s)),
          \* whatever a decoder accepts, re-encoding gives back a prefix-compatible string (no invention of bytes)
          req |-> IF RemoveReq(s).err THEN "error" ELSE "value", resp |-> IF RemoveResp(s).err THEN "error" ELSE "value",
          txt |-> IF DecTxt(s).err THEN "error" ELSE "value", name |-> IF NameFromWire(s).err THEN "error" ELSE "value",
          sane |-> /\ (~RemoveReq(s).err => AddReq(RemoveReq(s).v).v = SubSeq(s, 1, 1 + s[1]))
                   /\ (~DecTxt(s).err => Len(DecTxt(s).v) < Len(s))]

Init == obs = [a |-> "Init"]
\* every evaluation is one step from Init (the codecs are stateless)
Next == obs.a = "Init" /\
        \/ \E n \in ReqLens : ReqFrame(n)
        \/ \E n \in RespLens : RespFrame(n)
        \/ \E n \in LabelLens, dom \in Domains : Labels(n, dom)
        \/ \E sh \in NameShapes : NameWire(sh)
        \/ \E n \in TxtLens : Txt(n)
        \/ \E n \in RRLens : RRData(n)
        \/ \E n \in Counts : Count(n)
        \/ \E k \in Chains : MsgNames(k)
        \/ \E kind \in ObfKinds, n \in TagLens, sk \in Keys, other \in Keys, r1 \in Nonces, r2 \in Nonces :
              ObfTwice(kind, n, sk, other, r1, r2)
        \/ \E a \in ExReq, b \in ExResp, dom \in Domains : Exchange(a, b, dom)
        \/ \E ty \in ParamTypes, url \in UrlModes, m \in MsgShapes, d \in DstStates : AnyPack(ty, url, m, d)
        \/ \E s \in ArbStrings : Arb(s)
Spec == Init /\ [][Next]_vars

\* ---------------------------------------------------------------- invariants
Codecs == {"ReqFrame", "RespFrame", "Labels", "NameWire", "Txt", "RRData", "Count", "MsgNames", "Obf", "Exchange", "AnyPack"}
\* Decode(Encode(x)) = x whenever Encode accepts
RoundTrip == obs.a \in Codecs => (obs.accept => obs.rt)
\* Encode accepts => x is representable; otherwise it is an error - never a different value
RejectNotAlter == obs.a \in Codecs => (obs.accept <=> obs.representable)
\* decoders return a value or an error on every input (TLC would also stop on an ill-defined evaluation)
DecoderTotal == obs.a = "Arb" => (obs.total /\ obs.sane)
\* randomised obfuscators never produce the same encoding of one tag twice
Fresh == (obs.a = "Obf" /\ obs.randomised) => obs.distinct
\* a tag never opens under another station key (authenticated: error; unauthenticated: other bytes)
WrongKeyNeverReveals == (obs.a = "Obf" /\ obs.kind \in {"gcm", "ctr"} /\ obs.wrongkey # "same key") => obs.wrongkey \in {"error", "other bytes"}
=============================================================================
