SPECIFICATION Spec
CONSTANT Mutant = "family_before_override"
INVARIANTS AgreesWithStatement ProbeOnlyWhenRequired NoWastedProbe ShareRules Necessary
CHECK_DEADLOCK FALSE
