\* MUST VIOLATE MapLedger: as found a registration counted between the map listings and their replacement is lost (R1, maps)
SPECIFICATION Spec
CONSTANTS
  Regs = {"r1"}
  Srcs = {"detector", "api"}
  RFams = {"v6"}
  Gens = {"g1"}
  TTs = {"min"}
  LVs = {"l1"}
  Variant = "as_found"
  Broken = "none"
  MapWindow = TRUE
  MaxPrints = 2
  MaxFree = 0
VIEW view
CONSTRAINT Canon
INVARIANTS MapLedger
CHECK_DEADLOCK FALSE
