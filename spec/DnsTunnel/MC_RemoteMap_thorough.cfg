SPECIFICATION Spec
CONSTANTS
  Addrs = {"a1", "a2", "a3", "a4"}
  T = 2
  MaxTime = 5
  TickSteps = {1, 2}
  MaxClk = 7
  FixOnRefresh = TRUE
VIEW view
CONSTRAINT Bounded
INVARIANTS TypeOK HeapOrdered RootOldest OnePerAddr ClosedIffGone PostSweepExact
PROPERTIES NeverExpiredEarly LookupFresh ChannelStable
CHECK_DEADLOCK FALSE
