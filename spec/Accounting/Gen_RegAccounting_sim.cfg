SPECIFICATION GenSpec
CONSTANTS
  Regs = {"r1", "r2", "r3", "r4"}
  Srcs = {"detector", "api", "prescan", "other"}
  RFams = {"v4", "v6"}
  Gens = {"g1", "g2"}
  TTs = {"min", "obfs4", "dtls"}
  LVs = {"l1", "l2"}
  Variant = "as_found"
  Broken = "none"
  MapWindow = FALSE
  MaxPrints = 4
  MaxFree = 6
  Depth = 40
CONSTRAINT Canon
INVARIANT Emit
CHECK_DEADLOCK FALSE
