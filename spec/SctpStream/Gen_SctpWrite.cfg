SPECIFICATION GenSpec
CONSTANTS
  L = 4
  TH = 2
  WriteSizes = {0, 1, 2, 3}
  DrainSizes = {1, 3}
  Writers = {"w1", "w2"}
  MaxCalls = 6
  Mode = "asimpl"
  Depth = 5
INVARIANT Emit
CHECK_DEADLOCK FALSE
