SPECIFICATION GenSpec
CONSTANTS
  Scenario = "4mixed"
  Protocol = "atomic"
  SweepRecheck = TRUE
  ShareEnabled = TRUE
  ReloadProtocol = "snapshot"
INVARIANT Emit
CHECK_DEADLOCK FALSE
