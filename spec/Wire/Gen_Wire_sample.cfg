SPECIFICATION GenSpec
CONSTANTS
  EPs = {"station.ingest"}
  MissingGuards = {}
  EP = "station.ingest"
  Strength = 2
  Mode = "sample"
  NSample = 20000
INVARIANT Emit
CHECK_DEADLOCK FALSE
