\* deliberately broken instance: dialErrors one slot too small -> a sender blocks once Register has stopped reading
SPECIFICATION Spec
CONSTANTS
  Variant = "asfound"
  Widths = {2}
  ChanCap = "less1"
  Rounds = 1
  Deadlines = {FALSE}
  PreCancel = {FALSE}
  DialOut = {"ok", "unreach", "refused"}
  TlsOut = {"ok", "err", "nokeystream"}
  WriteOut = {"ok", "err"}
  LingerOut = {"byte", "eof"}
VIEW view
INVARIANTS ReportNeverBlocks
CHECK_DEADLOCK FALSE
