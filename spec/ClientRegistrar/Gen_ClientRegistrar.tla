------------------------- MODULE Gen_ClientRegistrar -------------------------
(* Behaviour generator for stage B (spec -> implementation replay).  A call of Register always terminates, so a behaviour
   is printed when it is complete (pc = "done"): exhaustive mode enumerates EVERY complete behaviour of the configured
   instance (hist is part of the state), -simulate samples behaviours of the larger instance.  The Go driver turns the
   environment's part of a behaviour (Call, Recv outcomes, dial failures, Cancel points, StubReturn) into a script for the
   servers, runs the real Register against it and compares the events it records with the whole behaviour. *)
EXTENDS ClientRegistrar, Json
CONSTANT Depth
VARIABLE hist
GenInit == Init /\ hist = <<>>
GenNext == /\ Len(hist) < Depth
           /\ Next
           /\ hist' = Append(hist, obs')
GenSpec == GenInit /\ [][GenNext]_<<vars, hist>>
Emit == pc # "done" \/ PrintT(ToJson(hist))
=============================================================================
