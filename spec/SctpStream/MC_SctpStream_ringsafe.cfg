SPECIFICATION Spec
CONSTANTS
  M = 3
  MsgLens = {1, 2, 3}
  ErrLens = {0, 2}
  ReadSizes = {1, 2, 3, 4}
  MaxItems = 5
  MaxPostErr = 1
  Mode = "intended"
  Cap = 2
  BufMode = "ring"
  RingSize = 4
VIEW view
INVARIANTS TypeOK StreamFidelity HeartbeatsNeverSurface ReceiveBufferUnreferenced QueueBounded HeldMeansFull ErrorAfterItsData NoSpuriousError PendingMeansEmpty DeferredErrorHasData
CHECK_DEADLOCK FALSE
