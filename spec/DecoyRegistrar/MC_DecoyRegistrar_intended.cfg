\* intended variant, exhaustive: everything that holds as found plus what a caller relies on
SPECIFICATION Spec
CONSTANTS
  Variant = "intended"
  Widths = {1, 2}
  ChanCap = "width"
  Rounds = 2
  Deadlines = {TRUE, FALSE}
  PreCancel = {TRUE, FALSE}
  DialOut = {"ok", "unreach", "refused", "timeout"}
  TlsOut = {"ok", "err", "timeout", "nokeystream"}
  WriteOut = {"ok", "err"}
  LingerOut = {"byte", "eof", "timeout"}
VIEW view
INVARIANTS TypeOK ReportAtMostOnce ReportedWhenDone ReportNeverBlocks ChanBound ReturnNeedsReport UnreachableIffAll
           RegIffNoError NilMeansWritten ClosedOnError RttIsFirst RttReadyAtSleep
PROPERTIES OnceTCP OnceTLS NothingAfterReturn
INVARIANTS I_SuccessMeansWritten I_NoWorkAfterCtxEnd I_NoConnLeak I_RttOfThisCall I_RttOfSuccessfulDial
CHECK_DEADLOCK FALSE
