SPECIFICATION Spec
CONSTANTS
  Profile = "tiny"
  Defects = {"scanErrIgnored", "badWeightSkipped", "wsRejects", "noRangeCheck", "deadKept", "typeUrlRewritten", "chainNotAtomic", "chainMixesPort", "randIgnoresReader", "pkgIgnoresFlag", "callerNeverSetsPsr", "callerRecomputesPort"}
  Broken = {"anyTransport"}
VIEW view
INVARIANTS TypeOK
PROPERTIES A_OnlyPrefixTransport
CHECK_DEADLOCK FALSE
