SPECIFICATION GenSpec
CONSTANTS
  M = 3
  MsgLens = {1, 2, 3}
  ErrLens = {0, 2}
  ReadSizes = {1, 2, 3, 4}
  MaxItems = 120
  MaxPostErr = 1
  Mode = "intended"
  Cap = 64
  BufMode = "fresh"
  RingSize = 1
  Depth = 420
  Backlogs = {2, 8, 24, 48, 60, 62, 63, 64, 65}
INVARIANT Emit
CHECK_DEADLOCK FALSE
