\* as-found variant against the intended-only invariants, run with -continue (TLC reports every violated invariant):
\* every one of them must be violated - these are the divergences between the code and what a caller relies on (each is
\* confirmed on the real code by stage B)
SPECIFICATION Spec
CONSTANTS
  Variant = "asfound"
  Configs <- CfgGap
  ApiOutcomes = {"s500", "R0", "RB", "RE"}
  DnsOutcomes = {"nosuccess", "nobidi", "R2", "RB"}
VIEW view
INVARIANTS I_NoWireAfterCancel I_NoFallbackAfterCancel I_NoInflightAfterCancel I_RegReflectsAccepted
           I_ErrorIndicationRespected I_AcceptedHasAddr I_FailureIsRegFailed I_DelayOnceAfterSuccess
CHECK_DEADLOCK FALSE
