SPECIFICATION GenSpec
CONSTANTS
  Variant = "asfound"
  Widths = {2}
  ChanCap = "width"
  Rounds = 1
  Deadlines = {FALSE}
  PreCancel = {FALSE}
  DialOut = {"ok", "unreach", "refused"}
  TlsOut = {"ok", "err", "nokeystream"}
  WriteOut = {"ok", "err"}
  LingerOut = {"byte", "eof"}
  FullLast = TRUE
  MaxSlow = 1
  Depth = 70
INVARIANT Emit
CHECK_DEADLOCK FALSE
