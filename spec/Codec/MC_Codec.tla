------------------------------ MODULE MC_Codec ------------------------------
EXTENDS Codec
Upto17 == 0..17
Upto8 == 0..8
Upto4 == 0..4
Chains6 == 1..6
TagLens3 == 1..3
Nonces3 == 1..3
SmallDomains == {<<>>, <<1>>, <<2>>, <<1, 1>>}
RECURSIVE SeqsUpTo(_, _)
SeqsUpTo(S, n) == IF n = 0 THEN {<<>>} ELSE LET T == SeqsUpTo(S, n - 1) IN T \cup {Append(t, x) : t \in {u \in T : Len(u) = n - 1}, x \in S}
SmallShapes == SeqsUpTo(0..(MaxLabel + 1), 4)
SmallStrings == SeqsUpTo({0, 1, 2}, 6)
\* thorough tier
Upto40 == 0..40
Upto12 == 0..12
Chains12 == 1..12
BigShapes == SeqsUpTo(0..(MaxLabel + 1), 6)
BigStrings == SeqsUpTo(0..3, 7)
=============================================================================
