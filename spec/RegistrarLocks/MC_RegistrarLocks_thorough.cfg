SPECIFICATION Spec
CONSTANTS
  ReqV4 = {"f1"}
  ReqV6 = {"s1"}
  ReqDual = {"d1", "d2"}
  Reloads = {"m1", "m2", "m3"}
  ToB = {"m1", "m3"}
  Protocol = "single"
INVARIANTS TypeOK WholeGeneration ResponseComplete LockBalance MutualExclusion SelectUnderReadLock NoLeakAtEnd
PROPERTIES EventuallyAllDone
CHECK_DEADLOCK TRUE
