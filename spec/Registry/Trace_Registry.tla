--------------------------- MODULE Trace_Registry ---------------------------
(* Stage C (implementation -> spec): validates ndjson traces recorded from the
   real RegisteredDecoys by drivers that do NOT come from the specification.
   One line per locked method call (the method is the critical section), with
   the action's arguments, its result and the projected state after it.
   Several traces are concatenated; a "Reset" line re-initialises. *)
EXTENDS Registry, Json, TLCExt
TraceLog == ndJsonDeserialize("trace.ndjson")
VARIABLE l
tvars == <<vars, l>>

AsSet(x) == {x[i] : i \in DOMAIN x}
StateMatches(e) ==
  /\ AsSet(e.st.reg) = RegProj(reg')
  /\ AsSet(e.st.tmo) = TmoProj(tmo')
  /\ AsSet(e.st.idx) = idx'
ArgsMatch(e, o) ==
  /\ o.a = e.a
  /\ ("p" \in DOMAIN o) => o.p = e.p
  /\ ("t" \in DOMAIN o) => o.t = e.t
  /\ ("s" \in DOMAIN o) => o.s = e.s
  /\ ("d" \in DOMAIN o) => o.d = e.d
  /\ ("stale" \in DOMAIN o) => o.stale = e.stale
  /\ ("announced" \in DOMAIN o) => o.announced = e.announced
  /\ ("expired" \in DOMAIN o) => (o.expired = e.expired /\ o.validExpired = e.validExpired)
  /\ ("found" \in DOMAIN o) => (o.found = AsSet(e.found) /\ o.count = e.count)

TraceInit == Init /\ l = 1
TraceReset == /\ l <= Len(TraceLog) /\ TraceLog[l].a = "Reset"
              /\ reg' = [k \in Keys |-> None] /\ tmo' = [tk \in TKeys |-> None]
              /\ swept' = TRUE /\ idx' = {} /\ obs' = [a |-> "Init"] /\ l' = l + 1
TraceStep == /\ l <= Len(TraceLog) /\ TraceLog[l].a # "Reset"
             /\ l' = l + 1
             /\ LET e == TraceLog[l] IN
                CASE e.a = "Track"      -> Track(<<e.p, e.t, e.s>>)
                  [] e.a = "Register"   -> Register(<<e.p, e.t, e.s>>)
                  [] e.a = "MarkActive" -> MarkActive(<<e.p, e.t, e.s>>)
                  [] e.a = "Lookup"     -> Lookup(e.p)
                  [] e.a = "Tick"       -> Tick(e.d)
                  [] e.a = "Sweep"      -> Sweep
                  [] OTHER              -> FALSE
             /\ ArgsMatch(TraceLog[l], obs')
             /\ StateMatches(TraceLog[l])
TraceNext == TraceReset \/ TraceStep
TraceSpec == TraceInit /\ [][TraceNext]_tvars
TraceView == <<view, l>>
TraceAccepted == TLCGet("stats").diameter - 1 = Len(TraceLog)
\* printed so the driver can tell how far the longest matched prefix got
Reached == PrintT(<<"TRACE_REACHED", TLCGet("stats").diameter - 1>>)
Post == Reached /\ TraceAccepted
=============================================================================
