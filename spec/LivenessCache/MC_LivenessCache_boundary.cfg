SPECIFICATION Spec
CONSTANTS
  Addrs = {"a1", "a2"}
  Caps = {0, 1}
  LiveLife = 50
  NonLiveLife = 30
  MaxAge = 55
  Steps = {26, 30, 32, 44, 50, 54}
  KindRule = "own"
  Bug = "none"
  ExpiryJitter = 0
VIEW view
INVARIANTS TypeOK HitIsFresh HitIsMeasuredVerdict MissProbes Bounded EvictedNeverServed Placement LruInSync NoRejuvenation
PROPERTIES StoredWhereMeasured
CHECK_DEADLOCK FALSE
