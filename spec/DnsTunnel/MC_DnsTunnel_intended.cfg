\* INTENDED: undecryptable responses are skipped; calls time out
SPECIFICATION Spec
CONSTANTS
  Clients = {"c1", "c2"}
  MaxReq = 2
  JunkKinds = {}
  MaxJunk = 0
  MaxDup = 1
  MaxDrop = 1
  MaxClose = 0
  Faults = {"DropQ", "DupQ", "ReplayQ", "DropR", "DupR"}
  StaleMode = "skip"
  KeyCheck = TRUE
  Timeout = TRUE
VIEW view
INVARIANTS TypeOK NoCrossTalk ResultsInOrder OkImpliesProcessed CallbackBound AnsweredOnce ResponsesAccounted NoSpuriousFailure
CHECK_DEADLOCK FALSE
