\* object level, intended variant: every law
SPECIFICATION SpecObj
CONSTANTS
  Conns = {"c1"}
  Kons = {}
  Asns = {"a1"}
  CCs = {"", "US"}
  Variant = "intended"
  Broken = "none"
  MaxLoops = 1
  MaxPrints = 3
  MaxAuth = 0
VIEW view
CONSTRAINT Canon
INVARIANTS TypeOK GaugeExact NoDoubleCount AsnLedger OutcomeSum AsnSumsEpoch QuiescentZero Ledger TotalIsSum AsnSums AsnGaugesNonNeg KonGaugeExact KonLedger
PROPERTIES PrintKeepsGauges
CHECK_DEADLOCK FALSE
