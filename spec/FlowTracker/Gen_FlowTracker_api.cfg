SPECIFICATION GenSpec
CONSTANTS
  FlowInfo <- FlowsApi2
  Keys = {"k1"}
  T = 2
  K = 20
  SessTimeouts = {1, 3}
  TickSteps = {1, 2}
  MaxT = 0
  MaxQ = 3
  MaxLag = 2
  StaleEvent = "kills"
  DropRemoves = TRUE
  DueCmp = "le"
  KeepLonger = TRUE
  Level = "api"
  FlagKinds = {"syn"}
  PayloadKinds = {"none"}
  FrameKinds = {"eth"}
  Depth = 4
INVARIANT Emit
CHECK_DEADLOCK FALSE
