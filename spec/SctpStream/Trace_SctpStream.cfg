SPECIFICATION TraceSpec
CONSTANTS
  M = 65536
  MsgLens <- TMsgLens
  ErrLens <- TErrLens
  ReadSizes <- TReadSizes
  MaxItems = 1000000
  MaxPostErr = 1000000
  Mode = "intended"
  Cap = 64
  BufMode = "fresh"
  RingSize = 1
INVARIANTS StreamFidelity HeartbeatsNeverSurface ReceiveBufferUnreferenced QueueBounded HeldMeansFull ErrorAfterItsData NoSpuriousError PendingMeansEmpty DeferredErrorHasData
POSTCONDITION Post
CHECK_DEADLOCK FALSE
