//go:build verif

package regprocessor

// Conformance drivers for spec/RegistrarLocks (property C13: the registrar keeps answering while its
// phantom-subnet configuration is reloaded).
//
// No production hook is used.  The driver installs, in-package, a wrapping ipSelector that parks the
// calling request goroutine inside every Select - i.e. WHILE processBdReq holds the read lock - until the
// driver releases it (a blocking channel gate = deterministic scheduler).  Reloads are the real
// RegProcessor.ReloadSubnets reading PHANTOM_SUBNET_LOCATION, whose content (subnet file "A" or "B") the
// driver swaps on disk.  The state of the real sync.RWMutex (readerCount / readerWait) is read with atomic
// loads through reflect+unsafe, which tells the driver, without sleeping, when a goroutine has reached the
// point where it blocks.
//
//   TestVerifLocksProbe   identifies the lock protocol the code follows from the readers held at each gate
//                         of one dual-stack request (and, if needed, one run with a pending writer).
//   TestVerifLocksReplay  stage B: every maximal interleaving TLC enumerated (Gen_RegistrarLocks) is forced on
//                         a fresh real RegProcessor; after every quiescent step the projected real state is
//                         compared with the specification's; at the end every request and reload must have
//                         returned and every response must lie in the subnets the specification computed
//                         (file A or file B, in full).  A stall is re-run once with twice the bound; a
//                         reproducible stall is reported with a goroutine dump.
//   TestVerifLocksStress  stage C: UNGATED seeded stress; per-call start/end events for Trace_RegistrarLocks,
//                         plus a heavy run (many requests x many reloads) checked for completion and
//                         whole-generation answers.  Meant to be run with and without -race.

import (
	"crypto/sha256"
	"encoding/binary"
	"encoding/json"
	"fmt"
	"io"
	"math/rand"
	"net"
	"os"
	"path/filepath"
	"reflect"
	"runtime"
	"sort"
	"strings"
	"sync"
	"sync/atomic"
	"testing"
	"time"
	"unsafe"

	zmq "github.com/pebbe/zmq4"
	"github.com/refraction-networking/conjure/pkg/core"
	"github.com/refraction-networking/conjure/pkg/metrics"
	"github.com/refraction-networking/conjure/pkg/phantoms"
	"github.com/refraction-networking/conjure/pkg/transports/wrapping/min"
	pb "github.com/refraction-networking/conjure/proto"
	log "github.com/sirupsen/logrus"
	"google.golang.org/protobuf/proto"
)

// ---------------------------------------------------------------- subnet files A / B

const vlkTomlA = `
[Networks]
    [Networks.1]
        Generation = 1
        [[Networks.1.WeightedSubnets]]
            Weight = 9
            Subnets = ["192.122.190.0/24", "2001:48a8:687f:1::/64"]
`
const vlkTomlB = `
[Networks]
    [Networks.1]
        Generation = 1
        [[Networks.1.WeightedSubnets]]
            Weight = 9
            Subnets = ["141.219.0.0/16", "2001:db8:b::/64"]
`

var vlkNets = map[string][2]*net.IPNet{}

func init() {
	mk := func(s string) *net.IPNet { _, n, _ := net.ParseCIDR(s); return n }
	vlkNets["A"] = [2]*net.IPNet{mk("192.122.190.0/24"), mk("2001:48a8:687f:1::/64")}
	vlkNets["B"] = [2]*net.IPNet{mk("141.219.0.0/16"), mk("2001:db8:b::/64")}
}

// which file's subnets an address lies in: "A", "B", "-" (absent) or "X:<addr>" (outside both)
func vlkClass(ip net.IP, v6 bool) string {
	if ip == nil {
		return "-"
	}
	i := 0
	if v6 {
		i = 1
	}
	for _, g := range []string{"A", "B"} {
		if vlkNets[g][i].Contains(ip) {
			return g
		}
	}
	return "X:" + ip.String()
}

func vlkClassResp(resp *pb.RegistrationResponse) (string, string) {
	v4, v6 := "-", "-"
	if resp.Ipv4Addr != nil {
		b := make(net.IP, 4)
		binary.BigEndian.PutUint32(b, resp.GetIpv4Addr())
		v4 = vlkClass(b, false)
	}
	if resp.Ipv6Addr != nil {
		v6 = vlkClass(net.IP(resp.GetIpv6Addr()), true)
	}
	return v4, v6
}

type vlkFiles struct {
	dir, path string
	n         int
	selA      *phantoms.PhantomIPSelector // parsed file A (read-only), the initial selector of every world
}

func vlkNewFiles(t testing.TB) *vlkFiles {
	base := ""
	if st, err := os.Stat("/dev/shm"); err == nil && st.IsDir() {
		base = "/dev/shm" // tmpfs: the replay swaps the file tens of thousands of times
	}
	dir, err := os.MkdirTemp(base, "verif_c13_")
	if err != nil {
		dir, err = os.MkdirTemp("", "verif_c13_")
	}
	if err != nil {
		t.Fatalf("mkdtemp: %v", err)
	}
	f := &vlkFiles{dir: dir, path: filepath.Join(dir, "phantom_subnets.toml")}
	// "bad": a malformed subnet file (a deployment caught half way through an edit): ReloadSubnets must fail and change nothing
	for n, txt := range map[string]string{"A": vlkTomlA, "B": vlkTomlB, "bad": vlkTomlA[:len(vlkTomlA)/2] + "\n[Networks.oops\n= = ="} {
		if err := os.WriteFile(filepath.Join(dir, "content_"+n+".toml"), []byte(txt), 0o644); err != nil {
			t.Fatalf("write: %v", err)
		}
	}
	f.put("A")
	os.Setenv("PHANTOM_SUBNET_LOCATION", f.path)
	return f
}

// put replaces the subnet file at the configured path atomically (new inode renamed over the old one), as a
// deployment tool would
func (f *vlkFiles) put(which string) {
	if which != "B" && which != "bad" {
		which = "A"
	}
	f.n++
	tmp := filepath.Join(f.dir, fmt.Sprintf("tmp_%d", f.n))
	if err := os.Link(filepath.Join(f.dir, "content_"+which+".toml"), tmp); err != nil {
		panic(err)
	}
	if err := os.Rename(tmp, f.path); err != nil {
		panic(err)
	}
}

func (f *vlkFiles) cleanup() { os.RemoveAll(f.dir) }

// content id of a loaded selector
func vlkSelectorContent(s ipSelector) string {
	for {
		if w, ok := s.(*vlkSel); ok {
			s = w.inner
			continue
		}
		break
	}
	ps, ok := s.(*phantoms.PhantomIPSelector)
	if !ok || ps == nil {
		return "?"
	}
	sc := ps.GetSubnetsByGeneration(1)
	if sc == nil || len(sc.WeightedSubnets) == 0 || len(sc.WeightedSubnets[0].Subnets) == 0 {
		return "?"
	}
	if sc.WeightedSubnets[0].Subnets[0] == "192.122.190.0/24" {
		return "A"
	}
	return "B"
}

// ---------------------------------------------------------------- the real RWMutex, observed

var vlkOffCount, vlkOffWait uintptr
var vlkMutexOK bool

func init() {
	t := reflect.TypeOf(sync.RWMutex{})
	rc, ok1 := t.FieldByName("readerCount")
	rw, ok2 := t.FieldByName("readerWait")
	if !ok1 || !ok2 {
		return
	}
	v1, ok3 := rc.Type.FieldByName("v")
	v2, ok4 := rw.Type.FieldByName("v")
	if !ok3 || !ok4 || v1.Type.Kind() != reflect.Int32 || v2.Type.Kind() != reflect.Int32 {
		return
	}
	vlkOffCount, vlkOffWait = rc.Offset+v1.Offset, rw.Offset+v2.Offset
	vlkMutexOK = true
}

type vlkMu struct {
	Readers int    `json:"readers"` // read locks currently held (that a pending writer still waits for)
	W       string `json:"w"`       // none | waiting | holding
	Blocked int    `json:"blocked"` // RLock calls parked behind the pending writer
}

const vlkMaxReaders = 1 << 30

func vlkMutexState(mu *sync.RWMutex) vlkMu {
	base := unsafe.Pointer(mu)
	// readerWait is read before readerCount: a writer first makes readerCount negative, then publishes readerWait
	wait := atomic.LoadInt32((*int32)(unsafe.Add(base, vlkOffWait)))
	cnt := atomic.LoadInt32((*int32)(unsafe.Add(base, vlkOffCount)))
	if cnt >= 0 {
		return vlkMu{Readers: int(cnt), W: "none"}
	}
	n := int(cnt) + vlkMaxReaders
	if wait > 0 {
		return vlkMu{Readers: int(wait), W: "waiting", Blocked: n - int(wait)}
	}
	return vlkMu{Readers: 0, W: "holding", Blocked: n}
}

// ---------------------------------------------------------------- world

type vlkDiscardSender struct{ n atomic.Int64 }

func (s *vlkDiscardSender) SendBytes(b []byte, f zmq.Flag) (int, error) {
	s.n.Add(1)
	return len(b), nil
}
func (s *vlkDiscardSender) Close() error { return nil }

var vlkMetrics = metrics.NewMetrics(log.NewEntry(func() *log.Logger { l := log.New(); l.SetOutput(io.Discard); return l }()), time.Hour)

type vlkReq struct {
	name, fam string
	c2s       *pb.C2SWrapper
	seed      string
	parked    chan string
	release   chan struct{}
	done      chan struct{}
	started   bool
	at        string // driver's view: idle | <gate> | running | done
	resp      *pb.RegistrationResponse
	err       error
	gates     []map[string]any // probe: mutex state seen at each gate
}

type vlkReload struct {
	name    string
	target  string
	done    chan struct{}
	started bool
	isDone  bool
	err     error
}

type vlkWorld struct {
	p      *RegProcessor
	files  *vlkFiles
	gated  bool
	bySeed map[string]*vlkReq
	reqs   map[string]*vlkReq
	rel    map[string]*vlkReload
	cur    string // content installed, as last seen under the write lock by the driver
	bound  time.Duration

	needRewrap         bool
	reloadUnderReaders int // a ReloadSubnets call returned while read locks were held (must never happen)
}

type vlkSel struct {
	inner ipSelector
	w     *vlkWorld
}

func (s *vlkSel) Select(seed []byte, gen uint, lib uint, v6 bool) (*phantoms.PhantomIP, error) {
	rq := s.w.bySeed[string(seed)]
	f := "v4"
	if v6 {
		f = "v6"
	}
	if rq != nil && s.w.gated {
		rq.park("pre_" + f)
	}
	ip, err := s.inner.Select(seed, gen, lib, v6)
	if rq != nil && s.w.gated {
		rq.park("post_" + f)
	}
	return ip, err
}

func (r *vlkReq) park(g string) {
	r.parked <- g
	<-r.release
}

// requests named u* (dual stack) and w* (v6 only) name a ClientConf generation no subnet file has: their first selection
// fails and processBdReq returns that error from inside the locked region
func vlkFails(name string) bool { return name[0] == 'u' || name[0] == 'w' }

func vlkFamOf(name string) string {
	switch name[0] {
	case 'd', 'u':
		return "dual"
	case 'f':
		return "v4"
	default:
		return "v6"
	}
}

func vlkMkRequest(name string, salt int, gen uint32) (*pb.C2SWrapper, string) {
	fam := vlkFamOf(name)
	h := sha256.Sum256([]byte(fmt.Sprintf("c13-%s-%d-%d", name, salt, vSeed())))
	t := pb.TransportType_Min
	covert := "1.2.3.4:443"
	c2s := &pb.ClientToStation{
		Transport:           &t,
		DecoyListGeneration: proto.Uint32(gen),
		CovertAddress:       &covert,
		V4Support:           proto.Bool(fam == "dual" || fam == "v4"),
		V6Support:           proto.Bool(fam == "dual" || fam == "v6"),
		ClientLibVersion:    proto.Uint32(core.CurrentClientLibraryVersion()),
	}
	keys, err := core.GenSharedKeys(uint(core.CurrentClientLibraryVersion()), h[:], t)
	if err != nil {
		panic(err)
	}
	return &pb.C2SWrapper{SharedSecret: h[:], RegistrationPayload: c2s}, string(keys.ConjureSeed)
}

func vlkNewWorld(t testing.TB, files *vlkFiles, gated bool, reqNames, relNames []string, targets map[string]string, salt int) *vlkWorld {
	files.put("A")
	if files.selA == nil {
		selA, err := phantoms.GetPhantomSubnetSelector()
		if err != nil {
			t.Fatalf("load A: %v", err)
		}
		files.selA = selA
	}
	selA := files.selA
	w := &vlkWorld{files: files, gated: gated, bySeed: map[string]*vlkReq{}, reqs: map[string]*vlkReq{},
		rel: map[string]*vlkReload{}, cur: "A", bound: time.Duration(vEnvInt("VERIF_BOUND_MS", 2000)) * time.Millisecond}
	w.p = &RegProcessor{sock: &vlkDiscardSender{}, metrics: vlkMetrics, authenticated: false, regOverrides: nil}
	w.p.ipSelector = &vlkSel{inner: selA, w: w}
	if err := w.p.AddTransport(pb.TransportType_Min, min.Transport{}); err != nil {
		t.Fatal(err)
	}
	for _, n := range reqNames {
		gen := uint32(1)
		if vlkFails(n) {
			gen = 7
		}
		c2s, seed := vlkMkRequest(n, salt, gen)
		rq := &vlkReq{name: n, fam: vlkFamOf(n), c2s: c2s, seed: seed, parked: make(chan string, 8),
			release: make(chan struct{}), done: make(chan struct{}), at: "idle"}
		w.reqs[n] = rq
		w.bySeed[seed] = rq
	}
	for _, n := range relNames {
		w.rel[n] = &vlkReload{name: n, target: targets[n], done: make(chan struct{})}
	}
	return w
}

func (w *vlkWorld) startReq(rq *vlkReq) {
	rq.started = true
	rq.at = "running"
	go func() {
		rq.resp, rq.err = w.p.RegisterBidirectional(rq.c2s, pb.RegistrationSource_BidirectionalAPI, net.ParseIP("198.51.100.7").To16())
		close(rq.done)
	}()
}

func (w *vlkWorld) startReload(m *vlkReload) {
	m.started = true
	w.files.put(m.target)
	go func() {
		m.err = w.p.ReloadSubnets()
		close(m.done)
	}()
}

// rewrap puts the gating selector back around whatever ReloadSubnets installed and notes its content.  A reload can
// only have returned when no request was inside a selection (it needs the write lock), so the lock is free or about to
// be; TryLock keeps the driver itself from blocking if the code under test breaks that rule - which is recorded.
func (w *vlkWorld) rewrap() bool {
	if !w.p.selectorMutex.TryLock() {
		if vlkMutexState(&w.p.selectorMutex).Readers > 0 {
			w.reloadUnderReaders++
		}
		return false
	}
	if _, ok := w.p.ipSelector.(*vlkSel); !ok {
		w.p.ipSelector = &vlkSel{inner: w.p.ipSelector, w: w}
	}
	w.cur = vlkSelectorContent(w.p.ipSelector)
	w.p.selectorMutex.Unlock()
	return true
}

// poll drains whatever the goroutines have signalled so far (non-blocking) and updates the driver's view
func (w *vlkWorld) poll() {
	for _, rq := range w.reqs {
		if !rq.started || rq.at == "done" {
			continue
		}
		select {
		case g := <-rq.parked:
			rq.at = g
		default:
		}
		if rq.at == "running" {
			select {
			case <-rq.done:
				rq.at = "done"
			default:
			}
		}
	}
	for _, m := range w.rel {
		if m.started && !m.isDone {
			select {
			case <-m.done:
				m.isDone = true
				w.needRewrap = true
			default:
			}
		}
	}
	if w.needRewrap && w.rewrap() {
		w.needRewrap = false
	}
}

func (w *vlkWorld) releaseReq(rq *vlkReq) {
	rq.at = "running"
	rq.release <- struct{}{}
}

type vlkProj struct {
	Readers int               `json:"readers"`
	W       string            `json:"w"`
	Blocked int               `json:"blocked"`
	Cur     string            `json:"cur"`
	At      map[string]string `json:"at"`
	Mdone   map[string]bool   `json:"mdone"`
}

func (w *vlkWorld) project() vlkProj {
	w.poll()
	ms := vlkMutexState(&w.p.selectorMutex)
	pr := vlkProj{Readers: ms.Readers, W: ms.W, Blocked: ms.Blocked, Cur: w.cur, At: map[string]string{}, Mdone: map[string]bool{}}
	for n, rq := range w.reqs {
		pr.At[n] = rq.at
	}
	for n, m := range w.rel {
		pr.Mdone[n] = m.isDone
	}
	return pr
}

// await polls until cond holds or the bound expires
func (w *vlkWorld) await(bound time.Duration, cond func(pr vlkProj) bool) (vlkProj, bool) {
	t0 := time.Now()
	i := 0
	for {
		pr := w.project()
		if cond(pr) {
			return pr, true
		}
		if time.Since(t0) > bound {
			return pr, false
		}
		i++
		if i < 2000 {
			runtime.Gosched()
		} else {
			time.Sleep(50 * time.Microsecond)
		}
	}
}

func vlkStacks() string {
	buf := make([]byte, 1<<20)
	n := runtime.Stack(buf, true)
	var keep []string
	for _, g := range strings.Split(string(buf[:n]), "\n\n") {
		if strings.Contains(g, "regprocessor") && (strings.Contains(g, "RWMutex") || strings.Contains(g, "vlkReq") || strings.Contains(g, "processBdReq") || strings.Contains(g, "ReloadSubnets")) {
			lines := strings.Split(g, "\n")
			if len(lines) > 14 {
				lines = lines[:14]
			}
			keep = append(keep, strings.Join(lines, "\n"))
		}
	}
	if len(keep) > 8 {
		keep = keep[:8]
	}
	return strings.Join(keep, "\n\n")
}

// ---------------------------------------------------------------- behaviours

type vlkSt struct {
	Readers int               `json:"readers"`
	W       string            `json:"w"`
	Cur     string            `json:"cur"`
	At      map[string]string `json:"at"`
	Mdone   map[string]bool   `json:"mdone"`
}
type vlkStep struct {
	A  string `json:"a"`
	P  string `json:"p"`
	F  string `json:"f"`
	Q  bool   `json:"q"`
	St vlkSt  `json:"st"`
}
type vlkBeh struct {
	Term  string                       `json:"term"`
	Whole bool                         `json:"whole"`
	Resp  map[string]map[string]string `json:"resp"`
	Steps []vlkStep                    `json:"steps"`
}

// vlkMatch compares the projected real state with the specification's.  escaped = requests that woke up from a
// blocked RLock right after a reload returned: they run on the freshly installed (not yet re-wrapped) selector and so
// pass no gate any more; their position and the reader count are then not comparable step by step (their answers
// still are, at the end).
func vlkMatch(pr vlkProj, st vlkSt, escaped map[string]bool) []string {
	var d []string
	if pr.Readers != st.Readers && len(escaped) == 0 {
		d = append(d, "readers")
	}
	if pr.W != st.W {
		d = append(d, "w")
	}
	if pr.Cur != st.Cur {
		d = append(d, "cur")
	}
	for r, a := range st.At {
		got := pr.At[r]
		if a == "between" {
			a = "running"
		}
		if got != a && !escaped[r] {
			d = append(d, "at."+r)
		}
	}
	for m, v := range st.Mdone {
		if pr.Mdone[m] != v {
			d = append(d, "mdone."+m)
		}
	}
	return d
}

type vlkOutcome struct {
	Kind               string            `json:"kind"` // ok | stall | deadlock | diverge
	Step               int               `json:"step"`
	Diff               []string          `json:"diff,omitempty"`
	Want               any               `json:"want,omitempty"`
	Got                any               `json:"got,omitempty"`
	Resp               map[string]string `json:"resp,omitempty"` // request -> "v4/v6" class
	Errs               map[string]string `json:"errs,omitempty"`
	Stacks             string            `json:"stacks,omitempty"`
	Ungated            int               `json:"ungated,omitempty"`
	Tolerant           bool              `json:"tolerant,omitempty"`
	ReloadUnderReaders int               `json:"reload_under_readers,omitempty"`
	Sched              []string          `json:"sched,omitempty"`
	Released           int               `json:"-"`
}

func vlkSched(b *vlkBeh, upto int) []string {
	var s []string
	for i, st := range b.Steps {
		if i > upto {
			break
		}
		x := st.A + "(" + st.P
		if st.F != "-" {
			x += "," + st.F
		}
		s = append(s, x+")")
	}
	return s
}

// runBehaviour forces one TLC behaviour on a fresh real RegProcessor
func vlkRunBehaviour(t testing.TB, files *vlkFiles, b *vlkBeh, salt int, boundMul int, fullStall bool) vlkOutcome {
	var reqNames, relNames []string
	targets := map[string]string{}
	for r := range b.Resp {
		reqNames = append(reqNames, r)
	}
	for _, st := range b.Steps {
		if st.A == "Load" {
			relNames = append(relNames, st.P)
			targets[st.P] = st.F
		}
	}
	if len(b.Steps) > 0 {
		for m := range b.Steps[0].St.Mdone {
			if _, ok := targets[m]; !ok {
				relNames = append(relNames, m)
				targets[m] = "A"
			}
		}
	}
	w := vlkNewWorld(t, files, true, reqNames, relNames, targets, salt)
	bound := w.bound * time.Duration(boundMul)
	out := vlkOutcome{Kind: "ok", Step: -1}
	escaped := map[string]bool{}
	fail := func(kind string, i int, want any, got vlkProj, diff []string) vlkOutcome {
		out.Kind, out.Step, out.Want, out.Got, out.Diff = kind, i, want, got, diff
		out.ReloadUnderReaders = w.reloadUnderReaders
		out.Stacks = vlkStacks()
		out.Sched = vlkSched(b, i)
		return out
	}
	for i, st := range b.Steps {
		switch st.A {
		case "RLock":
			rq := w.reqs[st.P]
			w.poll()
			if !rq.started {
				w.startReq(rq)
			} else if strings.HasPrefix(rq.at, "post_") {
				w.releaseReq(rq)
			}
		case "Select":
			rq := w.reqs[st.P]
			w.poll()
			if rq.at == "pre_"+st.F {
				w.releaseReq(rq)
			} else {
				out.Ungated++
			}
			if strings.HasPrefix(st.St.At[st.P], "pre_") {
				// "single": another selection follows under the same read lock; nothing happens between the
				// gate after this selection and the gate before the next one, so move on to the latter
				if pr, ok := w.await(bound, func(pr vlkProj) bool { return pr.At[st.P] != "running" }); !ok {
					return fail("stall", i, st.St, pr, []string{"at." + st.P})
				}
				if rq.at == "post_"+st.F {
					w.releaseReq(rq)
				}
			}
		case "RUnlock":
			rq := w.reqs[st.P]
			w.poll()
			if strings.HasPrefix(rq.at, "post_") {
				w.releaseReq(rq)
			} else {
				out.Ungated++
			}
		case "Load":
			w.startReload(w.rel[st.P])
		}
		if !st.Q {
			continue
		}
		if out.Tolerant {
			// give the released goroutine the chance to reach its next gate, then go on
			w.await(5*time.Millisecond, func(pr vlkProj) bool { return len(vlkMatch(pr, st.St, escaped)) == 0 })
			continue
		}
		// a request that was blocked in RLock when a reload returned escapes the gates (see vlkMatch)
		escapes := func(pr vlkProj) []string {
			anyReload := false
			for _, dn := range pr.Mdone {
				anyReload = anyReload || dn
			}
			var es []string
			for r, a := range st.St.At {
				if anyReload && pr.At[r] == "done" && (strings.HasPrefix(a, "pre_") || strings.HasPrefix(a, "post_")) && !escaped[r] {
					es = append(es, r)
				}
			}
			return es
		}
		pr, ok := w.await(bound, func(pr vlkProj) bool { return len(vlkMatch(pr, st.St, escaped)) == 0 || len(escapes(pr)) > 0 })
		if ok && len(vlkMatch(pr, st.St, escaped)) != 0 {
			ok = false
		}
		if !ok {
			for _, r := range escapes(pr) {
				escaped[r] = true
				out.Ungated++
			}
			if len(escaped) > 0 {
				// from here on the real run is no longer the specification's behaviour step by step (the escaped
				// request does not hold the lock where the behaviour says it does): keep driving, check the outcome
				out.Tolerant = true
				continue
			}
			// did something simply not arrive (stall) or did the code do something else (diverge)?
			diff := vlkMatch(pr, st.St, escaped)
			kind := "diverge"
			for r, a := range st.St.At {
				if pr.At[r] == "running" && a != "between" {
					kind = "stall"
				}
			}
			for m, v := range st.St.Mdone {
				if v && !pr.Mdone[m] {
					kind = "stall"
				}
			}
			return fail(kind, i, st.St, pr, diff)
		}
	}
	last := len(b.Steps) - 1
	if b.Term == "stuck" {
		// the specification says nothing can move any more: let everything go and look at the real code
		w.poll()
		nblocked := 0
		for _, rq := range w.reqs {
			if !rq.started {
				w.startReq(rq)
				nblocked++
			} else if rq.at != "done" {
				if rq.at != "running" {
					w.releaseReq(rq)
				}
				nblocked++
			}
		}
		// structural deadlock: a writer is pending, it waits for read locks whose holders are all themselves
		// blocked in RLock behind it
		pr, ok := w.await(bound, func(pr vlkProj) bool {
			run := 0
			for _, a := range pr.At {
				if a == "running" {
					run++
				}
			}
			return pr.W == "waiting" && pr.Blocked == nblocked && run == nblocked
		})
		if !ok {
			alldone := true
			for _, a := range pr.At {
				alldone = alldone && a == "done"
			}
			if alldone {
				// the real code escaped the deadlock the as-implemented model predicts
				out.Kind = "escaped"
				out.Step = last
				out.Got = pr
				return out
			}
			return fail("diverge", last, "deadlock", pr, []string{"stuck"})
		}
		wait := 30 * time.Millisecond
		if fullStall {
			wait = bound
		}
		time.Sleep(wait)
		pr2 := w.project()
		if !reflect.DeepEqual(pr, pr2) {
			return fail("diverge", last, pr, pr2, []string{"stuck-moved"})
		}
		o := fail("deadlock", last, nil, pr2, nil)
		if !fullStall {
			o.Stacks = ""
		}
		return o
	}
	// everything must have returned; the lock must be free
	if out.Tolerant {
		for k := 0; k < 8; k++ {
			w.poll()
			for _, rq := range w.reqs {
				if !rq.started {
					w.startReq(rq)
				} else if strings.HasPrefix(rq.at, "pre_") || strings.HasPrefix(rq.at, "post_") {
					w.releaseReq(rq)
				}
			}
			for _, m := range w.rel {
				if !m.started {
					w.startReload(m)
				}
			}
			w.await(2*time.Millisecond, func(pr vlkProj) bool { return false })
		}
	}
	pr, ok := w.await(bound, func(pr vlkProj) bool {
		for _, a := range pr.At {
			if a != "done" {
				return false
			}
		}
		for _, d := range pr.Mdone {
			if !d {
				return false
			}
		}
		return pr.Readers == 0 && pr.W == "none"
	})
	if !ok {
		return fail("stall", last, "all done", pr, []string{"completion"})
	}
	out.Resp = map[string]string{}
	out.Errs = map[string]string{}
	for n, rq := range w.reqs {
		if vlkFails(n) {
			if rq.err == nil {
				out.Errs[n] = "a request naming an unknown generation returned no error"
			}
			out.Resp[n] = "-/-"
			continue
		}
		if rq.err != nil || rq.resp == nil {
			out.Errs[n] = fmt.Sprint(rq.err)
			continue
		}
		v4, v6 := vlkClassResp(rq.resp)
		out.Resp[n] = v4 + "/" + v6
	}
	for n, m := range w.rel {
		if m.target == "bad" {
			if m.err == nil {
				out.Errs[n] = "reload from a malformed file returned no error"
			}
		} else if m.err != nil {
			out.Errs[n] = fmt.Sprint(m.err)
		}
	}
	if !w.p.selectorMutex.TryLock() {
		return fail("diverge", last, "lock free", pr, []string{"trylock"})
	}
	w.p.selectorMutex.Unlock()
	return out
}

func TestVerifLocksReplay(t *testing.T) {
	if !vlkMutexOK {
		t.Fatalf("sync.RWMutex layout not recognised (readerCount/readerWait)")
	}
	out := vOpenOut(t)
	defer out.Close()
	files := vlkNewFiles(t)
	defer files.cleanup()
	maxStuck := vEnvInt("VERIF_MAX_STUCK", 400)
	maxBad := vEnvInt("VERIF_MAX_BAD", 3)
	budget := time.Duration(vEnvInt("VERIF_REPLAY_BUDGET_S", 1500)) * time.Second
	t0 := time.Now()
	n, steps, nstuck, nskipped, nbad, nfull := 0, 0, 0, 0, 0, 0
	classes := map[string]int{}
	vReadLines(t, func(line []byte) {
		var b vlkBeh
		if err := json.Unmarshal(line, &b); err != nil {
			t.Fatalf("bad behaviour: %v", err)
		}
		if nbad >= maxBad || time.Since(t0) > budget {
			nskipped++
			return
		}
		if b.Term == "stuck" {
			if nstuck >= maxStuck {
				nskipped++
				return
			}
			nstuck++
		}
		n++
		steps += len(b.Steps)
		full := b.Term == "stuck" && nfull < 2
		o := vlkRunBehaviour(t, files, &b, n, 1, full)
		if o.Kind == "stall" || o.Kind == "diverge" {
			// re-run once on a fresh object with twice the bound: only reproducible outcomes are reported
			o2 := vlkRunBehaviour(t, files, &b, n+1000000, 2, false)
			if o2.Kind != o.Kind {
				out.Emit(map[string]any{"kind": "flaky", "idx": n, "first": o.Kind, "second": o2.Kind, "step": o.Step, "diff": o.Diff})
				o = o2
			} else {
				o = o2
				nbad++
			}
		}
		if full && o.Kind == "deadlock" {
			nfull++
		}
		classes[o.Kind]++
		switch o.Kind {
		case "ok":
			// compare every response with what the specification computed
			bad := []string{}
			for r, want := range b.Resp {
				w := want["v4"] + "/" + want["v6"]
				if o.Resp[r] != w && !o.Tolerant {
					bad = append(bad, fmt.Sprintf("%s: got %s%s want %s", r, o.Resp[r], o.Errs[r], w))
				}
			}
			sort.Strings(bad)
			mixed := []string{}
			for r, c := range o.Resp {
				p := strings.Split(c, "/")
				if strings.HasPrefix(p[0], "X") || strings.HasPrefix(p[1], "X") || (p[0] != "-" && p[1] != "-" && p[0] != p[1]) {
					mixed = append(mixed, r+"="+c)
				}
			}
			sort.Strings(mixed)
			if len(bad) > 0 || len(mixed) > 0 || len(o.Errs) > 0 {
				classes["response"]++
			}
			if (len(bad) > 0 || len(mixed) > 0 || len(o.Errs) > 0) && classes["response"] <= 25 {
				out.Emit(map[string]any{"kind": "response", "idx": n, "bad": bad, "mixed": mixed, "errs": o.Errs, "resp": o.Resp,
					"spec_whole": b.Whole, "sched": vlkSched(&b, len(b.Steps))})
			}
		case "deadlock":
			if o.Stacks != "" || classes["deadlock"] <= 3 {
				out.Emit(map[string]any{"kind": "deadlock", "idx": n, "got": o.Got, "stacks": o.Stacks, "sched": o.Sched, "spec_term": b.Term})
			}
		default:
			out.Emit(map[string]any{"kind": o.Kind, "idx": n, "step": o.Step, "diff": o.Diff, "want": o.Want, "got": o.Got,
				"stacks": o.Stacks, "sched": o.Sched, "spec_term": b.Term, "reload_under_readers": o.ReloadUnderReaders})
		}
	})
	out.Emit(map[string]any{"kind": "summary", "behaviours": n, "steps": steps, "stuck_replayed": nstuck, "skipped": nskipped,
		"classes": classes})
}

// ---------------------------------------------------------------- protocol identification

func TestVerifLocksProbe(t *testing.T) {
	if !vlkMutexOK {
		t.Fatalf("sync.RWMutex layout not recognised (readerCount/readerWait)")
	}
	out := vOpenOut(t)
	defer out.Close()
	files := vlkNewFiles(t)
	defer files.cleanup()

	// probe 1: one dual-stack request, no writer: read locks held at each gate
	w := vlkNewWorld(t, files, true, []string{"d1"}, nil, nil, 1)
	rq := w.reqs["d1"]
	w.startReq(rq)
	var seen []map[string]any
	for {
		pr, ok := w.await(w.bound, func(pr vlkProj) bool { return pr.At["d1"] != "running" })
		if !ok {
			out.Emit(map[string]any{"kind": "probe1", "error": "request did not reach a gate", "got": pr})
			return
		}
		if pr.At["d1"] == "done" {
			break
		}
		seen = append(seen, map[string]any{"gate": pr.At["d1"], "readers": pr.Readers})
		w.releaseReq(rq)
	}
	after := vlkMutexState(&w.p.selectorMutex)
	out.Emit(map[string]any{"kind": "probe1", "gates": seen, "readers_after": after.Readers, "err": fmt.Sprint(rq.err)})

	nested := false
	for _, g := range seen {
		if g["readers"].(int) > 1 {
			nested = true
		}
	}
	if nested {
		return
	}
	// probe 2: a reload arrives while the request is parked after its IPv4 selection
	w = vlkNewWorld(t, files, true, []string{"d1"}, []string{"m1"}, map[string]string{"m1": "B"}, 2)
	rq = w.reqs["d1"]
	w.startReq(rq)
	step := func(want string) bool {
		pr, ok := w.await(w.bound, func(pr vlkProj) bool { return pr.At["d1"] == want })
		if !ok {
			out.Emit(map[string]any{"kind": "probe2", "error": "request did not reach " + want, "got": pr})
		}
		return ok
	}
	if !step("pre_v4") {
		return
	}
	w.releaseReq(rq)
	if !step("post_v4") {
		return
	}
	heldAtPost := vlkMutexState(&w.p.selectorMutex).Readers
	w.startReload(w.rel["m1"])
	pr, _ := w.await(w.bound, func(pr vlkProj) bool { return pr.W != "none" || pr.Mdone["m1"] })
	reloadBlocked := !pr.Mdone["m1"]
	w.releaseReq(rq)
	pr, ok := w.await(w.bound, func(pr vlkProj) bool { return pr.At["d1"] != "running" })
	res := map[string]any{"kind": "probe2", "held_at_post_v4": heldAtPost, "reload_waited_for_reader": reloadBlocked,
		"reload_returned_under_readers": w.reloadUnderReaders > 0,
		"reached":                       pr.At["d1"], "reload_done_when_reached": pr.Mdone["m1"], "readers": pr.Readers, "w": pr.W, "stalled": !ok}
	out.Emit(res)
	if ok {
		// let it finish
		for pr.At["d1"] != "done" {
			w.releaseReq(rq)
			pr, ok = w.await(w.bound, func(pr vlkProj) bool { return pr.At["d1"] != "running" })
			if !ok {
				break
			}
		}
		w.await(w.bound, func(pr vlkProj) bool { return pr.Mdone["m1"] })
	}
}

// ---------------------------------------------------------------- ungated stress (stage C)

type vlkLog struct {
	mu  sync.Mutex
	evs []map[string]any
}

func (l *vlkLog) add(e map[string]any) {
	l.mu.Lock()
	l.evs = append(l.evs, e)
	l.mu.Unlock()
}

func vlkWaitAll(wg *sync.WaitGroup, d time.Duration) bool {
	ch := make(chan struct{})
	go func() { wg.Wait(); close(ch) }()
	select {
	case <-ch:
		return true
	case <-time.After(d):
		return false
	}
}

func TestVerifLocksStress(t *testing.T) {
	out := vOpenOut(t)
	defer out.Close()
	files := vlkNewFiles(t)
	defer files.cleanup()
	rng := rand.New(rand.NewSource(vSeed()))
	rounds := vEnvInt("VERIF_ROUNDS", 40)
	stallBound := time.Duration(vEnvInt("VERIF_STRESS_BOUND_MS", 15000)) * time.Millisecond
	reqNames := []string{"d1", "d2", "f1", "s1"}
	relNames := []string{"m1", "m2", "m3", "m4"}
	targets := map[string]string{"m1": "B", "m2": "bad", "m3": "A", "m4": "B"}

	// ---- traced rounds: one call per request process, three sequential reloads
	for round := 0; round < rounds; round++ {
		w := vlkNewWorld(t, files, false, reqNames, relNames, targets, 5000+round)
		lg := &vlkLog{}
		lg.add(map[string]any{"a": "Reset"})
		var wg sync.WaitGroup
		start := make(chan struct{})
		nrel := 1 + rng.Intn(4)
		for _, n := range reqNames {
			rq := w.reqs[n]
			delay := time.Duration(rng.Intn(400)) * time.Microsecond
			wg.Add(1)
			go func() {
				defer wg.Done()
				<-start
				time.Sleep(delay)
				lg.add(map[string]any{"a": "ReqStart", "p": rq.name})
				resp, err := w.p.RegisterBidirectional(rq.c2s, pb.RegistrationSource_BidirectionalAPI, net.ParseIP("198.51.100.7").To16())
				v4, v6 := "E", "E"
				if err == nil && resp != nil {
					v4, v6 = vlkClassResp(resp)
				}
				lg.add(map[string]any{"a": "ReqEnd", "p": rq.name, "v4": v4, "v6": v6, "err": fmt.Sprint(err)})
			}()
		}
		delays := []time.Duration{}
		for i := 0; i < nrel; i++ {
			delays = append(delays, time.Duration(rng.Intn(250))*time.Microsecond)
		}
		wg.Add(1)
		go func() {
			defer wg.Done()
			<-start
			for i := 0; i < nrel; i++ {
				time.Sleep(delays[i])
				m := relNames[i]
				files.put(targets[m])
				lg.add(map[string]any{"a": "ReloadStart", "p": m, "t": targets[m]})
				err := w.p.ReloadSubnets()
				lg.add(map[string]any{"a": "ReloadEnd", "p": m, "failed": err != nil, "err": fmt.Sprint(err)})
			}
		}()
		close(start)
		if !vlkWaitAll(&wg, stallBound) {
			lg.mu.Lock()
			out.Emit(map[string]any{"kind": "stall", "mode": "traced", "round": round, "events": lg.evs, "stacks": vlkStacks(),
				"mutex": vlkMutexState(&w.p.selectorMutex)})
			lg.mu.Unlock()
			out.Emit(map[string]any{"kind": "summary", "rounds": round, "aborted": true})
			return
		}
		ms := vlkMutexState(&w.p.selectorMutex)
		out.Emit(map[string]any{"kind": "trace", "round": round, "events": lg.evs, "lock_free": ms.Readers == 0 && ms.W == "none"})
	}

	// ---- heavy run: many calls per goroutine (some failing: unknown generation), many reloads
	workers := vEnvInt("VERIF_WORKERS", 8)
	per := vEnvInt("VERIF_PER_WORKER", 300)
	nreload := vEnvInt("VERIF_RELOADS", 60)
	w := vlkNewWorld(t, files, false, nil, nil, nil, 0)
	var wg sync.WaitGroup
	var nOK, nErr, nMixed, nOutside atomic.Int64
	var firstBad atomic.Value
	stop := make(chan struct{})
	for g := 0; g < workers; g++ {
		g := g
		wg.Add(1)
		go func() {
			defer wg.Done()
			fams := []string{"d", "d", "f", "s"}
			for i := 0; i < per; i++ {
				name := fmt.Sprintf("%s%d", fams[(g+i)%4], 1)
				gen := uint32(1)
				if (g*per+i)%17 == 5 {
					gen = 4242 // unknown generation: the selection fails, the call must still release the lock
				}
				c2s, _ := vlkMkRequest(name, 100000+g*per+i, gen)
				resp, err := w.p.RegisterBidirectional(c2s, pb.RegistrationSource_BidirectionalAPI, net.ParseIP("198.51.100.7").To16())
				if err != nil {
					nErr.Add(1)
					if gen == 1 {
						firstBad.CompareAndSwap(nil, "unexpected error: "+err.Error())
					}
					continue
				}
				nOK.Add(1)
				v4, v6 := vlkClassResp(resp)
				if strings.HasPrefix(v4, "X") || strings.HasPrefix(v6, "X") {
					nOutside.Add(1)
					firstBad.CompareAndSwap(nil, "outside: "+v4+"/"+v6)
				} else if v4 != "-" && v6 != "-" && v4 != v6 {
					nMixed.Add(1)
					firstBad.CompareAndSwap(nil, "mixed: "+v4+"/"+v6)
				}
			}
		}()
	}
	var relErr atomic.Value
	var nrelDone atomic.Int64
	wg.Add(1)
	go func() {
		defer wg.Done()
		for i := 0; i < nreload; i++ {
			select {
			case <-stop:
				return
			default:
			}
			bad := i%5 == 3 // every fifth reload finds a malformed file: it must fail and change nothing
			if bad {
				files.put("bad")
			} else if i%2 == 0 {
				files.put("B")
			} else {
				files.put("A")
			}
			if err := w.p.ReloadSubnets(); err != nil && !bad {
				relErr.CompareAndSwap(nil, err.Error())
			} else if err == nil && bad {
				relErr.CompareAndSwap(nil, "reload from a malformed file returned no error")
			}
			nrelDone.Add(1)
			time.Sleep(time.Duration(50+i%7*40) * time.Microsecond)
		}
	}()
	if !vlkWaitAll(&wg, stallBound) {
		out.Emit(map[string]any{"kind": "stall", "mode": "heavy", "ok": nOK.Load(), "reloads_done": nrelDone.Load(), "stacks": vlkStacks(),
			"mutex": vlkMutexState(&w.p.selectorMutex)})
		out.Emit(map[string]any{"kind": "summary", "rounds": rounds, "aborted": true})
		return
	}
	close(stop)
	ms := vlkMutexState(&w.p.selectorMutex)
	out.Emit(map[string]any{"kind": "heavy", "ok": nOK.Load(), "err": nErr.Load(), "mixed": nMixed.Load(), "outside": nOutside.Load(),
		"reloads": nrelDone.Load(), "first_bad": firstBad.Load(), "reload_err": relErr.Load(), "lock_free": ms.Readers == 0 && ms.W == "none"})
	out.Emit(map[string]any{"kind": "summary", "rounds": rounds, "aborted": false})
}
