\* the code as found: the laws that hold for it
SPECIFICATION Spec
CONSTANTS
  Regs = {"r1"}
  Srcs = {"detector", "api"}
  RFams = {"v4"}
  Gens = {"g1"}
  TTs = {"min"}
  LVs = {"l1"}
  Variant = "as_found"
  Broken = "none"
  MapWindow = TRUE
  MaxPrints = 3
  MaxFree = 1
VIEW view
CONSTRAINT Canon
INVARIANTS TypeOK ActiveExact TotalsExact Breakdowns NoDoubleCount
PROPERTIES PrintKeepsGauges
CHECK_DEADLOCK FALSE
