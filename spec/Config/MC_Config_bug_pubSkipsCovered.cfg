SPECIFICATION Spec
CONSTANTS
  LD = {"unset", "valid", "bad"}
  LC = {"unset"}
  ND = {"unset", "valid"}
  NC = {"unset"}
  CBS = {"unset", "A", "ws", "bad", "badfirst"}
  CAS = {"unset", "A", "ws", "bad", "badfirst", "badonly"}
  CBD = {"unset", "A", "bad", "badfirst"}
  PBL = {"unset", "A", "ws", "bad", "badfirst"}
  GEO = {"unset"}
  WK = {"unset"}
  PUB = {"unset"}
  FK = {"ok", "syntax", "wrongtype", "unreadable"}
  SF = {"S1", "malformed", "missing", "badgen"}
  RCBS = {"unset", "A", "B", "ws", "bad", "badfirst"}
  RCAS = {"unset", "A", "bad", "badfirst", "badonly"}
  RCBD = {"unset", "A", "B", "bad", "badfirst"}
  RPBL = {"unset", "A", "bad", "badfirst"}
  RGEO = {"unset", "missing"}
  RPUB = {"unset", "true"}
  RFK = {"ok", "syntax", "wrongtype", "unreadable"}
  RSF = {"S1", "S2", "malformed", "missing", "badgen"}
  WithShipped = TRUE
  Defects = {"pubSkipsCovered"}
VIEW view
INVARIANTS TypeOK NoCrash HousekeepingTotal AcceptedMeansEnforced NothingExtra
PROPERTIES BadReloadChangesNothing
CHECK_DEADLOCK FALSE
