"""C17 - client addresses never reach the station's logs / statistics unless LOG_CLIENT_IP is on.

A  TLC exhaustive on spec/LogTaint: taint flow of the client endpoint from the error an I/O call returns (site x error
   kind x wrapping x family x LOG_CLIENT_IP) through the sanitiser (generalizeErr as a function on kinds) to the
   site's sink (log line at a level, tunnel-statistics string, nothing), plus the registrant field through the ingest
   log sites.  Invariants NoTaintAtSink, NeverRaw, SentinelsStable on the intended instance; the as-implemented
   instance (sanitiser = identity outside its list, raw SetDeadline logs, ingest drop log printing the registrant)
   must violate NoTaintAtSink.
B  every case of the table is replayed on the real code:
   * package main: the real handleNewTCPConn with a scripted connection whose RemoteAddr is 203.0.113.77:40077 /
     [2001:db8:77::77]:40077 / [::ffff:203.0.113.77]:40077, failing at exactly the case's call with a realistically
     built error; the "found" cases go on through the real min transport into the real Proxy (relay sites) with a
     loopback covert.  os.Stdout, the std logger and every Logger are captured per connection.
   * package lib: relay sites on the real Proxy (scripted client connection), the dial-error path, registration
     digest / expiry record with the registrant set, statistics printers, and ingestRegistration branch by branch.
   Every capture is searched for every textual form of the address (dotted, v4-mapped, hex, decimal, compressed and
   expanded v6).  With LOG_CLIENT_IP on the address must appear wherever an Error-level line is certain
   (non-vacuity of the detector); a canary line per address form must be flagged.
"""
import json, os, collections
import vlib

LISTED = {"closed", "EOF", "EPIPE", "RST", "REFUSED", "ABORTED", "HOSTUNREACH"}
TIMEOUTS = {"timeout", "ETIMEDOUT"}
CLASS_SITES = {"noreg.Read", "notransport.Read", "loop.Read", "init.SetDeadline", "found.SetDeadline", "relay.Read", "relay.ReadFull",
               "relay.Write", "dial"}


def kclass(k):
    return "listed" if k in LISTED else "timeout" if k in TIMEOUTS else "registrant" if k == "registrant" else "unlisted"


def gen_cases(ctx, sdir, cfg):
    g = ctx.tlc(sdir, "Gen_LogTaint.tla", cfg, timeout=600, workers=4, count=False)
    if g["inv"]:
        raise vlib.InfraError("generator failed: %s" % g["out"][-2000:])
    seen, cases = set(), []
    with open(g["beh_file"]) as f:
        for line in f:
            if line not in seen:
                seen.add(line)
                cases.append(json.loads(line))
    return cases


def run(ctx):
    thorough = ctx.tier == "thorough"
    sdir = ctx.spec_copy("LogTaint")

    # ---- A
    r = ctx.tlc(sdir, "LogTaint.tla", "MC_LogTaint.cfg", timeout=600)
    ctx.require_design_ok(r, "LogTaint, intended instance")
    if r["distinct"] < 5000:
        raise vlib.InfraError("LogTaint state space implausibly small (%d)" % r["distinct"])
    r2 = ctx.tlc(sdir, "LogTaint.tla", "MC_LogTaint_asimpl.cfg", timeout=300, count=False)
    if r2["inv"] != "NoTaintAtSink":
        raise vlib.InfraError("the as-implemented instance should violate NoTaintAtSink, got %s" % r2["inv"])
    ctx.log("A: exhaustive %d distinct states, %d generated (%.1fs); as-implemented instance violates NoTaintAtSink" %
            (r["distinct"], r["generated"], r["wall_s"]))
    ctx.stage("A", invariants=["TypeOK", "NoTaintAtSink", "NeverRaw", "SentinelsStable"],
              nonvacuity="instance (Sanitizer=listed, RawDeadlineLog, ingest drop log prints registrant) violates NoTaintAtSink")

    # ---- B: the decision table
    cases = gen_cases(ctx, sdir, "Gen_LogTaint.cfg")
    predicted = {(c["site"], c["k"], c["w"]) for c in gen_cases(ctx, sdir, "Gen_LogTaint_asimpl.cfg") if c["leak"]}
    if any(c["leak"] for c in cases):
        raise vlib.InfraError("intended instance predicts a leak")
    if len(cases) < 4000:
        raise vlib.InfraError("too few cases generated (%d)" % len(cases))
    ctx.log("B: %d cases (site x kind x wrapping x family x LOG_CLIENT_IP); as-implemented model predicts %d tainted (site,kind,wrapping) paths"
            % (len(cases), len(predicted)))
    # the transport-error cases sleep until the handler's randomised 5-10 s deadline: the quick tier runs a slice of them
    PRE = ("accept.File", "geoip.CC", "geoip.ASN")
    main_cases = []
    for c in cases:
        if c["site"].startswith("ingest.") or c["site"] == "dial" or c["site"] in PRE:
            continue
        if c["site"] == "transport.Wrap" and not thorough and not (c["fam"] == "v4" and c["w"] in ("op", "fmt")):
            continue
        main_cases.append(c)
    inp = os.path.join(ctx.scratch, "taint_cases_main.ndjson")
    with open(inp, "w") as f:
        for c in main_cases:
            f.write(json.dumps(c) + "\n")
    inl = os.path.join(ctx.scratch, "taint_cases_lib.ndjson")
    with open(inl, "w") as f:
        for c in cases:
            f.write(json.dumps(c) + "\n")

    outm = os.path.join(ctx.scratch, "taint_main.ndjson")
    resm = ctx.go_test("cmd/application", ["common/vcommon_test.go", "cmd_application/taint_verif_test.go"], "main",
                       "^TestVerifTaintCases$", env={"VERIF_IN": inp, "VERIF_OUT": outm, "VERIF_WORKERS": 256 if thorough else 96},
                       timeout=1500, extra_overlays=[("pkg/station/lib", ["pkg_station_lib/taint_bridge_verif.go"], "lib")])
    rows_m = ctx.read_results(outm)
    # the sites before classification starts: real handleNewConn on a loopback TCP connection with the descriptor limit at 1
    # (clientConn.File() fails), real handleNewTCPConn with the real MaxMind reader over IPv4-only database files
    inpre = os.path.join(ctx.scratch, "taint_cases_pre.ndjson")
    with open(inpre, "w") as f:
        for c in cases:
            if c["site"] in PRE:
                f.write(json.dumps(c) + "\n")
    outp = os.path.join(ctx.scratch, "taint_pre.ndjson")
    resp = ctx.go_test("cmd/application", ["common/vcommon_test.go", "cmd_application/taint_verif_test.go"], "main",
                       "^TestVerifTaintPre$", env={"VERIF_IN": inpre, "VERIF_OUT": outp}, timeout=600,
                       extra_overlays=[("pkg/station/lib", ["pkg_station_lib/taint_bridge_verif.go"], "lib")])
    rows_p = ctx.read_results(outp)
    psum = [x for x in rows_p if x.get("kind") == "summary"]
    if not psum or psum[0].get("geoip_selftest") != 2:
        raise vlib.InfraError("pre-classification driver did not finish or its GeoIP databases do not fail as designed:\n%s" % resp["out"][-3000:])
    reached = [x for x in rows_p if x.get("kind") == "result" and not x.get("skipped")]
    if len(reached) < 6 or not all(x.get("reached") for x in reached):
        raise vlib.InfraError("pre-classification cases did not reach their log site: %s" % [x for x in reached if not x.get("reached")][:3])
    outl = os.path.join(ctx.scratch, "taint_lib.ndjson")
    resl = ctx.go_test("pkg/station/lib", ["common/vcommon_test.go", "pkg_station_lib/relay_verif_test.go",
                                           "pkg_station_lib/taint_verif_test.go"], "lib",
                       "^TestVerifTaintRelay$", env={"VERIF_IN": inl, "VERIF_OUT": outl}, timeout=1500)
    rows_l = ctx.read_results(outl)

    classes_seen = set()
    nrun = 0
    shown = must_show = 0
    observed = set()
    class_notes = collections.Counter()
    for drv, rows, res in (("main", rows_m, resm), ("pre", rows_p, resp), ("lib", rows_l, resl)):
        summ = [x for x in rows if x.get("kind") == "summary"]
        if not summ:
            raise vlib.InfraError("%s driver did not finish:\n%s" % (drv, res["out"][-3000:]))
        if summ[0].get("canary_missed"):
            raise vlib.InfraError("address detector misses forms %s" % summ[0]["canary_missed"])
        for x in rows:
            kind = x.get("kind")
            if kind == "result":
                if x.get("skipped"):
                    continue
                c = x["case"]
                nrun += 1
                classes_seen.add((c["site"], c["k"], c["w"], c["fam"], c["logip"]))
                if x.get("panic"):
                    ctx.violation("panic:%s" % c["site"], "real code panicked in case %s: %s" % (json.dumps(c), x["panic"]), x)
                    continue
                if not x.get("returned"):
                    raise vlib.InfraError("%s driver: case %s did not return" % (drv, json.dumps(c)))
                if not c["logip"] and x["addr_seen"]:
                    observed.add((c["site"], c["k"], c["w"]))
                    if c["site"].startswith("ingest."):
                        key = "ingest:%s" % c["site"][len("ingest."):]
                        what = ("ingestRegistration branch %s writes the registrant's address to the log: %s"
                                % (c["site"], x.get("line", "")[:300]))
                    else:
                        key = "leak:%s:%s:%s" % (c["site"], kclass(c["k"]), c["w"])
                        what = ("client address written with LOG_CLIENT_IP off [%s driver]: site %s, error %s/%s, family %s: %s"
                                % (drv, c["site"], c["k"], c["w"], c["fam"], x.get("line", "")[:300]))
                    ctx.violation(key, what, x)
                if c["logip"] and c.get("show"):
                    must_show += 1
                    if x["addr_seen"]:
                        shown += 1
                    else:
                        ctx.notes.append("LOG_CLIENT_IP on but address not shown: %s" % json.dumps(c))
                if c["site"] in CLASS_SITES and "class" in x and x["class"] not in c["classes"] and x["class"] != "raw":
                    class_notes["%s %s/%s: recorded class %s, model %s" % (c["site"], kclass(c["k"]), c["w"], x["class"], c["classes"])] += 1
            elif kind == "global" and x["addr_seen"]:
                ctx.violation("leak:global:%s" % drv, "client address in output outside the per-connection loggers / statistics printers: %s"
                              % x["line"][:300], x)
            elif kind == "digest" and x["addr_seen"]:
                ctx.violation("leak:digest:%s" % x["fam"], "registration digest / expiry record names the registrant: %s" % x["line"][:300], x)
    if must_show == 0 or shown * 10 < must_show * 9:
        raise vlib.InfraError("detector non-vacuity failed: with LOG_CLIENT_IP on the address showed in %d of %d certain cases" % (shown, must_show))
    ctx.log("B: %d cases replayed on real code (%d main, %d lib); LOG_CLIENT_IP on: address shown in %d/%d certain cases; leaking paths observed: %d"
            % (nrun, len([x for x in rows_m if x.get("kind") == "result"]), len([x for x in rows_l if x.get("kind") == "result"]),
               shown, must_show, len(observed)))
    if observed:
        extra = sorted(observed - predicted)
        ctx.notes.append("observed tainted paths: %d, of which predicted by the as-implemented model instance: %d; unpredicted: %s"
                         % (len(observed), len(observed & predicted), extra[:10]))
    for k, v in list(class_notes.items())[:25]:
        ctx.notes.append("sanitiser class differs (no address involved, not a verdict): %s x%d" % (k, v))
    smp = [x for x in rows_m if x.get("kind") == "result" and not x.get("skipped")]
    for i in (0, len(smp) // 2, len(smp) - 1):
        if smp:
            x = smp[i]
            ctx.sample({"stage": "B", "driver": "main", "case": x["case"], "addr_seen": x["addr_seen"], "class": x.get("class"),
                        "recorded": x.get("recorded"), "bytes_captured": x.get("bytes")})
    smp = [x for x in rows_l if x.get("kind") == "result" and not x.get("skipped")]
    if smp:
        x = smp[len(smp) // 3]
        ctx.sample({"stage": "B", "driver": "lib", "case": x["case"], "addr_seen": x["addr_seen"], "class": x.get("class"),
                    "recorded": x.get("recorded"), "bytes_captured": x.get("bytes")})
    ctx.stage("B", cases=len(cases), replayed=nrun, logip_on_shown=shown, logip_on_certain=must_show,
              leaking_paths=len(observed), predicted_by_asimpl_model=len(predicted))

    ctx.cov["traces_validated_against_impl"] = nrun
    ctx.cov["evaluations"] = nrun
    ctx.cov["distinct_nontrivial"] = len({c for c in classes_seen if c[1] != "EOF"})
    ctx.cov["exhaustive"] = thorough
    ctx.cov["rule"] = ("one case per (call site, error kind, wrapping, family, LOG_CLIENT_IP) tuple of the TLC-enumerated table, each "
                       "replayed once on the real code and its captured output checked against the model's prediction "
                       "(traces_validated_against_impl counts these captures); non-trivial = the injected error is not the bare io.EOF")
    ctx.assumptions += [
        "errors are built the way the Go network stack builds them (*net.OpError{Op, Net, Source, Addr, Err: os.SyscallError}); "
        "for SetDeadline / Close both the real local-only shape and the both-endpoints shape the property quantifies over are injected",
        "the transport-error site uses an in-test WrappingTransport that performs one Write on the connection and returns its error "
        "(the shape of obfs4's server handshake); quick tier runs a slice of these cases because each sleeps 5-10 s",
        "handleNewConn is driven up to its File() call (real loopback connection, descriptor limit 1); behind it it needs SO_ORIGINAL_DST; "
        "SetLinger (only on *net.TCPConn) and the PROXY-header write error are not driven",
        "GeoIP lookup failures are provoked with the real MaxMind reader over minimal database files the driver writes (IPv4-only country / ASN "
        "databases, IPv6 client)",
        "the asynchronous Close(src) may record its error after the tunnel summary was printed; such runs show nothing to scan",
        "default log level (Error); Debug/Trace/Warn output is outside the property",
    ]
