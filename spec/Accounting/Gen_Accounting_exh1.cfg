SPECIFICATION GenSpec
CONSTANTS
  Conns = {"c1"}
  Kons = {}
  Asns = {"a1"}
  CCs = {"", "US"}
  Variant = "as_found"
  Broken = "none"
  MaxLoops = 1
  MaxPrints = 2
  MaxAuth = 0
  Depth = 6
CONSTRAINT Canon
INVARIANT Emit
CHECK_DEADLOCK FALSE
