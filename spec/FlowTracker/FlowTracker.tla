---------------------------- MODULE FlowTracker ----------------------------
(* X07 - the Rust detector's flow tracker (src/flow_tracker.rs: struct FlowTracker) and the packet decision logic that uses it
   (src/process_packet.rs: rust_process_packet -> handle_tcp_pkt / handle_udp_pkt / check_for_tagged_flow / process_tls_pkt).

   State, as in the code:
     tracked   tracked_flows: HashSet<Flow>            flows whose first TLS application-data record is still awaited
     queue     stale_drops_tracked: VecDeque<SchedEvent>  one scheduled drop per begin_tracking_flow call, in call order
     ph        phantom_flows.tracked_sessions (sessions.rs): session key -> expiry time (-1 = absent)
     now       precise_time_ns(), in clock units (T units = TIMEOUT_TRACKED_NS = 30 s, K units = TIMEOUT_PHANTOMS_NS = 300 s)
   Ghost: life[f] = time of the last begin_tracking_flow(f) not followed by a stop_tracking_flow(f) (-1 = none): what a caller
   of the API believes about f.

   One action per method: Begin, Stop, IsTracked, UpdatePhantom, IsPhantom, DropTracked, DropPhantoms, DropAll, Counts; the
   environment: Tick (the clock), AddSession (what the Redis ingest thread does for a New / Update announcement:
   SessionTracker::add_session); and Packet (one frame through rust_process_packet), which is composed from the same effects.

   Where the code diverges from what a caller expects the module carries both variants:
     StaleEvent = "kills"  (AS FOUND)  a due event removes its flow unconditionally.  Events outlive stop_tracking_flow and are
                  pushed again by every begin, so the drop scheduled for an EARLIER begin of the same flow ends a later
                  incarnation early: the lifetime of a flow is T from its OLDEST queued event, not from its last begin - a second
                  begin does not refresh, a stop + begin does not restart the clock.
     StaleEvent = "checks" (INTENDED)  a due event removes its flow only if it is the flow's newest event ("Doesn't hurt to do a
                  second check on overdueness", as the comment in begin_tracking_flow puts it): tracked until T after the last begin.
   The clock is the wall clock (SystemTime::now()); the queue discipline relies on it being monotone.  TickSteps with a negative
   member is the instance in which it is not (QueueSorted / PostDropFresh fail).
   DropRemoves, DueCmp, KeepLonger select deliberately broken instances for the non-vacuity runs. *)
EXTENDS Integers, Sequences, FiniteSets, TLC

CONSTANTS FlowInfo,      \* flow id -> [key: session key of FlowNoSrcPort::from_flow(f).tag(), p443: dst port 443, proto: "tcp"|"udp"|"other", filt: source is in detector_filter_list]
          Keys,          \* session keys that can be announced
          T, K,          \* TIMEOUT_TRACKED_NS, TIMEOUT_PHANTOMS_NS in clock units
          SessTimeouts,  \* timeouts an announcement may carry
          TickSteps,     \* clock steps (all positive = monotone clock)
          MaxT, MaxQ,    \* exploration bounds (CONSTRAINT Bounded / BoundedRel)
          MaxLag,        \* BoundedRel: how long past their time events / sessions may wait for a clean-up
          StaleEvent,    \* "kills" (as found) | "checks" (intended)
          DropRemoves,   \* TRUE; FALSE = a popped event leaves the flow in the set (broken)
          DueCmp,        \* "le" (drop_time <= now); "lt" = broken boundary
          KeepLonger,    \* TRUE (sessions.rs: compare and keep the longer); FALSE = overwrite (broken)
          Level,         \* "api" | "packet" | "both": which actions Next offers
          FlagKinds, PayloadKinds, FrameKinds   \* packet alphabet

VARIABLES now, tracked, queue, ph, life, obs
vars == <<now, tracked, queue, ph, life, obs>>
view == <<now, tracked, queue, ph, life>>

Flows == DOMAIN FlowInfo
NoSess == -1
Max(a, b) == IF a >= b THEN a ELSE b
Longer(old, new) == IF KeepLonger THEN Max(old, new) ELSE new

\* ---------------------------------------------------------------------------------------------------------------- projection
Present(p) == {k \in Keys : p[k] # NoSess}
Proj(n, tr, q, p) == [now |-> n, tracked |-> tr, q |-> q, ph |-> p, nt |-> Cardinality(tr), np |-> Cardinality(Present(p))]

Init == /\ now = 0 /\ tracked = {} /\ queue = <<>> /\ ph = [k \in Keys |-> NoSess]
        /\ life = [f \in Flows |-> -1] /\ obs = [a |-> "Init"]

\* ------------------------------------------------------------------------------------------------------------------- effects
BeginEff(f) == /\ queue' = Append(queue, [f |-> f, at |-> now + T])      \* "Always push back, even if the entry was already there"
               /\ tracked' = tracked \cup {f}
               /\ life' = [life EXCEPT ![f] = now]
StopEff(f) == /\ tracked' = tracked \ {f}                                 \* the flow's events stay queued
              /\ life' = [life EXCEPT ![f] = -1]
              /\ UNCHANGED queue
UpdEff(k) == ph' = [ph EXCEPT ![k] = IF @ = NoSess THEN NoSess ELSE Longer(@, now + K)]

Due(e) == IF DueCmp = "le" THEN e.at <= now ELSE e.at < now
\* drop_stale_tracked_flows pops from the front while the front is due
LeadDue == IF \A i \in 1..Len(queue) : Due(queue[i]) THEN Len(queue)
           ELSE (CHOOSE i \in 1..Len(queue) : ~Due(queue[i]) /\ \A j \in 1..(i - 1) : Due(queue[j])) - 1
Idx(f) == {i \in 1..Len(queue) : queue[i].f = f}
Popped == {queue[i].f : i \in 1..LeadDue}
Killed == CASE ~DropRemoves -> {}
            [] StaleEvent = "kills" -> Popped
            [] OTHER -> {f \in Popped : \A i \in Idx(f) : i <= LeadDue}
TrackedAfterDrop == tracked \ Killed
QueueAfterDrop == SubSeq(queue, LeadDue + 1, Len(queue))
\* SessionTracker::drop_stale_sessions: map.retain(|_, v| *v > right_now)
PhAfterDrop == [k \in Keys |-> IF ph[k] # NoSess /\ ph[k] > now THEN ph[k] ELSE NoSess]
NTrackedDropped == Cardinality(tracked) - Cardinality(TrackedAfterDrop)
NPhDropped == Cardinality(Present(ph)) - Cardinality(Present(PhAfterDrop))

\* ----------------------------------------------------------------------------------------------------------- method actions
Begin(f) == /\ BeginEff(f) /\ UNCHANGED <<now, ph>>
            /\ obs' = [a |-> "Begin", f |-> f, st |-> Proj(now, tracked', queue', ph)]
Stop(f) == /\ StopEff(f) /\ UNCHANGED <<now, ph>>
           /\ obs' = [a |-> "Stop", f |-> f, st |-> Proj(now, tracked', queue, ph)]
IsTracked(f) == /\ UNCHANGED <<now, tracked, queue, ph, life>>
                /\ obs' = [a |-> "IsTracked", f |-> f, r |-> (f \in tracked), st |-> Proj(now, tracked, queue, ph)]
\* matches as long as the entry is in the map - also after its expiry time, until the next clean-up removes it
IsPhantom(k) == /\ UNCHANGED <<now, tracked, queue, ph, life>>
                /\ obs' = [a |-> "IsPhantom", k |-> k, r |-> (ph[k] # NoSess), st |-> Proj(now, tracked, queue, ph)]
UpdatePhantom(k) == /\ UpdEff(k) /\ UNCHANGED <<now, tracked, queue, life>>
                    /\ obs' = [a |-> "UpdatePhantom", k |-> k, st |-> Proj(now, tracked, queue, ph')]
AddSession(k, d) == /\ ph' = [ph EXCEPT ![k] = IF @ = NoSess THEN now + d ELSE Longer(@, now + d)]
                    /\ UNCHANGED <<now, tracked, queue, life>>
                    /\ obs' = [a |-> "AddSession", k |-> k, d |-> d, st |-> Proj(now, tracked, queue, ph')]
DropTracked == /\ tracked' = TrackedAfterDrop /\ queue' = QueueAfterDrop /\ UNCHANGED <<now, ph, life>>
               /\ obs' = [a |-> "DropTracked", r |-> NTrackedDropped, st |-> Proj(now, tracked', queue', ph)]
DropPhantoms == /\ ph' = PhAfterDrop /\ UNCHANGED <<now, tracked, queue, life>>
                /\ obs' = [a |-> "DropPhantoms", r |-> NPhDropped, st |-> Proj(now, tracked, queue, ph')]
DropAll == /\ tracked' = TrackedAfterDrop /\ queue' = QueueAfterDrop /\ ph' = PhAfterDrop /\ UNCHANGED <<now, life>>
           /\ obs' = [a |-> "DropAll", r |-> NTrackedDropped + NPhDropped, st |-> Proj(now, tracked', queue', ph')]
Counts == /\ UNCHANGED <<now, tracked, queue, ph, life>>
          /\ obs' = [a |-> "Counts", nt |-> Cardinality(tracked), np |-> Cardinality(Present(ph)), st |-> Proj(now, tracked, queue, ph)]
Tick(d) == /\ now + d >= 0 /\ now' = now + d /\ UNCHANGED <<tracked, queue, ph, life>>
           /\ obs' = [a |-> "Tick", d |-> d, st |-> Proj(now', tracked, queue, ph)]

\* ---------------------------------------------------------------------------------------------------------------- packet path
SynNoAck(fl) == fl \in {"syn", "synfin", "synrst"}
RstOrFin(fl) == fl \in {"rst", "rstack", "fin", "finack"}
IsIp(fr) == fr \in {"eth", "vlan"}
IsAppData(pl) == pl \in {"app_tag", "app_notag"}          \* first byte 0x17 and longer than a record header
SessPresent(k) == k \in Keys /\ ph[k] # NoSess
\* the decision process_packet.rs takes, in the order the code tests things
Decide(p) ==
  LET i == FlowInfo[p.f] IN
  CASE ~IsIp(p.frame) -> "not_ip"
    [] i.proto = "other" -> "not_l4"
    [] SessPresent(i.key) /\ ~i.filt -> "forward"                       \* check_for_tagged_flow
    [] i.proto = "udp" -> "udp_ignore"
    [] ~i.p443 -> "not_443"
    [] SynNoAck(p.flags) -> "begin"
    [] RstOrFin(p.flags) -> "stop"
    [] p.f \notin tracked -> "untracked"
    [] IsAppData(p.pl) -> IF p.pl = "app_tag" THEN "tag_hit" ELSE "tag_miss"
    [] OTHER -> "inspect"
B2N(b) == IF b THEN 1 ELSE 0
Packet(p) ==
  LET i == FlowInfo[p.f]
      dec == Decide(p)
      l4 == dec \notin {"not_ip", "not_l4"}
      in443 == dec \in {"begin", "stop", "untracked", "tag_hit", "tag_miss", "inspect"}
  IN /\ CASE dec = "forward" -> UpdEff(i.key) /\ UNCHANGED <<tracked, queue, life>>
          [] dec = "begin" -> BeginEff(p.f) /\ UNCHANGED ph
          [] dec \in {"stop", "tag_hit", "tag_miss"} -> StopEff(p.f) /\ UNCHANGED ph
          [] OTHER -> UNCHANGED <<tracked, queue, life, ph>>
     /\ UNCHANGED now
     /\ obs' = [a |-> "Packet", f |-> p.f, flags |-> p.flags, pl |-> p.pl, frame |-> p.frame, dec |-> dec,
                fwd |-> B2N(dec = "forward"), zmq |-> B2N(dec = "tag_hit"),
                ds |-> [ip |-> B2N(dec # "not_ip"), tcp |-> B2N(l4 /\ i.proto = "tcp"),
                        \* tls_packets_this_period: TCP 443 that was not forwarded - and every UDP datagram to port 443, forwarded or not
                        tls |-> B2N(in443 \/ (l4 /\ i.proto = "udp" /\ i.p443)),
                        syns |-> B2N(dec = "begin"), ell |-> B2N(dec \in {"tag_hit", "tag_miss"})],
                st |-> Proj(now, tracked', queue', ph')]
\* the alphabet: segments that carry data are the ACK / PSH+ACK ones (the decision for the others never looks at the payload;
\* SYN / FIN / RST with data are left to the recorded random traces, whose events are not restricted)
DataFlags == {"ack", "pshack"}
Packets == {p \in [f : Flows, flags : FlagKinds, pl : PayloadKinds, frame : FrameKinds] : p.pl = "none" \/ p.flags \in DataFlags}

\* ------------------------------------------------------------------------------------------------------------------------ Next
Env == (\E d \in TickSteps : Tick(d)) \/ (\E k \in Keys, d \in SessTimeouts : AddSession(k, d)) \/ DropAll
ApiMut == (\E f \in Flows : Begin(f) \/ Stop(f)) \/ (\E k \in Keys : UpdatePhantom(k)) \/ DropTracked \/ DropPhantoms
ApiQuery == (\E f \in Flows : IsTracked(f)) \/ (\E k \in Keys : IsPhantom(k)) \/ Counts
PacketStep == \E p \in Packets : Packet(p)
\* state-changing steps only (the generators use this: the projection after every step already says what every query returns)
NextMut == Env \/ (Level \in {"api", "both"} /\ ApiMut) \/ (Level \in {"packet", "both"} /\ PacketStep)
Next == NextMut \/ (Level \in {"api", "both"} /\ ApiQuery)
Spec == Init /\ [][Next]_vars
Bounded == now <= MaxT /\ Len(queue) <= MaxQ
\* Time-shift symmetry: nothing in the module depends on `now` itself, only on differences to it (Tick's guard now + d >= 0 is
\* vacuous for positive steps), and of life[f] only "how long ago, capped at T" matters.  viewRel identifies states that differ
\* by a shift of the clock; BoundedRel is shift-invariant too, so the search is exhaustive over ALL times for behaviours in which
\* nothing waits more than MaxLag past its time for a clean-up and the queue holds at most MaxQ events.  (Monotone clock only.)
Min(a, b) == IF a <= b THEN a ELSE b
viewRel == <<tracked, [i \in 1..Len(queue) |-> <<queue[i].f, queue[i].at - now>>],
             [k \in Keys |-> IF ph[k] = NoSess THEN <<"absent">> ELSE <<ph[k] - now>>],
             [f \in Flows |-> IF life[f] = -1 THEN -1 ELSE Min(now - life[f], T)]>>
BoundedRel == /\ Len(queue) <= MaxQ
              /\ \A i \in 1..Len(queue) : queue[i].at - now >= -MaxLag
              /\ \A k \in Keys : ph[k] # NoSess => ph[k] - now >= -MaxLag

\* ------------------------------------------------------------------------------------------------------------------ invariants
TypeOK == /\ now \in Int /\ tracked \subseteq Flows
          /\ \A i \in 1..Len(queue) : queue[i].f \in Flows /\ queue[i].at \in Int
          /\ \A k \in Keys : ph[k] \in Int /\ ph[k] >= NoSess
          /\ \A f \in Flows : life[f] \in Int
\* no tracked flow is immortal: each still has a scheduled drop (otherwise the set would only ever shrink through stop)
TrackedHasEvent == \A f \in tracked : Idx(f) # {}
\* what drop_stale_tracked_flows relies on ("entries ... are supposed to be sorted by time"); needs a monotone clock
QueueSorted == \A i, j \in 1..Len(queue) : i < j => queue[i].at <= queue[j].at
\* every event fires within T: an event is the record of a begin call of the last T units (or one awaiting the next clean-up)
EventHorizon == \A i \in 1..Len(queue) : queue[i].at <= now + T
\* bounded memory: right after a clean-up the queue holds exactly the begin calls of the last T units, none due ...
PostDropWindow == obs.a \in {"DropAll", "DropTracked"} => \A i \in 1..Len(queue) : now < queue[i].at /\ queue[i].at <= now + T
\* ... and no tracked flow is older than the timeout (each has a begin less than T ago)
PostDropFresh == obs.a \in {"DropAll", "DropTracked"} => \A f \in tracked : \E i \in Idx(f) : queue[i].at > now
PostDropPhantoms == obs.a \in {"DropAll", "DropPhantoms"} => \A k \in Keys : ph[k] = NoSess \/ ph[k] > now
\* count_tracked_flows / count_phantom_flows are the sizes; the queries answer from the maps
CountsExact == /\ obs.a = "Counts" => (obs.nt = Cardinality(tracked) /\ obs.np = Cardinality(Present(ph)))
               /\ obs.a = "IsTracked" => (obs.r <=> obs.f \in tracked)
               /\ obs.a = "IsPhantom" => (obs.r <=> ph[obs.k] # NoSess)
\* a forwarded packet keeps its session alive for K more; forwarded traffic is never inspected; a tag is looked for only in
\* the first application-data record of a tracked flow, which ends the tracking
PacketLaws == obs.a = "Packet" =>
                /\ obs.fwd = 1 => (SessPresent(FlowInfo[obs.f].key) /\ ph[FlowInfo[obs.f].key] >= now + K /\ obs.ds.ell = 0 /\ obs.zmq = 0)
                /\ obs.ds.ell = 1 => obs.f \notin tracked
                /\ obs.zmq = 1 => obs.ds.ell = 1
                /\ obs.dec = "begin" => (obs.f \in tracked /\ queue[Len(queue)] = [f |-> obs.f, at |-> now + T])
\* INTENDED ONLY: a flow is tracked until (at least) T after its last begin, unless stopped
TrackedUntilTimeout == \A f \in Flows : (life[f] # -1 /\ now < life[f] + T) => f \in tracked

\* ------------------------------------------------------------------------------------------------------------ action properties
\* a flow leaves the set only through stop (API or packet decision) or through a due event of its own
RemovedOnlyByStopOrDue == [][\A f \in tracked \ tracked' :
                               \/ (obs'.a = "Stop" /\ obs'.f = f)
                               \/ (obs'.a = "Packet" /\ obs'.f = f /\ obs'.dec \in {"stop", "tag_hit", "tag_miss"})
                               \/ (obs'.a \in {"DropAll", "DropTracked"} /\ \E i \in Idx(f) : Due(queue[i]))]_vars
\* sessions.rs "compare and keep the longer": no operation shortens a session; a session disappears only once its time has come
PhantomNeverShortened == [][\A k \in Keys : (ph[k] # NoSess /\ ph'[k] # NoSess) => ph'[k] >= ph[k]]_vars
PhantomDroppedOnlyWhenDue == [][\A k \in Keys : (ph[k] # NoSess /\ ph'[k] = NoSess) => (ph[k] <= now /\ obs'.a \in {"DropAll", "DropPhantoms"})]_vars
\* the clean-up's return value is what it removed
DropCountExact == [][obs'.a \in {"DropAll", "DropTracked", "DropPhantoms"} =>
                       obs'.r = (Cardinality(tracked) - Cardinality(tracked')) + (Cardinality(Present(ph)) - Cardinality(Present(ph')))]_vars
=============================================================================
