//go:build verif

package regprocessor

// Bridge file for the conformance drivers of spec/RegistrarData (property C12).  It exists only in the build
// overlay (never in the repository): it builds the concrete world of a RegistrarData row in-package (RegProcessor
// with unexported configuration fields, real transports and override objects, recording zmqSender, two real station
// RegistrationManagers) and abstracts the three real views.  It is a non-test file so that the drivers of the
// front-end packages (apiregserver, dnsregserver) can use the same world through the Verif* names.
//
// Drivers (data_verif_test.go):
//
//   TestVerifDataRows      stage B: every row TLC generated (Gen_RegistrarData: request x registrar configuration x
//                          subnet configuration x weighted draw) is executed on a real RegProcessor built in-package
//                          with a recording zmqSender and the real transports/overrides: RegisterBidirectional ->
//                          (a) the returned RegistrationResponse, (b) the bytes handed to the sender, unmarshalled,
//                          (c) the DecoyRegistrations the REAL station constructor (lib.NewRegistrationC2SWrapper,
//                          the regprocessor package already imports pkg/station/lib) builds from those bytes.
//                          The three real views are abstracted with the projection of DESIGN.md Appendix A and
//                          compared with the views the specification computed for the row.
//                          The weighted draw is made controllable without touching the code: the registrar draws
//                          with the global math/rand, so the driver seeds it with a seed whose first Float64 falls
//                          into the row's unit of the cumulative weight scale.
//   TestVerifDataWeighted  the probabilistic clause: N = ceil(ln(1e-12)/ln(1-w_min)) registrations per weighted
//                          configuration, global math/rand seeded from VERIF_SEED; every non-zero-weight subnet must
//                          be hit, no address outside the configured subnets.  Also records abstract triples.
//   TestVerifDataRandom    stage C: seeded random requests x configurations with random secrets, client addresses
//                          and prefixes, recorded as abstract triples for Trace_RegistrarData.

import (
	"sort"
	"bytes"
	"crypto/ed25519"
	"crypto/sha256"
	"encoding/binary"
	"fmt"
	"io"
	mrand "math/rand"
	"net"
	"os"
	"path/filepath"
	"strconv"
	"sync"
	"time"

	zmq "github.com/pebbe/zmq4"
	"github.com/refraction-networking/conjure/pkg/core"
	"github.com/refraction-networking/conjure/pkg/core/interfaces"
	"github.com/refraction-networking/conjure/pkg/metrics"
	"github.com/refraction-networking/conjure/pkg/phantoms"
	"github.com/refraction-networking/conjure/pkg/regserver/overrides"
	"github.com/refraction-networking/conjure/pkg/station/lib"
	"github.com/refraction-networking/conjure/pkg/transports"
	"github.com/refraction-networking/conjure/pkg/transports/wrapping/min"
	"github.com/refraction-networking/conjure/pkg/transports/wrapping/obfs4"
	"github.com/refraction-networking/conjure/pkg/transports/wrapping/prefix"
	pb "github.com/refraction-networking/conjure/proto"
	log "github.com/sirupsen/logrus"
	"google.golang.org/protobuf/proto"
	"google.golang.org/protobuf/types/known/anypb"
)

// ---------------------------------------------------------------- concrete world

const vrdPhantomToml = `
[Networks]
    [Networks.1]
        Generation = 1
        [[Networks.1.WeightedSubnets]]
            Weight = 9
            RandomizeDstPort = %v
            Subnets = ["192.122.190.0/24", "2001:48a8:687f:1::/64"]
    [Networks.2]
        Generation = 2
        [[Networks.2.WeightedSubnets]]
            Weight = 9
            RandomizeDstPort = %v
            Subnets = ["192.122.190.0/24", "2001:48a8:687f:1::/64"]
`

type vrdSubnetDef struct {
	name      string
	cidr      string
	transport string
	port      uint32
	pid       prefix.PrefixID
}

var vrdSubnetDefs = map[string]vrdSubnetDef{
	"m1": {"m1", "10.10.1.0/24", "Min_Transport", 0, 0},
	"m2": {"m2", "10.10.2.0/24", "Min_Transport", 0, 0},
	"m3": {"m3", "10.10.3.0/24", "Min_Transport", 0, 0},
	"x1": {"x1", "10.20.1.0/24", "Prefix_Transport", 8001, prefix.GetLong},
	"x2": {"x2", "10.20.2.0/24", "Prefix_Transport", 8002, prefix.PostLong},
	"x3": {"x3", "10.20.3.0/24", "Prefix_Transport", 8003, prefix.HTTPResp},
	// one CIDR configured for BOTH transports (each entry with its own weight / port / prefix): "every such subnet" counts per transport
	"ms": {"ms", "10.30.1.0/24", "Min_Transport", 0, 0},
	"xs": {"xs", "10.30.1.0/24", "Prefix_Transport", 8004, prefix.GetLong},
}

type vrdW struct {
	n string
	w float64
}

// the override-subnet configurations of RegistrarData.tla (SubnetTable), in configuration-file order
var vrdSubnetTable = map[string][]vrdW{
	"none":  {},
	"one":   {{"m1", 1}, {"x1", 1}},
	"two":   {{"m1", 1}, {"m2", 3}, {"x1", 2}, {"x2", 1}},
	"zero":  {{"m1", 1}, {"m2", 0}, {"x1", 0}, {"x2", 1}},
	"three": {{"m1", 2}, {"m2", 0}, {"m3", 1}, {"x1", 1}, {"x2", 1}, {"x3", 2}},
	"shared": {{"ms", 1}, {"m1", 1}, {"xs", 1}, {"x1", 1}},
}

func vrdSubnets(cfg string) []Subnet {
	var out []Subnet
	for _, e := range vrdSubnetTable[cfg] {
		d := vrdSubnetDefs[e.n]
		_, n, err := net.ParseCIDR(d.cidr)
		if err != nil {
			panic(err)
		}
		out = append(out, Subnet{CIDR: Ipnet{n}, Weight: e.w, Port: d.port, Transport: d.transport, PrefixId: d.pid})
	}
	return out
}

// vrdSubnetOf names the override subnet an address lies in; where one CIDR is configured for both transports the entry of the
// transport asked for (tp = "Min_Transport" | "Prefix_Transport") is preferred
func vrdSubnetOf(ip net.IP, tp string) string {
	names := make([]string, 0, len(vrdSubnetDefs))
	for n := range vrdSubnetDefs {
		names = append(names, n)
	}
	sort.Strings(names)
	found := ""
	for _, n := range names {
		d := vrdSubnetDefs[n]
		_, nw, _ := net.ParseCIDR(d.cidr)
		if nw.Contains(ip) {
			if d.transport == tp {
				return n
			}
			if found == "" {
				found = n
			}
		}
	}
	return found
}

var vrdExcl = map[string][]string{"none": {}, "orig": {"192.122.190.0/24"}, "other": {"203.0.113.0/24"}}
var vrdPct = map[string][2]float64{"neither": {0, 0}, "both": {100, 100}, "minonly": {100, 0}, "prefixonly": {0, 100}}

type vrdReq struct {
	T         string `json:"t"`
	Fam       string `json:"fam"`
	Disable   bool   `json:"disable"`
	Randomize bool   `json:"randomize"`
	Pid       string `json:"pid"`
	Forged    string `json:"forged"`
	Outdated  bool   `json:"outdated"` // the client's ClientConf generation is behind the registrar's (front ends attach theirs)
}
type vrdCfg struct {
	Ovr     string `json:"ovr"`
	Enforce bool   `json:"enforce"`
	Subs    string `json:"subs"`
	Excl    string `json:"excl"`
	Pct     string `json:"pct"`
	Auth    bool   `json:"auth"`
	Rnd     bool   `json:"rnd"`
}
type vrdParams struct {
	Kind string `json:"kind"`
	Of   string `json:"of"`
}
type vrdRR struct {
	V4     string    `json:"v4"`
	V6     string    `json:"v6"`
	Port   string    `json:"port"`
	Params vrdParams `json:"params"`
}
type vrdFwd struct {
	Response vrdRR  `json:"response"`
	Sig      string `json:"sig"`
}
type vrdSV struct {
	Phantom string    `json:"phantom"`
	Port    string    `json:"port"`
	Params  vrdParams `json:"params"`
}
type vrdViews struct {
	Resp vrdRR            `json:"resp"`
	Fwd  vrdFwd           `json:"fwd"`
	Sv   map[string]vrdSV `json:"sv"`
}
type vrdRow struct {
	Req     vrdReq     `json:"req"`
	Cfg     vrdCfg     `json:"cfg"`
	U       int        `json:"u"`
	Total   int        `json:"total"`
	Allowed []vrdViews `json:"allowed"`
}

type vrdRecSender struct{ msgs [][]byte }

func (s *vrdRecSender) SendBytes(b []byte, f zmq.Flag) (int, error) {
	s.msgs = append(s.msgs, append([]byte(nil), b...))
	return len(b), nil
}
func (s *vrdRecSender) Close() error { return nil }

type vrdEnv struct {
	dir        string
	sel        map[bool]*phantoms.PhantomIPSelector
	station    map[bool]*lib.RegistrationManager
	pub        ed25519.PublicKey
	priv       ed25519.PrivateKey
	attPriv    ed25519.PrivateKey
	fixed      prefix.Prefix
	tpts       map[pb.TransportType]lib.Transport
	seedFor    map[[2]int]int64
	forgedRR   *pb.RegistrationResponse
	forgedPrms *anypb.Any
}

var vrdTT = map[string]pb.TransportType{"min": pb.TransportType_Min, "prefix": pb.TransportType_Prefix, "obfs4": pb.TransportType_Obfs4}

func vrdNewEnv() (*vrdEnv, error) {
	dir, err := os.MkdirTemp("", "verif_c12_")
	if err != nil {
		return nil, err
	}
	e := &vrdEnv{dir: dir, sel: map[bool]*phantoms.PhantomIPSelector{}, station: map[bool]*lib.RegistrationManager{}, seedFor: map[[2]int]int64{}}
	e.tpts = map[pb.TransportType]lib.Transport{pb.TransportType_Min: min.Transport{}, pb.TransportType_Prefix: prefix.DefaultSet(),
		pb.TransportType_Obfs4: obfs4.Transport{}}
	// the station prints to stdout; keep the test log small
	devnull, _ := os.OpenFile(os.DevNull, os.O_WRONLY, 0)
	saved := os.Stdout
	os.Stdout = devnull
	for _, rnd := range []bool{false, true} {
		p := filepath.Join(dir, fmt.Sprintf("phantoms_%v.toml", rnd))
		if err := os.WriteFile(p, []byte(fmt.Sprintf(vrdPhantomToml, rnd, rnd)), 0o644); err != nil {
			os.Stdout = saved
			return nil, err
		}
		os.Setenv("PHANTOM_SUBNET_LOCATION", p)
		sel, err := phantoms.GetPhantomSubnetSelector()
		if err != nil {
			os.Stdout = saved
			return nil, err
		}
		e.sel[rnd] = sel
		rm := lib.NewRegistrationManager(&lib.RegConfig{EnableIPv4: true, EnableIPv6: true})
		if rm == nil {
			os.Stdout = saved
			return nil, fmt.Errorf("station RegistrationManager could not be built")
		}
		for tt, tp := range e.tpts {
			if err := rm.AddTransport(tt, tp); err != nil {
				os.Stdout = saved
				return nil, err
			}
		}
		e.station[rnd] = rm
	}
	os.Stdout = saved
	seed := sha256.Sum256([]byte(fmt.Sprintf("c12-registrar-key-%d", vrdSeed())))
	e.priv = ed25519.NewKeyFromSeed(seed[:])
	e.pub = e.priv.Public().(ed25519.PublicKey)
	seed2 := sha256.Sum256([]byte(fmt.Sprintf("c12-attacker-key-%d", vrdSeed())))
	e.attPriv = ed25519.NewKeyFromSeed(seed2[:])
	e.fixed, err = prefix.TryFromID(prefix.DNSOverTCP)
	if err != nil {
		return nil, err
	}
	fid := int32(prefix.TLSAlertFatal)
	e.forgedPrms, _ = anypb.New(&pb.PrefixTransportParams{PrefixId: &fid, Prefix: []byte("forged")})
	e.forgedRR = &pb.RegistrationResponse{
		Ipv4Addr:        proto.Uint32(binary.BigEndian.Uint32(net.ParseIP("6.6.6.6").To4())),
		Ipv6Addr:        net.ParseIP("2001:db8:666::6"),
		DstPort:         proto.Uint32(6),
		TransportParams: e.forgedPrms,
	}
	return e, nil
}

func (e *vrdEnv) cleanup() { os.RemoveAll(e.dir) }

// drawSeed returns a seed of the global math/rand source whose first Float64 lies well inside unit u of total
func (e *vrdEnv) drawSeed(u, total int) int64 {
	if total <= 0 {
		return 1
	}
	k := [2]int{u, total}
	if s, ok := e.seedFor[k]; ok {
		return s
	}
	lo, hi := (float64(u)+0.15)/float64(total), (float64(u)+0.85)/float64(total)
	for s := int64(1); ; s++ {
		v := mrand.New(mrand.NewSource(s)).Float64()
		if v > lo && v < hi {
			e.seedFor[k] = s
			return s
		}
	}
}

func (e *vrdEnv) processor(c vrdCfg, snd zmqSender) *RegProcessor {
	p := &RegProcessor{sock: snd, metrics: vrdMetrics, authenticated: c.Auth, ipSelector: e.sel[c.Rnd],
		transports: map[pb.TransportType]lib.Transport{}}
	if c.Auth {
		p.privkey = e.priv
	}
	for tt, tp := range e.tpts {
		p.transports[tt] = tp
	}
	switch c.Ovr {
	case "rand":
		p.regOverrides = interfaces.Overrides([]interfaces.RegOverride{overrides.NewRandPrefixOverride()})
	case "fixed":
		p.regOverrides = interfaces.Overrides([]interfaces.RegOverride{overrides.NewFixedPrefixOverride(e.fixed)})
	}
	// the configuration values go through the constructor main.go uses for this zmq_auth_type (NewRegProcessor for CURVE,
	// NewRegProcessorNoAuth for NULL); what that constructor built is what this processor works with
	b := e.built(c)
	p.enforceSubnetOverrides = b.enforceSubnetOverrides
	p.prcntMinRegsToOverride, p.prcntPrefixRegsToOverride = b.prcntMinRegsToOverride, b.prcntPrefixRegsToOverride
	p.minOverrideSubnets, p.prefixOverrideSubnets = b.minOverrideSubnets, b.prefixOverrideSubnets
	p.minOverrideSubnetsCumulativeWeights = b.minOverrideSubnetsCumulativeWeights
	p.prefixOverrideSubnetsCumulativeWeights = b.prefixOverrideSubnetsCumulativeWeights
	p.exclusionsFromOverride = b.exclusionsFromOverride
	return p
}

var vrdBuiltMu sync.Mutex
var vrdBuiltCache = map[string]*RegProcessor{}

// VerifBuiltCount reports how many registrars were built through the real constructors (auth, no-auth)
var VerifBuiltCount [2]int

func (e *vrdEnv) built(c vrdCfg) *RegProcessor {
	vrdBuiltMu.Lock()
	defer vrdBuiltMu.Unlock()
	key := fmt.Sprintf("%v|%v|%s|%s|%s", c.Auth, c.Enforce, c.Pct, c.Subs, c.Excl)
	if b := vrdBuiltCache[key]; b != nil {
		return b
	}
	excl := []Subnet{}
	for _, s := range vrdExcl[c.Excl] {
		_, n, _ := net.ParseCIDR(s)
		excl = append(excl, Subnet{CIDR: Ipnet{n}})
	}
	os.Setenv("PHANTOM_SUBNET_LOCATION", filepath.Join(e.dir, "phantoms_false.toml"))
	var b *RegProcessor
	var err error
	var errs []string
	for try := 0; try < 150; try++ { // patient: on a machine loaded several times over, libzmq's reaper needs seconds to release the endpoint
		port := uint16(20000 + (os.Getpid()*7+len(vrdBuiltCache)*13+try*101)%30000)
		if c.Auth {
			b, err = NewRegProcessor("127.0.0.1", port, e.priv, false, nil, vrdMetrics, c.Enforce, vrdSubnets(c.Subs), excl, vrdPct[c.Pct][0], vrdPct[c.Pct][1])
		} else {
			b, err = NewRegProcessorNoAuth("127.0.0.1", port, vrdMetrics, c.Enforce, vrdSubnets(c.Subs), excl, vrdPct[c.Pct][0], vrdPct[c.Pct][1])
		}
		if err == nil {
			break
		}
		errs = append(errs, fmt.Sprintf("%d:%v", port, err))
		if c.Auth {
			zmq.AuthStop() // newRegProcessor leaves the authenticator running when the bind fails
		}
		// (the authenticator of the previous registrar lets go of its in-process endpoint a moment after AuthStop returned)
		pause := try
		if pause > 49 {
			pause = 49
		}
		time.Sleep(time.Duration(5*(pause+1)) * time.Millisecond)
	}
	if err != nil {
		panic(fmt.Sprintf("registrar constructor (auth=%v): %v; tries: %v", c.Auth, err, append(errs[:3], fmt.Sprint("built so far ", VerifBuiltCount, " cache ", len(vrdBuiltCache)))))
	}
	_ = b.Close()
	if c.Auth {
		VerifBuiltCount[0]++
	} else {
		VerifBuiltCount[1]++
	}
	vrdBuiltCache[key] = b
	return b
}

type vrdConcrete struct {
	secret                 []byte
	clientAddr             net.IP
	libver                 uint32
	pidNum                 int32
	c2sw                   *pb.C2SWrapper
	clientPrms             proto.Message
	forgedBytes, forgedSig []byte
}

func (e *vrdEnv) request(q vrdReq, salt string, clientAddr net.IP, pidNum int32) *vrdConcrete {
	h := sha256.Sum256([]byte(fmt.Sprintf("c12-secret-%s-%d", salt, vrdSeed())))
	cc := &vrdConcrete{secret: h[:], clientAddr: clientAddr, libver: core.CurrentClientLibraryVersion(), pidNum: pidNum}
	tt := vrdTT[q.T]
	var prm proto.Message
	if q.T == "prefix" {
		prm = &pb.PrefixTransportParams{PrefixId: proto.Int32(pidNum), RandomizeDstPort: proto.Bool(q.Randomize)}
	} else {
		prm = &pb.GenericTransportParams{RandomizeDstPort: proto.Bool(q.Randomize)}
	}
	cc.clientPrms = prm
	any, err := anypb.New(prm)
	if err != nil {
		panic(err)
	}
	covert := "192.0.2.55:443"
	c2s := &pb.ClientToStation{
		Transport:                 &tt,
		DecoyListGeneration:       proto.Uint32(1),
		CovertAddress:             &covert,
		V4Support:                 proto.Bool(q.Fam == "v4" || q.Fam == "dual"),
		V6Support:                 proto.Bool(q.Fam == "v6" || q.Fam == "dual"),
		ClientLibVersion:          proto.Uint32(cc.libver),
		TransportParams:           any,
		DisableRegistrarOverrides: proto.Bool(q.Disable),
	}
	cc.c2sw = &pb.C2SWrapper{SharedSecret: cc.secret, RegistrationPayload: c2s}
	if q.Forged == "resp" || q.Forged == "both" {
		cc.c2sw.RegistrationResponse = proto.Clone(e.forgedRR).(*pb.RegistrationResponse)
	}
	if q.Forged == "sig" || q.Forged == "both" {
		cc.forgedBytes, _ = proto.Marshal(e.forgedRR)
		cc.forgedSig = ed25519.Sign(e.attPriv, cc.forgedBytes)
		cc.c2sw.RegRespBytes = cc.forgedBytes
		cc.c2sw.RegRespSignature = cc.forgedSig
	}
	return cc
}

func vrdIP4(u *uint32) net.IP {
	if u == nil {
		return nil
	}
	b := make(net.IP, 4)
	binary.BigEndian.PutUint32(b, *u)
	return b
}

// ---------------------------------------------------------------- abstraction (real -> RegistrarData values)

type vrdAbs struct {
	e     *vrdEnv
	q     vrdReq
	c     vrdCfg
	cc    *vrdConcrete
	orig4 net.IP
	orig6 net.IP
	cport uint16 // the port the transport derives from the client's own parameters
	cperr error
}

func (a *vrdAbs) addr(ip net.IP, v6 bool) string {
	if ip == nil {
		return "-"
	}
	if !v6 {
		if a.orig4 != nil && ip.Equal(a.orig4) {
			return "orig"
		}
		if ip.Equal(net.ParseIP("6.6.6.6")) {
			return "forged"
		}
		if n := vrdSubnetOf(ip, map[string]string{"min": "Min_Transport", "prefix": "Prefix_Transport"}[a.q.T]); n != "" {
			return "sub:" + n
		}
	} else {
		if a.orig6 != nil && ip.Equal(a.orig6) {
			return "orig"
		}
		if ip.Equal(net.ParseIP("2001:db8:666::6")) {
			return "forged"
		}
	}
	return "other:" + ip.String()
}

func (a *vrdAbs) params(p *anypb.Any, v4 net.IP) vrdParams {
	if p == nil {
		return vrdParams{"none", "-"}
	}
	if proto.Equal(p, a.e.forgedPrms) {
		return vrdParams{"forged", "-"}
	}
	m := &pb.PrefixTransportParams{}
	if err := transports.UnmarshalAnypbTo(p, m); err != nil {
		return vrdParams{"other", "unparsable"}
	}
	want, err := prefix.TryFromID(prefix.PrefixID(m.GetPrefixId()))
	wellFormed := err == nil && bytes.Equal(want.Bytes(), m.GetPrefix()) && m.CustomFlushPolicy != nil && m.GetCustomFlushPolicy() == want.FlushPolicy()
	if v4 != nil && wellFormed && m.RandomizeDstPort == nil {
		if n := vrdSubnetOf(v4, "Prefix_Transport"); n != "" && vrdSubnetDefs[n].transport == "Prefix_Transport" && int32(vrdSubnetDefs[n].pid) == m.GetPrefixId() {
			return vrdParams{"subnet", n}
		}
	}
	if wellFormed && m.RandomizeDstPort != nil && m.GetRandomizeDstPort() == a.q.Randomize {
		switch a.c.Ovr {
		case "fixed":
			if m.GetPrefixId() == int32(a.e.fixed.ID()) {
				return vrdParams{"ovr", "fixed"}
			}
		case "rand":
			return vrdParams{"ovr", "rand"}
		}
	}
	return vrdParams{"other", fmt.Sprintf("id=%d", m.GetPrefixId())}
}

func (a *vrdAbs) port(rr *pb.RegistrationResponse, prm vrdParams) string {
	if rr.DstPort == nil {
		return "-"
	}
	p := rr.GetDstPort()
	if prm.Kind == "subnet" {
		if p == vrdSubnetDefs[prm.Of].port {
			return "subnet:" + prm.Of
		}
		return fmt.Sprintf("other:%d", p)
	}
	if prm.Kind == "forged" || (p == 6 && a.q.Forged != "none" && a.q.Forged != "sig") {
		return "forged"
	}
	if a.c.Rnd {
		if a.cperr == nil && uint32(a.cport) == p {
			return "client"
		}
		return fmt.Sprintf("other:%d", p)
	}
	if p == 443 {
		return "p443"
	}
	return fmt.Sprintf("other:%d", p)
}

func (a *vrdAbs) rr(rr *pb.RegistrationResponse) vrdRR {
	if rr == nil {
		return vrdRR{"-", "-", "-", vrdParams{"none", "-"}}
	}
	v4 := vrdIP4(rr.Ipv4Addr)
	var v6 net.IP
	if rr.Ipv6Addr != nil {
		v6 = net.IP(rr.Ipv6Addr)
	}
	prm := a.params(rr.TransportParams, v4)
	return vrdRR{a.addr(v4, false), a.addr(v6, true), a.port(rr, prm), prm}
}

// run executes one registration on the real code and abstracts the three views
func (e *vrdEnv) run(q vrdReq, c vrdCfg, cc *vrdConcrete, drawSeed int64, reseed bool) (vrdViews, map[string]any, error) {
	return e.runVia(q, c, cc, drawSeed, reseed, nil)
}

// VerifExec lets a front-end driver put its server between the client bytes and the processor: it receives the real
// processor, the client's wire bytes and address and returns the RegistrationResponse the client would decode.
type VerifExec func(p *RegProcessor, wire []byte, clientAddr net.IP) (*pb.RegistrationResponse, error)

func (e *vrdEnv) runVia(q vrdReq, c vrdCfg, cc *vrdConcrete, drawSeed int64, reseed bool, exec VerifExec) (vrdViews, map[string]any, error) {
	snd := &vrdRecSender{}
	p := e.processor(c, snd)
	a := &vrdAbs{e: e, q: q, c: c, cc: cc}
	keys, err := core.GenSharedKeys(uint(cc.libver), cc.secret, vrdTT[q.T])
	if err != nil {
		return vrdViews{}, nil, err
	}
	if ph, err := e.sel[c.Rnd].Select(keys.ConjureSeed, 1, uint(cc.libver), false); err == nil {
		a.orig4 = *ph.IP()
	}
	if ph, err := e.sel[c.Rnd].Select(keys.ConjureSeed, 1, uint(cc.libver), true); err == nil {
		a.orig6 = *ph.IP()
	}
	cany, _ := anypb.New(cc.clientPrms)
	parsed, perr := e.tpts[vrdTT[q.T]].ParseParams(uint(cc.libver), cany)
	if perr == nil {
		a.cport, a.cperr = e.tpts[vrdTT[q.T]].GetDstPort(uint(cc.libver), keys.ConjureSeed, parsed)
	} else {
		a.cperr = perr
	}
	if reseed {
		mrand.Seed(drawSeed)
	}
	var resp *pb.RegistrationResponse
	if exec == nil {
		in := proto.Clone(cc.c2sw).(*pb.C2SWrapper)
		resp, err = p.RegisterBidirectional(in, pb.RegistrationSource_BidirectionalAPI, vrdAddrBytes(cc.clientAddr))
	} else {
		wire, merr := proto.Marshal(cc.c2sw)
		if merr != nil {
			return vrdViews{}, nil, merr
		}
		resp, err = exec(p, wire, cc.clientAddr)
	}
	if err != nil {
		return vrdViews{}, nil, fmt.Errorf("RegisterBidirectional: %w", err)
	}
	if resp == nil {
		return vrdViews{}, nil, fmt.Errorf("no RegistrationResponse returned")
	}
	if len(snd.msgs) != 1 {
		return vrdViews{}, nil, fmt.Errorf("%d messages handed to the ZMQ sender", len(snd.msgs))
	}
	var v vrdViews
	detail := map[string]any{}
	v.Resp = a.rr(resp)
	// ---- forwarded
	fw := &pb.C2SWrapper{}
	if err := proto.Unmarshal(snd.msgs[0], fw); err != nil {
		return v, nil, fmt.Errorf("forwarded bytes do not parse: %w", err)
	}
	frr := fw.GetRegistrationResponse()
	v.Fwd.Response = a.rr(frr)
	// what the client is told = what the stations are told; for an outdated client (q.Outdated) a front end additionally
	// attaches its ClientConf - that field, and nothing else, may differ
	respCmp := resp
	if q.Outdated && resp.GetClientConf() != nil {
		respCmp = proto.Clone(resp).(*pb.RegistrationResponse)
		respCmp.ClientConf = nil
	}
	if !proto.Equal(frr, respCmp) {
		// same abstract class but different concrete value must not pass as equal
		if v.Fwd.Response == v.Resp {
			v.Fwd.Response.V4 += "#differs"
		}
		detail["resp"] = fmt.Sprint(resp)
		detail["fwd_response"] = fmt.Sprint(frr)
	}
	switch {
	case len(fw.RegRespBytes) == 0 && len(fw.RegRespSignature) == 0:
		v.Fwd.Sig = "none"
	case cc.forgedBytes != nil && (bytes.Equal(fw.RegRespBytes, cc.forgedBytes) || bytes.Equal(fw.RegRespSignature, cc.forgedSig)):
		v.Fwd.Sig = "client"
	default:
		signed := &pb.RegistrationResponse{}
		if proto.Unmarshal(fw.RegRespBytes, signed) == nil && proto.Equal(signed, frr) && ed25519.Verify(e.pub, fw.RegRespBytes, fw.RegRespSignature) {
			v.Fwd.Sig = "registrar"
		} else {
			v.Fwd.Sig = "other"
		}
	}
	// the payload must be forwarded as the client sent it
	wantPayload := cc.c2sw.GetRegistrationPayload()
	if q.Outdated && fw.GetRegistrationPayload().GetDecoyListGeneration() == 2 {
		// the API front end moves an outdated client's registration to the generation of the ClientConf it hands back
		wp := proto.Clone(wantPayload).(*pb.ClientToStation)
		wp.DecoyListGeneration = proto.Uint32(2)
		wantPayload = wp
	}
	if !proto.Equal(fw.GetRegistrationPayload(), wantPayload) || !bytes.Equal(fw.GetSharedSecret(), cc.secret) {
		detail["payload_changed"] = fmt.Sprint(fw.GetRegistrationPayload())
	}
	// ---- station: the real constructor on the forwarded bytes, as parseRegMessage drives it
	v.Sv = map[string]vrdSV{}
	st := e.station[c.Rnd]
	for _, f := range []string{"v4", "v6"} {
		if (f == "v4" && q.Fam == "v6") || (f == "v6" && q.Fam == "v4") {
			continue
		}
		parsed := &pb.C2SWrapper{}
		if err := proto.Unmarshal(snd.msgs[0], parsed); err != nil {
			return v, nil, err
		}
		if parsed.GetRegistrationAddress() == nil {
			parsed.RegistrationAddress = make([]byte, 16) // as parseRegMessage does (registration without client address)
		}
		reg, err := st.NewRegistrationC2SWrapper(parsed, f == "v6")
		if err != nil || reg == nil {
			v.Sv[f] = vrdSV{"error:" + fmt.Sprint(err), "-", vrdParams{"other", "-"}}
			continue
		}
		var sv vrdSV
		// phantom
		var rip net.IP
		if f == "v4" {
			rip = vrdIP4(resp.Ipv4Addr)
		} else if resp.Ipv6Addr != nil {
			rip = net.IP(resp.Ipv6Addr)
		}
		sv.Phantom = a.addr(reg.PhantomIp, f == "v6")
		respClass := v.Resp.V4
		if f == "v6" {
			respClass = v.Resp.V6
		}
		if rip != nil && !reg.PhantomIp.Equal(rip) && sv.Phantom == respClass {
			sv.Phantom += "#differs"
			detail["station_"+f] = reg.PhantomIp.String() + " vs " + rip.String()
		}
		// port
		prr := &pb.RegistrationResponse{DstPort: proto.Uint32(uint32(reg.PhantomPort))}
		sv.Port = a.port(prr, v.Resp.Params)
		if uint32(reg.PhantomPort) != resp.GetDstPort() && sv.Port == v.Resp.Port {
			sv.Port += "#differs"
		}
		// params
		sp, _ := reg.TransportParams().(proto.Message)
		var respPrm proto.Message
		if resp.TransportParams != nil {
			if q.T == "prefix" {
				respPrm = &pb.PrefixTransportParams{}
			} else {
				respPrm = &pb.GenericTransportParams{}
			}
			if transports.UnmarshalAnypbTo(resp.TransportParams, respPrm) != nil {
				respPrm = nil
			}
		}
		switch {
		case sp != nil && respPrm != nil && proto.Equal(sp, respPrm) && v.Resp.Params.Kind != "none":
			sv.Params = v.Resp.Params
		case sp != nil && proto.Equal(sp, cc.clientPrms):
			sv.Params = vrdParams{"client", "-"}
		default:
			sv.Params = vrdParams{"other", fmt.Sprint(sp)}
		}
		v.Sv[f] = sv
	}
	return v, detail, nil
}

var vrdMetrics = metrics.NewMetrics(log.NewEntry(func() *log.Logger { l := log.New(); l.SetOutput(io.Discard); return l }()), 24*time.Hour)

// ---- exported names for the front-end drivers (other packages)
type (
	VerifReq   = vrdReq
	VerifCfg   = vrdCfg
	VerifViews = vrdViews
	VerifRow   = vrdRow
	VerifEnv   = vrdEnv
)

func VerifNewEnv() (*VerifEnv, error) { return vrdNewEnv() }
func (e *vrdEnv) Cleanup()            { e.cleanup() }
func (e *vrdEnv) DrawSeed(u, total int) int64 {
	return e.drawSeed(u, total)
}

// RunVia executes one RegistrarData row with the caller's front end between the client and the real processor
func (e *vrdEnv) RunVia(q VerifReq, c VerifCfg, salt string, clientAddr net.IP, pid int32, drawSeed int64, exec VerifExec) (VerifViews, map[string]any, error) {
	cc := e.request(q, salt, clientAddr, pid)
	return e.runVia(q, c, cc, drawSeed, true, exec)
}

func vrdAddrBytes(ip net.IP) []byte {
	if ip == nil {
		return nil
	}
	return []byte(ip.To16())
}

func vrdSeed() int64 {
	s, err := strconv.ParseInt(os.Getenv("VERIF_SEED"), 10, 64)
	if err != nil {
		return 1
	}
	return s
}
