#!/usr/bin/env python3
"""Shared machinery for the conjure TLA+ checks (see DESIGN.md section 2).

Every check is a python module checks/<ID>.py exposing run(ctx).  This library
provides: scratch handling, TLC runs (exhaustive / behaviour generation / trace
validation), Go harness builds through `go test -overlay`, evidence writing,
known-finding handling and the exit-code contract:

  exit 0  property held on everything explored (KNOWN-FINDING lines allowed)
  exit 1  VIOLATION property=<id> replay=<path>   (real-code behaviour only)
  exit 2  infrastructure problem (TLC timeout, build failure, vacuity, ...)
"""
import json, os, re, shutil, subprocess, sys, tempfile, time, hashlib, random

VERIF = os.path.dirname(os.path.dirname(os.path.abspath(__file__)))
TLA_CP = "/opt/veriftools/tla/tla2tools.jar:/opt/veriftools/tla/CommunityModules-deps.jar"


class InfraError(Exception):
    pass


class Ctx:
    def __init__(self, pid, tier, seed, replay=None):
        self.pid = pid
        self.tier = tier
        self.seed = seed
        self.replay = replay
        self.repo = os.environ.get("VERIF_REPO", "/repo")
        base = os.environ.get("VERIF_SCRATCH")
        self._own_scratch = base is None
        if base is None:
            base = tempfile.mkdtemp(prefix="verif_%s_" % pid)
        else:
            base = os.path.join(base, "%s_%d" % (pid, os.getpid()))
            os.makedirs(base, exist_ok=True)
        self.scratch = base
        self.t0 = time.time()
        self.level = "model_checking"
        self.cov = {"states": 0, "transitions": 0, "traces_validated_against_impl": 0,
                    "evaluations": 0, "distinct_nontrivial": 0, "samples": [], "rule": "",
                    "tlc_runs": [], "stages": {}}
        self.assumptions = []
        self.violations = []      # dicts: key, what, detail
        self.known = []
        self.notes = []
        self.rng = random.Random(seed)

    # ------------------------------------------------------------------ misc
    def log(self, *a):
        print("[%s %6.1fs]" % (self.pid, time.time() - self.t0), *a, flush=True)

    def cleanup(self):
        if os.environ.get("VERIF_KEEP"):
            self.log("scratch kept at", self.scratch)
            return
        shutil.rmtree(self.scratch, ignore_errors=True)

    def sub(self, name):
        d = os.path.join(self.scratch, name)
        os.makedirs(d, exist_ok=True)
        return d

    def sample(self, s, cap=6):
        if len(self.cov["samples"]) < cap:
            self.cov["samples"].append(s)

    def stage(self, name, **kw):
        self.cov["stages"].setdefault(name, {}).update(kw)

    # ------------------------------------------------------------------- TLC
    def spec_copy(self, module_dir):
        """Copy /verif/spec/<module_dir> into scratch and return the path."""
        src = os.path.join(VERIF, "spec", module_dir)
        dst = os.path.join(self.scratch, "spec_" + module_dir + "_%d" % len(os.listdir(self.scratch)))
        shutil.copytree(src, dst)
        # shared modules
        common = os.path.join(VERIF, "spec", "common")
        if os.path.isdir(common):
            for f in os.listdir(common):
                if not os.path.exists(os.path.join(dst, f)):
                    shutil.copy(os.path.join(common, f), dst)
        return dst

    def tlc(self, sdir, module, cfg, workers=None, timeout=600, simulate=None, depth=None,
            extra=(), deadlock=True, heap=None, coverage=False, dfs=False, count=True,
            expect_violation=False, check=True):
        """Run TLC.  Returns dict(ok, generated, distinct, depth, out, printed, error_kind, inv)."""
        if workers is None:
            workers = min(16, os.cpu_count() or 4)
        md = tempfile.mkdtemp(prefix="md_", dir=self.scratch)
        java = ["java", "-XX:+UseParallelGC", "-Xss64m"]
        if heap:
            java.append("-Xmx%s" % heap)
        if dfs:
            java.append("-Dtlc2.tool.queue.IStateQueue=StateDeque")
        cmd = ["timeout", str(timeout)] + java + ["-cp", TLA_CP, "tlc2.TLC", "-workers", str(workers),
                                                 "-metadir", md, "-config", cfg]
        if simulate:
            cmd += ["-simulate", simulate]
        if depth:
            cmd += ["-depth", str(depth)]
        if not deadlock:
            cmd += ["-deadlock"]
        if coverage:
            cmd += ["-coverage", "1"]
        cmd += list(extra) + [module]
        t = time.time()
        outf = os.path.join(self.scratch, "tlc_%d.out" % len(self.cov["tlc_runs"]) + "_%d" % int(time.time() * 1000 % 100000))
        with open(outf, "w") as fo:
            p = subprocess.run(cmd, cwd=sdir, stdout=fo, stderr=subprocess.STDOUT)
        # behaviours printed by Gen_* modules can be hundreds of MB: split them off into a file
        behf = outf + ".beh"
        nbeh = 0
        keep = []
        with open(outf, errors="replace") as fi, open(behf, "w") as fb:
            for line in fi:
                if line.startswith('"[') or line.startswith('"{'):
                    try:
                        fb.write(json.loads(line) + "\n")
                        nbeh += 1
                    except Exception:
                        keep.append(line)
                else:
                    if len(keep) < 200000:
                        keep.append(line)
        os.unlink(outf)
        out = "".join(keep)
        r = {"rc": p.returncode, "out": out, "wall_s": round(time.time() - t, 2), "module": module, "cfg": cfg,
             "beh_file": behf, "nbeh": nbeh}
        shutil.rmtree(md, ignore_errors=True)
        m = re.search(r"(\d+) states generated, (\d+) distinct states found", out)
        r["generated"] = int(m.group(1)) if m else 0
        r["distinct"] = int(m.group(2)) if m else 0
        m = re.search(r"depth of the complete state graph search is (\d+)", out)
        r["depth"] = int(m.group(1)) if m else 0
        r["inv"] = None
        m = re.search(r"Invariant (\S+) is violated", out)
        if m:
            r["inv"] = m.group(1)
        m2 = re.search(r"Action property (\S+) is violated|Temporal propert(?:y|ies) (\S+ )?w(?:as|ere) violated", out)
        if m2 and not r["inv"]:
            r["inv"] = (m2.group(1) or m2.group(2) or "temporal").strip()
        if "Deadlock reached" in out and not r["inv"]:
            r["inv"] = "Deadlock"
        r["ok"] = (p.returncode == 0 and "No error has been found" in out) or \
                  (simulate is not None and p.returncode in (0,) )
        if p.returncode == 124:
            raise InfraError("TLC timeout (%ss) on %s/%s" % (timeout, module, cfg))
        if "Postcondition" in out and "violated" in out or "POSTCONDITION" in out and "violated" in out.lower():
            r["post_failed"] = True
            r["ok"] = False
        if not r["ok"] and r["inv"] is None and check:
            raise InfraError("TLC failed on %s/%s rc=%s:\n%s" % (module, cfg, p.returncode, out[-3000:]))
        if r["inv"] and not expect_violation:
            pass  # the caller decides (design-level counterexample -> must be reproduced on real code)
        if count:
            self.cov["states"] += r["distinct"]
            self.cov["transitions"] += r["generated"]
        self.cov["tlc_runs"].append({"module": module, "cfg": cfg, "generated": r["generated"],
                                     "distinct": r["distinct"], "depth": r["depth"],
                                     "wall_s": r["wall_s"], "result": r["inv"] or "ok",
                                     "mode": "simulate" if simulate else "exhaustive"})
        return r

    @staticmethod
    def behaviours(r, limit=None):
        """Decode the JSON behaviours printed by a Gen_* run (PrintT(ToJson(hist)))."""
        res = []
        with open(r["beh_file"]) as f:
            for l in f:
                res.append(json.loads(l))
                if limit and len(res) >= limit:
                    break
        return res

    def require_design_ok(self, r, what):
        """An exhaustive run of the design-level spec must find no error (else the model is wrong
        or the design is; either way no verdict about the code -> infrastructure error)."""
        if r["inv"]:
            raise InfraError("TLC reports %s on %s (%s); the as-repaired model must satisfy its invariants:\n%s"
                             % (r["inv"], r["module"], what, r["out"][-2500:]))

    def validate_traces(self, sdir, module, cfg, traces, name="trace.ndjson", timeout=600, workers=1, dfs=False, reset=True):
        """traces: list of lists of event dicts.  They are concatenated with Reset events.
        Returns (accepted: bool, reached: int, total: int, r)."""
        path = os.path.join(sdir, name)
        n = 0
        with open(path, "w") as f:
            for tr in traces:
                if reset:
                    f.write(json.dumps({"a": "Reset"}) + "\n")
                    n += 1
                for ev in tr:
                    f.write(json.dumps(ev) + "\n")
                    n += 1
        r = self.tlc(sdir, module, cfg, workers=workers, timeout=timeout, deadlock=False, dfs=dfs, count=False, check=False)
        m = re.findall(r'TRACE_REACHED", (\d+)', r["out"])
        reached = max([int(x) for x in m]) if m else (r["depth"] - 1)
        if r["inv"]:
            # position of the event that led into the violating state: the error trace's last value of l
            ls = re.findall(r"/\\ l = (\d+)", r["out"])
            if ls:
                reached = max(0, int(ls[-1]) - 2)
        accepted = r["ok"] and reached >= n and not r["inv"]
        return accepted, reached, n, r

    # -------------------------------------------------------------------- Go
    def go_env(self, extra=None):
        e = dict(os.environ)
        e.update({"GOFLAGS": "", "GOPROXY": "off", "GOSUMDB": "off", "GOTOOLCHAIN": "local",
                  "VERIF_SEED": str(self.seed), "VERIF_TIER": self.tier})
        if extra:
            e.update({k: str(v) for k, v in extra.items()})
        return e

    def overlay(self, pkg_rel, files, pkgname):
        """files: list of paths under /verif/harness (relative) to add to package pkg_rel as
        zz_<base>.  `common` helpers are instantiated with the package name."""
        repl = {}
        odir = self.sub("ov_" + pkg_rel.replace("/", "_"))
        for f in files:
            src = os.path.join(VERIF, "harness", f)
            base = os.path.basename(f)
            txt = open(src).read()
            if "package PKGNAME" in txt:
                txt = txt.replace("package PKGNAME", "package " + pkgname)
            dst = os.path.join(odir, base)
            open(dst, "w").write(txt)
            repl[os.path.join(self.repo, pkg_rel, "zz_" + base)] = dst
        ov = os.path.join(odir, "overlay.json")
        json.dump({"Replace": repl}, open(ov, "w"))
        return ov

    def go_test(self, pkg_rel, files, pkgname, run, env=None, race=False, timeout=900, tags="verif",
                cwd_rel=None, extra_overlays=None, count=1, parallel=None):
        """Build (from the repository's current working tree + overlay) and run an in-package driver."""
        ov = self.overlay(pkg_rel, files, pkgname)
        if extra_overlays:
            base = json.load(open(ov))
            for (prel, pfiles, pname) in extra_overlays:
                o2 = json.load(open(self.overlay(prel, pfiles, pname)))
                base["Replace"].update(o2["Replace"])
            json.dump(base, open(ov, "w"))
        cwd = os.path.join(self.repo, cwd_rel) if cwd_rel else self.repo
        target = "./" + pkg_rel if not cwd_rel else "."
        cmd = ["go", "test", "-vet=off", "-count=%d" % count, "-overlay", ov, "-run", run,
               "-timeout", "%ds" % timeout, "-v"]
        if tags:
            cmd += ["-tags", tags]
        if race:
            cmd += ["-race"]
        if parallel:
            cmd += ["-parallel", str(parallel)]
        cmd += [target]
        t = time.time()
        p = subprocess.run(cmd, cwd=cwd, env=self.go_env(env), stdout=subprocess.PIPE,
                           stderr=subprocess.STDOUT, text=True, errors="replace")
        out = p.stdout
        res = {"rc": p.returncode, "out": out, "wall_s": round(time.time() - t, 2)}
        if "[build failed]" in out or "[setup failed]" in out or re.search(r"^# ", out, re.M) and p.returncode != 0 and "--- " not in out:
            raise InfraError("go build failed for %s:\n%s" % (pkg_rel, out[-4000:]))
        if "no tests to run" in out:
            raise InfraError("driver %s not found in %s" % (run, pkg_rel))
        return res

    @staticmethod
    def stall_sites(res, pkg_hint="conjure/"):
        """If a go test run was killed by its own -timeout ("panic: test timed out"): the real code hung.  Returns the sorted
        set of repository functions in which goroutines are blocked on a lock / channel (from the goroutine dump), else None."""
        out = res["out"]
        if "panic: test timed out" not in out:
            return None
        sites = set()
        for blk in out.split("\n\n"):
            # goroutines parked on a mutex / rwmutex (channel waits are idle helpers, not the deadlock)
            if not re.match(r"goroutine \d+ \[(sync\.(RW)?Mutex|semacquire)", blk):
                continue
            for line in blk.splitlines()[1:]:
                if pkg_hint in line and not line.startswith("\t") and "(" in line:
                    f = line.rsplit("(", 1)[0].split("/")[-1]
                    if "Verif" in f or re.search(r"\.v[a-z]+[A-Z]", f):
                        continue        # driver frames
                    sites.add(f)
                    break
        return sorted(sites) or ["(no repository frame in the dump)"]

    # --------------------------------------------------------------- verdicts
    def violation(self, key, what, detail=None):
        """Record a candidate violation observed on the REAL code.  key identifies the specific
        failing input / site / history (matched against known_findings.json)."""
        self.violations.append({"key": key, "what": what, "detail": detail})

    def read_results(self, path):
        res = []
        if not os.path.exists(path):
            raise InfraError("driver produced no result file %s" % path)
        for l in open(path):
            l = l.strip()
            if l:
                res.append(json.loads(l))
        return res

    def finish(self):
        kf_path = os.path.join(VERIF, "known_findings.json")
        known = []
        if os.path.exists(kf_path):
            known = [k for k in json.load(open(kf_path)).get("findings", []) if k.get("property") == self.pid]
        unknown = []
        seen_known = {}
        for v in self.violations:
            hit = None
            for k in known:
                if re.fullmatch(k["key"], v["key"]):
                    hit = k
                    break
            if hit:
                seen_known.setdefault(hit["key"], (hit, 0))
                seen_known[hit["key"]] = (hit, seen_known[hit["key"]][1] + 1)
            else:
                unknown.append(v)
        for k in known:
            n = seen_known.get(k["key"], (k, 0))[1]
            print("KNOWN-FINDING: property=%s %s (%s; key=%s)" % (self.pid, k["what"],
                  "observed %d time(s) this run" % n if n else "listed; not observed in this run", k["key"]))
        rc = 0
        if unknown:
            os.makedirs(os.path.join(VERIF, "replays"), exist_ok=True)
            rp = os.path.join(VERIF, "replays", "%s_%s_%d.json" % (self.pid, self.tier, self.seed))
            kinds = {}
            for v in unknown:
                if v["key"] in kinds:
                    kinds[v["key"]]["occurrences"] = kinds[v["key"]].get("occurrences", 1) + 1
                else:
                    kinds[v["key"]] = dict(v)
            json.dump({"property": self.pid, "seed": self.seed, "tier": self.tier, "violations": list(kinds.values())[:100]},
                      open(rp, "w"), indent=1, default=str)
            for key, v in list(kinds.items())[:20]:
                print("  violation key=%s: %s" % (key, v["what"]))
            print("VIOLATION property=%s replay=%s" % (self.pid, rp))
            rc = 1
        self.write_evidence(len(unknown), known_seen=len(seen_known))
        return rc

    def write_evidence(self, nviol, known_seen=0):
        cov = dict(self.cov)
        cov["samples"] = cov["samples"] or ["(no sample recorded)"]
        ev = {"property_id": self.pid, "tier": self.tier, "seed": self.seed, "level": self.level,
              "coverage": cov, "assumptions": self.assumptions, "wall_s": round(time.time() - self.t0, 2),
              "violations": nviol, "known_findings_observed": known_seen, "notes": self.notes,
              "repo": self.repo}
        # evidence under /verif/evidence always describes /repo itself; a run against a scratch copy (VERIF_REPO, used by
        # bin/mutant and bin/seedtest) writes its evidence next to the scratch data instead
        edir = os.path.join(VERIF, "evidence") if os.path.realpath(self.repo) == "/repo" else os.path.join(self.scratch, "evidence")
        if edir.startswith(VERIF) and not re.fullmatch(r"C\d\d", self.pid):
            edir = os.path.join(VERIF, "evidence_extra")     # modules beyond the listed properties (checks/X*.py)
        os.makedirs(edir, exist_ok=True)
        json.dump(ev, open(os.path.join(edir, self.pid + ".json"), "w"), indent=1, default=str)


def distinct_count(items):
    return len({hashlib.sha1(json.dumps(i, sort_keys=True, default=str).encode()).hexdigest() for i in items})
