SPECIFICATION TraceSpec
CONSTANTS
  Mode = "rename"
  NOps = 1000
  Kinds = {"Replace", "Partial", "BadMarshal"}
  MaxChunks = 8
  Errnos = {"EACCES", "ENOSPC", "EIO", "ENOENT", "ENOTDIR", "EFBIG", "EROFS", "EPERM", "EXDEV", "EDQUOT", "EISDIR", "other"}
  MaxFaults = 1000
  MaxCrashes = 1000
INVARIANTS TargetAlwaysWhole FailedStoreKeepsOldOnDisk FailedReplaceKeepsOldInMemory TempInSameDirectory
           SuccessfulStoreSyncs PublishedOnlyWhenComplete
POSTCONDITION Post
CHECK_DEADLOCK FALSE
