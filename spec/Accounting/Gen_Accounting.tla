--------------------------- MODULE Gen_Accounting ---------------------------
(* Behaviour generator for stage B (spec -> implementation replay) at the object level: carries the history of
   observations and prints every behaviour that is complete (Depth steps, or nothing left to do) as JSON.
   Exhaustive mode enumerates every path (hist is part of the state); -simulate samples long ones.
   CONSTRAINT Canon (Accounting.tla) breaks the symmetry between ids. *)
EXTENDS Accounting, Json
CONSTANTS Depth
VARIABLE hist
GenInit == Init /\ hist = <<>>
GenNext == /\ Len(hist) < Depth
           /\ NextObj
           /\ hist' = Append(hist, obs')
GenSpec == GenInit /\ [][GenNext]_<<vars, hist>>
Complete == Len(hist) = Depth \/ ~ENABLED NextObj
Emit == ~Complete \/ PrintT(ToJson(hist))
=============================================================================
