//go:build verif

package lib

// Conformance driver for spec/LogTaint (property C17), the registration path of CONNECTING transports: the station
// dials OUT to the client (ingestRegistration -> handleConnectingTpReg -> transport.Connect, i.e. DTLS), so the errors of
// those network calls name the client's endpoint - and they reach the handler through the transport layer, which may
// hand them on as they are, wrapped, or flattened into plain text.  List relay_verif_test.go and taint_verif_test.go
// before this file.
//
//   vtcRun (called by TestVerifTaintRelay for the sites "connect.*")
//       one DTLS registration whose registrant / dial target is the distinctive client address goes through the REAL
//       ingestRegistration of a fresh RegistrationManager; the connecting transport is scripted and fails Connect with
//       the case's (error kind, wrapping) - the wrapping "flat" is built the way dtls.(*Transport).Connect builds its
//       result (fmt.Errorf("error connecting to dtls client: %v", err) joined with the listen attempt's error by
//       "%v, %v").  connect.geoip.*: the handler's own GeoIP lookups fail with the REAL MaxMind reader over database
//       files the driver writes.  The manager's log is searched for every form of the address; the statistics calls say
//       which branch was taken.
//   TestVerifTaintConnectReal
//       the same path with the REAL dtls transport (real Connect: real reuseport.Dial from :41245, real pion handshake,
//       real pkg/dtls listener on a port of its own; only the two unexported fields are filled in by an overlay bridge):
//       the client is an unbound UDP port on loopback (127.77.0.77 / ::ffff:127.77.0.77 / ::1), so the handshake fails
//       with the network stack's own ECONNREFUSED naming that endpoint, and the registration's secret is already
//       registered at the listener (the other family's registration of a dual-stack client), so the listen attempt fails
//       at once and Connect returns before its deadline.  Reports the shape of what Connect really returned (does the
//       text name the client, is a *net.OpError still in the chain) - this binds the model's "flat" wrapping to the code.

import (
	"context"
	"encoding/json"
	"errors"
	"fmt"
	golog "log"
	"net"
	"os"
	"path/filepath"
	"strings"
	"sync"
	"syscall"
	"testing"
	"time"

	"github.com/refraction-networking/conjure/internal/conjurepath"
	"github.com/refraction-networking/conjure/pkg/core"
	cjdtls "github.com/refraction-networking/conjure/pkg/dtls"
	"github.com/refraction-networking/conjure/pkg/station/geoip"
	"github.com/refraction-networking/conjure/pkg/station/log"
	"github.com/refraction-networking/conjure/pkg/transports"
	cjt "github.com/refraction-networking/conjure/pkg/transports/connecting/dtls"
	pb "github.com/refraction-networking/conjure/proto"
	"google.golang.org/protobuf/proto"
	"google.golang.org/protobuf/types/known/anypb"
)

const vtcStationPort = 41245 // listenPort of the dtls transport: the local port of its dial-out
const vtcClientPort = 40077

// ---------------------------------------------------------------- errors as transport.Connect returns them
func vtcEndpoints(fam string, client net.IP, port int) (local, remote *net.UDPAddr) {
	local = &net.UDPAddr{IP: net.IPv4zero, Port: vtcStationPort}
	if fam == "v6" {
		local = &net.UDPAddr{IP: net.IPv6unspecified, Port: vtcStationPort}
	}
	return local, &net.UDPAddr{IP: client, Port: port}
}

// vtcMkErr: what Connect returns for (kind, wrapping).  The network call that failed is the dial to the client (errnos of
// connect(2)) or a read / write of the DTLS handshake on that connected UDP socket.
//
//	"op"   the *net.OpError of the network stack (both endpoints)      "fmt"  the transport wraps it with %w
//	"sys" / "bare"  the errno without the operation                    "ctx"  ctx.Err() of the 5 s context
//	"flat" the transport formats it with %v into a fresh error and joins it with the listen attempt's error - exactly
//	       what pkg/transports/connecting/dtls does
func vtcMkErr(kind, wrap, fam string, client net.IP, port int) error {
	if kind == "ctxdeadline" {
		return context.DeadlineExceeded
	}
	local, remote := vtcEndpoints(fam, client, port)
	op, sysop := "read", "read"
	switch kind {
	case "NETUNREACH", "NETDOWN", "HOSTUNREACH", "EINVAL", "NOBUFS", "ETIMEDOUT":
		op, sysop = "dial", "connect"
	case "EPIPE", "NOTCONN", "EIO":
		op, sysop = "write", "write"
	}
	var inner error
	switch kind {
	case "other":
		inner = &vrlOpaque{"verif: injected failure"}
	case "closed":
		inner = net.ErrClosed
	case "timeout":
		inner = os.ErrDeadlineExceeded
	default:
		no, ok := vrlErrno[kind]
		if !ok {
			panic("unknown error kind " + kind)
		}
		if wrap == "bare" {
			return no
		}
		inner = os.NewSyscallError(sysop, no)
	}
	opErr := &net.OpError{Op: op, Net: "udp", Source: local, Addr: remote, Err: inner}
	switch wrap {
	case "sys", "bare":
		return inner
	case "fmt":
		return fmt.Errorf("error connecting to dtls client: %w", opErr)
	case "flat":
		e1 := fmt.Errorf("error connecting to dtls client: %v", opErr)
		e2 := fmt.Errorf("error accepting dtls connection from secret: %v", errors.New("error registering cert: seed already registered"))
		return fmt.Errorf("%v, %v", e1, e2)
	default: // "op"
		return opErr
	}
}

// ---------------------------------------------------------------- scripted connecting transport, recorders
type vtcTransport struct {
	inner  ConnectingTransport // nil: scripted
	err    error
	mu     sync.Mutex
	ctxCh  chan context.Context
	ret    error
	retMs  int64
	called bool
}

func (t *vtcTransport) Name() string      { return "dtls" }
func (t *vtcTransport) LogPrefix() string { return "DTLS" }
func (t *vtcTransport) GetIdentifier(r transports.Registration) string {
	return string(core.ConjureHMAC(r.SharedSecret(), "dtlsTrasportHMACString"))
}
func (t *vtcTransport) GetProto() pb.IPProto                         { return pb.IPProto_Udp }
func (t *vtcTransport) GetDstPort(uint, []byte, any) (uint16, error) { return 443, nil }
func (t *vtcTransport) ParseParams(uint, *anypb.Any) (any, error)    { return nil, nil }
func (t *vtcTransport) ParamStrings(any) []string                    { return nil }
func (t *vtcTransport) Connect(ctx context.Context, reg transports.Registration) (net.Conn, error) {
	t0 := time.Now()
	var conn net.Conn
	err := t.err
	if t.inner != nil {
		conn, err = t.inner.Connect(ctx, reg)
	}
	t.mu.Lock()
	t.called, t.ret, t.retMs = true, err, time.Since(t0).Milliseconds()
	t.mu.Unlock()
	t.ctxCh <- ctx
	if err != nil {
		return nil, err
	}
	return conn, nil
}

type vtcStats struct {
	mu    sync.Mutex
	calls []string
}

func (s *vtcStats) add(k string) { s.mu.Lock(); s.calls = append(s.calls, k); s.mu.Unlock() }
func (s *vtcStats) has(k string) bool {
	s.mu.Lock()
	defer s.mu.Unlock()
	for _, c := range s.calls {
		if c == k {
			return true
		}
	}
	return false
}
func (s *vtcStats) AddCreatedConnecting(uint, string, string)               { s.add("created") }
func (s *vtcStats) AddCreatedToSuccessfulConnecting(uint, string, string)   { s.add("successful") }
func (s *vtcStats) AddCreatedToTimeoutConnecting(uint, string, string)      { s.add("timeout") }
func (s *vtcStats) AddSuccessfulToDiscardedConnecting(uint, string, string) { s.add("discarded") }
func (s *vtcStats) AddOtherFailConnecting(uint, string, string)             { s.add("otherfail") }

// vtcGeo: every lookup succeeds, or the inner (real) database decides; failed reports a lookup error to the driver
type vtcGeo struct {
	inner  geoip.Database
	failed chan struct{}
}

func (g *vtcGeo) CC(ip net.IP) (string, error) {
	if g.inner == nil {
		return "zz", nil
	}
	cc, err := g.inner.CC(ip)
	if err != nil {
		close(g.failed)
	}
	return cc, err
}
func (g *vtcGeo) ASN(ip net.IP) (uint, error) {
	if g.inner == nil {
		return 64500, nil
	}
	asn, err := g.inner.ASN(ip)
	if err != nil {
		close(g.failed)
	}
	return asn, err
}

type vtcDnat struct{}

func (vtcDnat) AddEntry(*net.IP, uint16, *net.IP, uint16) error { return nil }

// vtcMkReg: a DTLS registration of a client at `client` (registrant address = the source address the station will dial)
func vtcMkReg(fam string, client net.IP, port int, tp Transport, secret []byte) *DecoyRegistration {
	keys, err := core.GenSharedKeys(uint(core.CurrentClientLibraryVersion()), secret, pb.TransportType_DTLS)
	if err != nil {
		panic(err)
	}
	src := pb.RegistrationSource_API
	params := &pb.DTLSTransportParams{}
	phantom := net.ParseIP("192.122.190.120")
	if fam == "v6" {
		phantom = net.ParseIP("2001:48a8:687f:1::120")
		params.SrcAddr6 = &pb.Addr{IP: client, Port: proto.Uint32(uint32(port))}
	} else {
		params.SrcAddr4 = &pb.Addr{IP: client, Port: proto.Uint32(uint32(port))}
	}
	return &DecoyRegistration{PhantomIp: phantom, PhantomPort: 443, Keys: &keys, Covert: "198.51.100.9:443",
		Transport: pb.TransportType_DTLS, TransportPtr: &tp, transportParams: params, RegistrationSource: &src,
		RegistrationTime: time.Now(), registrationAddr: client, regCC: "US", regASN: 64500,
		Flags: &pb.RegistrationFlags{Prescanned: proto.Bool(true)}} // no liveness probe of the phantom
}

func vtcManager(ibuf *vrlSyncBuf, tp Transport, st *vtcStats, geo geoip.Database) *RegistrationManager {
	rm := NewRegistrationManager(&RegConfig{})
	rm.Logger = log.New(ibuf, "[REG] ", golog.Ldate|golog.Lmicroseconds) // default level
	rm.connectingStats = st
	rm.GeoIP = geo
	rm.registeredDecoys.transports[pb.TransportType_DTLS] = tp
	rm.registeredDecoys.registerForDetector = func(*DecoyRegistration) {}
	rm.registeredDecoys.updateInDetector = func(*DecoyRegistration) {}
	return rm
}

// vtcAwait waits until the handler goroutine has finished: the context given to Connect is cancelled by the handler's
// deferred cancel, i.e. after everything it was going to write has been written.
func vtcAwait(tp *vtcTransport, limit time.Duration) (called, finished bool) {
	select {
	case ctx := <-tp.ctxCh:
		select {
		case <-ctx.Done():
			return true, true
		case <-time.After(limit):
			return true, false
		}
	case <-time.After(limit):
		return false, false
	}
}

// ---------------------------------------------------------------- the real MaxMind reader over minimal database files
var (
	vtcGeoOnce              sync.Once
	vtcGeoFailCC, vtcGeoFailASN geoip.Database
	vtcGeoErr               error
)

func vtcMMCtrl(typ, size int) []byte {
	if typ <= 7 {
		return []byte{byte(typ<<5 | size)}
	}
	return []byte{byte(size), byte(typ - 7)}
}
func vtcMMStr(s string) []byte { return append(vtcMMCtrl(2, len(s)), s...) }
func vtcMMUint(typ int, v uint64) []byte {
	var b []byte
	for v > 0 {
		b = append([]byte{byte(v)}, b...)
		v >>= 8
	}
	return append(vtcMMCtrl(typ, len(b)), b...)
}
func vtcMMMap(kv ...[]byte) []byte {
	out := vtcMMCtrl(7, len(kv)/2)
	for _, x := range kv {
		out = append(out, x...)
	}
	return out
}

// one search-tree node whose two records both lead to the single data record (data != nil) or to "not found"
func vtcWriteMMDB(path, dbType string, ipVersion int, data []byte) error {
	const nodeCount = 1
	rec := uint32(nodeCount)
	if data != nil {
		rec = nodeCount + 16
	}
	r3 := []byte{byte(rec >> 16), byte(rec >> 8), byte(rec)}
	var f []byte
	f = append(f, r3...)
	f = append(f, r3...)
	f = append(f, make([]byte, 16)...)
	f = append(f, data...)
	f = append(f, []byte("\xab\xcd\xefMaxMind.com")...)
	f = append(f, vtcMMMap(
		vtcMMStr("binary_format_major_version"), vtcMMUint(5, 2),
		vtcMMStr("binary_format_minor_version"), vtcMMUint(5, 0),
		vtcMMStr("build_epoch"), vtcMMUint(9, 1700000000),
		vtcMMStr("database_type"), vtcMMStr(dbType),
		vtcMMStr("description"), vtcMMMap(vtcMMStr("en"), vtcMMStr("verif")),
		vtcMMStr("ip_version"), vtcMMUint(5, uint64(ipVersion)),
		vtcMMStr("languages"), append(vtcMMCtrl(11, 1), vtcMMStr("en")...),
		vtcMMStr("node_count"), vtcMMUint(6, nodeCount),
		vtcMMStr("record_size"), vtcMMUint(5, 24),
	)...)
	return os.WriteFile(path, f, 0o644)
}

// IPv4-only country database (a v6 registrant fails the CC lookup), resp. v6 country + IPv4-only ASN database
func vtcGeoDBs() (geoip.Database, geoip.Database, error) {
	vtcGeoOnce.Do(func() {
		dir, err := os.MkdirTemp("", "verif_c17_geo")
		if err != nil {
			vtcGeoErr = err
			return
		}
		defer os.RemoveAll(dir) // the reader maps / reads the files at open
		cc4, cc6, asn4 := filepath.Join(dir, "cc4.mmdb"), filepath.Join(dir, "cc6.mmdb"), filepath.Join(dir, "asn4.mmdb")
		country := vtcMMMap(vtcMMStr("country"), vtcMMMap(vtcMMStr("iso_code"), vtcMMStr("ZZ")))
		for _, e := range []error{vtcWriteMMDB(cc4, "GeoLite2-Country", 4, nil), vtcWriteMMDB(cc6, "GeoLite2-Country", 6, country),
			vtcWriteMMDB(asn4, "GeoLite2-ASN", 4, nil)} {
			if e != nil {
				vtcGeoErr = e
				return
			}
		}
		if vtcGeoFailCC, vtcGeoErr = geoip.New(&geoip.DBConfig{CCDBPath: cc4, ASNDBPath: asn4}); vtcGeoErr != nil {
			return
		}
		vtcGeoFailASN, vtcGeoErr = geoip.New(&geoip.DBConfig{CCDBPath: cc6, ASNDBPath: asn4})
	})
	return vtcGeoFailCC, vtcGeoFailASN, vtcGeoErr
}

// ---------------------------------------------------------------- scripted cases of the decision table
func vtcRun(idx int, cs vtlCase) (res map[string]any) {
	res = map[string]any{"kind": "result", "idx": idx, "case": cs, "mode": "scripted"}
	defer func() {
		if r := recover(); r != nil {
			res["panic"] = fmt.Sprint(r)
		}
	}()
	client := vtlAddrs[cs.Fam].IP
	ibuf := &vrlSyncBuf{}
	st := &vtcStats{}
	tp := &vtcTransport{ctxCh: make(chan context.Context, 1)}
	geo := &vtcGeo{failed: make(chan struct{})}
	switch cs.Site {
	case "connect.Fail":
		tp.err = vtcMkErr(cs.K, cs.W, cs.Fam, client, vtcClientPort)
	case "connect.geoip.CC", "connect.geoip.ASN":
		failCC, failASN, err := vtcGeoDBs()
		if err != nil {
			res["panic"] = "geoip databases: " + err.Error()
			return res
		}
		geo.inner = failCC
		if cs.Site == "connect.geoip.ASN" {
			geo.inner = failASN
		}
		tp.err = errors.New("verif: Connect must not be reached")
	default:
		res["skipped"] = true
		return res
	}
	rm := vtcManager(ibuf, tp, st, geo)
	reg := vtcMkReg(cs.Fam, client, vtcClientPort, tp, vSecret("c17-connect"))
	rm.ingestRegistration(reg)
	if cs.Site == "connect.Fail" {
		called, fin := vtcAwait(tp, 10*time.Second)
		res["returned"] = called && fin
		want := "otherfail"
		if cs.K == "ctxdeadline" {
			want = "timeout"
		}
		res["reached"] = st.has(want)
		res["branch"] = want
	} else {
		select {
		case <-geo.failed:
			res["returned"], res["reached"] = true, true
			for i := 0; i < 200 && len(ibuf.String()) == 0; i++ { // the Error line follows the failed lookup at once
				time.Sleep(time.Millisecond)
			}
		case <-time.After(10 * time.Second):
			res["returned"], res["reached"] = true, false
		}
		res["connect_called"] = st.has("created")
	}
	time.Sleep(time.Millisecond)
	text := ibuf.String()
	hit, line := vtlScan(text, cs.Fam)
	res["addr_seen"], res["bytes"] = hit, len(text)
	switch {
	case hit:
		res["line"], res["class"] = line, "raw"
	case len(text) == 0:
		res["class"] = "dropped"
	default:
		res["class"] = "generic"
	}
	return res
}

// ---------------------------------------------------------------- the real dtls transport
func vtcFreeUDPPort(ip net.IP) (int, error) {
	c, err := net.ListenUDP("udp", &net.UDPAddr{IP: ip})
	if err != nil {
		return 0, err
	}
	p := c.LocalAddr().(*net.UDPAddr).Port
	c.Close()
	return p, nil
}

func vtcErrno(err error) string {
	if err == nil {
		return ""
	}
	txt := err.Error()
	for k, no := range vrlErrno {
		if errors.Is(err, no) || strings.Contains(txt, no.Error()) {
			return k
		}
	}
	if errors.Is(err, context.DeadlineExceeded) {
		return "ctxdeadline"
	}
	return "other"
}

func TestVerifTaintConnectReal(t *testing.T) {
	// runs in one binary with TestVerifTaintRelay (sequentially): a result file of its own
	if p := os.Getenv("VERIF_OUT_REAL"); p != "" {
		old := os.Getenv("VERIF_OUT")
		os.Setenv("VERIF_OUT", p)
		defer os.Setenv("VERIF_OUT", old)
	}
	out := vOpenOut(t)
	defer out.Close()
	gbuf := &vrlSyncBuf{}
	origOut := os.Stdout
	pr, pw, _ := os.Pipe()
	os.Stdout = pw
	golog.SetOutput(gbuf)
	var pwg sync.WaitGroup
	pwg.Add(1)
	go func() {
		defer pwg.Done()
		b := make([]byte, 4096)
		for {
			n, err := pr.Read(b)
			gbuf.Write(b[:n])
			if err != nil {
				return
			}
		}
	}()
	os.Setenv("PHANTOM_SUBNET_LOCATION", conjurepath.Root+"/pkg/station/lib/test/phantom_subnets.toml")

	lst, err := cjdtls.Listen("udp", &net.UDPAddr{IP: net.IPv4(127, 0, 0, 1)}, &cjdtls.Config{LogAuthFail: func(*net.IP) {}, LogOther: func(*net.IP) {}})
	if err != nil {
		t.Fatalf("pkg/dtls listener: %v", err)
	}
	defer lst.Close()
	real := cjt.VerifTaintNewTransport(vtcDnat{}, lst)

	clients := []struct {
		fam   string
		ip    net.IP
		forms func(port int) []string
	}{
		{"v4", net.ParseIP("127.77.0.77").To4(), func(int) []string { return []string{"127.77.0.77", "7f4d004d", "::ffff:7f4d:4d"} }},
		{"v4mapped", net.ParseIP("::ffff:127.77.0.77").To16(), func(int) []string { return []string{"127.77.0.77", "7f4d004d", "::ffff:7f4d:4d"} }},
		{"v6", net.IPv6loopback, func(p int) []string {
			return []string{fmt.Sprintf("::1]:%d", p), "0:0:0:0:0:0:0:1", "0000:0000:0000:0000:0000:0000:0000:0001"}
		}},
	}
	scan := func(text string, forms []string) (bool, string) {
		low := strings.ToLower(text)
		for _, f := range forms {
			if i := strings.Index(low, f); i >= 0 {
				s := strings.LastIndexByte(low[:i], '\n') + 1
				e := strings.IndexByte(low[i:], '\n')
				if e < 0 {
					e = len(low) - i
				}
				return true, text[s : i+e]
			}
		}
		return false, ""
	}
	nTainted := 0
	for i, cl := range clients {
		res := map[string]any{"kind": "result", "idx": i, "mode": "real", "fam": cl.fam}
		func() {
			defer func() {
				if r := recover(); r != nil {
					res["panic"] = fmt.Sprint(r)
				}
			}()
			port, err := vtcFreeUDPPort(cl.ip)
			if err != nil {
				res["skipped"], res["why"] = true, "no unbound UDP port at the client address: "+err.Error()
				return
			}
			forms := cl.forms(port)
			secret := vSecret("c17-connect-real-" + cl.fam)
			// the other family's registration of the same client is waiting at the listener with the same secret
			holdCtx, holdCancel := context.WithCancel(context.Background())
			defer holdCancel()
			holdDone := make(chan error, 1)
			go func() {
				c, err := lst.AcceptWithContext(holdCtx, &cjdtls.Config{PSK: secret, SCTP: cjdtls.ServerAccept})
				if c != nil {
					c.Close()
				}
				holdDone <- err
			}()
			dup := false
			for k := 0; k < 10 && !dup; k++ {
				time.Sleep(150 * time.Millisecond)
				select {
				case e := <-holdDone:
					res["skipped"], res["why"] = true, fmt.Sprintf("the waiting acceptor ended early: %v", e)
					return
				default:
				}
				// a second accept with the same secret is refused at once iff the first one is registered
				pctx, pcancel := context.WithTimeout(context.Background(), 30*time.Millisecond)
				c, perr := lst.AcceptWithContext(pctx, &cjdtls.Config{PSK: secret, SCTP: cjdtls.ServerAccept})
				pcancel()
				if c != nil {
					c.Close()
				}
				dup = perr != nil && strings.Contains(perr.Error(), "already registered")
			}
			if !dup {
				res["skipped"], res["why"] = true, "the waiting acceptor never registered its secret"
				return
			}
			ibuf := &vrlSyncBuf{}
			st := &vtcStats{}
			tp := &vtcTransport{inner: real, ctxCh: make(chan context.Context, 1)}
			rm := vtcManager(ibuf, tp, st, &vtcGeo{failed: make(chan struct{})})
			reg := vtcMkReg(cl.fam, cl.ip, port, tp, secret)
			g0 := len(gbuf.String())
			rm.ingestRegistration(reg)
			called, fin := vtcAwait(tp, 12*time.Second)
			res["returned"] = called && fin
			time.Sleep(5 * time.Millisecond)
			tp.mu.Lock()
			ret, ms := tp.ret, tp.retMs
			tp.mu.Unlock()
			res["connect_ms"] = ms
			var opErr *net.OpError
			if ret != nil {
				rtxt := ret.Error()
				hasAddr, _ := scan(rtxt, forms)
				res["ret_names_client"] = hasAddr
				res["ret_has_operror"] = errors.As(ret, &opErr)
				res["ret_kind"] = vtcErrno(ret)
				for _, f := range forms {
					rtxt = strings.ReplaceAll(rtxt, f, "<client>")
				}
				res["ret_text"] = rtxt
				if hasAddr {
					nTainted++
				}
			} else {
				res["ret_kind"] = "nil"
			}
			res["branch_otherfail"], res["branch_timeout"] = st.has("otherfail"), st.has("timeout")
			text := ibuf.String() + "\n" + gbuf.String()[g0:]
			hit, line := scan(text, forms)
			res["addr_seen"], res["bytes"] = hit, len(ibuf.String())
			if hit {
				res["line"] = line
			}
		}()
		out.Emit(res)
	}
	time.Sleep(20 * time.Millisecond)
	os.Stdout = origOut
	pw.Close()
	pwg.Wait()
	golog.SetOutput(os.Stderr)
	out.Emit(map[string]any{"kind": "summary", "cases": len(clients), "ret_names_client": nTainted, "canary_missed": []string{}})
}

var _ = json.Marshal
var _ = syscall.ECONNREFUSED
