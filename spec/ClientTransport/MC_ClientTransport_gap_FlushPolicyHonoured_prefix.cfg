\* prefix as found against the intended-only law I_FlushPolicyHonoured: must be violated (divergence D12)
SPECIFICATION Spec
CONSTANTS
  Kind = "prefix"
  Variant = "asfound"
  KnownIds = {0, 1}
  FieldIds = {}
  SetArgs <- SetArgsW
  OvArgs <- OvArgsW
  Secrets = {"s1"}
  ReaderOk = {TRUE, FALSE}
  Seeds = {"sd1"}
  DeadConns = {FALSE, TRUE}
  MaxConns = 1
  MaxWrites = 1
  WriteSizes = {3}
  MaxPeer = 0
  PeerSizes = {4}
VIEW view
PROPERTIES I_FlushPolicyHonoured
CHECK_DEADLOCK FALSE
