---------------------------- MODULE Gen_RemoteMap ----------------------------
(* Behaviour generator for stage B: every path of length Depth (exhaustive) or sampled long ones (-simulate). *)
EXTENDS RemoteMap, Json
CONSTANT Depth
VARIABLE hist
GenInit == Init /\ hist = <<>>
GenNext == /\ Len(hist) < Depth
           /\ Next
           /\ hist' = Append(hist, obs')
GenSpec == GenInit /\ [][GenNext]_<<vars, hist>>
Emit == Len(hist) < Depth \/ PrintT(ToJson(hist))
=============================================================================
