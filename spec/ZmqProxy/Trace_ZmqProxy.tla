--------------------------- MODULE Trace_ZmqProxy ---------------------------
(* Stage C (implementation -> spec): validates ndjson event logs recorded from the real ZMQIngester (RunZMQ + proxyZMQ on
   real ZMQ sockets) by drivers that do not come from the specification (concurrent publishers, a stalling reader of
   regChan, a stats goroutine, stop requests).

   Only what a driver can observe at a well-defined instant is logged; everything the code does by itself is a silent
   step TLC interleaves as needed.  A driver operation whose effect happens somewhere inside the call is logged as a
   Call event before and a Ret event after it, the effect being a silent step in between:

     Reset                     new episode (re-initialise)
     Start                     RunZMQ running, every subscription established, counters zeroed
     Pub{u,n}                  logged BEFORE the send (a message that is visible too early enables nothing that is logged)
     ConsCall / ConsRet{u,n}   the reader's receive on regChan; ConsRet{empty} = timed out
     CancelCall / CancelRet    cancel()
     Warn                      written from inside zi.logger (the "ingest full" line): RunZMQ has decided to drop and has
                               not counted it yet
     PCall / PPrint{zmq,drp,tot,len} / PRet
                               PrintAndReset: before the call, from inside the logger it is given (the printed numbers),
                               after it returned
     Returned                  RunZMQ returned
     ProxyState{running}       goroutines of proxyZMQ still exist (read from the goroutine dump)
     Quiesce{zmq,drp,tot,chan} the driver waited until nothing moved any more and read the counters and len(regChan)

   Joint runs with the real HandleRegUpdates reading regChan (the wiring of cmd/application/main.go; the other half of the
   same run is validated by spec/Pipeline/Trace_Pipeline):
     ConsFree                  from here on the reader is the real pipeline: Consume is a silent step
     PipeQuiesce{zmq,drp,tot,chan,ingested}
                               as Quiesce, plus the pipeline's own count of messages taken from regChan
                               (RegistrationManager.totalIngestMessages = Pipeline!ingested), which must be what this
                               specification says left regChan: fwd - Len(chanq) *)
EXTENDS ZmqProxy, Json, TLCExt
TraceLog == ndJsonDeserialize("trace.ndjson")
VARIABLES l,
          cp, cm,     \* reader: "idle" | "called" | "done" (| "free": the real pipeline reads), message taken
          kp,         \* cancel: "idle" | "called" | "done"
          pp,         \* PrintAndReset: "idle" | "called"
          wl          \* the "ingest full" line of the pending drop has been seen
tvars == <<vars, l, cp, cm, kp, pp, wl>>
xvars == <<cp, cm, kp, pp, wl>>

TraceInit == Init /\ l = 1 /\ cp = "idle" /\ cm = None /\ kp = "idle" /\ pp = "idle" /\ wl = FALSE

TraceReset ==
  /\ l <= Len(TraceLog) /\ TraceLog[l].a = "Reset" /\ l' = l + 1
  /\ started' = FALSE /\ cancelled' = FALSE /\ prox' = "none" /\ dl' = FALSE
  /\ sent' = [u \in Ups |-> 0] /\ base' = [u \in Ups |-> 0]
  /\ inq' = [u \in Ups |-> <<>>] /\ hand' = [u \in Ups |-> None] /\ mcur' = None /\ outq' = <<>>
  /\ ipc' = "none" /\ cur' = None /\ chanq' = <<>> /\ deliv' = [u \in Ups |-> 0]
  /\ zmq' = 0 /\ drp' = 0 /\ tot' = 0
  /\ spc' = "idle" /\ snap' = [len |-> 0, zmq |-> 0, drp |-> 0, tot |-> 0] /\ epochs' = 0
  /\ rcv' = [u \in Ups |-> 0] /\ recvd' = 0 /\ fwd' = 0 /\ dropAll' = 0 /\ disc' = 0
  /\ rep' = Zero2 /\ gone' = Zero2
  /\ obs' = [a |-> "Init"]
  /\ cp' = "idle" /\ cm' = None /\ kp' = "idle" /\ pp' = "idle" /\ wl' = FALSE

Stutter == UNCHANGED vars

Logged(e) ==
  CASE e.a = "Start"      -> Start /\ UNCHANGED xvars
    [] e.a = "Pub"        -> Publish(e.u) /\ obs'.n = e.n /\ UNCHANGED xvars
    [] e.a = "ConsCall"   -> cp = "idle" /\ cp' = "called" /\ Stutter /\ UNCHANGED <<cm, kp, pp, wl>>
    [] e.a = "ConsRet"    -> /\ IF "empty" \in DOMAIN e THEN cp = "called" ELSE cp = "done" /\ cm = Msg(e.u, e.n)
                             /\ cp' = "idle" /\ cm' = None /\ Stutter /\ UNCHANGED <<kp, pp, wl>>
    [] e.a = "CancelCall" -> kp = "idle" /\ kp' = "called" /\ Stutter /\ UNCHANGED <<cp, cm, pp, wl>>
    [] e.a = "CancelRet"  -> kp = "done" /\ Stutter /\ UNCHANGED xvars
    [] e.a = "Warn"       -> ipc = "warn" /\ ~wl /\ wl' = TRUE /\ Stutter /\ UNCHANGED <<cp, cm, kp, pp>>
    [] e.a = "PCall"      -> pp = "idle" /\ spc = "idle" /\ pp' = "called" /\ Stutter /\ UNCHANGED <<cp, cm, kp, wl>>
    [] e.a = "PPrint"     -> /\ PPrint /\ obs'.zmq = e.zmq /\ obs'.drp = e.drp /\ obs'.tot = e.tot /\ obs'.len = e.len
                             /\ UNCHANGED xvars
    [] e.a = "PRet"       -> pp = "called" /\ spc = "idle" /\ epochs > 0 /\ pp' = "idle" /\ Stutter /\ UNCHANGED <<cp, cm, kp, wl>>
    [] e.a = "Returned"   -> ipc = "returned" /\ Stutter /\ UNCHANGED xvars
    [] e.a = "ProxyState" -> (e.running = (prox = "running")) /\ Stutter /\ UNCHANGED xvars
    [] e.a = "Quiesce"    -> /\ ~AutoEn /\ ipc # "warn" /\ spc = "idle" /\ cp = "idle"
                             /\ zmq = e.zmq /\ drp = e.drp /\ tot = e.tot /\ Len(chanq) = e.chan
                             /\ Stutter /\ UNCHANGED xvars
    [] e.a = "ConsFree"   -> cp = "idle" /\ cp' = "free" /\ Stutter /\ UNCHANGED <<cm, kp, pp, wl>>
    [] e.a = "PipeQuiesce" -> /\ ~AutoEn /\ ipc # "warn" /\ spc = "idle"
                              /\ zmq = e.zmq /\ drp = e.drp /\ tot = e.tot /\ Len(chanq) = e.chan
                              /\ fwd - Len(chanq) = e.ingested
                              /\ Stutter /\ UNCHANGED xvars
    [] OTHER              -> FALSE

TraceStep == /\ l <= Len(TraceLog) /\ TraceLog[l].a # "Reset" /\ l' = l + 1
             /\ Logged(TraceLog[l])

Silent == /\ UNCHANGED l
          /\ \/ AutoSilent /\ UNCHANGED xvars
             \/ wl /\ IDrop /\ wl' = FALSE /\ UNCHANGED <<cp, cm, kp, pp>>
             \/ pp = "called" /\ PLen /\ UNCHANGED xvars
             \/ PStore /\ UNCHANGED xvars
             \/ cp = "called" /\ Consume /\ cp' = "done" /\ cm' = Head(chanq) /\ UNCHANGED <<kp, pp, wl>>
             \/ cp = "free" /\ Consume /\ UNCHANGED xvars
             \/ kp = "called" /\ Cancel /\ kp' = "done" /\ UNCHANGED <<cp, cm, pp, wl>>

TraceNext == TraceReset \/ TraceStep \/ Silent
TraceSpec == TraceInit /\ [][TraceNext]_tvars
TraceView == <<view, l, cp, cm, kp, pp, wl>>
ASSUME TLCSet(1, 0)
HighWater == TLCSet(1, IF TLCGet(1) < l THEN l ELSE TLCGet(1))
Post == PrintT(<<"TRACE_REACHED", TLCGet(1) - 1>>) /\ TLCGet(1) - 1 = Len(TraceLog)
=============================================================================
