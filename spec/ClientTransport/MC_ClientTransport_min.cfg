\* min as found: one connection, up to 3 writes
SPECIFICATION Spec
CONSTANTS
  Kind = "min"
  Variant = "asfound"
  KnownIds = {0, 1}
  FieldIds = {}
  SetArgs <- SetArgsG
  OvArgs <- OvArgsG
  Secrets = {"s1", "s2"}
  ReaderOk = {TRUE, FALSE}
  Seeds = {"sd1", "sd2"}
  DeadConns = {FALSE, TRUE}
  MaxConns = 1
  MaxWrites = 3
  WriteSizes = {0, 3, 5000}
  MaxPeer = 1
  PeerSizes = {4}
VIEW view
INVARIANTS TypeOK HeaderOnce HeaderAlone DataExact OwnPrefixKnown
PROPERTIES Core
CHECK_DEADLOCK FALSE
