SPECIFICATION GenSpec
CONSTANTS
  MaxReads = 2
  ChunkSizes = {1, 2}
  ReadErrs = {}
  WriteErrs = {}
  ForwardWithErr = TRUE
  DialMayFail = FALSE
  BufCap = 2
  BufMode = "private"
  MaxFaults = 0
  Scheds = {"px"}
  Asyncs = {"eager"}
INVARIANT Emit
CHECK_DEADLOCK FALSE
