-------------------------- MODULE Gen_RegistrarData --------------------------
(* Row generator for stage B of C12: every reachable Register transition (= one row of the decision table:
   request x registrar configuration x subnet configuration x weighted draw, with the three views the
   specification computes) is printed as JSON.  The conformance driver executes every row on the real
   RegProcessor.RegisterBidirectional and the real station constructor.  Rows that differ only in a choice the
   property leaves open (v6-only request under substitution) are alternatives for the same input. *)
EXTENDS RegistrarData, Json
Emit == (phase = "done") => PrintT(ToJson(obs))
=============================================================================
