SPECIFICATION Spec
CONSTANTS
  Ups = {"c1"}
  BadUps = {}
  MaxSend = 3
  ChanCap = 1
  MaxEpochs = 1
  AuthEnforced = TRUE
  StatsMode = "loadstore"
  ShutdownMode = "observed"
VIEW view
INVARIANTS TypeOK EpochBalance
CHECK_DEADLOCK FALSE
