\* AS FOUND measured against the intended law: must violate TrackedUntilTimeout
SPECIFICATION Spec
CONSTANTS
  FlowInfo <- FlowsApi2
  Keys = {"k1"}
  T = 2
  K = 20
  SessTimeouts = {1, 3}
  TickSteps = {1, 2}
  MaxT = 0
  MaxQ = 3
  MaxLag = 2
  StaleEvent = "kills"
  DropRemoves = TRUE
  DueCmp = "le"
  KeepLonger = TRUE
  Level = "api"
  FlagKinds = {"syn"}
  PayloadKinds = {"none"}
  FrameKinds = {"eth"}
VIEW viewRel
CONSTRAINT BoundedRel
INVARIANTS TrackedUntilTimeout
CHECK_DEADLOCK FALSE
