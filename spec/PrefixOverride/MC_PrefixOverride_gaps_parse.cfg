SPECIFICATION Spec
CONSTANTS
  Profile = "gapsP"
  Defects = {"scanErrIgnored", "badWeightSkipped", "wsRejects", "noRangeCheck", "deadKept", "typeUrlRewritten", "chainNotAtomic", "chainMixesPort", "randIgnoresReader", "pkgIgnoresFlag", "callerNeverSetsPsr", "callerRecomputesPort"}
  Broken = {}
INVARIANTS I_NoSilentTruncation I_MalformedNumberRejects I_BlankLinesIgnored I_FieldsInRange I_DeadLinesDoNotDilute
PROPERTIES RejectedLoadChangesNothing
CHECK_DEADLOCK FALSE
