SPECIFICATION Spec
CONSTANTS
  MaxU8 = 3
  MaxLabel = 2
  MaxName = 7
  MaxTxtChunk = 3
  MaxU16 = 15
  PtrLimit = 2
  ReqOverhead = 1
  RespOverhead = 1
  MaxUDP = 48
  FrameMode = "truncating"
  PtrMode = "bounded"
  UnpackMode = "assign"
  DecoderMode = "pure"
  NonceMode = "fresh"
  ReqLens <- Upto17
  RespLens <- Upto17
  LabelLens <- Upto8
  TxtLens <- Upto17
  RRLens <- Upto17
  Counts <- Upto17
  Chains <- Chains6
  Domains <- SmallDomains
  NameShapes <- SmallShapes
  ObfKinds = {"gcm", "ctr", "xor", "nil"}
  TagLens <- TagLens3
  Keys = {"k1", "k2"}
  Nonces <- Nonces3
  ParamTypes = {"generic", "prefix", "dtls"}
  ExReq <- Upto4
  ExResp <- Upto17
  ArbStrings <- SmallStrings
VIEW view
INVARIANTS RejectNotAlter RoundTrip DecoderTotal Fresh WrongKeyNeverReveals
CHECK_DEADLOCK FALSE
