------------------------------- MODULE Derive -------------------------------
(***************************************************************************)
(* Structure of the derivation both ends of a Conjure session perform from *)
(* the shared secret (property C01).  TLA+ cannot evaluate HKDF / HMAC /   *)
(* X25519; what it states is WHICH values are drawn, in which order, from  *)
(* which labelled stream, gated by which library version, and the rule     *)
(* that turns them into the destination port.  The conformance driver      *)
(* executes the printed draw list with an independent HKDF/HMAC            *)
(* implementation and compares the outcome with the real station           *)
(* (NewRegistrationC2SWrapper, Transport.GetIdentifier/GetDstPort) and the *)
(* real client code (phantoms.SelectPhantom, internal/compatability/v0|v1, *)
(* the ClientTransport methods).  The integer arithmetic from draws to    *)
(* (subnet, offset) is spec/Phantom.                                       *)
(*                                                                         *)
(* Two procedures are written down separately, the way the two code bases  *)
(* do it:                                                                  *)
(*  station  core.GenSharedKeys (skip the pre-v4 key block in one read),   *)
(*           PhantomIPSelector.Select, RegistrationManager.getPhantomDst-  *)
(*           Port (443 gate first, then Transport.GetDstPort(libver, ...)) *)
(*  client   v4: core.GenerateClientSharedKeys; v0-3: the published key    *)
(*           schedule (FspKey 16, FspIv 12, VspKey 16, VspIv 12, Master-   *)
(*           Secret 48, ConjureSeed 16); ClientTransport.GetDstPort and,   *)
(*           one level up, "443 unless the phantom's subnet randomises";   *)
(*           clients older than v3 always dial 443.                        *)
(* The invariant says the two procedures denote the same draws and port.   *)
(***************************************************************************)
EXTENDS Integers, Sequences, FiniteSets, TLC

CONSTANTS StationLegacySkip,   \* bytes GenSharedKeys discards for libver < 4 (104)
          StationRandMinVer,   \* first libver for which the station randomises ports (3)
          ClientPortSource     \* which of its two parameter sets ClientTransport.GetDstPort consults: "session" - the session's
                               \* (what GetParams reports, i.e. what the registration message carries, and what a registrar
                               \* override replaces via SetSessionParams); "dialer" - the ones given to SetParams, which an
                               \* override never touches (a broken instance: must violate Agreement)

LibVers == 0..4
Transports == {"min", "obfs4", "prefix", "dtls"}
ParamClasses == {"absent", "rand", "norand"}
Overrides == {"none", "port", "params"}
PrefixIds == 0..9
OverridePort == 8443

\* ---- constants of the derivation (labels, salts, lengths, ranges) ----------------------------
Salt == "conjureconjureconjureconjure"
LblSubnet == "phantom-select-subnet"
LblAddr == "phantom-addr-id"
LblPort == "phantom-select-dst-port"
TagLabel(tr) == CASE tr = "min" -> "MinTrasportHMACString"
                  [] tr = "prefix" -> "PrefixTransportHMACString"
                  [] tr = "dtls" -> "dtlsTrasportHMACString"
                  [] OTHER -> ""
PortMin(tr) == IF tr = "obfs4" THEN 22 ELSE 1024
PortMax(tr) == 65535
\* default port of prefix id: Min GetLong PostLong HTTPResp TLSClientHello TLSServerHello TLSAlertWarning TLSAlertFatal DNSOverTCP OpenSSH2
PrefixDefault == <<443, 80, 80, 80, 443, 443, 443, 443, 53, 22>>
DefaultPort(tr, pid) == IF tr = "prefix" THEN PrefixDefault[pid + 1] ELSE 443

HkdfMinVer == 2      \* core.PhantomHkdfMinVersion
KeysRefactorVer == 4 \* core.SharedKeysRefactorMinVersion
ClientRandMinVer == 3 \* first client release that can randomise the port

\* ---- a tuple -------------------------------------------------------------------------------
Tuples == {[lv |-> lv, tr |-> tr, pc |-> pc, pid |-> pid, sr |-> sr, ov |-> ov] :
             lv \in LibVers, tr \in Transports, pc \in ParamClasses,
             pid \in PrefixIds, sr \in BOOLEAN, ov \in Overrides}
WellTyped(c) == c.tr # "prefix" => c.pid = 0

\* combinations a deployed client can produce: prefix and dtls exist since v3 and always send
\* parameters; registrar overrides (bidirectional registration) are honoured by v3+ clients
Applicable(c) == /\ WellTyped(c)
                 /\ c.tr \in {"prefix", "dtls"} => (c.lv >= 3 /\ c.pc # "absent")
                 /\ c.lv < 3 => c.pc = "absent"       \* no transport parameters before v3
                 /\ c.lv >= 3 => TRUE
                 /\ c.ov # "none" => c.lv >= 3

\* parameters in force after a registrar "params" override: the flag is flipped, a prefix moves to the next id
EffRand(c) == IF c.ov = "params" THEN c.pc # "rand" ELSE c.pc = "rand"
EffPid(c) == IF c.ov = "params" /\ c.tr = "prefix" THEN (c.pid + 1) % 10 ELSE c.pid
EffPresent(c) == c.ov = "params" \/ c.pc # "absent"

\* ---- draws ---------------------------------------------------------------------------------
D(op, src, label, len, lo, hi, use) == [op |-> op, src |-> src, label |-> label, len |-> len, lo |-> lo, hi |-> hi, use |-> use]
Rd(n, use) == D("read", "main", "", n, 0, 0, use)   \* next n bytes of HKDF(secret, Salt, "")

StationKeyReads(c) == IF c.lv < KeysRefactorVer THEN <<Rd(StationLegacySkip, "skip"), Rd(16, "seed")>> ELSE <<Rd(16, "seed")>>
ClientKeyReads(c) == IF c.lv >= KeysRefactorVer THEN <<Rd(16, "seed")>>
                     ELSE <<Rd(16, "skip"), Rd(12, "skip"), Rd(16, "skip"), Rd(12, "skip"), Rd(48, "skip"), Rd(16, "seed")>>

\* phantom: identical routine on both ends for v2+ (pkg/phantoms), legacy math/rand algorithm below
PhantomDraws(c) ==
  IF c.lv >= HkdfMinVer
  THEN << D("randint", "hkdf(seed)", LblSubnet, 0, 0, 0, "subnet"),      \* hi = total weight, filled in by the driver
          D("randint", "hkdf(seed)", LblAddr, 0, 0, 0, "addrid") >>      \* hi = addresses of the family in the group
  ELSE << D("intn", "mathrand(varint(seed))", "", 0, 0, 0, "subnet"),
          D("bigmod", "seed", "", 0, 0, 0, "addrid"),
          D("readbits", "mathrand(varint(seed))", "", 0, 0, 0, "host") >>

Obfs4Draws(c) == IF c.tr = "obfs4" THEN <<Rd(32, "obfs4.priv"), Rd(20, "obfs4.nodeid")>> ELSE <<>>
TagDraws(c) == IF c.tr = "obfs4" THEN <<>> ELSE <<D("hmac", "secret", TagLabel(c.tr), 32, 0, 0, "tag")>>
DtlsDraws(c) == IF c.tr = "dtls"
                THEN << D("hkdfsalt", "secret", "clientHelloRandomFromSeed", 28, 0, 0, "dtls.hellorandom"),
                        D("hkdfsalt", "secret", "certsFromSeed", 0, 0, 0, "dtls.certs") >>
                ELSE <<>>

\* ---- port rule -----------------------------------------------------------------------------
Const(p) == [kind |-> "const", port |-> p, lo |-> 0, hi |-> 0]
Range(tr) == [kind |-> "range", port |-> 0, lo |-> PortMin(tr), hi |-> PortMax(tr)]
Reject == [kind |-> "reject", port |-> 0, lo |-> 0, hi |-> 0]

\* Transport.GetDstPort(libver, seed, params) of the station transports, for parameters that are present / randomise / name prefix pid
StationRule(c, present, rand, pid) ==
  CASE c.tr \in {"min", "obfs4"} ->
         IF c.lv < StationRandMinVer THEN Const(443)
         ELSE IF ~present THEN Const(443)
         ELSE IF rand THEN Range(c.tr) ELSE Const(443)
    [] c.tr = "prefix" ->
         IF c.lv < StationRandMinVer \/ ~present THEN Reject
         ELSE IF rand THEN Range(c.tr) ELSE Const(DefaultPort("prefix", pid))
    [] c.tr = "dtls" ->   \* absent parameters parse to an empty DTLSTransportParams
         IF present /\ rand THEN Range(c.tr) ELSE Const(443)
StationTransportPort(c) == StationRule(c, EffPresent(c), EffRand(c), EffPid(c))
\* getPhantomDstPort: the 443 gate comes first.  A registrar override carries the port the registrar computed
\* with the same rule (regprocessor.processBdReq), "port" carries an arbitrary registrar-chosen port.
StationDerivedPort(c) == IF c.lv < StationRandMinVer \/ ~c.sr THEN Const(443) ELSE StationTransportPort(c)
StationPort(c) == IF c.ov = "port" THEN Const(OverridePort) ELSE StationDerivedPort(c)

\* ClientTransport.GetDstPort(seed) of the current client transports (v3+)
ClientTransportPort(c) ==
  CASE c.tr \in {"min", "obfs4", "dtls"} -> IF EffPresent(c) /\ EffRand(c) THEN Range(c.tr) ELSE Const(443)
    [] c.tr = "prefix" -> IF EffRand(c) THEN Range(c.tr) ELSE Const(DefaultPort("prefix", EffPid(c)))
ClientDerivedPort(c) == IF c.lv < ClientRandMinVer THEN Const(443)
                        ELSE IF c.sr THEN ClientTransportPort(c) ELSE Const(443)
\* The client's OWN derivation in the state its session is in - after SetParams, Prepare and (for a "params" override)
\* SetSessionParams: GetDstPort must speak of the same parameters as GetParams does (= what a registration message
\* built from this session names), whatever happened to the session.
\* Adopts: the min, obfs4 and prefix client transports take a registrar override into their session; the DTLS client
\* transport does not (its ParseParams is a stub returning nil, so SetSessionParams changes nothing - the registrar of
\* this repository never overrides DTLS parameters, and the port to dial comes with the response anyway).
Adopts(c) == c.tr # "dtls"
SessRand(c) == IF c.ov = "params" /\ Adopts(c) THEN EffRand(c) ELSE c.pc = "rand"
SessPid(c) == IF c.ov = "params" /\ Adopts(c) THEN EffPid(c) ELSE c.pid
SessPresent(c) == (c.ov = "params" /\ Adopts(c)) \/ c.pc # "absent"
OwnRand(c) == IF ClientPortSource = "session" THEN SessRand(c) ELSE c.pc = "rand"
OwnPresent(c) == IF ClientPortSource = "session" THEN SessPresent(c) ELSE c.pc # "absent"
ClientOwnTransportPort(c) ==
  CASE c.tr \in {"min", "obfs4", "dtls"} -> IF OwnPresent(c) /\ OwnRand(c) THEN Range(c.tr) ELSE Const(443)
    [] c.tr = "prefix" -> IF OwnRand(c) THEN Range(c.tr)
                          \* a registrar may name a prefix the client has never heard of: the override installs a prefix
                          \* object WITHOUT a port of its own (0) - the port to dial then comes with the response
                          ELSE IF c.ov = "params" THEN Const(0)
                          ELSE Const(DefaultPort("prefix", SessPid(c)))
ClientOwnPort(c) == IF c.lv < ClientRandMinVer THEN Const(443)
                    ELSE IF c.sr THEN ClientOwnTransportPort(c) ELSE Const(443)
\* what the station derives from a message naming the session's parameters
StationFromSession(c) == IF c.lv < StationRandMinVer \/ ~c.sr THEN Const(443)
                         ELSE StationRule(c, SessPresent(c), SessRand(c), SessPid(c))
\* a registration response that overrides the parameters also carries the port the registrar derived from them
\* (regprocessor.processBdReq uses the station transports' rule); the client dials that port
ClientDialRule(c) == IF c.ov = "params" THEN StationDerivedPort(c) ELSE ClientDerivedPort(c)
ClientPort(c) == IF c.ov = "port" THEN Const(OverridePort) ELSE ClientDialRule(c)

PortDraws(rule, tr) == IF rule.kind = "range" THEN <<D("randint", "hkdf(seed)", LblPort, 0, rule.lo, rule.hi, "port")>> ELSE <<>>

StationDraws(c) == StationKeyReads(c) \o PhantomDraws(c) \o PortDraws(StationDerivedPort(c), c.tr) \o TagDraws(c) \o Obfs4Draws(c) \o DtlsDraws(c)
ClientDraws(c) == ClientKeyReads(c) \o PhantomDraws(c) \o PortDraws(ClientDialRule(c), c.tr) \o Obfs4Draws(c) \o TagDraws(c) \o DtlsDraws(c)

\* ---- normal form: reads of the main stream become (offset, length); unused reads disappear.
\* Every other stream is drawn from once per fresh instance, so the set of normalised draws
\* determines every derived value.
RECURSIVE Offs(_, _)
Offs(s, k) == IF k = 0 THEN 0 ELSE Offs(s, k - 1) + (IF s[k].op = "read" THEN s[k].len ELSE 0)
Norm(s) == {IF s[k].op = "read" THEN [s[k] EXCEPT !.op = "bytes", !.lo = Offs(s, k - 1)] ELSE s[k] :
              k \in {k \in 1..Len(s) : s[k].use # "skip"}}

DrawsAgree(c) == Norm(ClientDraws(c)) = Norm(StationDraws(c))
PortAgree(c) == ClientPort(c) = StationPort(c)
Accepts(c) == StationDerivedPort(c).kind # "reject"
\* what the client derives by itself from its session equals what the station derives from the message naming those parameters
OwnPortAgree(c) == \/ ClientOwnPort(c) = StationFromSession(c)
                   \/ (c.ov = "params" /\ ~SessRand(c) /\ ClientOwnPort(c) = Const(0))   \* "none of my own: dial the response's"

\* ---- TLC: one state per tuple ----------------------------------------------------------------
VARIABLE t
Init == t \in {c \in Tuples : WellTyped(c)}
Next == UNCHANGED t
Spec == Init /\ [][Next]_t

Agreement == Applicable(t) => (DrawsAgree(t) /\ PortAgree(t) /\ Accepts(t) /\ OwnPortAgree(t))
\* secondary: whatever the station accepts from an old client is dialled on 443, and a randomised
\* port is only ever derived when the subnet allows it
OldClients443 == (t.lv < 3 /\ Accepts(t) /\ t.ov # "port") => StationPort(t) = Const(443)
RandomOnlyIfSubnetAllows == StationDerivedPort(t).kind = "range" => (t.sr /\ t.lv >= 3)
=============================================================================
