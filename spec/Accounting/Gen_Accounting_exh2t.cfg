SPECIFICATION GenSpec
CONSTANTS
  Conns = {"c1", "c2"}
  Kons = {}
  Asns = {"a1"}
  CCs = {"", "US"}
  Variant = "as_found"
  Broken = "none"
  MaxLoops = 0
  MaxPrints = 1
  MaxAuth = 0
  Depth = 6
CONSTRAINT Canon
INVARIANT Emit
CHECK_DEADLOCK FALSE
