SPECIFICATION GenSpec
CONSTANTS
  Scenario = "dup_sweep"
  Protocol = "atomic"
  SweepRecheck = TRUE
  ShareEnabled = TRUE
  ShareMode = "detached"
  ReloadProtocol = "snapshot"
INVARIANT Emit
CHECK_DEADLOCK FALSE
