SPECIFICATION TraceSpec
CONSTANTS
  CfgNames = {"one", "sizes", "wts", "ties", "zero", "dup", "lead0", "fam", "allzero", "mix3", "hostbits"}
  LibVers = {0, 1, 2, 3, 4}
  Fams = {4, 6}
  NSel = 1
  Mode = "enum"
  ProcSeedKs = {}
  RNG = "local"
  AddrBytes = "fill"
  NetBase = "masked"
  DerivedMode = "once"
INVARIANTS Contained WellFormed RandPortFromSubnet Pure
POSTCONDITION Post
CHECK_DEADLOCK FALSE
