--------------------------- MODULE LivenessCache ---------------------------
(***************************************************************************)
(* The station's liveness cache (pkg/station/liveness): the tester built   *)
(* by liveness.New(Config) with a "live" and a "non-live" verdict cache,    *)
(* each either disabled, an unbounded map (cache_map.go) or an LRU with a  *)
(* capacity (cache_lru.go).  One action per API call of the real object:   *)
(*                                                                         *)
(*   Query(a, pv)  = CachedLivenessTester.PhantomIsLive(a, port)           *)
(*                   (UncachedLivenessTester.PhantomIsLive when both       *)
(*                   caches are disabled): phantomLookup in the live       *)
(*                   cache, then in the non-live cache, else ONE probe     *)
(*                   whose scripted outcome is pv, stored in the cache     *)
(*                   matching its verdict                                  *)
(*   ClearExpired  = CachedLivenessTester.ClearExpiredCache                *)
(*   Advance(d)    = time passing (driver action: back-dates cachedTime)   *)
(*                                                                         *)
(* The configuration (chosen in Init, constant afterwards) is the record   *)
(*   [ll, lc, nl, nc]  live / non-live cache enabled (a duration is set),  *)
(*                     live / non-live capacity (0 = none configured)      *)
(* plus lk, nk: the KIND of cache the implementation uses.  Where a        *)
(* capacity is configured the kind must be "lru" bounded by it - that is   *)
(* what the property demands.  Where no capacity is configured the         *)
(* property does not care whether the unbounded cache is a map (a new      *)
(* measurement does not replace a stale, not yet cleaned entry) or an LRU  *)
(* of practically infinite size (it does): both are admissible, both are   *)
(* explored, and the conformance driver uses the instance that matches the *)
(* object liveness.New really built.                                       *)
(*                                                                         *)
(* KindRule = "own"  : each cache's kind follows its own capacity          *)
(*                     (intended; what the Config documentation says)      *)
(* KindRule = "live" : the non-live cache's kind follows the LIVE capacity *)
(*                     (cached.go as found, hypothesis H-C18-1): with only *)
(*                     cache_capacity_nonlive set the non-live cache is an *)
(*                     unbounded map -> Bounded is violated                *)
(* KindRule = "unread": the non-live capacity written in the station's     *)
(*                     configuration FILE never reaches the tester (the    *)
(*                     key is not the one the Config struct decodes): an   *)
(*                     unbounded map whatever is configured -> Bounded is  *)
(*                     violated.  The configuration of Init is the TOML    *)
(*                     file: the driver writes the four documented keys of *)
(*                     the shipped app_config.toml and decodes the text as *)
(*                     lib.ParseConfig does, it does not fill the struct.  *)
(* Bug switches further deliberately broken instances (non-vacuity of the  *)
(* invariants): "evict_noop" (eviction callback does not remove the entry  *)
(* from the verdict map), "age_flip" (age test inverted), "wrong_cache"    *)
(* (live verdicts stored in the non-live cache).                           *)
(*                                                                         *)
(* Logical time: ages are small naturals (ticks); an entry is fresh iff    *)
(* age < lifetime of ITS cache.  The driver maps a tick to one hour and    *)
(* configures the lifetimes half a tick short of LiveLife / NonLiveLife    *)
(* ticks (2h30m for LiveLife = 3, 1h30m for NonLiveLife = 2), i.e.         *)
(* strictly between two ticks, so `age < Life` is exactly the code's       *)
(* `time.Since(cachedTime) < expiration`.                                  *)
(*                                                                         *)
(* Boundary resolution.  With 1 h ticks the first age at which an entry    *)
(* must be re-probed (age = Life) is 1.2x / 1.33x of the configured        *)
(* lifetime.  The *_boundary instances use a FINE tick (3 min: LiveLife =  *)
(* 50, NonLiveLife = 30, driver lifetimes 2h28m30s / 1h28m30s, again half  *)
(* a tick short) and Steps that land queries just below the lifetime       *)
(* (<= 0.9x: 44, 26 ticks), AT it (age = Life: 1.01x / 1.02x) and just     *)
(* after (Life + 2 / + 4 ticks: up to 1.09x).  The specification is        *)
(* symmetric in Addrs; the driver replays every boundary behaviour under   *)
(* many injective address maps (>= 64 concrete IPs per abstract address),  *)
(* so a lifetime that depends on the address is covered.                   *)
(* ExpiryJitter > 0 is the broken instance for this dimension: an entry    *)
(* is served (and kept by the clean-up) until Life + ExpiryJitter ticks    *)
(* -> HitIsFresh is violated by a query at age = Life.                     *)
(***************************************************************************)
EXTENDS Naturals, FiniteSets, Sequences, TLC

CONSTANTS Addrs,        \* set of strings
          Caps,         \* capacities explored, 0 = no capacity configured
          LiveLife, NonLiveLife, \* lifetimes in ticks (> 0)
          MaxAge,       \* age cap (>= both lifetimes)
          Steps,        \* admissible time advances
          KindRule,     \* "own" | "live" | "unread"
          Bug,          \* "none" | "evict_noop" | "age_flip" | "wrong_cache"
          ExpiryJitter  \* 0 (intended) | n > 0: broken instance, an entry is treated as fresh until lifetime + n ticks

VARIABLES cfg,      \* configuration + cache kinds, fixed by Init
          live,     \* [Addrs -> {None} \cup [age]]   verdict map of the live cache
          nonlive,  \* same for the non-live cache
          lorder,   \* LRU recency of the live cache (head = most recently used); <<>> for map / off
          norder,   \* same for the non-live cache
          last,     \* ghost: [Addrs -> {None} \cup [v, age]]  the most recent probe (measurement) of a
          gone,     \* ghost: [{"live","nonlive"} -> SUBSET Addrs] entries evicted / cleaned and not re-measured since
          obs       \* observation of the last action

None == [none |-> TRUE]
vars == <<cfg, live, nonlive, lorder, norder, last, gone, obs>>
view == <<cfg, live, nonlive, lorder, norder, last, gone>>

\* ---------------------------------------------------------------- configurations
LKinds(ll, lc) == IF ~ll THEN {"off"} ELSE IF lc # 0 THEN {"lru"} ELSE {"map", "lru"}
NKinds(lc, nl, nc) ==
  IF ~nl THEN {"off"}
  ELSE IF KindRule = "own" THEN (IF nc # 0 THEN {"lru"} ELSE {"map", "lru"})
  ELSE IF KindRule = "unread" THEN {"map"}            \* the configured value never reaches the tester
  ELSE (IF lc # 0 THEN {"lru"} ELSE {"map"})          \* as found: gated by the live capacity

Configs == {c \in [ll : BOOLEAN, lc : Caps, lk : {"off", "map", "lru"},
                   nl : BOOLEAN, nc : Caps, nk : {"off", "map", "lru"}] :
              c.lk \in LKinds(c.ll, c.lc) /\ c.nk \in NKinds(c.lc, c.nl, c.nc)}

LiveOn    == cfg.lk # "off"
NonLiveOn == cfg.nk # "off"

\* ---------------------------------------------------------------- helpers
Fresh(e, life) == IF Bug = "age_flip" THEN e.age >= life ELSE e.age < life + ExpiryJitter
Without(s, a) == SelectSeq(s, LAMBDA x : x # a)
Front(s, a) == <<a>> \o Without(s, a)
Bump(n, d) == IF n + d > MaxAge THEN MaxAge ELSE n + d
Entries(m) == {a \in Addrs : m[a] # None}

\* cache_map.go Add: "do not overwrite if already in cache"; cache_lru.go Add: overwrite, refresh recency,
\* evict the least recently used entry when the capacity is exceeded (callback removes it from the map)
\* result: <<map, order, evicted set>>
Store(kind, cap, m, ord, a) ==
  IF kind = "map"
    THEN <<IF m[a] = None THEN [m EXCEPT ![a] = [age |-> 0]] ELSE m, ord, {}>>
    ELSE LET m1 == [m EXCEPT ![a] = [age |-> 0]]
             o1 == Front(ord, a) IN
         IF cap # 0 /\ Len(o1) > cap
           THEN LET victim == o1[Len(o1)] IN
                <<IF Bug = "evict_noop" THEN m1 ELSE [m1 EXCEPT ![victim] = None],
                  SubSeq(o1, 1, Len(o1) - 1), {victim}>>
           ELSE <<m1, o1, {}>>

\* projection shared with the Go driver: entries with their age class and Len() of both caches.  The LRU
\* recency lists are NOT projected (not observable through the API; TLC infers them).
EntProj(m) == {[a |-> a, age |-> m[a].age] : a \in Entries(m)}
Proj(l, n, lo, no) == [live |-> EntProj(l), nonlive |-> EntProj(n),
                       lenL |-> Cardinality(Entries(l)), lenN |-> Cardinality(Entries(n))]

Init == /\ cfg \in Configs
        /\ live = [a \in Addrs |-> None]
        /\ nonlive = [a \in Addrs |-> None]
        /\ lorder = <<>> /\ norder = <<>>
        /\ last = [a \in Addrs |-> None]
        /\ gone = [c \in {"live", "nonlive"} |-> {}]
        /\ obs = [a |-> "Init", cfg |-> cfg]

\* PhantomIsLive(a): pv is what a probe of a returns now (scripted world).  When the answer comes from a
\* cache the world is not consulted; the behaviour then fixes pv to the OPPOSITE verdict so that a stray
\* probe would be visible both in the probe count and in the verdict.
Query(a, pv) ==
  LET hitL == LiveOn /\ live[a] # None /\ Fresh(live[a], LiveLife)
      hitN == ~hitL /\ NonLiveOn /\ nonlive[a] # None /\ Fresh(nonlive[a], NonLiveLife) IN
  IF hitL THEN
      /\ pv = FALSE
      /\ lorder' = IF cfg.lk = "lru" THEN Front(lorder, a) ELSE lorder
      /\ UNCHANGED <<cfg, live, nonlive, norder, last, gone>>
      /\ obs' = [a |-> "Query", addr |-> a, pv |-> pv, verdict |-> TRUE, cached |-> TRUE, probes |-> 0,
                 stat |-> "cachedLive", st |-> Proj(live, nonlive, lorder', norder)]
  ELSE IF hitN THEN
      /\ pv = TRUE
      /\ norder' = IF cfg.nk = "lru" THEN Front(norder, a) ELSE norder
      /\ UNCHANGED <<cfg, live, nonlive, lorder, last, gone>>
      /\ obs' = [a |-> "Query", addr |-> a, pv |-> pv, verdict |-> FALSE, cached |-> TRUE, probes |-> 0,
                 stat |-> "cachedNonLive", st |-> Proj(live, nonlive, lorder, norder')]
  ELSE
      LET toLive == IF Bug = "wrong_cache" THEN FALSE ELSE pv
          sl == IF toLive /\ LiveOn THEN Store(cfg.lk, cfg.lc, live, lorder, a) ELSE <<live, lorder, {}>>
          sn == IF ~toLive /\ NonLiveOn THEN Store(cfg.nk, cfg.nc, nonlive, norder, a) ELSE <<nonlive, norder, {}>>
          storedL == toLive /\ LiveOn /\ sl[1][a] # None /\ sl[1][a].age = 0
          storedN == ~toLive /\ NonLiveOn /\ sn[1][a] # None /\ sn[1][a].age = 0 IN
      /\ live' = sl[1] /\ lorder' = sl[2]
      /\ nonlive' = sn[1] /\ norder' = sn[2]
      /\ last' = [last EXCEPT ![a] = [v |-> pv, age |-> 0]]
      /\ gone' = [gone EXCEPT !["live"] = (IF storedL THEN @ \ {a} ELSE @) \cup sl[3],
                              !["nonlive"] = (IF storedN THEN @ \ {a} ELSE @) \cup sn[3]]
      /\ UNCHANGED cfg
      /\ obs' = [a |-> "Query", addr |-> a, pv |-> pv, verdict |-> pv, cached |-> FALSE, probes |-> 1,
                 stat |-> IF ~LiveOn /\ ~NonLiveOn THEN "uncached" ELSE IF pv THEN "fail" ELSE "pass",
                 st |-> Proj(sl[1], sn[1], sl[2], sn[2])]

Advance(d) ==
  /\ d \in Steps
  /\ live' = [a \in Addrs |-> IF live[a] = None THEN None ELSE [age |-> Bump(live[a].age, d)]]
  /\ nonlive' = [a \in Addrs |-> IF nonlive[a] = None THEN None ELSE [age |-> Bump(nonlive[a].age, d)]]
  /\ last' = [a \in Addrs |-> IF last[a] = None THEN None ELSE [last[a] EXCEPT !.age = Bump(@, d)]]
  /\ UNCHANGED <<cfg, lorder, norder, gone>>
  /\ obs' = [a |-> "Advance", d |-> d, st |-> Proj(live', nonlive', lorder, norder)]

\* ClearExpiredCache: entries older than the lifetime of their cache are removed (LRU: lru.Remove, whose
\* callback deletes the map entry)
ClearExpired ==
  LET exL == {a \in Entries(live) : live[a].age >= LiveLife + ExpiryJitter}
      exN == {a \in Entries(nonlive) : nonlive[a].age >= NonLiveLife + ExpiryJitter} IN
  /\ live' = [a \in Addrs |-> IF a \in exL THEN None ELSE live[a]]
  /\ nonlive' = [a \in Addrs |-> IF a \in exN THEN None ELSE nonlive[a]]
  /\ lorder' = SelectSeq(lorder, LAMBDA x : x \notin exL)
  /\ norder' = SelectSeq(norder, LAMBDA x : x \notin exN)
  /\ gone' = [gone EXCEPT !["live"] = @ \cup exL, !["nonlive"] = @ \cup exN]
  /\ UNCHANGED <<cfg, last>>
  /\ obs' = [a |-> "ClearExpired", st |-> Proj(live', nonlive', lorder', norder')]

Next == \/ \E a \in Addrs, pv \in BOOLEAN : Query(a, pv)
        \/ \E d \in Steps : Advance(d)
        \/ ClearExpired

Spec == Init /\ [][Next]_vars

\* ------------------------------------------------------------------ properties
TypeOK ==
  /\ cfg \in Configs
  /\ \A a \in Addrs : (live[a] = None \/ live[a].age \in 0..MaxAge) /\ (nonlive[a] = None \/ nonlive[a].age \in 0..MaxAge)
  /\ \A a \in Addrs : last[a] = None \/ (last[a].v \in BOOLEAN /\ last[a].age \in 0..MaxAge)

IsHit == obs.a = "Query" /\ obs.cached
LifeOf(v) == IF v THEN LiveLife ELSE NonLiveLife
CacheOf(v) == IF v THEN "live" ELSE "nonlive"

\* answered from the cache only if measured less than the lifetime of that cache ago ...
HitIsFresh == IsHit => (last[obs.addr] # None /\ last[obs.addr].age < LifeOf(obs.verdict))
\* ... and it is then the verdict that was measured (the most recent measurement of that address)
HitIsMeasuredVerdict == IsHit => (last[obs.addr] # None /\ last[obs.addr].v = obs.verdict)
\* otherwise the phantom is probed again, exactly once
MissProbes == obs.a = "Query" => ((obs.cached /\ obs.probes = 0) \/ (~obs.cached /\ obs.probes = 1 /\ obs.verdict = obs.pv))
\* with a capacity configured the cache never holds more entries than that capacity
Bounded == /\ (cfg.ll /\ cfg.lc # 0) => Cardinality(Entries(live)) <= cfg.lc
           /\ (cfg.nl /\ cfg.nc # 0) => Cardinality(Entries(nonlive)) <= cfg.nc
\* evicted or expired-and-cleaned entries are never served
EvictedNeverServed == IsHit => obs.addr \notin gone[CacheOf(obs.verdict)]
\* a disabled cache stays empty
Placement == (~cfg.ll => Entries(live) = {}) /\ (~cfg.nl => Entries(nonlive) = {})
\* a measured verdict is only ever stored in the cache of that verdict: a probe that says "live" leaves the
\* non-live cache alone and vice versa
StoredWhereMeasured ==
  [][(obs'.a = "Query" /\ ~obs'.cached) => IF obs'.pv THEN nonlive' = nonlive ELSE live' = live]_vars
\* the LRU bookkeeping and the verdict map agree (what the eviction callback is for)
LruInSync == /\ cfg.lk = "lru" => {lorder[i] : i \in DOMAIN lorder} = Entries(live)
             /\ cfg.nk = "lru" => {norder[i] : i \in DOMAIN norder} = Entries(nonlive)
             /\ cfg.lk # "lru" => lorder = <<>>
             /\ cfg.nk # "lru" => norder = <<>>
\* a measurement never gets younger: entries are at least as old as the last probe of their address
NoRejuvenation == \A a \in Addrs :
   /\ live[a] # None => (last[a] # None /\ live[a].age >= last[a].age)
   /\ nonlive[a] # None => (last[a] # None /\ nonlive[a].age >= last[a].age)
=============================================================================
