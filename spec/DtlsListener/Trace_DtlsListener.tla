------------------------- MODULE Trace_DtlsListener -------------------------
(* Stage C (implementation -> spec): validates event logs recorded from the real Listener
   (loopback UDP, real Dial / AcceptWithContext).  The log has the start and the end of
   every call, taken under one mutex: a start line is written BEFORE the call is made, a
   return line AFTER it returned, so every internal step of the call lies between them in
   log order.  The internal steps (registerCert ... removeCert, the handshake's hello /
   verify / lookup / deliver) are not logged: TLC composes them silently.

     AcceptStart(p, s)   DialStart(p, s, c)   Cancel(p)
     AcceptReturn(p, out, peer)   out: "conn" (peer = dialer whose tagged message was read, "?" if unreadable)
                                       "ctx" | "already" | "err" (connection received, session setup failed)
     DialReturn(p, ok)
     Final(nchan, ncert)  sizes of connMap / connToCert read in-package after every call returned
     Reset                next scenario (fresh listener)

   Acceptance: the whole log is consumed (high-water mark of the log index, -workers 1). *)
EXTENDS DtlsListener, Json, TLCExt
TraceLog == ndJsonDeserialize("trace.ndjson")
VARIABLES l, aret, dret
tvars == <<vars, l, aret, dret>>

Mark(i) == IF i > TLCGet(1) THEN TLCSet(1, i) ELSE TRUE

TraceInit == Init /\ l = 1 /\ aret = {} /\ dret = {} /\ TLCSet(1, 1)

TraceReset == /\ l <= Len(TraceLog) /\ TraceLog[l].a = "Reset"
              /\ certs' = [s \in Secrets |-> NoOne] /\ chans' = [s \in Secrets |-> NoOne]
              /\ box' = [a \in Acceptors |-> NoOne]
              /\ apc' = [a \in Acceptors |-> "idle"] /\ asec' = [a \in Acceptors |-> NoOne]
              /\ acancel' = [a \in Acceptors |-> FALSE] /\ aout' = [a \in Acceptors |-> NoOne]
              /\ dpc' = [d \in Dialers |-> "idle"] /\ drs' = [d \in Dialers |-> NoOne] /\ dcs' = [d \in Dialers |-> NoOne]
              /\ dch' = [d \in Dialers |-> NoOne] /\ dver' = [d \in Dialers |-> FALSE]
              /\ obs' = [a |-> "Init"] /\ aret' = {} /\ dret' = {}
              /\ l' = l + 1 /\ Mark(l + 1)

AcceptReturn(e) ==
  /\ e.p \in Acceptors /\ e.p \notin aret /\ apc[e.p] = "done"
  /\ CASE e.out = "conn"    -> IF e.peer = "?" THEN aout[e.p] \in Dialers ELSE aout[e.p] = e.peer
       [] e.out = "ctx"     -> aout[e.p] = "ctx"
       [] e.out = "already" -> aout[e.p] = "already"
       [] e.out = "err"     -> aout[e.p] \in Dialers
       [] OTHER             -> FALSE
  /\ aret' = aret \cup {e.p}
  /\ UNCHANGED <<vars, dret>>

DialReturn(e) ==
  /\ e.p \in Dialers /\ e.p \notin dret /\ dpc[e.p] # "idle"
  /\ e.ok => (dpc[e.p] = "delivered" /\ \E a \in Acceptors : aout[a] = e.p)
  /\ dret' = dret \cup {e.p}
  /\ UNCHANGED <<vars, aret>>

Final(e) ==
  /\ \A a \in Acceptors : apc[a] \in {"idle", "done"}
  /\ Cardinality({s \in Secrets : chans[s] # NoOne}) = e.nchan
  /\ Cardinality({s \in Secrets : certs[s] # NoOne}) = e.ncert
  /\ UNCHANGED <<vars, aret, dret>>

TraceEvent == /\ l <= Len(TraceLog) /\ TraceLog[l].a # "Reset"
              /\ l' = l + 1
              /\ LET e == TraceLog[l] IN
                 CASE e.a = "AcceptStart"  -> AcceptStart(e.p, e.s) /\ UNCHANGED <<aret, dret>>
                   [] e.a = "DialStart"    -> DialStart(e.p, e.s, e.c) /\ UNCHANGED <<aret, dret>>
                   [] e.a = "Cancel"       -> /\ IF apc[e.p] \notin {"idle", "done"} /\ ~acancel[e.p]
                                                   THEN Cancel(e.p) ELSE UNCHANGED vars   \* cancelling a finished call is a no-op
                                              /\ UNCHANGED <<aret, dret>>
                   [] e.a = "AcceptReturn" -> AcceptReturn(e)
                   [] e.a = "DialReturn"   -> DialReturn(e)
                   [] e.a = "Final"        -> Final(e)
                   [] OTHER                -> FALSE
              /\ Mark(l + 1)   \* last conjunct: only evaluated when the event was accepted
TraceSilent == Internal /\ UNCHANGED <<l, aret, dret>>
TraceNext == TraceReset \/ TraceEvent \/ TraceSilent
TraceSpec == TraceInit /\ [][TraceNext]_tvars
TraceView == <<view, l, aret, dret>>
Reached == PrintT(<<"TRACE_REACHED", TLCGet(1) - 1>>)
Post == Reached /\ TLCGet(1) - 1 = Len(TraceLog)
=============================================================================
