SPECIFICATION GenSpec
CONSTANTS
  Profile = "parse"
  Defects = {"scanErrIgnored", "badWeightSkipped", "wsRejects", "noRangeCheck", "deadKept", "typeUrlRewritten", "chainNotAtomic", "chainMixesPort", "randIgnoresReader", "pkgIgnoresFlag", "callerNeverSetsPsr", "callerRecomputesPort"}
  Broken = {}
  Depth = 1
  GenMode = "load"
INVARIANT Emit
CHECK_DEADLOCK FALSE
