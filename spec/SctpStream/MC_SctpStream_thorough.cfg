SPECIFICATION Spec
CONSTANTS
  M = 4
  MsgLens = {1, 2, 3, 4}
  ErrLens = {0, 1, 2, 3, 4}
  ReadSizes = {1, 2, 3, 4, 5}
  MaxItems = 7
  MaxPostErr = 2
  Mode = "intended"
  Cap = 2
  BufMode = "fresh"
  RingSize = 1
VIEW view
INVARIANTS TypeOK StreamFidelity HeartbeatsNeverSurface ReceiveBufferUnreferenced QueueBounded HeldMeansFull ErrorAfterItsData NoSpuriousError PendingMeansEmpty DeferredErrorHasData
PROPERTIES ErrorSticky
CHECK_DEADLOCK FALSE
