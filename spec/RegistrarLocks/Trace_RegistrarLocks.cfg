SPECIFICATION TraceSpec
CONSTANTS
  ReqV4 = {"f1"}
  ReqV6 = {"s1"}
  ReqDual = {"d1", "d2"}
  ReqFail = {}
  ReqFail6 = {}
  ErrorPath = "plain"
  Reloads = {"m1", "m2", "m3", "m4"}
  ToB = {"m1", "m4"}
  Bad = {"m2"}
  ReloadOrder = "load-first"
  Protocol = "single"
VIEW TraceView
INVARIANTS WholeGeneration LockBalance MutualExclusion FailedReloadHoldsNothing
POSTCONDITION Post
CHECK_DEADLOCK FALSE
