\* liveness, as found, everything answering: Register returns and every sender ends
SPECIFICATION FairSpec
CONSTANTS
  Variant = "asfound"
  Widths = {1, 2}
  ChanCap = "width"
  Rounds = 1
  Deadlines = {FALSE}
  PreCancel = {TRUE, FALSE}
  DialOut = {"ok", "unreach", "refused"}
  TlsOut = {"ok", "err", "nokeystream"}
  WriteOut = {"ok", "err"}
  LingerOut = {"byte", "eof"}
PROPERTIES Termination
CHECK_DEADLOCK FALSE
