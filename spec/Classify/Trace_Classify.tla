--------------------------- MODULE Trace_Classify ---------------------------
(* Validates event logs of real connManager.handleNewTCPConn runs (scripted connection + decorated real transports).
   Events, in per-connection order (recorded under the connection's mutex):
     Start        the case in the specification's terms (oracle side: computed from the case definition, not by the code) and what
                  the table holds for R when the history starts (tab)
     NextConn     the next connection of the same history (same phantom, the table as the history left it), its case
     Validate / SweepIdle / Retrack   a table operation between two connections, with what the REAL table holds for R afterwards
     SetDeadline  first one = HInit (at least 5 s after the connection was created [dl], at most 10 s ahead of the call itself [ahead]: both bounds hold however late the handler is scheduled); later ones are no-ops for the model
     Send k / PeerClose / ReadTimeout|Expire        the peer / the clock
     Read n       HRead | HDrain | HRelayRead (whichever phase the handler is in)
     Verdict t r n   what transport t answered when offered n accumulated bytes: must equal Verdict(t, n)
     Write n      only for an authenticated peer
     Close        station closed the connection: only after the deadline, after the peer closed, or when relaying
     Return       the handler returned
     LegacyReg    a legacy (v0/v1) registration was ingested just before the connection arrived
     Swept        the expiry sweeper removed the matched registration right after the matching verdict (before MarkActive)
     Final        what reached the covert / came back / registration state (in a history: what the real table holds for R now)
     Return.hung  the handler had not returned when the driver gave up on it, long after every deadline, the peer having closed too:
                  no behaviour of the specification (Terminates) - e.g. a lookup that never came back from the table's lock
   Silent steps: running out of transports (read -> drain), the found -> relay step, and a lookup taking the table's read lock (RLock)
   before the verdict that is logged.  Registry writers on other goroutines (the churn the driver runs while probes are being classified)
   work on other phantoms and are not part of a connection's log: what the log shows is that every lookup comes back. *)
EXTENDS Classify, Json, TLCExt
TraceLog == ndJsonDeserialize("trace.ndjson")
VARIABLE l
tvars == <<vars, l>>

Authenticated == Ent /\ rcvd >= c.H
Unch == UNCHANGED vars

NoCase == [t |-> "none", ok |-> FALSE, terr |-> FALSE, H |-> 0, pofs |-> 0, total |-> 0, occ |-> 0, reg |-> "", own |-> FALSE]
TraceInit == /\ c = NoCase
             /\ phase = "returned" /\ alive = Transports /\ todo = {}
             /\ rcvd = 0 /\ sent = 0 /\ readn = 0 /\ written = 0
             /\ dlSet = FALSE /\ expired = FALSE /\ peerClosed = FALSE
             /\ matched = None /\ consumed = 0 /\ used = FALSE /\ returned = FALSE
             /\ swept = FALSE /\ regLock = "free" /\ seeded = FALSE /\ dlKnown = FALSE
             /\ tab = "gone" /\ entitled = FALSE /\ snap = "none" /\ conns = 1
             /\ rl = 0 /\ wr = "idle" /\ wleft = MaxWrites
             /\ obs = [a |-> "Init"]
             /\ l = 1
TraceStart == /\ l <= Len(TraceLog) /\ TraceLog[l].a = "Start"
              /\ c' = TraceLog[l].c
              /\ phase' = "init" /\ alive' = Transports /\ todo' = {}
              /\ rcvd' = 0 /\ sent' = 0 /\ readn' = 0 /\ written' = 0
              /\ dlSet' = FALSE /\ expired' = FALSE /\ peerClosed' = FALSE
              /\ matched' = None /\ consumed' = 0 /\ used' = FALSE /\ returned' = FALSE
              /\ swept' = FALSE /\ regLock' = "free" /\ seeded' = FALSE /\ dlKnown' = FALSE
              /\ tab' = TraceLog[l].tab /\ entitled' = (TraceLog[l].tab = "valid") /\ snap' = "none" /\ conns' = 1
              /\ rl' = 0 /\ wr' = "idle" /\ wleft' = MaxWrites
              /\ obs' = [a |-> "Init"]
              /\ l' = l + 1

FinalOK(e) ==
  IF matched # None
    THEN /\ e.matched = matched /\ e.matched_reg = c.reg /\ e.used = ~swept
         /\ (e.want_n > 0 => (e.fwd_ok /\ e.reply_ok /\ e.covert_conns = 1))
         /\ (e.tab = "" \/ e.tab = tab)
    ELSE /\ e.matched = "" /\ e.covert_conns = 0 /\ e.to_peer = 0
         /\ (c.terr \/ e.unread = 0)
         /\ (e.tab = "" \/ e.tab = tab)

TraceStep ==
  /\ l <= Len(TraceLog) /\ TraceLog[l].a # "Start" /\ l' = l + 1
  /\ LET e == TraceLog[l] IN
     CASE e.a = "SetDeadline" -> IF phase = "init" THEN HInit /\ e.dl >= 5000 /\ e.ahead <= 10000 ELSE Unch
       [] e.a = "Send"        -> Send(e.k)
       [] e.a = "PeerClose"   -> PeerClose
       [] e.a \in {"ReadTimeout", "Expire"} -> IF expired \/ matched # None THEN Unch ELSE Expire
       [] e.a = "ReadEOF"     -> peerClosed /\ Unch
       [] e.a = "Read"        -> \/ (HRead /\ obs'.a = "Read" /\ obs'.n = e.n)
                                 \/ (HDrain /\ obs'.a = "Read" /\ obs'.n = e.n)
                                 \/ (HRelayRead /\ obs'.n = e.n)
                                 \/ (phase \in {"offer", "found"} /\ Authenticated /\ avail >= e.n /\ readn' = readn + e.n
                                     /\ UNCHANGED <<lk, tab, entitled, snap, conns, seeded, dlKnown, swept, regLock, c, phase, alive, todo, rcvd, sent, written, dlSet, expired, peerClosed, matched, consumed, used, returned, obs>>)
       [] e.a = "Verdict"     -> HOffer(e.t) /\ obs'.r = e.r /\ obs'.n = e.n /\ (e.r = "match" => e.left = rcvd - c.H)
       [] e.a = "Write"       -> (HWrite \/ (Authenticated /\ written >= MaxW /\ Unch))
       [] e.a = "Close"       -> (phase \in {"relay", "returned"} \/ expired \/ peerClosed) /\ Unch
       [] e.a = "Return"      -> ~e.hung /\ (\/ (HRead /\ obs'.a = "Return") \/ (HDrain /\ obs'.a = "Return")
                                            \/ HSleep \/ HRelayReturn)
       [] e.a = "Swept"       -> SweepRemoves
       [] e.a = "NextConn"    -> NextConn(e.c)
       [] e.a = "Validate"    -> Validate /\ e.tab = tab'
       [] e.a = "SweepIdle"   -> SweepIdle /\ e.tab = tab'
       [] e.a = "Retrack"     -> Retrack /\ e.tab = tab'
       [] e.a = "LegacyReg"   -> IF seeded THEN Unch ELSE LegacySelect
       [] e.a = "Final"       -> returned /\ FinalOK(e) /\ Unch
       [] OTHER               -> FALSE
Silent == /\ UNCHANGED l
          /\ \/ (HRead /\ obs'.a = "OutOfTransports")
             \/ HFound
             \/ HRLock
TraceNext == TraceStart \/ TraceStep \/ Silent
TraceSpec == TraceInit /\ [][TraceNext]_tvars
ASSUME TLCSet(1, 0)
HighWater == TLCSet(1, IF TLCGet(1) < l THEN l ELSE TLCGet(1))
Post == PrintT(<<"TRACE_REACHED", TLCGet(1) - 1>>) /\ TLCGet(1) - 1 = Len(TraceLog)
=============================================================================
