SPECIFICATION Spec
CONSTANT Mutant = "skip_covert"
INVARIANTS AgreesWithStatement ProbeOnlyWhenRequired NoWastedProbe ShareRules Necessary
CHECK_DEADLOCK FALSE
