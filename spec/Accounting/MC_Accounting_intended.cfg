\* object level, intended variant: every law
SPECIFICATION SpecObj
CONSTANTS
  Conns = {"c1", "c2"}
  Kons = {}
  Asns = {"a1"}
  CCs = {"", "US"}
  Variant = "intended"
  Broken = "none"
  MaxLoops = 0
  MaxPrints = 1
  MaxAuth = 0
VIEW view
CONSTRAINT Canon
INVARIANTS TypeOK GaugeExact NoDoubleCount AsnLedger OutcomeSum AsnSumsEpoch QuiescentZero Ledger TotalIsSum AsnSums AsnGaugesNonNeg KonGaugeExact KonLedger
PROPERTIES PrintKeepsGauges
CHECK_DEADLOCK FALSE
