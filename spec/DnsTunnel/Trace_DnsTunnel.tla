--------------------------- MODULE Trace_DnsTunnel ---------------------------
(* Stage C (implementation -> spec): validates ndjson traces recorded from the real requesters / responder behind a
   seeded-random relay (schedules that do NOT come from the specification).  One line per action at its linearization
   point, carrying the action's arguments, what the real code did (result / next program point / rcode / destination)
   and the projected state; every field the specification computes for the action must equal the logged one.
   Several traces are concatenated; a "Reset" line re-initialises. *)
EXTENDS DnsTunnel, Json, TLCExt
TraceLog == ndJsonDeserialize("trace.ndjson")
VARIABLE l
tvars == <<vars, l>>

\* every field of the specification's observation must be present in the logged event with the same value
ObsMatches(e, o) == \A f \in DOMAIN o : f \in DOMAIN e /\ e[f] = o[f]

Q(e) == [src |-> e.src, kind |-> e.kind, key |-> e.key]
H(e, pc) == [src |-> e.src, kind |-> e.kind, key |-> e.key, pc |-> pc]
R(e) == [dst |-> e.dst, rc |-> e.rc, key |-> e.key]

TraceInit == Init /\ l = 1
TraceReset == /\ l <= Len(TraceLog) /\ TraceLog[l].a = "Reset"
              /\ qnet' = EmptyBag /\ hs' = EmptyBag /\ rnet' = EmptyBag
              /\ cq' = [c \in Clients |-> <<>>] /\ cpc' = [c \in Clients |-> "idle"]
              /\ cn' = [c \in Clients |-> 0] /\ cres' = [c \in Clients |-> <<>>]
              /\ jk' = <<>>
              /\ ncalls' = [k \in AllKeys |-> 0] /\ ndeliv' = [k \in AllKeys |-> 0] /\ nresp' = [k \in AllKeys |-> 0]
              /\ ndup' = 0 /\ ndrop' = 0 /\ nclose' = 0
              /\ obs' = [a |-> "Init"] /\ l' = l + 1
TraceStep == /\ l <= Len(TraceLog) /\ TraceLog[l].a # "Reset"
             /\ l' = l + 1
             /\ LET e == TraceLog[l] IN
                /\ CASE e.a = "Request"       -> Request(e.c)
                     [] e.a = "Return"        -> Return(e.c)
                     [] e.a = "Close"         -> Close(e.c)
                     [] e.a = "RequestClosed" -> RequestClosed(e.c)
                     [] e.a = "Junk"          -> Junk(e.kind)
                     [] e.a = "DeliverQ"      -> DeliverQ(Q(e))
                     [] e.a = "Process"       -> Process(H(e, "cb"))
                     [] e.a = "Send"          -> Send(H(e, "send"))
                     [] e.a = "DropQ"         -> DropQ(Q(e))
                     [] e.a = "DupQ"          -> DupQ(Q(e))
                     [] e.a = "ReplayQ"       -> ReplayQ(Q(e))
                     [] e.a = "DeliverR"      -> DeliverR(R(e))
                     [] e.a = "DropR"         -> DropR(R(e))
                     [] e.a = "DupR"          -> DupR(R(e), e.to)
                     [] OTHER                 -> FALSE
                /\ ObsMatches(e, obs')
TraceNext == TraceReset \/ TraceStep
TraceSpec == TraceInit /\ [][TraceNext]_tvars
TraceView == <<view, l>>
TraceAccepted == TLCGet("stats").diameter - 1 = Len(TraceLog)
\* printed so the driver can tell how far the longest matched prefix got
Reached == PrintT(<<"TRACE_REACHED", TLCGet("stats").diameter - 1>>)
Post == Reached /\ TraceAccepted
=============================================================================
