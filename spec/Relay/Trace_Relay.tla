---------------------------- MODULE Trace_Relay ----------------------------
(* Stage C (implementation -> spec): validates executions recorded from the real halfPipe / Proxy.
   The file has one line per run, preceded by a "Reset" line:
     [a |-> "Run", mode, dial, client, covert, ret, cvok, fin]
   `client` and `covert` are the two scripted connections' OWN call logs - (seq, op, n, e, off, first), sequence
   numbers taken under the connection's own mutex.  There is no global order: the validator consumes the two
   logs in every interleaving and, for calls both halves make (SetDeadline, Close), tries either half.  A run is
   accepted when some interleaving consumes both logs completely through actions of Relay.tla, ends with Proxy
   returned (if the driver saw it return), all closes made, and the byte counts the real code reported equal the
   ones the specification computed.  All invariants of Relay.tla are evaluated on every state on the way.
   mode "client": the covert side was a real loopback socket (real Proxy run) and has no log - its calls are
   silent steps with unconstrained outcome. *)
EXTENDS Relay, Json, TLCExt
TraceLog == ndJsonDeserialize("trace.ndjson")
VARIABLES l, ic, iv, started
tvars == <<vars, l, ic, iv, started>>
TraceView == <<view, l, ic, iv, started>>

Cur == TraceLog[l]
LogOf(c) == IF c = "client" THEN Cur.client ELSE Cur.covert
Idx(c) == IF c = "client" THEN ic ELSE iv
SrcDir(c) == IF c = "client" THEN "up" ELSE "down"    \* the direction that reads from c
DstDir(c) == IF c = "client" THEN "down" ELSE "up"    \* the direction that writes to c

Mark(x) == TLCSet(42, IF TLCGet(42) < x THEN x ELSE TLCGet(42))
\* diagnostics only: the furthest point reached inside a run (line, events consumed from each log)
Front(a, b, c) == IF TLCGet(43) < a * 100000 + b + c
                    THEN TLCSet(43, a * 100000 + b + c) /\ TLCSet(44, b) /\ TLCSet(45, c)
                    ELSE TRUE

ReInit == /\ pcP' = "dial" /\ pc' = [d \in Dirs |-> "idle"] /\ buf' = [d \in Dirs |-> <<>>] /\ mem' = [c \in Slab |-> 0]
          /\ rerr' = [d \in Dirs |-> FALSE] /\ rdpos' = [d \in Dirs |-> 0] /\ nreads' = [d \in Dirs |-> 0]
          /\ delivered' = [d \in Dirs |-> <<>>] /\ bytes' = [d \in Dirs |-> 0] /\ refused' = [d \in Dirs |-> 0]
          /\ closes' = [c \in Conns |-> 0] /\ asrc' = [d \in Dirs |-> "no"] /\ comp' = [d \in Dirs |-> -1]
          /\ sessions' = 0 /\ obs' = [a |-> "Init"]

TraceInit == Init /\ l = 1 /\ ic = 0 /\ iv = 0 /\ started = FALSE /\ TLCSet(42, 1)
             /\ TLCSet(43, 0) /\ TLCSet(44, 0) /\ TLCSet(45, 0)

TraceReset == /\ l <= Len(TraceLog) /\ Cur.a = "Reset" /\ ~started
              /\ ReInit /\ l' = l + 1 /\ ic' = 0 /\ iv' = 0 /\ started' = FALSE /\ Mark(l + 1)

Begin == /\ l <= Len(TraceLog) /\ Cur.a = "Run" /\ ~started
         /\ Dial(Cur.dial) /\ started' = TRUE /\ UNCHANGED <<l, ic, iv>>

Match(c, e) ==
  CASE e.op = "SetDeadline" -> \E d \in Dirs : /\ pc[d] \in {"h0", "h1", "s0", "s1"} /\ DlConn(d) = c
                                               /\ SetDeadline(d, e.e)
    [] e.op = "Read"  -> Read(SrcDir(c), e.n, e.e)
    [] e.op = "Write" -> LET d == DstDir(c) IN
                           /\ pc[d] = "wr" /\ Len(buf[d]) = e.off
                           /\ (e.off > 0 => mem[Base(d) + 1] = Id(d, e.first))   \* the bytes offered are what the buffer holds: the bytes just read
                           /\ Write(d, e.n, e.e)
    [] e.op = "Close" -> \/ CloseDst(DstDir(c), e.e)
                         \/ CloseSrc(SrcDir(c), e.e)
    [] OTHER -> FALSE

ConnEvent(c) == /\ started /\ l <= Len(TraceLog) /\ Idx(c) < Len(LogOf(c))
                /\ Match(c, LogOf(c)[Idx(c) + 1])
                /\ IF c = "client" THEN ic' = ic + 1 /\ iv' = iv ELSE iv' = iv + 1 /\ ic' = ic
                /\ Front(l, ic', iv')
                /\ UNCHANGED <<l, started>>

\* real Proxy runs: calls on the (unlogged) loopback covert socket
CovertSilent == /\ started /\ l <= Len(TraceLog) /\ Cur.mode = "client"
                /\ \/ \E d \in Dirs, e \in {"nil", "err"} : /\ pc[d] \in {"h0", "h1", "s0", "s1"} /\ DlConn(d) = "covert"
                                                            /\ SetDeadline(d, e)
                   \/ \E n \in ChunkSizes \cup {0}, e \in ReadErrs \cup {"nil"} : Read("down", n, e)
                   \/ \E k \in 0..Len(buf["up"]), e \in WriteErrs \cup {"nil"} : Write("up", k, e)
                   \/ \E e \in {"nil", "err"} : CloseDst("up", e) \/ CloseSrc("down", e)
                /\ UNCHANGED <<l, ic, iv, started>>

Returned == /\ started /\ l <= Len(TraceLog) /\ Cur.ret /\ Return /\ UNCHANGED <<l, ic, iv, started>>

EndRun == /\ started /\ l <= Len(TraceLog)
          /\ ic = Len(Cur.client) /\ iv = Len(Cur.covert)
          /\ Cur.ret <=> pcP = "returned"
          /\ pc["up"] # "idle" =>
               /\ closes["client"] = 2                                   \* both closes of the client side were seen
               /\ Cur.mode = "full" => \A d \in Dirs : asrc[d] = "done"
          /\ Cur.fin.bu = bytes["up"] /\ Cur.fin.bd = bytes["down"]      \* reported = delivered (CountsMatch, bound)
          /\ Cur.fin.ses = sessions
          /\ Cur.mode = "full" => (Cur.fin.ku = comp["up"] /\ Cur.fin.kd = comp["down"])
          \* real Proxy run whose covert peer never closes and takes every byte, no client write fault: writes to it
          \* cannot have been refused, so everything the client's Reads returned must have been delivered
          /\ Cur.cvok => refused["up"] = 0
          /\ l' = l + 1 /\ started' = FALSE /\ ic' = 0 /\ iv' = 0 /\ Mark(l + 1)
          /\ UNCHANGED vars

TraceNext == TraceReset \/ Begin \/ ConnEvent("client") \/ ConnEvent("covert") \/ CovertSilent \/ Returned \/ EndRun
TraceSpec == TraceInit /\ [][TraceNext]_tvars

Reached == /\ PrintT(<<"TRACE_REACHED", TLCGet(42) - 1>>)
           /\ PrintT(<<"TRACE_FRONT", TLCGet(43) \div 100000, TLCGet(44), TLCGet(45)>>)
Post == Reached /\ TLCGet(42) = Len(TraceLog) + 1
=============================================================================
