SPECIFICATION GenSpec
CONSTANTS
  Kind = "prefix"
  Variant = "asfound"
  KnownIds = {0, 1, 4, 8, 9}
  FieldIds = {1, 9}
  SetArgs <- SetArgsS
  OvArgs <- OvArgsS
  Secrets = {"s1", "s2"}
  ReaderOk = {TRUE}
  Seeds = {"sd1", "sd2"}
  DeadConns = {FALSE, TRUE}
  MaxConns = 2
  MaxWrites = 3
  WriteSizes = {0, 3, 5000}
  MaxPeer = 2
  PeerSizes = {4}
  Depth = 18
INVARIANT Emit
CHECK_DEADLOCK FALSE
