\* liveness, intended, peers may stall: the end of the context makes Register return
SPECIFICATION StallSpec
CONSTANTS
  Variant = "intended"
  Widths = {1, 2}
  ChanCap = "width"
  Rounds = 1
  Deadlines = {FALSE}
  PreCancel = {TRUE, FALSE}
  DialOut = {"ok", "unreach", "refused"}
  TlsOut = {"ok", "err", "nokeystream"}
  WriteOut = {"ok", "err"}
  LingerOut = {"byte", "eof"}
PROPERTIES ReportGetsThrough LoopExitLeadsToReturn I_CtxEndLeadsToReturn
CHECK_DEADLOCK FALSE
