#!/bin/sh
# flowtracker_build.sh <repo> <outdir>: compiles the repository's src/flow_tracker.rs, src/sessions.rs and src/process_packet.rs,
# unmodified, behind the X07 stub crates (rust/flowtracker_stubs) into <outdir>/flowtracker
set -e
REPO=$1; OUT=$2; HERE=$(cd "$(dirname "$0")" && pwd)
mkdir -p "$OUT"
for c in log libc pnet protobuf redis; do
  rustc --edition 2018 -A warnings --crate-type rlib --crate-name $c -o "$OUT/lib$c.rlib" "$HERE/flowtracker_stubs/$c.rs" 2>"$OUT/$c.err" || { cat "$OUT/$c.err"; exit 1; }
done
sed "s|@REPO@|$REPO|g" "$HERE/flowtracker_main.rs.tmpl" > "$OUT/flowtracker_main.rs"
rustc --edition 2015 -A warnings -C opt-level=1 -C debug-assertions=on -C overflow-checks=on -L "$OUT" --extern log="$OUT/liblog.rlib" --extern libc="$OUT/liblibc.rlib" \
  --extern pnet="$OUT/libpnet.rlib" --extern protobuf="$OUT/libprotobuf.rlib" --extern redis="$OUT/libredis.rlib" -o "$OUT/flowtracker" "$OUT/flowtracker_main.rs"
