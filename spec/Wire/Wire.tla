------------------------------- MODULE Wire -------------------------------
(***************************************************************************)
(* Field-presence / shape grammar of everything an outsider can hand to a  *)
(* station or registrar process (property C11):                            *)
(*                                                                         *)
(*   C2SWrapper / ClientToStation / RegistrationResponse / transport       *)
(*   parameters (as google.protobuf.Any), the HTTP envelope of the API     *)
(*   registrar, the DNS envelope of the DNS registrar, first-flight bytes  *)
(*   on phantom connections, the small length-prefixed codecs.             *)
(*                                                                         *)
(* A message is a ROW: a function from field names to SHAPE CLASSES        *)
(* (absent | empty | short | exact | long | wrong type | out-of-range ...).*)
(* One row is delivered to one ENTRY POINT; the entry point answers with   *)
(* an outcome.  The property: the outcome is one of error / ignored /      *)
(* accepted - there is no fourth value (crash), no missing value (hang),   *)
(* and an HTTP request always ends with a status line.                     *)
(*                                                                         *)
(* The receiving code is modelled as the list of GUARDS (explicit nil /    *)
(* length / bound checks) that stand between a field class and the         *)
(* dereference, slice or loop that needs it.  Trigger(g, e, r) says which  *)
(* rows reach the guarded operation with the dangerous class.  With every  *)
(* guard in place (MissingGuards = {}) no row crashes; an instance with a  *)
(* guard removed ("as found", or a mutant) violates the invariants.  The   *)
(* generator (Gen_Wire) emits for every row the guards it exercises, so    *)
(* the check can show that the covering design reaches every guard.        *)
(*                                                                         *)
(* Rows per entry point: the full product of the field classes where that  *)
(* is small, otherwise a base-choice covering design of strength           *)
(* `Strength`: every base row (product of the entry point's MODE fields,   *)
(* other fields nominal) with every combination of classes of every        *)
(* `Strength` fields - so all pairs (triples) of field classes occur, in   *)
(* every mode.                                                             *)
(***************************************************************************)
EXTENDS Naturals, FiniteSets, Sequences, TLC

CONSTANTS EPs,            \* entry points explored in this run
          Strength,       \* interaction strength of the covering design (1..3)
          Thin,           \* TRUE: the covering design is built around one base per entry point only (strength 3 runs)
          MissingGuards   \* {} = intended; {"api.bd.payload_nil"} = as found (H-C11-1); others = mutants

Outcomes == {"error", "ignored", "accepted"}

AllEPs == {"station.ingest", "station.wrap", "transport.params", "dtls.connect", "regproc", "api", "dnsreg", "responder",
           "msgformat", "rdatatxt"}

\* ------------------------------------------------------------------ field classes
\* the first class named in each comment is the nominal one

\* C2SWrapper
SecretC    == {"exact32", "absent", "empty", "len7", "len8", "len31", "len33"}
PayloadC   == {"present", "absent", "empty"}
SourceC    == {"api", "absent", "unspecified", "detector", "prescan", "bdapi", "dns", "bddns", "outofrange"}
RegAddrC   == {"len4", "absent", "len0", "len3", "len5", "len16m", "len16", "len17"}
DecoyAddrC == {"absent", "len0", "len4", "len16", "len17"}
RRC        == {"absent", "empty", "present"}
RespBytesC == {"absent", "garbage", "valid"}
SigC       == {"absent", "len3", "len64"}
UnkC       == {"absent", "present"}              \* unknown field numbers appended to the wrapper
\* RegistrationResponse inside the wrapper
RRIp4C     == {"nonzero", "absent", "zero"}
RRIp6C     == {"len16", "absent", "len0", "len3", "len17"}
RRPortC    == {"p443", "absent", "zero", "p65535", "p65536", "max32"}
RRParamsC  == {"absent", "empty", "generic", "prefix_known", "prefix_unknown", "garbage", "wrongurl"}
RRPortRndC == {"absent", "true", "false"}
RRExtraC   == {"absent", "present"}              \* serverRandom, error, nested ClientConf
\* ClientToStation
TransportC == {"min", "absent", "null", "obfs4", "prefix", "dtls", "webrtc", "unknown", "negative"}
GenC       == {"known", "absent", "unknown", "max"}
LibverC    == {"cur", "absent", "v0", "v1", "v2", "v3", "v5", "huge"}
BoolC      == {"true", "absent", "false"}
CovertC    == {"ok", "absent", "empty", "nohost", "noport", "garbage", "huge", "v6lit", "blocked", "name"}
FlagsC     == {"set", "absent", "empty", "prescanned"}
NoOvrC     == {"absent", "true", "false"}
\* transport parameters: the Any's TypeUrl and the Any's value bytes
PUrlC      == {"generic", "none", "prefix", "dtls", "bogus", "tapdance"}
PBytesC    == {"generic", "nil", "empty", "generic_rand", "prefix_known", "prefix_rand", "prefix_unknown", "prefix_neg",
               "dtls_addrs", "dtls_noaddrs", "dtls_badaddrs", "garbage", "truncated"}
ExtrasC    == {"absent", "present", "partial"}   \* padding, failed decoys, stats, masked SNI, webrtc signal (partial: required fields missing)

WrapperDom == [secret |-> SecretC, payload |-> PayloadC, source |-> SourceC, regaddr |-> RegAddrC,
               decoyaddr |-> DecoyAddrC, rr |-> RRC, respbytes |-> RespBytesC, sig |-> SigC, unk |-> UnkC]
RRDom      == [rr_ip4 |-> RRIp4C, rr_ip6 |-> RRIp6C, rr_port |-> RRPortC, rr_params |-> RRParamsC,
               rr_portrand |-> RRPortRndC, rr_extra |-> RRExtraC]
C2SDom     == [transport |-> TransportC, gen |-> GenC, libver |-> LibverC, v4 |-> BoolC, v6 |-> BoolC,
               covert |-> CovertC, flags |-> FlagsC, noovr |-> NoOvrC, purl |-> PUrlC, pbytes |-> PBytesC,
               extras |-> ExtrasC]

\* registrar processor: which function is called, how the processor is configured, what the front end passes
OpC         == {"bd", "uni", "bdreq", "c2sw"}
WrapperPtrC == {"present", "nil"}
AuthC       == {"on", "off"}
OvrC        == {"rand", "none", "fixed"}
EnforceC    == {"off", "on"}
ClientAddrC == {"len16", "nil", "len4", "len3"}
ProcDom     == [op |-> OpC, wrapper |-> WrapperPtrC, auth |-> AuthC, ovr |-> OvrC, enforce |-> EnforceC,
                clientaddr |-> ClientAddrC]

\* HTTP envelope of the API registrar
EndpointC   == {"bd", "uni"}
MethodC     == {"POST", "GET", "PUT", "HEAD"}
PathC       == {"exact", "slash", "unknown"}
\* lying_absurd: Content-Length 2^63-1 in front of an ordinary body (the header alone must never size an allocation)
BodyC       == {"exact", "empty", "len32", "garbage", "truncated", "huge", "nolength", "lying_longer", "lying_absurd", "lying_shorter"}
XffC        == {"absent", "v4", "v6", "garbage", "empty", "list", "listgarbage", "huge", "twoheaders"}
ClientConfC == {"equal", "newer", "older", "absent"}
HttpDom     == [endpoint |-> EndpointC, method |-> MethodC, path |-> PathC, body |-> BodyC, xff |-> XffC,
                clientconf |-> ClientConfC]

\* DNS registrar, after decryption: the wrapper plus the server's ClientConf generation
CCGenC      == {"equal", "newer"}
DnsRegDom   == [ccgen |-> CCGenC]

\* DNS envelope
QrC        == {"query", "response"}
OpcodeC    == {"query", "status", "op15"}
QdC        == {"one", "zero", "two", "hdr_more", "hdr_less"}
OptC       == {"one", "none", "two"}
OptVerC    == {"v0", "v1"}
OptSizeC   == {"s4096", "s0", "s511", "s1231", "s1232", "s65535"}
OptRdC     == {"empty", "some", "overrun"}
ExtraRRC   == {"none", "answer", "authority", "additional"}
SuffixC    == {"right", "mixedcase", "wrong", "short", "root"}
QTypeC     == {"txt", "a", "t255"}
NameC      == {"labels", "small", "nolabels", "over255", "ptr_suffix", "ptr_self", "ptr_oob", "ptr_chain10",
               "ptr_chain11", "rsv40", "rsv80", "overrun"}
B32C       == {"valid", "lower", "badchar", "padded", "badlen"}
LenPrefixC == {"ok", "plus1", "bigger", "smaller", "zero"}   \* plus1: claims exactly one byte more than the message carries
NoiseC     == {"valid", "empty", "len31", "len32", "len47", "badtag", "wrongkey", "trailing"}
InnerC     == {"bd", "uni", "nopayload", "garbage", "empty"}
TrailC     == {"none", "bytes"}
DnsDom     == [qr |-> QrC, opcode |-> OpcodeC, qd |-> QdC, opt |-> OptC, optver |-> OptVerC, optsize |-> OptSizeC,
               optrd |-> OptRdC, extrarr |-> ExtraRRC, suffix |-> SuffixC, qtype |-> QTypeC, name |-> NameC,
               b32 |-> B32C, lenprefix |-> LenPrefixC, noise |-> NoiseC, inner |-> InnerC, trail |-> TrailC]

\* transport parameter handling in isolation (full product)
TPTransportC == {"min", "obfs4", "prefix", "dtls"}
DstParamsC   == {"parsed", "nil", "typednil", "foreign", "int0"}
SeedC        == {"len16", "empty", "nil"}

\* the connecting transport's dial with the parameters a registration can carry (full product)
DPhantomC == {"v4", "v6"}
DTTypeC   == {"dtls", "other"}
DPUrlC    == {"dtls", "none"}

\* first flight on a phantom connection (full product)
WTransportC == {"min", "prefix", "obfs4"}
RegsC       == {"same", "none", "other", "noparams"}
DstC        == {"match", "other", "nil", "len3"}
PidC        == {"min", "getlong", "postlong", "httpresp", "tlsch", "tlssh", "alertw", "alertf", "dnstcp", "ssh"}
FlightC     == {"valid", "valid_data", "empty", "one", "tagm1", "wrongtag", "static_only", "static_trunc",
                "wrong_prefix", "long_random", "maxlen_random", "huge"}

\* the two length-prefix codecs and the TXT RDATA decoder (full products)
MFFnC     == {"request", "response"}
MFLenC    == {"l0", "l1", "l2", "l3", "l40", "l300"}
MFPrefixC == {"consistent", "bigger", "smaller", "zero", "max"}
TxtChunksC == {"none", "one", "many"}
TxtLastC   == {"ok", "overrun", "zero", "max255"}
TxtSizeC   == {"s0", "s1", "s255", "s256", "s1000"}

Dom(e) == CASE e = "station.ingest"   -> WrapperDom @@ RRDom @@ C2SDom
            [] e = "regproc"          -> ProcDom @@ WrapperDom @@ RRDom @@ C2SDom
            [] e = "api"              -> HttpDom @@ WrapperDom @@ RRDom @@ C2SDom
            [] e = "dnsreg"           -> DnsRegDom @@ WrapperDom @@ RRDom @@ C2SDom
            [] e = "responder"        -> DnsDom
            [] e = "transport.params" -> [transport |-> TPTransportC, libver |-> LibverC, purl |-> PUrlC,
                                          pbytes |-> PBytesC, dstparams |-> DstParamsC, seed |-> SeedC]
            [] e = "dtls.connect"     -> [phantom |-> DPhantomC, ttype |-> DTTypeC, purl |-> DPUrlC, pbytes |-> PBytesC]
            [] e = "station.wrap"     -> [transport |-> WTransportC, regs |-> RegsC, dst |-> DstC, pid |-> PidC,
                                          flight |-> FlightC]
            [] e = "msgformat"        -> [fn |-> MFFnC, len |-> MFLenC, prefix |-> MFPrefixC]
            [] e = "rdatatxt"         -> [chunks |-> TxtChunksC, last |-> TxtLastC, size |-> TxtSizeC]

FullProduct(e) == e \in {"transport.params", "dtls.connect", "station.wrap", "msgformat", "rdatatxt"}
FullRows(e) == CASE e = "transport.params" -> [transport : TPTransportC, libver : LibverC, purl : PUrlC, pbytes : PBytesC,
                                                dstparams : DstParamsC, seed : SeedC]
                 [] e = "dtls.connect"     -> [phantom : DPhantomC, ttype : DTTypeC, purl : DPUrlC, pbytes : PBytesC]
                 [] e = "station.wrap"     -> [transport : WTransportC, regs : RegsC, dst : DstC, pid : PidC, flight : FlightC]
                 [] e = "msgformat"        -> [fn : MFFnC, len : MFLenC, prefix : MFPrefixC]
                 [] e = "rdatatxt"         -> [chunks : TxtChunksC, last : TxtLastC, size : TxtSizeC]

\* ------------------------------------------------------------------ nominal rows and modes
NomWrapper == [secret |-> "exact32", payload |-> "present", source |-> "api", regaddr |-> "len4", decoyaddr |-> "absent",
               rr |-> "absent", respbytes |-> "absent", sig |-> "absent", unk |-> "absent"]
NomRR      == [rr_ip4 |-> "nonzero", rr_ip6 |-> "len16", rr_port |-> "p443", rr_params |-> "absent",
               rr_portrand |-> "absent", rr_extra |-> "absent"]
NomC2S     == [transport |-> "min", gen |-> "known", libver |-> "cur", v4 |-> "true", v6 |-> "true", covert |-> "ok",
               flags |-> "set", noovr |-> "absent", purl |-> "generic", pbytes |-> "generic", extras |-> "absent"]
NomMsg     == NomWrapper @@ NomRR @@ NomC2S
\* the parameters that belong to a transport
WithTransport(r, t) ==
  [r EXCEPT !.transport = t,
            !.purl   = CASE t = "prefix" -> "prefix" [] t = "dtls" -> "dtls" [] OTHER -> "generic",
            !.pbytes = CASE t = "prefix" -> "prefix_known" [] t = "dtls" -> "dtls_addrs" [] OTHER -> "generic"]
RealTransports == {"min", "obfs4", "prefix", "dtls"}
NomProc == [op |-> "bd", wrapper |-> "present", auth |-> "on", ovr |-> "rand", enforce |-> "off", clientaddr |-> "len16"]
NomHttp == [endpoint |-> "bd", method |-> "POST", path |-> "exact", body |-> "exact", xff |-> "absent", clientconf |-> "equal"]
NomDns  == [qr |-> "query", opcode |-> "query", qd |-> "one", opt |-> "one", optver |-> "v0", optsize |-> "s4096",
            optrd |-> "empty", extrarr |-> "none", suffix |-> "right", qtype |-> "txt", name |-> "labels", b32 |-> "valid",
            lenprefix |-> "ok", noise |-> "valid", inner |-> "bd", trail |-> "none"]

Bases(e) ==
  CASE e = "station.ingest" -> {WithTransport([NomMsg EXCEPT !.rr = x], t) : x \in {"absent", "present"}, t \in RealTransports}
    [] e = "regproc"        -> {WithTransport([NomProc @@ NomMsg EXCEPT !.op = o], t) : o \in OpC, t \in {"min", "prefix"}}
    [] e = "api"            -> {WithTransport([NomHttp @@ NomMsg EXCEPT !.endpoint = x], t) : x \in EndpointC, t \in {"min", "prefix"}}
    [] e = "dnsreg"         -> {WithTransport([[ccgen |-> "equal"] @@ NomMsg EXCEPT !.source = s, !.regaddr = "absent"], t) :
                                   s \in {"bddns", "dns"}, t \in {"min", "prefix"}}
    [] e = "responder"      -> {[NomDns EXCEPT !.inner = i] : i \in {"bd", "uni"}}
    [] OTHER                -> {}

\* the single base of a thin design: the mode with the most code behind it (bidirectional, prefix transport, response present)
ThinBase(e, b) == IF e = "responder" THEN b.inner = "bd"
                  ELSE /\ b.transport = "prefix"
                       /\ (e = "station.ingest" => b.rr = "present")
                       /\ (e = "regproc" => b.op = "bd")
                       /\ (e = "api" => b.endpoint = "bd")
                       /\ (e = "dnsreg" => b.source = "bddns")
DesignBases(e) == IF Thin THEN {b \in Bases(e) : ThinBase(e, b)} ELSE Bases(e)

\* rows of the covering design: a base with at most Strength fields moved to any of their classes
RECURSIVE SetToSeq(_)
SetToSeq(S) == IF S = {} THEN <<>> ELSE LET x == CHOOSE y \in S : TRUE IN <<x>> \o SetToSeq(S \ {x})

\* ------------------------------------------------------------------ what the receiving code does
\* helper predicates over message rows
HasPayload(r)   == r.payload = "present"
V4Attempt(r)    == HasPayload(r) /\ r.v4 = "true" /\ r.regaddr \in {"len4", "len16m"}
V6Attempt(r)    == HasPayload(r) /\ r.v6 = "true"
\* the HTTP envelope lets the handler reach the registration logic
HttpEnvelopeOK(r) == r.method = "POST" /\ r.path = "exact" /\ r.body \in {"exact", "huge"}
HttpEnvelopeBad(r) == r.method # "POST" \/ r.path # "exact" \/ r.body \in {"empty", "len32", "garbage", "truncated", "nolength", "lying_longer", "lying_absurd"}
\* the DNS envelope lets the responder reach decryption / the registrar
DnsEnvelopeOK(r) == /\ r.qr = "query" /\ r.opcode = "query" /\ r.qd = "one" /\ r.opt = "one" /\ r.optver = "v0"
                    /\ r.optsize \in {"s4096", "s1232", "s65535"} /\ r.suffix \in {"right", "mixedcase"}
                    /\ r.qtype = "txt" /\ r.name \in {"labels", "small", "ptr_suffix", "ptr_chain10"} /\ r.b32 \in {"valid", "lower", "badlen"}
\* section counts or a record length that lie about what follows: which records the parser ends up with depends on the
\* bytes behind them (an OPT record whose RDLENGTH overruns swallows the next record) - no outcome is excluded
DnsUnpredictable(r) == r.optrd = "overrun" \/ r.qd \in {"hdr_more", "hdr_less"}
\* the length prefix hands the Noise layer exactly one well-formed message, and what it decrypts to decodes as a wrapper
\* (a wrapper the registrar refuses is still ANSWERED - with success = false inside the encrypted response)
DnsPayloadOK(r)  == /\ \/ r.lenprefix = "ok" /\ r.noise = "valid"
                       \/ r.lenprefix = "smaller" /\ r.noise = "trailing"
                    /\ r.inner # "garbage"

Guards == {
  "api.bd.payload_nil",        \* registerBidirectional writes payload.RegistrationPayload.X: needs payload != nil
  "regproc.bdreq.c2s_nil",     \* processBdReq: c2s == nil -> ErrNoC2SBody
  "regproc.c2sw.nil",          \* processC2SWrapper: c2sPayload == nil -> ErrNoC2SBody
  "station.rr.ip4_nil",        \* NewRegistrationC2SWrapper: rr.Ipv4Addr != nil before *rr.Ipv4Addr
  "station.c2s.getters",       \* parseRegMessage reads the payload through nil-safe getters
  "station.regaddr.nil",       \* parseRegMessage substitutes 16 zero bytes for an absent registrant / decoy address
  "transport.params.type",     \* GetDstPort: checked type assertion on the parameters
  "prefix.params.nil",         \* prefix.GetDstPort / tryFindReg: nil parameters
  "min.wrap.len",              \* min.WrapConnection: data.Len() < 32 before slicing
  "prefix.wrap.len",           \* prefix.WrapConnection / tryFindReg: length checks before slicing at Offset
  "obfs4.wrap.len",            \* obfs4.WrapConnection: data.Len() < ClientMinHandshakeLength before slicing
  "anypb.nil",                 \* UnmarshalAnypbTo: src == nil
  "dns.ptr_limit",             \* readName: at most compressionPointerLimit pointers (a loop otherwise: HANG)
  "dns.label_bounds",          \* readName / readRR: io.ReadFull instead of slicing
  "msgformat.len",             \* Remove*Format: prefix length against len(p)
  "rdatatxt.len",              \* DecodeRDataTXT: len(p) < n
  "responder.noise.len",       \* craftResponse: the Noise library rejects short messages (no slicing in the responder)
  "dnsreg.payload_nil",        \* processRequest reads RegistrationPayload through a nil-safe getter
  "dtls.connect.addr_getters", \* dtls.Connect reads SrcAddr4 / SrcAddr6 through nil-safe getters
  "dnat.addr_family",          \* dnat.AddEntry: both addresses of one family, lengths checked by the serialiser
  "regproc.selector.unlock"    \* processBdReq: EVERY return - also the ones after a failed v4 or v6 phantom selection - releases the
                               \* selector read lock (a lock left behind: the next reload and every registration after it HANG)
}
HangGuards == {"dns.ptr_limit", "regproc.selector.unlock"}

RegistrarBd(e, r) == \/ e = "api" /\ HttpEnvelopeOK(r) /\ r.endpoint = "bd"
                     \/ e = "dnsreg" /\ r.source = "bddns"
                     \/ e = "regproc" /\ r.op \in {"bd", "bdreq"}

Trigger(g, e, r) ==
  CASE g = "api.bd.payload_nil"    -> e = "api" /\ HttpEnvelopeOK(r) /\ r.endpoint = "bd" /\ r.payload = "absent" /\ r.clientconf # "absent"
                                      /\ r.secret \in {"exact32", "len33"}    \* the body must reach the minimum request length;
                                      \* without a payload the client's generation reads as 0: any server ClientConf is newer
    [] g = "regproc.bdreq.c2s_nil" -> e \in {"api", "dnsreg", "regproc"} /\ RegistrarBd(e, r)
                                      /\ (r.payload = "absent" \/ (e = "regproc" /\ r.wrapper = "nil"))
                                      /\ (e = "api" => r.clientconf = "absent" /\ r.secret \in {"exact32", "len33"})
    [] g = "regproc.c2sw.nil"      -> e = "regproc" /\ r.wrapper = "nil" /\ r.op \in {"uni", "c2sw"}
    [] g = "station.rr.ip4_nil"    -> e = "station.ingest" /\ V4Attempt(r) /\ r.rr \in {"present", "empty"} /\ (r.rr = "empty" \/ r.rr_ip4 = "absent")
    [] g = "station.c2s.getters"   -> e = "station.ingest" /\ r.payload = "absent"
    [] g = "station.regaddr.nil"   -> e = "station.ingest" /\ (r.regaddr = "absent" \/ r.decoyaddr = "absent")
    [] g = "transport.params.type" -> e = "transport.params" /\ r.dstparams \in {"foreign", "int0"}
    [] g = "prefix.params.nil"     -> \/ e = "transport.params" /\ r.transport = "prefix" /\ r.dstparams \in {"nil", "typednil"}
                                      \/ e = "station.wrap" /\ r.transport = "prefix" /\ r.regs = "noparams" /\ r.flight \in {"valid", "valid_data"}
    [] g = "min.wrap.len"          -> e = "station.wrap" /\ r.transport = "min" /\ r.flight \in {"empty", "one", "tagm1"}
    [] g = "prefix.wrap.len"       -> e = "station.wrap" /\ r.transport = "prefix" /\ r.flight \in {"empty", "one", "tagm1", "static_only", "static_trunc"}
    [] g = "obfs4.wrap.len"        -> e = "station.wrap" /\ r.transport = "obfs4" /\ r.flight \in {"empty", "one", "tagm1"}
    [] g = "anypb.nil"             -> \/ e = "transport.params" /\ r.pbytes = "nil"
                                      \/ e \in {"station.ingest", "regproc", "api", "dnsreg"} /\ HasPayload(r) /\ r.pbytes = "nil"
    [] g = "dns.ptr_limit"         -> e = "responder" /\ r.name \in {"ptr_self", "ptr_chain11"} /\ r.qd # "zero"
    [] g = "dns.label_bounds"      -> e = "responder" /\ (r.name \in {"overrun", "ptr_oob"} \/ r.optrd = "overrun") /\ r.qd # "zero"
    [] g = "msgformat.len"         -> \/ e = "msgformat" /\ (r.len \in {"l0", "l1"} \/ r.prefix \in {"bigger", "max"})
                                      \/ e = "responder" /\ DnsEnvelopeOK(r) /\ r.lenprefix \in {"plus1", "bigger"}
    [] g = "rdatatxt.len"          -> e = "rdatatxt" /\ (r.last = "overrun" \/ r.size = "s0")
    [] g = "responder.noise.len"   -> e = "responder" /\ DnsEnvelopeOK(r) /\ r.lenprefix \in {"ok", "smaller"} /\ r.noise \in {"empty", "len31", "len32", "len47"}
    [] g = "dnsreg.payload_nil"    -> e = "dnsreg" /\ r.payload = "absent"
    [] g = "dtls.connect.addr_getters" -> e = "dtls.connect" /\ r.ttype = "dtls" /\ r.pbytes \in {"dtls_noaddrs", "empty", "nil"}
    [] g = "dnat.addr_family"      -> e = "dtls.connect" /\ r.ttype = "dtls" /\ r.pbytes \in {"dtls_badaddrs", "dtls_noaddrs"}
    \* a phantom selection is attempted and fails: the client names a generation the registrar does not have
    [] g = "regproc.selector.unlock" -> e \in {"api", "dnsreg", "regproc"} /\ RegistrarBd(e, r) /\ HasPayload(r)
                                        /\ r.gen \in {"unknown", "max"} /\ (r.v4 = "true" \/ r.v6 = "true")
    [] OTHER                       -> FALSE

Triggers(e, r) == {g \in Guards : Trigger(g, e, r)}

\* --- outcome the specification allows for a row when every guard is in place
Nominal(e, r) == IF FullProduct(e) THEN FALSE ELSE r \in Bases(e)

\* rows the code must not accept (necessary conditions for acceptance; deliberately few and certain)
MustReject(e, r) ==
  CASE e = "station.ingest" -> \/ r.payload # "present"
                               \/ ~(V4Attempt(r) \/ V6Attempt(r))
                               \/ r.transport \notin RealTransports
                               \/ r.gen \in {"unknown", "max"}
    [] e = "regproc"        -> \/ r.wrapper = "nil"
                               \/ (r.op \in {"bd", "bdreq"} /\ r.payload = "absent")
                               \/ (r.op \in {"bd", "uni", "c2sw"} /\ r.secret \in {"absent", "empty", "len7"})
    [] e = "api"            -> \/ HttpEnvelopeBad(r)
                               \/ (r.endpoint = "bd" /\ r.payload = "absent")
                               \/ r.secret \in {"absent", "empty", "len7"}
    [] e = "dnsreg"         -> \/ (r.source = "bddns" /\ r.payload = "absent")
                               \/ r.secret \in {"absent", "empty", "len7"}
    [] e = "responder"      -> /\ ~DnsUnpredictable(r)
                               /\ (~DnsEnvelopeOK(r) \/ ~DnsPayloadOK(r))
    [] OTHER                -> FALSE

Expect(e, r) == IF Nominal(e, r) THEN {"accepted"}
                ELSE IF MustReject(e, r) THEN {"error", "ignored"}
                ELSE Outcomes

\* HTTP status classes the handler may answer with ("none" = connection closed without a status line)
StatusOf(e, r, o) ==
  IF e # "api" THEN {"n/a"}
  ELSE IF o = "accepted" THEN {"2xx"}
  ELSE IF HttpEnvelopeBad(r) THEN {"4xx"}
  ELSE {"4xx", "5xx"}

Result(e, r) ==
  LET missing == {g \in MissingGuards : Trigger(g, e, r)} IN
  IF missing # {}
    THEN {[o |-> IF g \in HangGuards THEN "hang" ELSE "crash", status |-> IF e = "api" THEN "none" ELSE "n/a"] : g \in missing}
    ELSE UNION {{[o |-> o, status |-> s] : s \in StatusOf(e, r, o)} : o \in Expect(e, r)}

\* ------------------------------------------------------------------ behaviour
VARIABLES ep, row, pc, outcome
vars == <<ep, row, pc, outcome>>
None == [none |-> TRUE]

RowChoice(e, r) ==
  IF FullProduct(e) THEN r \in FullRows(e)
  ELSE LET D  == Dom(e)
           FS == SetToSeq(DOMAIN D)
           n  == Len(FS)
       IN \E b \in DesignBases(e) : \E i1 \in 1..n : \E v1 \in D[FS[i1]] :
            IF Strength = 1 THEN r = [b EXCEPT ![FS[i1]] = v1]
            ELSE \E i2 \in (i1 + 1)..n : \E v2 \in D[FS[i2]] :
                   IF Strength = 2 THEN r = [b EXCEPT ![FS[i1]] = v1, ![FS[i2]] = v2]
                   ELSE \E i3 \in (i2 + 1)..n : \E v3 \in D[FS[i3]] :
                          r = [b EXCEPT ![FS[i1]] = v1, ![FS[i2]] = v2, ![FS[i3]] = v3]

Init == /\ ep \in EPs
        /\ RowChoice(ep, row)
        /\ pc = "deliver"
        /\ outcome = None

Deliver == /\ pc = "deliver"
           /\ outcome' \in Result(ep, row)
           /\ pc' = "done"
           /\ UNCHANGED <<ep, row>>

Next == Deliver
Spec == Init /\ [][Next]_vars

\* ------------------------------------------------------------------ properties
TypeOK == /\ ep \in AllEPs
          /\ pc \in {"deliver", "done"}
          /\ LET D == Dom(ep) IN DOMAIN row = DOMAIN D /\ \A f \in DOMAIN row : row[f] \in D[f]
\* the outcome is one of the three values: no panic ...
NeverCrash == pc = "done" => outcome.o # "crash"
\* ... and no call that does not come back
NeverHangs == pc = "done" => outcome.o # "hang"
NoFourthValue == pc = "done" => outcome.o \in Outcomes
\* every HTTP registration request ends with a status line
AlwaysAnswersHTTP == (pc = "done" /\ ep = "api") => outcome.status \in {"2xx", "4xx", "5xx"}
\* secondary: what is accepted satisfies the necessary conditions; a 2xx is sent only for an accepted registration
AcceptedOnlyWhenComplete == (pc = "done" /\ outcome.o = "accepted") => ~MustReject(ep, row)
StatusMatchesOutcome == (pc = "done" /\ ep = "api" /\ outcome.o \in Outcomes) => (outcome.status = "2xx" <=> outcome.o = "accepted")
\* the nominal messages are accepted (the neighbourhood is anchored on messages the code really processes)
NominalAccepted == (pc = "done" /\ Nominal(ep, row) /\ outcome.o \in Outcomes) => outcome.o = "accepted"
=============================================================================
