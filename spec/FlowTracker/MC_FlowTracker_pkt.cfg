\* packet level (rust_process_packet), TCP 443 flows incl. one from a filtered station sharing an IPv6 session key
SPECIFICATION Spec
CONSTANTS
  FlowInfo <- FlowsPkt3
  Keys = {"k1", "k2"}
  T = 2
  K = 3
  SessTimeouts = {1}
  TickSteps = {1, 2}
  MaxT = 0
  MaxQ = 2
  MaxLag = 1
  StaleEvent = "kills"
  DropRemoves = TRUE
  DueCmp = "le"
  KeepLonger = TRUE
  Level = "packet"
  FlagKinds = {"syn", "ack", "fin"}
  PayloadKinds = {"none", "app_tag", "app_notag"}
  FrameKinds = {"eth"}
VIEW viewRel
CONSTRAINT BoundedRel
INVARIANTS TypeOK TrackedHasEvent QueueSorted EventHorizon PostDropWindow PostDropFresh PostDropPhantoms CountsExact PacketLaws
PROPERTIES RemovedOnlyByStopOrDue PhantomNeverShortened PhantomDroppedOnlyWhenDue DropCountExact
CHECK_DEADLOCK FALSE
