------------------------- MODULE Trace_RegistrarData -------------------------
(* Stage C of C12 (implementation -> spec): every line of trace.ndjson is one real registration recorded by a
   driver that does NOT come from the specification (seeded random requests / configurations, and the weighted
   runs of the probabilistic clause): the request and configuration classes and the three views, abstracted from
   the real RegistrationResponse, the real bytes handed to the ZMQ sender and the real DecoyRegistrations a
   station built from those bytes.  A line is accepted iff Register can produce exactly these views for SOME draw;
   all invariants of RegistrarData are evaluated on every accepted state.  "Reset" lines separate runs. *)
EXTENDS RegistrarData, Json, TLCExt
TraceLog == ndJsonDeserialize("trace.ndjson")
VARIABLE l
tvars == <<vars, l>>

SvOf(e) == [f \in Fams(e.req.fam) |-> e.sv[f]]

TraceInit == /\ l = 1 /\ phase = "init" /\ u = 0
             /\ req = CHOOSE q \in Requests : ValidReq(q)
             /\ cfg = CHOOSE c \in Configs : TRUE
             /\ resp = NoneRR /\ fwd = [payload |-> req, response |-> NoneRR, sig |-> "none"] /\ sv = <<>>
             /\ obs = [a |-> "Init"]
TraceReset == /\ l <= Len(TraceLog) /\ TraceLog[l].a = "Reset"
              /\ l' = l + 1
              /\ phase' = "init"
              /\ UNCHANGED <<req, cfg, u, resp, fwd, sv, obs>>
TraceStep == /\ l <= Len(TraceLog) /\ TraceLog[l].a = "Register"
             /\ l' = l + 1
             /\ LET e == TraceLog[l] IN
                /\ e.req \in Requests /\ ValidReq(e.req) /\ e.cfg \in Configs
                /\ req' = e.req /\ cfg' = e.cfg
                /\ \E x \in Draws(e.req, e.cfg) : \E app \in Applied(e.req, e.cfg) :
                     /\ u' = x
                     /\ resp' = MkResp(e.req, e.cfg, x, app)
                     /\ resp' = e.resp
                /\ fwd' = [payload |-> e.req, response |-> FwdResponse(e.req, e.cfg, resp'), sig |-> FwdSig(e.req, e.cfg)]
                /\ fwd'.response = e.fwd.response /\ fwd'.sig = e.fwd.sig
                /\ sv' = StationView(fwd')
                /\ sv' = SvOf(e)
                /\ phase' = "done"
                /\ obs' = [a |-> "Register"]
TraceNext == TraceReset \/ TraceStep
TraceSpec == TraceInit /\ [][TraceNext]_tvars
TraceView == <<view, l>>
Reached == PrintT(<<"TRACE_REACHED", TLCGet("stats").diameter - 1>>)
Post == Reached /\ TLCGet("stats").diameter - 1 = Len(TraceLog)
=============================================================================
