------------------------- MODULE Trace_RegAccounting -------------------------
(* Stage C: totals of real concurrent runs on the real Stats + RegistrationManager (goroutines driving registration
   life cycles, PrintStats racing, no gates), judged at quiescence:
     Ledger  ev = events per kind from the per-goroutine logs, evc = events per audited counter, rep = sum over all
             epochs of the values the log lines reported, fin = final value, cur = gauges / totals at the end,
             inflight = registrations left valid.  Must satisfy LedgerRecOK. *)
EXTENDS RegAccounting, Json, TLCExt
TraceLog == ndJsonDeserialize("trace.ndjson")
VARIABLE l
tvars == <<vars, l>>
TraceInit == Init /\ l = 1
TraceStep == /\ l <= Len(TraceLog) /\ l' = l + 1 /\ UNCHANGED vars
             /\ LET e == TraceLog[l] IN
                CASE e.a = "Reset"  -> TRUE
                  [] e.a = "Ledger" -> LedgerRecOK(e)
                  [] OTHER -> FALSE
TraceSpec == TraceInit /\ [][TraceStep]_tvars
TraceAccepted == TLCGet("stats").diameter - 1 = Len(TraceLog)
Reached == PrintT(<<"TRACE_REACHED", TLCGet("stats").diameter - 1>>)
Post == Reached /\ TraceAccepted
=============================================================================
