SPECIFICATION Spec
CONSTANTS
  Regs <- MCRegs
  TU = 1
  TA = 3
  MaxT = 4
  TickSteps = {}
  LifeEvents = FALSE
  KeepAlive = 2
  ClearWhen = "always"
  DupMode = "restart"
  ClearFirst = TRUE
VIEW view
INVARIANTS EveryAnnouncementAccepted DetectorOutlivesStation SessionMatchesRegistration ClearEmpties
CHECK_DEADLOCK FALSE
