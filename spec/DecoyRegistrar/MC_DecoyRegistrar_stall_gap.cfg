\* as found the collector does not watch the context: must violate I_CtxEndLeadsToReturn when peers stall
SPECIFICATION StallSpec
CONSTANTS
  Variant = "asfound"
  Widths = {1, 2}
  ChanCap = "width"
  Rounds = 1
  Deadlines = {FALSE}
  PreCancel = {TRUE, FALSE}
  DialOut = {"ok", "unreach", "refused"}
  TlsOut = {"ok", "err", "nokeystream"}
  WriteOut = {"ok", "err"}
  LingerOut = {"byte", "eof"}
PROPERTIES I_CtxEndLeadsToReturn
CHECK_DEADLOCK FALSE
