------------------------ MODULE Trace_LivenessCache ------------------------
(* Stage C (implementation -> spec): validates ndjson traces recorded from the real tester built by
   liveness.New(Config) while a seeded random driver (NOT derived from the specification) queries it,
   advances time and runs the expiry clean-up.  One line per API call with its arguments, its result
   and the projected cache contents after it.  Several traces are concatenated; a "Reset" line carries
   the configuration of the next trace and re-initialises.
   The Reset line reports the kinds of cache the implementation built (lk, nk) and the trace is validated
   against the instance with exactly these kinds - also when a capacity is configured and the
   implementation did not build an LRU for it.  The property itself decides: Bounded (stated over the
   CONFIGURED capacities) is evaluated on every observed state, so an implementation that ignores a
   capacity is reported at the first state that exceeds it, and nowhere else. *)
EXTENDS LivenessCache, Json, TLCExt
TraceLog == ndJsonDeserialize("trace.ndjson")
VARIABLE l
tvars == <<vars, l>>

AsSet(x) == {x[i] : i \in DOMAIN x}
StateMatches(e) ==
  /\ AsSet(e.st.live) = EntProj(live')
  /\ AsSet(e.st.nonlive) = EntProj(nonlive')
  /\ e.st.lenL = Cardinality(Entries(live'))
  /\ e.st.lenN = Cardinality(Entries(nonlive'))
ArgsMatch(e, o) ==
  /\ o.a = e.a
  /\ (o.a = "Query") => (o.addr = e.addr /\ (e.cached \/ o.pv = e.pv) /\ o.verdict = e.verdict /\ o.cached = e.cached
                         /\ o.probes = e.probes /\ (o.stat = "uncached" \/ o.stat = e.stat))
  /\ (o.a = "Advance") => o.d = e.d

CfgOf(e) == [ll |-> e.cfg.ll, lc |-> e.cfg.lc, lk |-> e.cfg.lk, nl |-> e.cfg.nl, nc |-> e.cfg.nc, nk |-> e.cfg.nk]

Off == [ll |-> FALSE, lc |-> 0, lk |-> "off", nl |-> FALSE, nc |-> 0, nk |-> "off"]
TraceInit == /\ cfg = Off
             /\ live = [a \in Addrs |-> None] /\ nonlive = [a \in Addrs |-> None]
             /\ lorder = <<>> /\ norder = <<>>
             /\ last = [a \in Addrs |-> None]
             /\ gone = [c \in {"live", "nonlive"} |-> {}]
             /\ obs = [a |-> "Init", cfg |-> Off]
             /\ l = 1
\* TRACE_AT tells the check which trace an invariant violation belongs to (TLC prints no postcondition then)
TraceReset == /\ l <= Len(TraceLog) /\ TraceLog[l].a = "Reset"
              /\ PrintT(<<"TRACE_AT", l>>)
              /\ cfg' = CfgOf(TraceLog[l])
              /\ cfg'.lk \in {"off", "map", "lru"} /\ cfg'.nk \in {"off", "map", "lru"}
              /\ (cfg'.lk = "off") = ~cfg'.ll /\ (cfg'.nk = "off") = ~cfg'.nl
              /\ live' = [a \in Addrs |-> None] /\ nonlive' = [a \in Addrs |-> None]
              /\ lorder' = <<>> /\ norder' = <<>>
              /\ last' = [a \in Addrs |-> None]
              /\ gone' = [c \in {"live", "nonlive"} |-> {}]
              /\ obs' = [a |-> "Init", cfg |-> cfg']
              /\ l' = l + 1
TraceStep == /\ l <= Len(TraceLog) /\ TraceLog[l].a # "Reset"
             /\ l' = l + 1
             /\ LET e == TraceLog[l] IN
                \* on a cache hit the world is not consulted: the specification's canonical pv is the opposite verdict
                CASE e.a = "Query"        -> Query(e.addr, IF e.cached THEN ~e.verdict ELSE e.pv)
                  [] e.a = "Advance"      -> Advance(e.d)
                  [] e.a = "ClearExpired" -> ClearExpired
                  [] OTHER                -> FALSE
             /\ ArgsMatch(TraceLog[l], obs')
             /\ StateMatches(TraceLog[l])
TraceNext == TraceReset \/ TraceStep
TraceSpec == TraceInit /\ [][TraceNext]_tvars
TraceView == <<view, l>>
TraceAccepted == TLCGet("stats").diameter - 1 = Len(TraceLog)
Reached == PrintT(<<"TRACE_REACHED", TLCGet("stats").diameter - 1>>)
Post == Reached /\ TraceAccepted
=============================================================================
