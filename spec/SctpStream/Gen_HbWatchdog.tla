--------------------------- MODULE Gen_HbWatchdog ---------------------------
(* every tick-kind sequence of length Depth with the specification's prediction of
   `closed` after each tick; the driver plays it against the real hbConn in real time *)
EXTENDS HbWatchdog, Json
CONSTANT Depth
VARIABLE hist
GenInit == Init /\ hist = <<>>
GenNext == /\ Len(hist) < Depth /\ Next /\ hist' = Append(hist, obs')
GenSpec == GenInit /\ [][GenNext]_<<vars, hist>>
Emit == Len(hist) < Depth \/ PrintT(ToJson(hist))
=============================================================================
