//go:build verif

package lib

// Conformance drivers for spec/Relay (property C05; the scripted connections are reused by C17).
//
//   TestVerifRelayReplay   stage B: every complete behaviour TLC generated (Gen_Relay) is stepped through two real
//                          halfPipe goroutines wired exactly as Proxy wires them.  Every call the real code makes on
//                          a connection parks at a gate; the driver releases exactly the call the behaviour names, with
//                          exactly the outcome the behaviour names, and compares call, arguments and projected state.
//   TestVerifRelayRandom   stage C: seeded random fault scripts, both halves free-running (real scheduling); each
//                          connection logs (conn, seq, op, n, errKind) under its own mutex; the logs are validated
//                          by Trace_Relay.  Part of the runs go through the real Proxy (scripted client connection,
//                          real loopback covert): join, session gauge, tunnel summary, goroutines.

import (
	"bytes"
	"encoding/json"
	"errors"
	"fmt"
	"io"
	"math/rand"
	"net"
	"os"
	"regexp"
	"runtime"
	"strings"
	"sync"
	"sync/atomic"
	"syscall"
	"testing"
	"time"

	"github.com/refraction-networking/conjure/pkg/core"
	"github.com/refraction-networking/conjure/pkg/station/log"
	"github.com/refraction-networking/conjure/pkg/transports/wrapping/min"
	pb "github.com/refraction-networking/conjure/proto"
)

// ---------------------------------------------------------------- stream bytes
// The k-th byte (k >= 1) of direction d has a value that identifies k (streams stay below 256 bytes).
func vrlBase(d string) int {
	if d == "up" {
		return 11
	}
	return 101
}
func vrlVal(d string, id int) byte { return byte((id*37 + vrlBase(d)) & 0xff) }
func vrlID(d string, v byte) int   { return ((int(v) - vrlBase(d) + 512) * 173) & 0xff }

// vrlIsPrefix: b is exactly the bytes 1..len(b) of direction d
func vrlIsPrefix(d string, b []byte) bool {
	for i, v := range b {
		if v != vrlVal(d, i+1) {
			return false
		}
	}
	return true
}

// ---------------------------------------------------------------- errors
var vrlErrno = map[string]syscall.Errno{
	"RST": syscall.ECONNRESET, "EPIPE": syscall.EPIPE, "REFUSED": syscall.ECONNREFUSED, "ABORTED": syscall.ECONNABORTED,
	"HOSTUNREACH": syscall.EHOSTUNREACH, "NETUNREACH": syscall.ENETUNREACH, "NETDOWN": syscall.ENETDOWN,
	"NOBUFS": syscall.ENOBUFS, "NOTCONN": syscall.ENOTCONN, "EINVAL": syscall.EINVAL, "EIO": syscall.EIO,
	"ETIMEDOUT": syscall.ETIMEDOUT, "ENOTSUP": syscall.ENOTSUP,
}

type vrlOpaque struct{ s string }

func (e *vrlOpaque) Error() string { return e.s }

// vrlMkErr builds the error a connection returns for (kind, wrapping) on operation op.
//
//	wrapping "op"   *net.OpError{Op, Net:"tcp", Source: local, Addr: remote, Err: os.NewSyscallError(op, errno)}
//	                - the shape the Go network stack produces for read/write (both endpoints in the text)
//	         "oploc" the same with the local address only (the real shape for SetDeadline / Close)
//	         "sys"  os.SyscallError alone      "bare" the errno alone     "fmt" fmt.Errorf("...: %w", <op shape>)
func vrlMkErr(kind, wrap, op string, local, remote net.Addr) error {
	if kind == "nil" || kind == "" {
		return nil
	}
	sysop := op
	switch op {
	case "SetDeadline":
		sysop, op = "setdeadline", "set"
	case "Close":
		sysop, op = "close", "close"
	case "Read":
		sysop, op = "read", "read"
	case "Write":
		sysop, op = "write", "write"
	}
	var inner error
	switch kind {
	case "EOF":
		return io.EOF
	case "other", "opaque", "err":
		inner = &vrlOpaque{"verif: injected failure"}
		if wrap == "" || wrap == "bare" {
			return inner
		}
	case "closed":
		inner = net.ErrClosed
	case "timeout":
		inner = os.ErrDeadlineExceeded
	default:
		no, ok := vrlErrno[kind]
		if !ok {
			panic("unknown error kind " + kind)
		}
		if wrap == "bare" {
			return no
		}
		inner = os.NewSyscallError(sysop, no)
	}
	switch wrap {
	case "sys", "bare":
		return inner
	case "oploc":
		return &net.OpError{Op: op, Net: "tcp", Source: nil, Addr: local, Err: inner}
	case "fmt":
		return fmt.Errorf("transport layer: %w", &net.OpError{Op: op, Net: "tcp", Source: local, Addr: remote, Err: inner})
	default: // "op"
		return &net.OpError{Op: op, Net: "tcp", Source: local, Addr: remote, Err: inner}
	}
}

// ---------------------------------------------------------------- scripted connection
type vrlOut struct {
	N    int
	E    string
	Wrap string
}

type vrlEv struct {
	Seq   int    `json:"seq"`
	Op    string `json:"op"`
	N     int    `json:"n"`
	E     string `json:"e"`
	Off   int    `json:"off"`   // Write: bytes offered
	First int    `json:"first"` // Write: identity of the first offered byte (0: none / not a run of consecutive stream bytes)
}

// vrlConn is one end point (client or covert) as the station sees it.  It returns exactly the outcome it is told
// to return for each call and keeps its own log, sequence numbers taken under its own mutex.
type vrlConn struct {
	name      string // "client" | "covert"
	rdir      string // direction whose source this is ("up" for client)
	wdir      string // direction whose destination this is
	local     net.Addr
	remote    net.Addr
	mu        sync.Mutex
	log       []vrlEv
	written   []byte // bytes Write accepted
	readPos   int    // bytes Read returned
	closes    int
	closedCh  chan struct{}
	script    map[string][]vrlOut // free-running mode: outcome of the k-th call per operation
	calls     map[string]int
	afterShut string // free-running mode: "closed" -> Read/Write after the first Close return (0, closed)
	blockRead bool   // free-running mode: a Read beyond the script blocks until the connection is closed
	onRead    func()
	defWrap   string
}

func vrlNewConn(name string, local, remote net.Addr) *vrlConn {
	c := &vrlConn{name: name, local: local, remote: remote, closedCh: make(chan struct{}), calls: map[string]int{},
		script: map[string][]vrlOut{}, defWrap: "op"}
	if name == "client" {
		c.rdir, c.wdir = "up", "down"
	} else {
		c.rdir, c.wdir = "down", "up"
	}
	return c
}

// apply performs op with outcome out on the connection's state, logs it and returns what the caller sees.
func (c *vrlConn) apply(op string, p []byte, out vrlOut) (int, error) {
	c.mu.Lock()
	defer c.mu.Unlock()
	return c.applyLocked(op, p, out)
}

func (c *vrlConn) applyLocked(op string, p []byte, out vrlOut) (int, error) {
	ev := vrlEv{Seq: len(c.log) + 1, Op: op, E: out.E}
	n := 0
	switch op {
	case "Read":
		n = out.N
		if n > len(p) {
			n = len(p)
		}
		for i := 0; i < n; i++ {
			p[i] = vrlVal(c.rdir, c.readPos+i+1)
		}
		c.readPos += n
	case "Write":
		n = out.N
		if n > len(p) {
			n = len(p)
		}
		ev.Off = len(p)
		if len(p) > 0 {
			ev.First = vrlID(c.wdir, p[0])
			for i := range p {
				if p[i] != vrlVal(c.wdir, ev.First+i) {
					ev.First = 0
					break
				}
			}
		}
		c.written = append(c.written, p[:n]...)
	case "Close":
		c.closes++
		if c.closes == 1 {
			close(c.closedCh)
		}
	}
	ev.N = n
	c.log = append(c.log, ev)
	wrap := out.Wrap
	if wrap == "" {
		wrap = c.defWrap
		if (op == "SetDeadline" || op == "Close") && wrap == "op" {
			wrap = "oploc"
		}
	}
	return n, vrlMkErr(out.E, wrap, op, c.local, c.remote)
}

// scripted: free-running mode - the outcome of the k-th call of each operation comes from the script.
func (c *vrlConn) scripted(op string, p []byte) (int, error) {
	c.mu.Lock()
	if op == "Read" && c.onRead != nil {
		c.onRead()
	}
	k := c.calls[op]
	c.calls[op] = k + 1
	var out vrlOut
	switch {
	case c.closes > 0 && c.afterShut == "closed" && (op == "Read" || op == "Write"):
		out = vrlOut{0, "closed", ""}
	case k < len(c.script[op]):
		out = c.script[op][k]
	case op == "Read" && c.blockRead:
		c.mu.Unlock()
		<-c.closedCh
		c.mu.Lock()
		out = vrlOut{0, "closed", ""}
	case op == "Read":
		out = vrlOut{0, "EOF", ""}
	case op == "Write":
		out = vrlOut{len(p), "nil", ""}
	default:
		out = vrlOut{0, "nil", ""}
	}
	defer c.mu.Unlock()
	return c.applyLocked(op, p, out)
}

// vrlView is the net.Conn handed to the code under test.  In gated mode (w != nil) it carries the identity of the
// half it was handed to, so the driver can tell the two halves' calls on one connection apart.
type vrlView struct {
	c    *vrlConn
	w    *vrlGated
	half string // "up" | "down" (gated mode)
}

func (v *vrlView) do(op string, p []byte) (int, error) {
	if v.w == nil {
		return v.c.scripted(op, p)
	}
	call := &vrlCall{d: v.half, gid: vrlGID(), op: op, conn: v.c.name, plen: len(p), reply: make(chan vrlOut, 1)}
	v.w.ev <- call
	out := <-call.reply
	return v.c.apply(op, p, out)
}
func (v *vrlView) Read(p []byte) (int, error)  { return v.do("Read", p) }
func (v *vrlView) Write(p []byte) (int, error) { return v.do("Write", p) }
func (v *vrlView) Close() error                { _, e := v.do("Close", nil); return e }
func (v *vrlView) SetDeadline(time.Time) error { _, e := v.do("SetDeadline", nil); return e }
func (v *vrlView) SetReadDeadline(time.Time) error {
	_, e := v.do("SetReadDeadline", nil)
	return e
}
func (v *vrlView) SetWriteDeadline(time.Time) error {
	_, e := v.do("SetWriteDeadline", nil)
	return e
}
func (v *vrlView) LocalAddr() net.Addr  { return v.c.local }
func (v *vrlView) RemoteAddr() net.Addr { return v.c.remote }

func vrlGID() string {
	var b [64]byte
	n := runtime.Stack(b[:], false)
	f := strings.Fields(string(b[:n]))
	if len(f) > 1 {
		return f[1]
	}
	return "?"
}

var (
	vrlClientAddr  = &net.TCPAddr{IP: net.ParseIP("203.0.113.77"), Port: 40077}
	vrlPhantomAddr = &net.TCPAddr{IP: net.ParseIP("192.0.2.10"), Port: 443}
	vrlStationAddr = &net.TCPAddr{IP: net.ParseIP("10.9.9.9"), Port: 50000}
	vrlCovertAddr  = &net.TCPAddr{IP: net.ParseIP("198.51.100.9"), Port: 443}
)

// ---------------------------------------------------------------- gated world (stage B)
type vrlCall struct {
	d, gid, op, conn string
	plen             int
	reply            chan vrlOut
}
type vrlExit struct{ d string }

type vrlGated struct {
	ev      chan any
	client  *vrlConn
	covert  *vrlConn
	stats   *tunnelStats
	ps      *ProxyStats
	wg      sync.WaitGroup
	mainGID map[string]string
	gidMu   sync.Mutex
	pending map[string]*vrlCall // "up/m", "up/a", ...
	exited  map[string]bool
	ret     bool
	started bool
	joined  chan struct{} // closed once wg.Wait() can return (both halves have called wg.Done)
}

func vrlNewGated() *vrlGated {
	w := &vrlGated{ev: make(chan any, 16), mainGID: map[string]string{}, pending: map[string]*vrlCall{}, exited: map[string]bool{}}
	w.client = vrlNewConn("client", vrlPhantomAddr, vrlClientAddr)
	w.covert = vrlNewConn("covert", vrlStationAddr, vrlCovertAddr)
	w.ps = &ProxyStats{}
	w.stats = &tunnelStats{proxyStats: w.ps}
	return w
}

var vrlDiscardLogger = log.New(io.Discard, "", 0)

// start wires the two halves exactly as Proxy does (proxies.go: wg.Add(2); addSession; go halfPipe(client, covert, "Up ");
// go halfPipe(covert, client, "Down ")); the only addition is the per-half view that tags calls with their half.
func (w *vrlGated) start() {
	w.started = true
	w.wg.Add(2)
	w.joined = make(chan struct{})
	go func() { w.wg.Wait(); close(w.joined) }()
	w.ps.addSession()
	run := func(d string, src, dst *vrlConn, tag string) {
		w.gidMu.Lock()
		w.mainGID[d] = vrlGID()
		w.gidMu.Unlock()
		halfPipe(&vrlView{c: src, w: w, half: d}, &vrlView{c: dst, w: w, half: d}, &w.wg, vrlDiscardLogger, tag, w.stats)
		w.ev <- vrlExit{d}
	}
	go run("up", w.client, w.covert, "Up 0123456789abcdef")
	go run("down", w.covert, w.client, "Down 0123456789abcdef")
}

func (w *vrlGated) key(c *vrlCall) string {
	w.gidMu.Lock()
	defer w.gidMu.Unlock()
	if w.mainGID[c.d] == c.gid {
		return c.d + "/m"
	}
	return c.d + "/a"
}

// pump consumes events until cond holds or the timeout expires.
func (w *vrlGated) pump(cond func() bool, timeout time.Duration) bool {
	var timer <-chan time.Time
	for !cond() {
		if timer == nil {
			timer = time.After(timeout)
		}
		select {
		case e := <-w.ev:
			switch x := e.(type) {
			case *vrlCall:
				k := w.key(x)
				if old := w.pending[k]; old != nil {
					// two parked calls from "the same" goroutine class: a second asynchronous goroutine
					k = k + "+"
				}
				w.pending[k] = x
			case vrlExit:
				w.exited[x.d] = true
			}
		case <-timer:
			return false
		}
	}
	return true
}

func (w *vrlGated) project() map[string]any {
	w.client.mu.Lock()
	dd, fd, cc := len(w.client.written), vrlIsPrefix("down", w.client.written), w.client.closes
	w.client.mu.Unlock()
	w.covert.mu.Lock()
	du, fu, cv := len(w.covert.written), vrlIsPrefix("up", w.covert.written), w.covert.closes
	w.covert.mu.Unlock()
	ku, kd := int64(-1), int64(-1)
	if w.exited["up"] {
		ku = atomic.LoadInt64(&w.ps.completeBytesUp)
	}
	if w.exited["down"] {
		kd = atomic.LoadInt64(&w.ps.completeBytesDown)
	}
	// could Proxy's wg.Wait() return now?  Both halves signal it last (after Close(dst) returned), so before both have
	// exited it must still block; the watcher goroutine gets a moment to run where it matters (a half parked at Close)
	join := false
	if w.joined != nil {
		grace := time.Duration(0)
		if w.exited["up"] && w.exited["down"] {
			grace = time.Second // both returned: the join has certainly been signalled, wait for the watcher to notice
		} else {
			for _, c := range w.pending {
				if c.op == "Close" {
					grace = 3 * time.Millisecond
				}
			}
		}
		select {
		case <-w.joined:
			join = true
		case <-time.After(grace):
		}
	}
	return map[string]any{"join": join, "du": du, "dd": dd, "fu": fu, "fd": fd, "ku": ku, "kd": kd,
		"bu": atomic.LoadInt64(&w.stats.BytesUp), "bd": atomic.LoadInt64(&w.stats.BytesDown),
		"cc": cc, "cv": cv, "xu": w.exited["up"], "xd": w.exited["down"],
		"ses": atomic.LoadInt64(&w.ps.sessionsProxying), "ret": w.ret}
}

const vrlStepTimeout = 3 * time.Second

// step executes one behaviour step on the real code and returns the observation in the spec's obs format.
func (w *vrlGated) step(s map[string]any) map[string]any {
	a, _ := s["a"].(string)
	d, _ := s["d"].(string)
	got := map[string]any{"a": a, "d": d, "c": s["c"], "n": 0, "e": s["e"], "off": 0}
	switch a {
	case "Dial":
		w.start()
		// quiescence: both halves parked at their first call
		if !w.pump(func() bool { return w.settled("up") && w.settled("down") }, vrlStepTimeout) {
			got["stuck"] = "halves did not reach their first call"
		}
	case "Return":
		done := make(chan struct{})
		go func() { w.wg.Wait(); close(done) }()
		select {
		case <-done:
			w.ps.removeSession()
			w.ret = true
		case <-time.After(vrlStepTimeout):
			got["stuck"] = "wg.Wait() does not return"
		}
	default:
		k := d + "/m"
		if a == "CloseAsync" {
			k = d + "/a"
		}
		if !w.pump(func() bool { return w.pending[k] != nil || (k == d+"/m" && w.exited[d]) }, vrlStepTimeout) {
			got["a"], got["stuck"] = "none", "no call from this goroutine"
			break
		}
		call := w.pending[k]
		if call == nil {
			got["a"] = "exited"
			break
		}
		op := call.op
		if k == d+"/a" && op == "Close" {
			op = "CloseAsync"
		}
		got["a"], got["c"] = op, call.conn
		if op != a || call.conn != s["c"] {
			break // the real code makes a different call than the specification: leave it parked
		}
		n := int(s["n"].(float64))
		if op == "Write" {
			got["off"] = call.plen
			if n > call.plen {
				n = call.plen
			}
		}
		got["n"] = n
		delete(w.pending, k)
		before := w.closesOf(call.conn)
		call.reply <- vrlOut{N: n, E: s["e"].(string)}
		if k == d+"/m" {
			if !w.pump(func() bool { return w.settled(d) }, vrlStepTimeout) {
				got["stuck"] = "goroutine neither made its next call nor returned"
			}
		} else {
			// the asynchronous close: its effect is visible once the conn counted it
			c := w.client
			if call.conn == "covert" {
				c = w.covert
			}
			deadline := time.Now().Add(vrlStepTimeout)
			for time.Now().Before(deadline) {
				c.mu.Lock()
				now := c.closes
				c.mu.Unlock()
				if now > before {
					break
				}
				runtime.Gosched()
			}
		}
	}
	got["st"] = w.project()
	return got
}

func (w *vrlGated) closesOf(conn string) int {
	c := w.client
	if conn == "covert" {
		c = w.covert
	}
	c.mu.Lock()
	defer c.mu.Unlock()
	return c.closes
}

// settled: half d's main goroutine is parked at a call or has returned
func (w *vrlGated) settled(d string) bool { return w.pending[d+"/m"] != nil || w.exited[d] }

// finish releases everything still parked (connection-closed outcomes) so that no goroutine outlives the world.
func (w *vrlGated) finish() (clean bool) {
	if !w.started {
		return true
	}
	clean = true
	deadline := time.Now().Add(2 * vrlStepTimeout)
	for {
		for k, c := range w.pending {
			clean = false
			delete(w.pending, k)
			if c.op == "Read" || c.op == "Write" {
				c.reply <- vrlOut{0, "closed", ""}
			} else {
				c.reply <- vrlOut{0, "nil", ""}
			}
		}
		if w.exited["up"] && w.exited["down"] {
			if w.closesOf("client")+w.closesOf("covert") >= 4 {
				return clean // both halves returned and all four closes were made: nothing can be parked
			}
			// give the un-joined source closes a moment to show up
			if !w.pump(func() bool { return len(w.pending) > 0 }, 20*time.Millisecond) {
				return clean
			}
			continue
		}
		if time.Now().After(deadline) {
			return false
		}
		w.pump(func() bool { return len(w.pending) > 0 || (w.exited["up"] && w.exited["down"]) }, 200*time.Millisecond)
	}
}

// ---------------------------------------------------------------- stage B driver
type vrlBehaviour struct {
	Sched  string           `json:"sched"`
	Async  string           `json:"async"`
	Faults int              `json:"faults"`
	Steps  []map[string]any `json:"steps"`
}

func vrlNormal(s map[string]any) bool {
	n, _ := s["n"].(float64)
	off, _ := s["off"].(float64)
	switch s["a"] {
	case "Read":
		return (n > 0 && s["e"] == "nil") || (n == 0 && s["e"] == "EOF")
	case "Write":
		return s["e"] == "nil" && n == off
	}
	return s["e"] == "nil"
}

// vrlClass: the abstract class of a behaviour = chunking of both directions + (site, kind) of every fault + schedule
func vrlClass(b *vrlBehaviour) (class string, nontrivial bool) {
	chunks := map[string]string{}
	idx := map[string]int{}
	faults := ""
	for _, s := range b.Steps {
		d, _ := s["d"].(string)
		a, _ := s["a"].(string)
		idx[d+a]++
		n := int(s["n"].(float64))
		if a == "Read" && n > 0 {
			chunks[d] += fmt.Sprint(n)
			nontrivial = true
		}
		if !vrlNormal(s) {
			faults += fmt.Sprintf("|%s.%s#%d:%v,%d/%v", d, a, idx[d+a], s["e"], n, s["off"])
		}
	}
	return fmt.Sprintf("%s/%s up=%s down=%s %s", b.Sched, b.Async, chunks["up"], chunks["down"], faults), nontrivial
}

func TestVerifRelayReplay(t *testing.T) {
	out := vOpenOut(t)
	defer out.Close()
	vrlWarmup()
	g0 := runtime.NumGoroutine()
	workers := vEnvInt("VERIF_WORKERS", 8)
	maxStuck := int64(vEnvInt("VERIF_MAX_STUCK", 8)) // every stuck step costs a timeout: give up after a few
	perClass := vEnvInt("VERIF_MAX_PER_CLASS", 4)    // mismatches written out per (want, got, previous) class
	emitted := map[string]int{}
	var nb, ns, nm, nstuck, skipped, nontriv int64
	var cmu sync.Mutex
	classes := map[string]bool{}
	lines := make(chan []byte, 256)
	var wgw sync.WaitGroup
	for i := 0; i < workers; i++ {
		wgw.Add(1)
		go func() {
			defer wgw.Done()
			for line := range lines {
				if atomic.LoadInt64(&nstuck) >= maxStuck {
					atomic.AddInt64(&skipped, 1)
					continue
				}
				var b vrlBehaviour
				if err := json.Unmarshal(line, &b); err != nil {
					panic(err)
				}
				id := atomic.AddInt64(&nb, 1)
				cl, nt := vrlClass(&b)
				cmu.Lock()
				if !classes[cl] {
					classes[cl] = true
					if nt {
						nontriv++
					}
				}
				cmu.Unlock()
				w := vrlNewGated()
				bad := false
				for i, step := range b.Steps {
					atomic.AddInt64(&ns, 1)
					got := vNorm(w.step(step))
					if vCanon(got) != vCanon(step) {
						bad = true
						atomic.AddInt64(&nm, 1)
						var prev any
						if i > 0 {
							prev = b.Steps[i-1]
						}
						// the last step of the same half (what the real code reacted to)
						var prevSame any
						for j := i - 1; j >= 0; j-- {
							if b.Steps[j]["d"] == step["d"] && b.Steps[j]["a"] != "CloseAsync" {
								prevSame = b.Steps[j]
								break
							}
						}
						gm := got.(map[string]any)
						if gm["stuck"] != nil {
							atomic.AddInt64(&nstuck, 1)
						}
						cls := fmt.Sprintf("%v>%v|%v|%v", step["a"], gm["a"], gm["stuck"] != nil, vrlStepClass(prevSame))
						cmu.Lock()
						emitted[cls]++
						doEmit := emitted[cls] <= perClass
						cmu.Unlock()
						if doEmit {
							out.Emit(map[string]any{"kind": "mismatch", "beh": id, "step": i, "want": step, "got": got, "prev": prev,
								"prevSame": prevSame, "sched": b.Sched, "async": b.Async, "ops": vrlOps(b.Steps[:i+1])})
						}
						break
					}
				}
				clean := w.finish()
				if !bad {
					if !clean {
						atomic.AddInt64(&nm, 1)
						out.Emit(map[string]any{"kind": "mismatch", "beh": id, "step": len(b.Steps), "want": map[string]any{"a": "End"},
							"got": map[string]any{"a": "ExtraCall"}, "sched": b.Sched, "async": b.Async, "ops": vrlOps(b.Steps)})
					} else if msg := w.finalStats(); msg != "" {
						atomic.AddInt64(&nm, 1)
						out.Emit(map[string]any{"kind": "mismatch", "beh": id, "step": len(b.Steps), "want": map[string]any{"a": "End"},
							"got": map[string]any{"a": "CompletedStats", "msg": msg}, "sched": b.Sched, "async": b.Async, "ops": vrlOps(b.Steps)})
					}
				}
			}
		}()
	}
	vReadLines(t, func(line []byte) { lines <- line })
	close(lines)
	wgw.Wait()
	leak := vrlGoroutineLeak(g0)
	out.Emit(map[string]any{"kind": "summary", "behaviours": nb, "steps": ns, "mismatches": nm, "skipped": skipped,
		"classes": len(classes), "nontrivial": nontriv, "goroutines_left": leak, "mismatch_classes": emitted})
}

func vrlStepClass(s any) string {
	m, ok := s.(map[string]any)
	if !ok {
		return "-"
	}
	n, _ := m["n"].(float64)
	return fmt.Sprintf("%v(n>0:%v,err:%v)", m["a"], n > 0, m["e"] != "nil")
}

// vrlWarmup starts the package's lazily started background goroutines before goroutines are counted.
func vrlWarmup() {
	Stat()
	getProxyStats()
	time.Sleep(20 * time.Millisecond)
}

// finalStats: the per-tunnel completed statistics after a complete behaviour (secondary accounting)
func (w *vrlGated) finalStats() string {
	bu, bd := atomic.LoadInt64(&w.stats.BytesUp), atomic.LoadInt64(&w.stats.BytesDown)
	b2i := func(b bool) int64 {
		if b {
			return 1
		}
		return 0
	}
	switch {
	case w.ps.completedSessions != 1:
		return fmt.Sprintf("completedSessions=%d want 1", w.ps.completedSessions)
	case w.ps.zeroByteTunnelsUp != b2i(bu == 0), w.ps.zeroByteTunnelsDown != b2i(bd == 0):
		return fmt.Sprintf("zero-byte tunnel counters up=%d down=%d for bytes up=%d down=%d", w.ps.zeroByteTunnelsUp, w.ps.zeroByteTunnelsDown, bu, bd)
	case w.ps.newBytesUp != bu, w.ps.newBytesDown != bd:
		return fmt.Sprintf("epoch byte counters %d/%d differ from tunnel counters %d/%d", w.ps.newBytesUp, w.ps.newBytesDown, bu, bd)
	}
	return ""
}

func vrlOps(steps []map[string]any) []string {
	ops := []string{}
	for _, s := range steps {
		ops = append(ops, fmt.Sprintf("%v.%v(%v,%v)", s["d"], s["a"], s["n"], s["e"]))
	}
	return ops
}

// vrlGoroutineLeak polls until the goroutine count is back at the baseline; returns the surplus that stayed.
func vrlGoroutineLeak(base int) int {
	deadline := time.Now().Add(5 * time.Second)
	for {
		n := runtime.NumGoroutine() - base
		if n <= 0 || time.Now().After(deadline) {
			if n < 0 {
				n = 0
			}
			return n
		}
		time.Sleep(10 * time.Millisecond)
	}
}

// ---------------------------------------------------------------- stage C: free-running halves, random fault scripts
var vrlReadErrs = []string{"EOF", "RST", "EPIPE", "timeout", "other", "closed"}
var vrlWriteErrs = []string{"EPIPE", "RST", "timeout", "other", "closed"}

func vrlRandomScript(rng *rand.Rand, c *vrlConn) {
	nreads := rng.Intn(5)
	for i := 0; i < nreads; i++ {
		if rng.Intn(12) == 0 {
			c.script["Read"] = append(c.script["Read"], vrlOut{0, "nil", ""})
		} else {
			c.script["Read"] = append(c.script["Read"], vrlOut{1 + rng.Intn(3), "nil", ""})
		}
	}
	switch x := rng.Intn(100); {
	case x < 35:
		c.script["Read"] = append(c.script["Read"], vrlOut{0, "EOF", ""})
	case x < 65:
		c.script["Read"] = append(c.script["Read"], vrlOut{1 + rng.Intn(3), vrlReadErrs[rng.Intn(len(vrlReadErrs))], ""})
	default:
		c.script["Read"] = append(c.script["Read"], vrlOut{0, vrlReadErrs[rng.Intn(len(vrlReadErrs))], ""})
	}
	for i := 0; i < 6; i++ {
		switch x := rng.Intn(100); {
		case x < 82:
			c.script["Write"] = append(c.script["Write"], vrlOut{1 << 20, "nil", ""}) // clamped to the offered length: full
		case x < 90:
			c.script["Write"] = append(c.script["Write"], vrlOut{rng.Intn(2), "nil", ""}) // short (or full for a 1-byte chunk)
		default:
			c.script["Write"] = append(c.script["Write"], vrlOut{rng.Intn(3), vrlWriteErrs[rng.Intn(len(vrlWriteErrs))], ""})
		}
	}
	for i := 0; i < 24; i++ {
		e := "nil"
		if rng.Intn(25) == 0 {
			e = "err"
		}
		c.script["SetDeadline"] = append(c.script["SetDeadline"], vrlOut{0, e, ""})
	}
	for i := 0; i < 2; i++ {
		e := "nil"
		if rng.Intn(6) == 0 {
			e = "err"
		}
		c.script["Close"] = append(c.script["Close"], vrlOut{0, e, ""})
	}
	if rng.Intn(2) == 0 {
		c.afterShut = "closed"
	}
}

func vrlWaitCloses(cs []*vrlConn, want int, grace time.Duration) int {
	deadline := time.Now().Add(grace)
	for {
		n := 0
		for _, c := range cs {
			c.mu.Lock()
			n += c.closes
			c.mu.Unlock()
		}
		if n >= want || time.Now().After(deadline) {
			return n
		}
		time.Sleep(200 * time.Microsecond)
	}
}

func (c *vrlConn) snapshot() []vrlEv {
	c.mu.Lock()
	defer c.mu.Unlock()
	return append([]vrlEv(nil), c.log...)
}

// vrlRefused: bytes a failed / short Write did not take, from the connection's own log
func vrlRefused(log []vrlEv) (refused int) {
	for _, e := range log {
		if e.Op == "Write" {
			refused += e.Off - e.N
		}
	}
	return
}

// vrlFinalChecks evaluates the specification's state predicates directly on the end state (the same predicates TLC
// evaluates on the validated trace; reported separately so a rejected trace comes with a readable reason).
func vrlFinalChecks(client, covert *vrlConn, bu, bd int64, strictLoss bool) []string {
	var bad []string
	cl, cv := client.snapshot(), covert.snapshot()
	client.mu.Lock()
	dDown, rUp, ccl := append([]byte(nil), client.written...), client.readPos, client.closes
	client.mu.Unlock()
	covert.mu.Lock()
	dUp, rDown, ccv := append([]byte(nil), covert.written...), covert.readPos, covert.closes
	covert.mu.Unlock()
	if !vrlIsPrefix("up", dUp) || len(dUp) > rUp {
		bad = append(bad, "PrefixFidelity:up")
	}
	if !vrlIsPrefix("down", dDown) || len(dDown) > rDown {
		bad = append(bad, "PrefixFidelity:down")
	}
	if strictLoss {
		if len(dUp) != rUp-vrlRefused(cv) {
			bad = append(bad, fmt.Sprintf("NothingReadIsLost:up read=%d refused=%d delivered=%d", rUp, vrlRefused(cv), len(dUp)))
		}
		if len(dDown) != rDown-vrlRefused(cl) {
			bad = append(bad, fmt.Sprintf("NothingReadIsLost:down read=%d refused=%d delivered=%d", rDown, vrlRefused(cl), len(dDown)))
		}
	}
	if bu != int64(len(dUp)) {
		bad = append(bad, fmt.Sprintf("CountsMatch:up reported=%d delivered=%d", bu, len(dUp)))
	}
	if bd != int64(len(dDown)) {
		bad = append(bad, fmt.Sprintf("CountsMatch:down reported=%d delivered=%d", bd, len(dDown)))
	}
	if ccl != 2 {
		bad = append(bad, fmt.Sprintf("BothClosed:client closes=%d", ccl))
	}
	if covert.name == "covert" && ccv != 2 && cv != nil {
		bad = append(bad, fmt.Sprintf("BothClosed:covert closes=%d", ccv))
	}
	return bad
}

func TestVerifRelayRandom(t *testing.T) {
	out := vOpenOut(t)
	defer out.Close()
	rng := rand.New(rand.NewSource(vSeed()*7919 + 5))
	runs := vEnvInt("VERIF_TRACES", 60)
	vrlWarmup()
	g0 := runtime.NumGoroutine()
	nfinal := 0
	for i := 0; i < runs; i++ {
		client := vrlNewConn("client", vrlPhantomAddr, vrlClientAddr)
		covert := vrlNewConn("covert", vrlStationAddr, vrlCovertAddr)
		vrlRandomScript(rng, client)
		vrlRandomScript(rng, covert)
		ps := &ProxyStats{}
		stats := &tunnelStats{proxyStats: ps}
		var wg sync.WaitGroup
		// exactly Proxy's wiring (proxies.go)
		wg.Add(2)
		ps.addSession()
		go halfPipe(&vrlView{c: client}, &vrlView{c: covert}, &wg, vrlDiscardLogger, "Up 0123456789abcdef", stats)
		go halfPipe(&vrlView{c: covert}, &vrlView{c: client}, &wg, vrlDiscardLogger, "Down 0123456789abcdef", stats)
		done := make(chan struct{})
		go func() { wg.Wait(); close(done) }()
		ret := false
		select {
		case <-done:
			ps.removeSession()
			ret = true
		case <-time.After(10 * time.Second):
		}
		vrlWaitCloses([]*vrlConn{client, covert}, 4, 2*time.Second)
		bu, bd := atomic.LoadInt64(&stats.BytesUp), atomic.LoadInt64(&stats.BytesDown)
		fin := map[string]any{"bu": bu, "bd": bd, "ku": atomic.LoadInt64(&ps.completeBytesUp), "kd": atomic.LoadInt64(&ps.completeBytesDown),
			"ses": atomic.LoadInt64(&ps.sessionsProxying)}
		out.Emit(map[string]any{"a": "Run", "mode": "full", "dial": "nil", "cvok": false, "run": i, "client": client.snapshot(), "covert": covert.snapshot(), "ret": ret, "fin": fin})
		bad := vrlFinalChecks(client, covert, bu, bd, true)
		if !ret {
			bad = append(bad, "Returns:wg.Wait() did not return within 10 s")
		}
		for _, b := range bad {
			nfinal++
			out.Emit(map[string]any{"kind": "final", "run": i, "mode": "halves", "what": b, "client": client.snapshot(), "covert": covert.snapshot()})
		}
	}
	out.Emit(map[string]any{"kind": "summary", "runs": runs, "final_failures": nfinal, "goroutines_left": vrlGoroutineLeak(g0)})
}

// ---------------------------------------------------------------- the real Proxy: scripted client, loopback covert
type vrlCovertServer struct {
	ln       net.Listener
	received []byte
	sent     int
	sawEnd   string // how the station's side ended as seen by the covert: "eof" | "err:<text>" | ""
	done     chan struct{}
}

// vrlStartCovert: accepts one connection, sends `chunks` (bytes of the down stream), then ends with
// "eof" (half-close, keeps reading), "rst" (abortive close) or "stall" (silent until the station closes).
func vrlStartCovert(chunks []int, end string) *vrlCovertServer {
	ln, err := net.Listen("tcp", "127.0.0.1:0")
	if err != nil {
		panic(err)
	}
	s := &vrlCovertServer{ln: ln, done: make(chan struct{})}
	go func() {
		defer close(s.done)
		defer ln.Close()
		ln.(*net.TCPListener).SetDeadline(time.Now().Add(5 * time.Second))
		c, err := ln.Accept()
		if err != nil {
			s.sawEnd = "noconn"
			return
		}
		tc := c.(*net.TCPConn)
		rdone := make(chan struct{})
		go func() {
			defer close(rdone)
			buf := make([]byte, 4096)
			if end == "eof-slow" {
				// a covert that answers early, half-closes and only THEN starts consuming a large upload, slowly: at the moment the
				// station tears the tunnel down its socket still holds bytes it has already counted as relayed
				buf = make([]byte, 64*1024)
				time.Sleep(300 * time.Millisecond)
			}
			for {
				if end == "eof-slow" {
					time.Sleep(time.Millisecond)
				}
				tc.SetReadDeadline(time.Now().Add(8 * time.Second))
				n, err := tc.Read(buf)
				s.received = append(s.received, buf[:n]...)
				if err == io.EOF {
					s.sawEnd = "eof"
					return
				}
				if err != nil {
					s.sawEnd = "err:" + err.Error()
					return
				}
			}
		}()
		pos := 0
		for _, n := range chunks {
			b := make([]byte, n)
			for i := range b {
				b[i] = vrlVal("down", pos+i+1)
			}
			if _, err := tc.Write(b); err != nil {
				break
			}
			pos += n
			s.sent = pos
			time.Sleep(3 * time.Millisecond)
		}
		switch end {
		case "eof", "eof-slow":
			tc.CloseWrite()
			<-rdone
		case "rst":
			time.Sleep(3 * time.Millisecond)
			tc.SetLinger(0)
			tc.Close()
			<-rdone
			return
		default: // stall
			<-rdone
		}
		tc.Close()
	}()
	return s
}

var vrlProxyClosedRe = regexp.MustCompile(`proxy closed (\{.*\})`)

type vrlSyncBuf struct {
	mu sync.Mutex
	b  bytes.Buffer
}

func (s *vrlSyncBuf) Write(p []byte) (int, error) {
	s.mu.Lock()
	defer s.mu.Unlock()
	return s.b.Write(p)
}
func (s *vrlSyncBuf) String() string { s.mu.Lock(); defer s.mu.Unlock(); return s.b.String() }

func vrlMkReg(covert string, phantom net.IP) *DecoyRegistration {
	secret := vSecret("s1")
	keys, err := core.GenSharedKeys(uint(core.CurrentClientLibraryVersion()), secret, pb.TransportType_Min)
	if err != nil {
		panic(err)
	}
	src := pb.RegistrationSource_API
	var tr Transport = min.Transport{}
	return &DecoyRegistration{PhantomIp: phantom, PhantomPort: 443, Keys: &keys, Covert: covert, Transport: pb.TransportType_Min,
		TransportPtr: &tr, RegistrationSource: &src, RegistrationTime: time.Now(), registrationAddr: net.ParseIP("203.0.113.77")}
}

type vrlProxyCase struct {
	Reads     []vrlOut `json:"reads"`      // client Read script; beyond it Read blocks until the connection is closed
	WriteFail int      `json:"write_fail"` // k-th client Write fails (0: never)
	WriteOut  vrlOut   `json:"write_out"`
	Chunks    []int    `json:"chunks"` // what the covert sends
	End       string   `json:"end"`    // eof | rst | stall | dialerr
}

func vrlRunProxy(pc vrlProxyCase) (events []vrlEv, fin map[string]any, bad []string) {
	client := vrlNewConn("client", vrlPhantomAddr, vrlClientAddr)
	client.blockRead = true
	client.script["Read"] = pc.Reads
	for k := 1; k < pc.WriteFail; k++ {
		client.script["Write"] = append(client.script["Write"], vrlOut{1 << 20, "nil", ""})
	}
	if pc.WriteFail > 0 {
		client.script["Write"] = append(client.script["Write"], pc.WriteOut)
	}
	vrlWarmup()
	ps := getProxyStats()
	s0 := atomic.LoadInt64(&ps.sessionsProxying)
	cs0 := atomic.LoadInt64(&ps.completedSessions)
	var during int64 = -1
	client.onRead = func() {
		if during < 0 {
			during = atomic.LoadInt64(&ps.sessionsProxying)
		}
	}
	g0 := runtime.NumGoroutine()
	var srv *vrlCovertServer
	addr := ""
	if pc.End == "dialerr" {
		ln, _ := net.Listen("tcp", "127.0.0.1:0")
		addr = ln.Addr().String()
		ln.Close()
	} else {
		srv = vrlStartCovert(pc.Chunks, pc.End)
		addr = srv.ln.Addr().String()
	}
	reg := vrlMkReg(addr, net.ParseIP("192.0.2.10"))
	lbuf := &vrlSyncBuf{}
	logger := log.New(lbuf, "", 0)
	done := make(chan struct{})
	go func() { Proxy(reg, &vrlView{c: client}, logger); close(done) }()
	ret := false
	select {
	case <-done:
		ret = true
	case <-time.After(12 * time.Second):
		bad = append(bad, "Returns:Proxy did not return within 12 s")
	}
	after := atomic.LoadInt64(&ps.sessionsProxying)
	if pc.End != "dialerr" {
		vrlWaitCloses([]*vrlConn{client}, 2, 2*time.Second)
		select {
		case <-srv.done:
		case <-time.After(10 * time.Second):
			bad = append(bad, "BothClosed:covert never saw the station close its connection")
		}
	}
	var sum struct {
		BytesUp, BytesDown                          int64
		CovertDialErr, CovertConnErr, ClientConnErr string
	}
	m := vrlProxyClosedRe.FindStringSubmatch(lbuf.String())
	if m == nil {
		bad = append(bad, "Summary:no 'proxy closed' line")
	} else if err := json.Unmarshal([]byte(m[1]), &sum); err != nil {
		bad = append(bad, "Summary:unparsable")
	}
	if after != s0 {
		bad = append(bad, fmt.Sprintf("GaugeBalanced:sessions before=%d after=%d", s0, after))
	}
	client.mu.Lock()
	ncalls := len(client.log)
	dDown, rUp, ccl := append([]byte(nil), client.written...), client.readPos, client.closes
	client.mu.Unlock()
	if pc.End == "dialerr" {
		if ncalls != 0 {
			bad = append(bad, fmt.Sprintf("DialError:client connection touched (%d calls)", ncalls))
		}
		if sum.CovertDialErr == "" {
			bad = append(bad, "DialError:no CovertDialErr in summary")
		}
	} else {
		if during != s0+1 && during >= 0 {
			bad = append(bad, fmt.Sprintf("GaugeBalanced:sessions during=%d want %d", during, s0+1))
		}
		if got := atomic.LoadInt64(&ps.completedSessions) - cs0; got != 1 {
			bad = append(bad, fmt.Sprintf("CompletedStats:completedSessions delta=%d", got))
		}
		if !vrlIsPrefix("up", srv.received) || len(srv.received) > rUp {
			bad = append(bad, "PrefixFidelity:up")
		}
		if !vrlIsPrefix("down", dDown) || len(dDown) > srv.sent {
			bad = append(bad, "PrefixFidelity:down")
		}
		if pc.End != "rst" && sum.BytesUp != int64(len(srv.received)) {
			bad = append(bad, fmt.Sprintf("CountsMatch:up reported=%d delivered=%d", sum.BytesUp, len(srv.received)))
		}
		if sum.BytesDown != int64(len(dDown)) {
			bad = append(bad, fmt.Sprintf("CountsMatch:down reported=%d delivered=%d", sum.BytesDown, len(dDown)))
		}
		// the covert never ends by itself and takes everything, and the down direction cannot end first (no client
		// write fault): whatever the client's Reads returned must arrive
		if pc.End == "stall" && pc.WriteFail == 0 && len(srv.received) != rUp {
			bad = append(bad, fmt.Sprintf("NothingReadIsLost:up read=%d delivered=%d", rUp, len(srv.received)))
		}
		// the client never ends by itself and takes everything: whatever the covert sent before EOF must arrive
		if pc.End == "eof" && len(pc.Reads) == 0 && pc.WriteFail == 0 && len(dDown) != srv.sent {
			bad = append(bad, fmt.Sprintf("NothingReadIsLost:down sent=%d delivered=%d", srv.sent, len(dDown)))
		}
		if pc.End == "eof-slow" && srv.sawEnd != "eof" {
			bad = append(bad, fmt.Sprintf("CleanEnd:up the covert's stream ended with %q after %d of the %d bytes reported as relayed", srv.sawEnd, len(srv.received), sum.BytesUp))
		}
		if ccl != 2 {
			bad = append(bad, fmt.Sprintf("BothClosed:client closes=%d", ccl))
		}
		if srv.sawEnd == "" || srv.sawEnd == "noconn" {
			bad = append(bad, "BothClosed:covert connection not closed by the station ("+srv.sawEnd+")")
		}
	}
	if left := vrlGoroutineLeak(g0); left > 0 {
		bad = append(bad, fmt.Sprintf("GoroutineLeak:%d goroutine(s) left after Proxy returned", left))
	}
	fin = map[string]any{"bu": sum.BytesUp, "bd": sum.BytesDown, "ses": after - s0, "ret": ret}
	return client.snapshot(), fin, bad
}

func TestVerifRelayProxy(t *testing.T) {
	out := vOpenOut(t)
	defer out.Close()
	rng := rand.New(rand.NewSource(vSeed()*104729 + 17))
	extra := vEnvInt("VERIF_TRACES", 20)
	var cases []vrlProxyCase
	data := func(ns ...int) []vrlOut {
		r := []vrlOut{}
		for _, n := range ns {
			r = append(r, vrlOut{n, "nil", ""})
		}
		return r
	}
	// client ends first (covert stalls or answers): every ending kind, with and without data attached
	for _, e := range []string{"EOF", "RST", "EPIPE", "timeout", "other"} {
		for _, n := range []int{0, 3} {
			for _, end := range []string{"stall", "eof"} {
				cases = append(cases, vrlProxyCase{Reads: append(data(2, 1), vrlOut{n, e, ""}), Chunks: []int{2}, End: end})
			}
		}
	}
	// covert ends first, client idle
	for _, end := range []string{"eof", "rst"} {
		cases = append(cases, vrlProxyCase{Chunks: []int{3, 2}, End: end})
		cases = append(cases, vrlProxyCase{Chunks: nil, End: end})
		cases = append(cases, vrlProxyCase{Reads: data(2, 2), Chunks: []int{1}, End: end})
	}
	// client write faults
	cases = append(cases, vrlProxyCase{Chunks: []int{4, 4}, End: "stall", WriteFail: 1, WriteOut: vrlOut{1, "nil", ""}})
	cases = append(cases, vrlProxyCase{Chunks: []int{4, 4}, End: "stall", WriteFail: 1, WriteOut: vrlOut{2, "EPIPE", ""}})
	cases = append(cases, vrlProxyCase{Chunks: []int{4}, End: "eof", WriteFail: 1, WriteOut: vrlOut{0, "RST", ""}})
	cases = append(cases, vrlProxyCase{End: "dialerr"})
	for i := 0; i < extra; i++ {
		pc := vrlProxyCase{End: []string{"eof", "rst", "stall"}[rng.Intn(3)]}
		for j := rng.Intn(4); j > 0; j-- {
			pc.Reads = append(pc.Reads, vrlOut{1 + rng.Intn(4), "nil", ""})
		}
		if pc.End == "stall" || rng.Intn(2) == 0 {
			pc.Reads = append(pc.Reads, vrlOut{rng.Intn(2) * (1 + rng.Intn(3)), vrlReadErrs[rng.Intn(5)], ""})
		}
		for j := rng.Intn(3); j > 0; j-- {
			pc.Chunks = append(pc.Chunks, 1+rng.Intn(4))
		}
		if rng.Intn(4) == 0 {
			pc.WriteFail, pc.WriteOut = 1, vrlOut{rng.Intn(2), []string{"nil", "EPIPE", "RST"}[rng.Intn(3)], ""}
		}
		cases = append(cases, pc)
	}
	nbad := 0
	for i, pc := range cases {
		ev, fin, bad := vrlRunProxy(pc)
		out.Emit(map[string]any{"a": "Run", "mode": "client", "dial": vrlDialOf(pc), "cvok": pc.End == "stall" && pc.WriteFail == 0, "run": i, "client": ev, "covert": []vrlEv{}, "ret": fin["ret"], "fin": fin, "case": pc})
		for _, b := range bad {
			nbad++
			out.Emit(map[string]any{"kind": "final", "run": i, "mode": "proxy", "what": b, "case": pc, "client": ev})
		}
	}
	// bulk transfer against back-pressure on the REAL TCP leg (the covert side is a kernel socket: what the station has counted as
	// relayed may still sit in its send queue when the tunnel ends): the covert answers, half-closes, and consumes a 5 MB upload late and
	// slowly.  Judged on the final observables only (the call log is too long for the trace specification): every byte reported as
	// relayed up arrives, in order, and the covert sees a clean end of stream.
	for rep := 0; rep < vEnvInt("VERIF_BULK", 3); rep++ {
		bulk := vrlProxyCase{Chunks: []int{4}, End: "eof-slow"}
		for k := 0; k < 160; k++ {
			bulk.Reads = append(bulk.Reads, vrlOut{32 * 1024, "nil", ""})
		}
		_, fin, bad := vrlRunProxy(bulk)
		for _, b := range bad {
			nbad++
			out.Emit(map[string]any{"kind": "final", "run": len(cases) + rep, "mode": "proxy-bulk", "what": b, "fin": fin})
		}
		out.Emit(map[string]any{"kind": "bulk", "rep": rep, "fin": fin, "failures": len(bad)})
	}
	out.Emit(map[string]any{"kind": "summary", "runs": len(cases), "final_failures": nbad})
}

var _ = errors.New

func vrlDialOf(pc vrlProxyCase) string {
	if pc.End == "dialerr" {
		return "err"
	}
	return "nil"
}
