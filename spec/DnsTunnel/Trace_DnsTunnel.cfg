SPECIFICATION TraceSpec
CONSTANTS
  Clients = {"c1", "c2", "c3"}
  MaxReq = 5
  JunkKinds = {"garbage", "foreign", "nontxt", "badb32", "noedns", "isresp", "badframe", "badnoise", "cberr"}
  MaxJunk = 5
  MaxDup = 6
  MaxDrop = 6
  MaxClose = 2
  Faults = {"DropQ", "DupQ", "ReplayQ", "DropR", "DupR"}
  StaleMode = "fail"
  KeyCheck = TRUE
  Timeout = FALSE
INVARIANTS NoCrossTalk ResultsInOrder OkImpliesProcessed CallbackBound AnsweredOnce ResponsesAccounted ErrNeedsDup
POSTCONDITION Post
CHECK_DEADLOCK FALSE
