SPECIFICATION GenSpec
CONSTANTS
  ReqV4 = {}
  ReqV6 = {}
  ReqDual = {"d1", "d2"}
  ReqFail = {}
  ReqFail6 = {}
  ErrorPath = "plain"
  Reloads = {"m1", "m2"}
  ToB = {"m1"}
  Bad = {}
  ReloadOrder = "load-first"
  Protocol = "nested-deferred"
INVARIANT Emit
CHECK_DEADLOCK FALSE
