\* thorough: API calls and packets interleaved
SPECIFICATION Spec
CONSTANTS
  FlowInfo <- FlowsPkt3
  Keys = {"k1", "k2"}
  T = 2
  K = 3
  SessTimeouts = {1}
  TickSteps = {1, 2}
  MaxT = 0
  MaxQ = 3
  MaxLag = 2
  StaleEvent = "kills"
  DropRemoves = TRUE
  DueCmp = "le"
  KeepLonger = TRUE
  Level = "both"
  FlagKinds = {"syn", "synack", "ack", "fin"}
  PayloadKinds = {"none", "app_tag", "app_notag"}
  FrameKinds = {"eth"}
VIEW viewRel
CONSTRAINT BoundedRel
INVARIANTS TypeOK TrackedHasEvent QueueSorted EventHorizon PostDropWindow PostDropFresh PostDropPhantoms CountsExact PacketLaws
PROPERTIES RemovedOnlyByStopOrDue PhantomNeverShortened PhantomDroppedOnlyWhenDue DropCountExact
CHECK_DEADLOCK FALSE
