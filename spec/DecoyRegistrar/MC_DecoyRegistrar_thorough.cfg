\* as-found variant, exhaustive, up to three senders and two calls
SPECIFICATION Spec
CONSTANTS
  Variant = "asfound"
  Widths = {1, 2, 3}
  ChanCap = "width"
  Rounds = 2
  Deadlines = {TRUE, FALSE}
  PreCancel = {TRUE, FALSE}
  DialOut = {"ok", "unreach", "refused", "timeout"}
  TlsOut = {"ok", "err", "timeout", "nokeystream"}
  WriteOut = {"ok", "err"}
  LingerOut = {"byte", "eof", "timeout"}
VIEW view
INVARIANTS TypeOK ReportAtMostOnce ReportedWhenDone ReportNeverBlocks ChanBound ReturnNeedsReport UnreachableIffAll
           RegIffNoError NilMeansWritten ClosedOnError RttIsFirst RttReadyAtSleep
PROPERTIES OnceTCP OnceTLS NothingAfterReturn
CHECK_DEADLOCK FALSE
