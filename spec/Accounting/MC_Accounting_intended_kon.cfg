\* connecting transports, intended variant
SPECIFICATION SpecObj
CONSTANTS
  Conns = {}
  Kons = {"k1", "k2"}
  Asns = {"a1"}
  CCs = {"", "US"}
  Variant = "intended"
  Broken = "none"
  MaxLoops = 0
  MaxPrints = 2
  MaxAuth = 1
VIEW view
CONSTRAINT Canon
INVARIANTS TypeOK GaugeExact NoDoubleCount AsnLedger OutcomeSum AsnSumsEpoch QuiescentZero Ledger TotalIsSum AsnSums AsnGaugesNonNeg KonGaugeExact KonLedger
PROPERTIES PrintKeepsGauges
CHECK_DEADLOCK FALSE
