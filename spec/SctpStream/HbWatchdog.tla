----------------------------- MODULE HbWatchdog -----------------------------
(***************************************************************************)
(* Heartbeat watchdog of an accepted session (pkg/dtls/heartbeat.go:       *)
(* heartbeatServer, hbLoop, and the heartbeat filter of recvLoop).         *)
(*                                                                         *)
(*   heartbeatServer: waiting := 2; go hbLoop                              *)
(*   hbLoop:   loop { if waiting = 0 { Close; return }; waiting := 0;      *)
(*                    sleep(interval) }                                    *)
(*   recvLoop: a message equal to the heartbeat payload -> waiting++       *)
(*             (and is not forwarded); any other message -> queue          *)
(*                                                                         *)
(* Logical time: one Tick is HALF an interval (the period with which the   *)
(* peer's heartbeatClient sends), so the watchdog's check falls on every   *)
(* second tick boundary.  In every tick the peer does one of               *)
(*   "hb"    sends a heartbeat,  "data"  sends only data,  "none"  nothing *)
(* Tick(k) = the event of that half interval, then - on a check boundary - *)
(* the watchdog's check.  The first check (at creation) passes because of  *)
(* the initial waiting = 2 and is folded into Init.                        *)
(*                                                                         *)
(* Mode = "asimpl" the code; "unarmed": the check never closes; "dataok":  *)
(* any message counts as a heartbeat (both only to show the invariants can *)
(* fail).                                                                  *)
(***************************************************************************)
EXTENDS Naturals, Sequences, TLC

CONSTANTS TPI,        \* ticks per interval (2)
          MaxTicks,
          Mode

VARIABLES waiting,    \* heartbeats counted since the last check (capped at 3)
          phase,      \* ticks since the last check: 0 .. TPI-1
          closed,     \* the watchdog closed the connection
          silent,     \* consecutive ticks without a heartbeat (capped)
          beats,      \* heartbeats received while open
          ticks,
          obs

vars == <<waiting, phase, closed, silent, beats, ticks, obs>>
view == <<waiting, phase, closed, silent, ticks>>

Cap(x, c) == IF x > c THEN c ELSE x

Init == /\ waiting = 0 /\ phase = 0 /\ closed = FALSE /\ silent = 0 /\ beats = 0 /\ ticks = 0
        /\ obs = [a |-> "Init"]

Tick(k) ==
  /\ ticks < MaxTicks
  /\ k \in {"hb", "data", "none"}
  /\ ticks' = ticks + 1
  /\ LET counts == (k = "hb") \/ (Mode = "dataok" /\ k = "data")
         w1 == IF counts /\ ~closed THEN Cap(waiting + 1, 3) ELSE waiting
         boundary == phase + 1 = TPI
         close == boundary /\ w1 = 0 /\ Mode # "unarmed"
     IN /\ waiting' = IF boundary THEN 0 ELSE w1
        /\ phase' = IF boundary THEN 0 ELSE phase + 1
        /\ closed' = (closed \/ close)
        /\ silent' = IF k = "hb" THEN 0 ELSE Cap(silent + 1, 2 * TPI + 1)
        /\ beats' = IF k = "hb" /\ ~closed THEN beats + 1 ELSE beats
        /\ obs' = [a |-> "Tick", k |-> k, closed |-> (closed \/ close)]

Next == \E k \in {"hb", "data", "none"} : Tick(k)
Spec == Init /\ [][Next]_vars

\* ------------------------------ properties ------------------------------
TypeOK == waiting \in 0..3 /\ phase \in 0..(TPI - 1) /\ closed \in BOOLEAN /\ silent \in 0..(2 * TPI + 1)

\* a peer that stops sending heartbeats causes the connection to close within the heartbeat
\* timeout (two intervals); data alone does not keep it open
DeadPeerCloses == silent >= 2 * TPI => closed

\* never while heartbeats keep arriving: the watchdog closes only after a whole interval without one
NoEarlyClose == [][(closed' /\ ~closed) => silent' >= TPI]_vars
=============================================================================
