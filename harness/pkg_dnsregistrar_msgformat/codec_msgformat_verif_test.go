//go:build verif

package msgformat

// C15 - length-prefix framing (spec/Codec: ReqFrame, RespFrame, Arb).  Every case printed by Gen_Codec at the real
// limits is instantiated with seeded random content and run through the real encoder and decoder.

import (
	"bytes"
	"encoding/json"
	"fmt"
	"math/rand"
	"testing"
)

type vFrameCase struct {
	A             string `json:"a"`
	N             int    `json:"n"`
	Accept        bool   `json:"accept"`
	Representable bool   `json:"representable"`
	EncLen        int    `json:"enc_len"`
	Prefix        []int  `json:"prefix"`
}

func vLenClass(n, max int) string {
	switch {
	case n == 0:
		return "0"
	case n == max-1:
		return "max-1"
	case n == max:
		return "max"
	case n == max+1:
		return "max+1"
	case n < max:
		return "<max"
	case n%(max+1) == 0:
		return "k*(max+1)"
	default:
		return ">max"
	}
}

func vFrameOne(o *vOut, rng *rand.Rand, c vFrameCase, classes map[string]bool) {
	add, remove, name, max := AddRequestFormat, RemoveRequestFormat, "AddRequestFormat", 255
	if c.A == "RespFrame" {
		add, remove, name, max = AddResponseFormat, RemoveResponseFormat, "AddResponseFormat", 65535
	}
	defer func() {
		if x := recover(); x != nil {
			o.Emit(map[string]any{"kind": "mismatch", "key": "msgformat:" + name + ":panic", "what": fmt.Sprintf("encoding / decoding a %d-byte payload panics: %v", c.N, x), "case": c})
		}
	}()
	p := make([]byte, c.N)
	rng.Read(p)
	orig := append([]byte(nil), p...)
	enc, err := add(p)
	classes[c.A+":"+vLenClass(c.N, max)] = true
	bad := func(key, what string) {
		o.Emit(map[string]any{"kind": "mismatch", "key": key, "what": what, "case": c,
			"got": map[string]any{"err": fmt.Sprint(err), "enc_len": len(enc), "prefix": fmt.Sprint(enc[:vMin(len(enc), 2)])}})
	}
	if !bytes.Equal(p, orig) {
		bad("msgformat:"+name+":modifies-input", name+" modified its argument")
	}
	if err != nil {
		if c.Accept {
			bad("msgformat:"+name+":rejects-representable", fmt.Sprintf("%s rejects a %d-byte payload that fits the prefix: %v", name, c.N, err))
		}
		return
	}
	if !c.Accept {
		// the specification demands an error; what did the code produce instead?
		dec, derr := remove(enc)
		alt := "decoder error " + fmt.Sprint(derr)
		if derr == nil {
			alt = fmt.Sprintf("decodes to %d bytes", len(dec))
		}
		bad(fmt.Sprintf("msgformat:%s:len>%d:nil-error", name, max),
			fmt.Sprintf("%s(%d bytes) returns nil error although the length does not fit its prefix (prefix bytes %v, %s): silent alteration",
				name, c.N, enc[:vMin(len(enc), 2)], alt))
		return
	}
	if len(enc) != c.EncLen {
		bad("msgformat:"+name+":length", fmt.Sprintf("encoded length %d, specification %d", len(enc), c.EncLen))
	}
	for i, b := range c.Prefix {
		if i < len(enc) && int(enc[i]) != b {
			bad("msgformat:"+name+":prefix", fmt.Sprintf("prefix byte %d is %d, specification %d", i, enc[i], b))
		}
	}
	dec, derr := remove(enc)
	if derr != nil || !bytes.Equal(dec, orig) {
		bad("msgformat:"+name+":roundtrip", fmt.Sprintf("decode(encode(x)) != x for %d bytes (err %v, got %d bytes)", c.N, derr, len(dec)))
	}
	// trailing bytes after the frame (the requester hands a whole 4096-byte buffer to RemoveResponseFormat) are ignored
	dec2, derr2 := remove(append(append([]byte(nil), enc...), make([]byte, 7)...))
	if derr2 != nil || !bytes.Equal(dec2, orig) {
		bad("msgformat:"+name+":roundtrip-with-trailing-bytes", fmt.Sprintf("frame followed by padding decodes differently (err %v)", derr2))
	}
	// a truncated frame must be an error, never a shorter value
	if len(enc) > 1 {
		if dec3, derr3 := remove(enc[:len(enc)-1]); derr3 == nil && c.N > 0 {
			bad("msgformat:"+name+":truncated-frame-accepted", fmt.Sprintf("frame cut by one byte decodes to %d bytes without error", len(dec3)))
		}
	}
}

func vMin(a, b int) int {
	if a < b {
		return a
	}
	return b
}

func TestVerifCodecMsgformat(t *testing.T) {
	o := vOpenOut(t)
	defer o.Close()
	rng := rand.New(rand.NewSource(vSeed()))
	classes := map[string]bool{}
	n := 0
	vReadLines(t, func(line []byte) {
		var c vFrameCase
		if err := json.Unmarshal(line, &c); err != nil {
			t.Fatalf("bad case: %v", err)
		}
		if c.A != "ReqFrame" && c.A != "RespFrame" {
			return
		}
		vFrameOne(o, rng, c, classes)
		n++
	})
	// thorough tier: every length of the range (the expectation is the specification's closed form n <= Max)
	if hi := vEnvInt("VERIF_SWEEP_MAX", 0); hi > 0 {
		for l := 0; l <= hi; l++ {
			for _, a := range []string{"ReqFrame", "RespFrame"} {
				max, pl := 255, 1
				if a == "RespFrame" {
					max, pl = 65535, 2
				}
				if a == "ReqFrame" && l > 1200 {
					continue
				}
				c := vFrameCase{A: a, N: l, Accept: l <= max, Representable: l <= max, EncLen: l + pl}
				if a == "ReqFrame" {
					c.Prefix = []int{l % 256}
				} else {
					c.Prefix = []int{(l / 256) % 256, l % 256}
				}
				vFrameOne(o, rng, c, classes)
				n++
			}
		}
	}
	// decoders on arbitrary bytes: value or error, never a panic, and a value is always a sub-slice the prefix names
	arb := 0
	for i := 0; i < vEnvInt("VERIF_ARB", 20000); i++ {
		b := make([]byte, rng.Intn(40))
		rng.Read(b)
		if len(b) > 0 && rng.Intn(3) == 0 {
			b[0] = byte(rng.Intn(4)) // small lengths so that both outcomes occur
		}
		for name, remove := range map[string]func([]byte) ([]byte, error){"RemoveRequestFormat": RemoveRequestFormat, "RemoveResponseFormat": RemoveResponseFormat} {
			func() {
				defer func() {
					if x := recover(); x != nil {
						o.Emit(map[string]any{"kind": "mismatch", "key": "msgformat:" + name + ":panic", "what": fmt.Sprintf("%s panics on %x: %v", name, b, x)})
					}
				}()
				v, err := remove(b)
				pl := 1
				if name == "RemoveResponseFormat" {
					pl = 2
				}
				if err == nil && (len(b) < pl+len(v) || !bytes.Equal(v, b[pl:pl+len(v)])) {
					o.Emit(map[string]any{"kind": "mismatch", "key": "msgformat:" + name + ":invents-bytes", "what": fmt.Sprintf("%s(%x) = %x", name, b, v)})
				}
				if err == nil {
					classes[name+":arb:value"] = true
				} else {
					classes[name+":arb:error"] = true
				}
				arb++
			}()
		}
	}
	cl := []string{}
	for k := range classes {
		cl = append(cl, k)
	}
	o.Emit(map[string]any{"kind": "summary", "driver": "msgformat", "evaluations": n, "arbitrary": arb, "classes": cl})
}
