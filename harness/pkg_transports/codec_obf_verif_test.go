//go:build verif

package transports

// C15 - tag obfuscators and URL-less transport-parameter packing (spec/Codec: Obf, AnyPack).
// Station key pairs are derived from VERIF_SEED; every case of Gen_Codec (obfuscator kind x tag length) is run for
// VERIF_KEYS fresh key pairs: two encodings of one tag must both reveal the tag and must differ (randomised
// obfuscators); another station key must not reveal it.

import (
	"bytes"
	"crypto/sha256"
	"encoding/json"
	"fmt"
	"math/rand"
	"net"
	"strings"
	"testing"

	pb "github.com/refraction-networking/conjure/proto"
	"golang.org/x/crypto/curve25519"
	"google.golang.org/protobuf/proto"
	"google.golang.org/protobuf/types/known/anypb"
)

type vObfCase struct {
	A            string `json:"a"`
	Kind         string `json:"kind"`
	N            int    `json:"n"`
	EncLen       int    `json:"enc_len"`
	Randomised   bool   `json:"randomised"`
	WrongKey     string `json:"wrongkey"`
	BufferIntact bool   `json:"buffer_intact"` // the specification: a Reveal leaves the encoding it was given as it was
	Ty           string `json:"ty"`
	URL          string `json:"url"`
	Accept       bool   `json:"accept"`
	Shape        string `json:"mshape"` // AnyPack: the packed message sets all / some / none of its optional fields
	Dst          string `json:"dst"`   // AnyPack: the destination is freshly allocated / still holds an earlier registration's parameters
}

func vKeyPair(i int) (priv [32]byte, pub []byte) {
	priv = sha256.Sum256([]byte(fmt.Sprintf("verif-c15-station-%d-%d", vSeed(), i)))
	pub, err := curve25519.X25519(priv[:], curve25519.Basepoint)
	if err != nil {
		panic(err)
	}
	return priv, pub
}

func vTagClass(n int) string {
	switch {
	case n == 1:
		return "1"
	case n < 16:
		return "<16"
	case n == 16 || n == 32:
		return fmt.Sprint(n)
	case n < 32:
		return "17..31"
	default:
		return ">32"
	}
}

func TestVerifCodecObfuscators(t *testing.T) {
	o := vOpenOut(t)
	defer o.Close()
	rng := rand.New(rand.NewSource(vSeed()))
	classes := map[string]bool{}
	n, pairs := 0, map[int]bool{}
	bad := func(key, what string, c any, got any) {
		o.Emit(map[string]any{"kind": "mismatch", "key": key, "what": what, "case": c, "got": got})
	}
	obfs := map[string]Obfuscator{"gcm": GCMObfuscator{}, "ctr": CTRObfuscator{}, "xor": XORObfuscator{}, "nil": NilObfuscator{}}
	nkeys := vEnvInt("VERIF_KEYS", 60)
	keyNo := 0
	var anyCases []vObfCase
	vReadLines(t, func(line []byte) {
		var c vObfCase
		if err := json.Unmarshal(line, &c); err != nil {
			t.Fatalf("bad case: %v", err)
		}
		if c.A == "AnyPack" {
			anyCases = append(anyCases, c)
			return
		}
		if c.A != "Obf" {
			return
		}
		ob := obfs[c.Kind]
		if ob == nil {
			t.Fatalf("unknown obfuscator %q", c.Kind)
		}
		for k := 0; k < nkeys; k++ {
			keyNo++
			pairs[keyNo] = true
			priv, pub := vKeyPair(keyNo)
			otherPriv, _ := vKeyPair(keyNo + 1000003)
			tag := make([]byte, c.N)
			rng.Read(tag)
			orig := append([]byte(nil), tag...)
			n++
			classes["obf:"+c.Kind+":tag"+vTagClass(c.N)] = true
			func() {
				defer func() {
					if x := recover(); x != nil {
						bad("obf:"+c.Kind+":panic", fmt.Sprint(x), c, nil)
					}
				}()
				c1, err1 := ob.Obfuscate(tag, pub)
				c2, err2 := ob.Obfuscate(tag, pub)
				if err1 != nil || err2 != nil {
					bad("obf:"+c.Kind+":encoder-rejects-tag", fmt.Sprintf("Obfuscate(%d-byte tag): %v %v", c.N, err1, err2), c, nil)
					return
				}
				if !bytes.Equal(tag, orig) {
					bad("obf:"+c.Kind+":modifies-input", "Obfuscate modified the tag", c, nil)
				}
				if len(c1) != c.EncLen || len(c2) != c.EncLen {
					bad("obf:"+c.Kind+":length", fmt.Sprintf("encoding of a %d-byte tag is %d bytes, specification %d", c.N, len(c1), c.EncLen), c, nil)
				}
				for i, ct := range [][]byte{c1, c2} {
					in := append([]byte(nil), ct...)
					p, err := ob.TryReveal(in, priv)
					if err != nil || !bytes.Equal(p, orig) {
						bad("obf:"+c.Kind+":roundtrip", fmt.Sprintf("TryReveal(Obfuscate(tag)) != tag for a %d-byte tag, key pair #%d, encoding %d (err %v)", c.N, keyNo, i+1, err), c, nil)
					}
				}
				// (the XOR pad is as long as the tag: two encodings of a tag shorter than 8 bytes coincide by chance
				//  with probability >= 2^-56, so freshness is judged only where a collision is not a coin toss)
				if c.Randomised && bytes.Equal(c1, c2) && (c.Kind != "xor" || c.N >= 8) {
					bad("obf:"+c.Kind+":not-fresh", fmt.Sprintf("two encodings of one %d-byte tag under key pair #%d are identical", c.N, keyNo), c, nil)
				}
				if !c.Randomised && !bytes.Equal(c1, c2) {
					classes["obf:"+c.Kind+":deterministic-but-differs"] = true
				}
				if c.Randomised && c.Kind != "xor" && len(c1) >= 32 && bytes.Equal(c1[:32], c2[:32]) {
					bad("obf:"+c.Kind+":ephemeral-key-reused", "two encodings carry the same ephemeral public key representative", c, nil)
				}
				// Reveal is a function of (encoding, key): ONE buffer, as the station holds it, is tried with another
				// station's key, then the right key, then the right key again - every attempt must answer as if it were the
				// first, and must leave the bytes it was given untouched
				if c.BufferIntact {
					buf := append(make([]byte, 0, len(c1)), c1...)
					for step, k := range [][32]byte{otherPriv, priv, priv} {
						p, err := ob.TryReveal(buf, k)
						if !bytes.Equal(buf, c1) {
							bad("obf:"+c.Kind+":decoder-modifies-input", fmt.Sprintf("TryReveal (attempt %d on one buffer) altered the encoded bytes it was given", step+1), c, nil)
							break
						}
						if step > 0 && (err != nil || !bytes.Equal(p, orig)) {
							bad("obf:"+c.Kind+":roundtrip-repeated", fmt.Sprintf("TryReveal with the right key fails on attempt %d on one buffer (after an attempt with another key): %v", step+1, err), c, nil)
							break
						}
					}
				}
				// another station's key
				p, err := ob.TryReveal(append([]byte(nil), c1...), otherPriv)
				switch c.WrongKey {
				case "error":
					if err == nil {
						bad("obf:"+c.Kind+":wrong-key-accepted", fmt.Sprintf("authenticated obfuscator reveals %d bytes under a different station key", len(p)), c, nil)
					}
				case "other bytes":
					if err == nil && c.N >= 8 && bytes.Equal(p, orig) {
						bad("obf:"+c.Kind+":wrong-key-reveals-tag", "a different station key reveals the tag", c, nil)
					}
				}
			}()
		}
	})
	// decoders on arbitrary bytes: a value or an error, never a panic
	narb := 0
	for i := 0; i < vEnvInt("VERIF_ARB", 20000)/10; i++ {
		b := make([]byte, rng.Intn(120))
		rng.Read(b)
		priv, _ := vKeyPair(i%50 + 1)
		for kind, ob := range obfs {
			func() {
				defer func() {
					if x := recover(); x != nil {
						bad("obf:"+kind+":TryReveal:panic", fmt.Sprintf("TryReveal panics on %d arbitrary bytes: %v", len(b), x), nil, nil)
					}
				}()
				_, err := ob.TryReveal(append([]byte(nil), b...), priv)
				classes["obf:"+kind+":arb:"+fmt.Sprint(err == nil)] = true
				if kind == "gcm" && err == nil {
					bad("obf:gcm:forgery", "authenticated obfuscator accepts arbitrary bytes", nil, nil)
				}
				narb++
			}()
		}
	}

	// observation only (not judged, see checks/C15.py): the zero-length tag
	empty := map[string]string{}
	for kind, ob := range obfs {
		priv, pub := vKeyPair(1)
		c1, err := ob.Obfuscate([]byte{}, pub)
		if err != nil {
			empty[kind] = "encoder error: " + err.Error()
			continue
		}
		p, err := ob.TryReveal(c1, priv)
		if err != nil {
			empty[kind] = fmt.Sprintf("encoder accepts (%d bytes), decoder error: %v", len(c1), err)
		} else {
			empty[kind] = fmt.Sprintf("round trip ok (%d bytes -> %d bytes)", len(c1), len(p))
		}
	}
	o.Emit(map[string]any{"kind": "observation", "what": "zero-length tag", "result": empty})

	// ---- URL-less packing of transport parameters
	// full: every optional field set; partial: some; empty: none.  used(): a destination of the same type that still holds the
	// (fully set) parameters of an earlier registration
	mk := func(ty, shape string, i int) (proto.Message, proto.Message, proto.Message) {
		switch ty {
		case "generic":
			m := &pb.GenericTransportParams{}
			if shape == "full" {
				m.RandomizeDstPort = proto.Bool(i%2 == 0)
			}
			return m, &pb.GenericTransportParams{}, &pb.PrefixTransportParams{}
		case "prefix":
			m := &pb.PrefixTransportParams{}
			if shape != "empty" {
				m.PrefixId = proto.Int32(int32(i%7 - 2))
			}
			if shape == "full" {
				m.Prefix, m.CustomFlushPolicy, m.RandomizeDstPort = []byte(fmt.Sprintf("GET /%d", i)), proto.Int32(int32(i%3)), proto.Bool(i%3 == 0)
			}
			return m, &pb.PrefixTransportParams{}, &pb.DTLSTransportParams{}
		default:
			m := &pb.DTLSTransportParams{}
			port := uint32(1024 + i)
			if shape != "empty" {
				m.SrcAddr4 = &pb.Addr{IP: []byte{10, byte(i), 2, 3}}
			}
			if shape == "full" {
				m.SrcAddr4.Port = &port
				m.SrcAddr6 = &pb.Addr{IP: net.ParseIP("2001:db8::7"), Port: &port}
				m.RandomizeDstPort, m.Unordered = proto.Bool(i%2 == 1), proto.Bool(i%5 == 0)
			}
			return m, &pb.DTLSTransportParams{}, &pb.GenericTransportParams{}
		}
	}
	used := func(ty string) proto.Message {
		p := uint32(4444)
		switch ty {
		case "generic":
			return &pb.GenericTransportParams{RandomizeDstPort: proto.Bool(true)}
		case "prefix":
			return &pb.PrefixTransportParams{PrefixId: proto.Int32(9), Prefix: []byte("SSH-2.0-earlier"), CustomFlushPolicy: proto.Int32(2), RandomizeDstPort: proto.Bool(true)}
		default:
			return &pb.DTLSTransportParams{SrcAddr4: &pb.Addr{IP: []byte{192, 0, 2, 9}, Port: &p}, SrcAddr6: &pb.Addr{IP: net.ParseIP("2001:db8::9"), Port: &p},
				RandomizeDstPort: proto.Bool(true), Unordered: proto.Bool(true)}
		}
	}
	for _, c := range anyCases {
		for i := 0; i < 25; i++ {
			n++
			classes["anypb:"+c.Ty+":"+c.URL+":"+c.Shape+":"+c.Dst] = true
			msg, dst, otherDst := mk(c.Ty, c.Shape, i)
			if c.Dst == "used" {
				dst = used(c.Ty)
			}
			func() {
				defer func() {
					if x := recover(); x != nil {
						bad("anypb:panic", fmt.Sprint(x), c, nil)
					}
				}()
				a, err := anypb.New(msg)
				if err != nil {
					t.Fatalf("anypb.New: %v", err)
				}
				switch c.URL {
				case "stripped":
					a.TypeUrl = ""
				case "legacy":
					a.TypeUrl = strings.ReplaceAll(a.TypeUrl, "proto.", "tapdance.")
				case "other type":
					o2, _ := anypb.New(otherDst)
					a.TypeUrl = o2.TypeUrl
				}
				// the packed value crosses the wire inside the registration
				wire, _ := proto.Marshal(a)
				a2 := &anypb.Any{}
				if err := proto.Unmarshal(wire, a2); err != nil {
					t.Fatalf("any unmarshal: %v", err)
				}
				err = UnmarshalAnypbTo(a2, dst)
				if (err == nil) != c.Accept {
					if err == nil {
						bad("anypb:"+c.Ty+":wrong-type-url-accepted", "UnmarshalAnypbTo accepts an Any naming another message type", c, nil)
					} else {
						bad("anypb:"+c.Ty+":"+strings.ReplaceAll(c.URL, " ", "-")+":rejected", fmt.Sprint(err), c, nil)
					}
					return
				}
				if err == nil && !proto.Equal(dst, msg) {
					bad("anypb:"+c.Ty+":"+c.URL+":roundtrip:"+c.Shape+"-into-"+c.Dst, fmt.Sprintf("unpacked %v, packed %v", dst, msg), c, nil)
				}
			}()
		}
	}
	// nil source: documented as "no parameters" (no error, destination untouched)
	d := &pb.GenericTransportParams{RandomizeDstPort: proto.Bool(true)}
	if err := UnmarshalAnypbTo(nil, d); err != nil || !d.GetRandomizeDstPort() {
		bad("anypb:nil-source", fmt.Sprintf("err %v", err), nil, nil)
	}
	cl := []string{}
	for k := range classes {
		cl = append(cl, k)
	}
	o.Emit(map[string]any{"kind": "summary", "driver": "transports", "evaluations": n, "key_pairs": len(pairs), "arbitrary": narb, "classes": cl})
}
