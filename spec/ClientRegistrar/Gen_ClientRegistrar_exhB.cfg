SPECIFICATION GenSpec
CONSTANTS
  Variant = "asfound"
  Configs <- CfgGenB
  ApiOutcomes = {"s404", "R2", "RT", "RB"}
  DnsOutcomes = {"nosuccess", "R2", "RT", "RB"}
  Depth = 40
INVARIANT Emit
CHECK_DEADLOCK FALSE
