-------------------------- MODULE Gen_CovertSession --------------------------
(* Session histories for stage B/C of C06: every path of length Depth (messages of every policy class for one session,
   the first worker's Admit, connections, in every order) with the observation the as-built instance computes after
   each step.  The driver runs each history through the real parseRegMessage / ingestRegistration / GetRegistrations /
   Proxy and records what the real code did; Trace_CovertSession judges the recording. *)
EXTENDS CovertSession, Json
CONSTANT Depth
VARIABLE hist
GenInit == Init /\ hist = <<>>
GenNext == /\ Len(hist) < Depth
           /\ Next
           /\ hist' = Append(hist, obs')
GenSpec == GenInit /\ [][GenNext]_<<vars, hist>>
Emit == Len(hist) < Depth \/ PrintT(ToJson(hist))
=============================================================================
