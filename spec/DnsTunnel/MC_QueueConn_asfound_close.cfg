\* the as-found object held to the intended property: Read after Close panics (must violate AfterCloseFails)
SPECIFICATION Spec
CONSTANTS
  Addrs = {"dummy", "a1"}
  Cap = 2
  Bursts = {1, 3}
  MaxPk = 5
  ReadAfterClose = "panic"
VIEW view
PROPERTIES AfterCloseFails
CHECK_DEADLOCK FALSE
