SPECIFICATION TraceSpec
CONSTANTS
  Addrs = {"a1","a2","a3","a4","a5","a6","a7","a8","a9","a10","a11","a12"}
  Caps = {0, 1, 2, 3, 4, 5, 6, 7, 8}
  LiveLife = 3
  NonLiveLife = 2
  MaxAge = 3
  Steps = {1, 2}
  KindRule = "own"
  Bug = "none"
  ExpiryJitter = 0
INVARIANTS HitIsFresh HitIsMeasuredVerdict MissProbes Bounded EvictedNeverServed Placement LruInSync NoRejuvenation
POSTCONDITION Post
CHECK_DEADLOCK FALSE
