SPECIFICATION Spec
CONSTANT Variant = "intended"
INVARIANT Emit
CHECK_DEADLOCK FALSE
