SPECIFICATION Spec
CONSTANTS
  Profile = "tiny"
  Defects = {"scanErrIgnored", "badWeightSkipped", "wsRejects", "noRangeCheck", "deadKept", "typeUrlRewritten", "chainNotAtomic", "chainMixesPort", "randIgnoresReader", "pkgIgnoresFlag", "callerNeverSetsPsr", "callerRecomputesPort"}
  Broken = {"keepOldParams"}
VIEW view
INVARIANTS TypeOK
PROPERTIES A_ResponseMatchesEntry
CHECK_DEADLOCK FALSE
