SPECIFICATION TraceSpec
CONSTANTS
  Variant = "asfound"
  Widths = {1, 2, 3, 4, 5}
  ChanCap = "width"
  Rounds = 2
  Deadlines = {TRUE, FALSE}
  PreCancel = {TRUE, FALSE}
  DialOut = {"ok", "unreach", "refused", "timeout"}
  TlsOut = {"ok", "err", "timeout", "nokeystream"}
  WriteOut = {"ok", "err"}
  LingerOut = {"byte", "eof", "timeout"}
INVARIANTS TypeOK ReportAtMostOnce ReportedWhenDone ReportNeverBlocks ChanBound ReturnNeedsReport UnreachableIffAll
           RegIffNoError NilMeansWritten ClosedOnError RttIsFirst RttReadyAtSleep Complete
PROPERTIES T_OnceTCP T_OnceTLS T_NothingAfterReturn
POSTCONDITION Post
CHECK_DEADLOCK FALSE
