SPECIFICATION GenSpec
CONSTANTS
  Scenario = "reload_mixed"
  Protocol = "atomic"
  SweepRecheck = TRUE
  ShareEnabled = TRUE
  ShareMode = "detached"
  ReloadProtocol = "snapshot"
INVARIANT Emit
CHECK_DEADLOCK FALSE
