-------------------------- MODULE Trace_Accounting --------------------------
(* Stage C (implementation -> spec).  Two kinds of recorded material, one log:

   1. event logs of real connManager.handleNewTCPConn runs (the scripted connection and decorated transports of the
      classify driver record every call the handler makes), one connection after the other:
        Start        family / ASN key / country code the GeoIP stub answers for the peer, registrations on the phantom
        SetDeadline  the first one is the handler's entry (addCreated happened just before)
        Read n / ReadTimeout / ReadEOF     what clientConn.Read returned (inside a transport or the relay: no step)
        Verdict t r  what transport t answered in this round
        Return       the handler returned
        Row          (connections with an ASN of their own) that ASN's row of the real table after the batch: must equal
                     what this connection's steps added up to - the per-connection comparison
      Each event selects the handler step of Accounting.tla; the counter calls of the step are applied to the model's
      tables, which accumulate over the whole batch (counter updates commute, so replaying the per-connection logs one
      after the other is sound for the final state).  Then
        Quiescent    the real connStats (both families, every ASN row) and the singleton's gauge after the batch:
                     must EQUAL the model's.  Most ASN rows belong to exactly one connection, so this is a
                     per-connection comparison of the emitted call sequence (as a multiset).
   2. Ledger   totals of a real concurrent run (goroutines driving the real object, PrintAndReset racing): the
               conservation laws LedgerRecOK over events / reported / current. *)
EXTENDS Accounting, Json, TLCExt
TraceLog == ndJsonDeserialize("trace.ndjson")
VARIABLES l, cur
tvars == <<vars, l, cur>>
C == "c"

AsSet(x) == {x[i] : i \in DOMAIN x}
Val(r, k) == IF k \in DOMAIN r THEN r[k] ELSE 0
Unch == UNCHANGED vars
\* the recorded snapshot equals the model's state
SnapshotMatches(e) ==
  /\ \A f \in Fams, x \in GCells : Val(e.st.glob[f], x) = glob[f][x]
  /\ \A r \in AsSet(e.st.tab) : /\ r.asn \in Asns /\ tab[r.fam][r.asn] # None /\ tab[r.fam][r.asn].cc = r.cc
                                /\ \A x \in ACells : Val(r.n, x) = tab[r.fam][r.asn].n[x]
  /\ \A f \in Fams, a \in Asns : tab[f][a] # None => \E r \in AsSet(e.st.tab) : r.fam = f /\ r.asn = a
  /\ e.active = stat.active

\* the real per-ASN row of a connection that had an ASN of its own (logged right behind the connection's events)
RowMatches(e) ==
  /\ e.asn \in Asns
  /\ IF e.present THEN /\ tab[e.fam][e.asn] # None /\ tab[e.fam][e.asn].cc = e.cc
                        /\ \A x \in ACells : Val(e.n, x) = tab[e.fam][e.asn].n[x]
     ELSE tab[e.fam][e.asn] = None

TraceInit == Init /\ l = 1 /\ cur = [fam |-> "v4", asn |-> "", cc |-> "", occ |-> 0]
\* a new batch: a fresh connStats
TraceReset == /\ l <= Len(TraceLog) /\ TraceLog[l].a = "Reset"
              /\ PrintT(<<"TRACE_AT", l>>)
              /\ conn' = [c \in Conns |-> IdleConn] /\ glob' = [f \in Fams |-> Z(GCells)] /\ tab' = [f \in Fams |-> [a \in Asns |-> None]]
              /\ kon' = Z(KCells) /\ hs' = [c \in Conns |-> IdleH] /\ stat' = [active |-> 0, new |-> 0, err |-> 0, missed |-> 0]
              /\ obs' = [a |-> "Init"] /\ UNCHANGED <<kst, auth, pr, gone, gonea, gonek, cur>>
              /\ l' = l + 1
\* the next connection of the batch (the previous one must have returned)
TraceStart == /\ l <= Len(TraceLog) /\ TraceLog[l].a = "Start"
              /\ hs[C].ph \in {"idle", "done"}
              /\ conn' = [conn EXCEPT ![C] = IdleConn] /\ hs' = [hs EXCEPT ![C] = IdleH]
              /\ cur' = [fam |-> TraceLog[l].fam, asn |-> TraceLog[l].asn, cc |-> TraceLog[l].cc, occ |-> TraceLog[l].occ]
              /\ obs' = [a |-> "Start"]
              /\ UNCHANGED <<glob, tab, kon, kst, auth, pr, gone, gonea, gonek, stat>>
              /\ l' = l + 1
TraceStep ==
  /\ l <= Len(TraceLog) /\ TraceLog[l].a \notin {"Reset", "Start"} /\ l' = l + 1 /\ UNCHANGED cur
  /\ LET e == TraceLog[l]  ph == hs[C].ph IN
     CASE e.a = "SetDeadline" -> IF ph = "idle" THEN cur.asn \in Asns /\ HEnter(C, cur.fam, cur.asn, cur.cc, IF cur.occ > 0 THEN 1 ELSE 0) ELSE Unch
       [] e.a = "Read"        -> IF ph = "read" THEN HRead(C, IF e.n > 0 THEN 1 ELSE 0) ELSE (ph \in {"offer", "found", "drain", "sleep", "done"} /\ Unch)
       [] e.a = "ReadTimeout" -> IF ph = "read" THEN HReadErr(C, "timeout") ELSE IF ph = "drain" THEN HDrainEnd(C, "timeout") ELSE Unch
       [] e.a = "ReadEOF"     -> IF ph = "read" THEN HReadErr(C, "closed") ELSE IF ph = "drain" THEN HDrainEnd(C, "closed") ELSE Unch
       [] e.a = "Verdict"     -> e.t \in Transports /\ HVerdict(C, e.t, e.r)
       [] e.a = "Return"      -> ~e.hung /\ CASE ph = "sleep" -> HSleepDone(C)
                                             [] ph = "found" -> HRelayEnd(C)
                                             [] ph = "idle"  -> HGeoFail(C)
                                             [] ph = "done"  -> Unch
                                             [] OTHER -> FALSE
       [] e.a \in {"Write", "Close", "Send", "PeerClose", "Expire"} -> Unch
       [] e.a = "Row"         -> hs[C].ph = "done" /\ RowMatches(e) /\ Unch
       [] e.a = "Quiescent"   -> hs[C].ph \in {"idle", "done"} /\ SnapshotMatches(e) /\ Unch
       [] e.a = "Ledger"      -> LedgerRecOK(e) /\ Unch
       [] OTHER               -> FALSE
TraceNext == TraceReset \/ TraceStart \/ TraceStep
TraceSpec == TraceInit /\ [][TraceNext]_tvars
TraceView == <<view, l, cur>>
TraceAccepted == TLCGet("stats").diameter - 1 = Len(TraceLog)
Reached == PrintT(<<"TRACE_REACHED", TLCGet("stats").diameter - 1>>)
Post == Reached /\ TraceAccepted
=============================================================================
