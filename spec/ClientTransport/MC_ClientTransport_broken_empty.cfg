\* broken: a Write of zero bytes is swallowed - must violate DataExact
SPECIFICATION Spec
CONSTANTS
  Kind = "prefix"
  Variant = "drop-empty-write"
  KnownIds = {0, 1}
  FieldIds = {}
  SetArgs <- SetArgsW
  OvArgs <- OvArgsW
  Secrets = {"s1"}
  ReaderOk = {TRUE}
  Seeds = {"sd1"}
  DeadConns = {FALSE, TRUE}
  MaxConns = 1
  MaxWrites = 2
  WriteSizes = {0, 5000}
  MaxPeer = 1
  PeerSizes = {4}
VIEW view
INVARIANTS DataExact
CHECK_DEADLOCK FALSE
