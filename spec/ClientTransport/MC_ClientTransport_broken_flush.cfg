\* broken: the registrar's flush policy beats the client's custom one - must violate ClientFlushWins
SPECIFICATION Spec
CONSTANTS
  Kind = "prefix"
  Variant = "registrar-flush-wins"
  KnownIds = {0, 1}
  FieldIds = {1}
  SetArgs <- SetArgsP
  OvArgs <- OvArgsP
  Secrets = {"s1", "s2"}
  ReaderOk = {TRUE, FALSE}
  Seeds = {"sd1", "sd2"}
  DeadConns = {FALSE, TRUE}
  MaxConns = 0
  MaxWrites = 0
  WriteSizes = {}
  MaxPeer = 0
  PeerSizes = {4}
VIEW view
PROPERTIES ClientFlushWins
CHECK_DEADLOCK FALSE
