SPECIFICATION Spec
CONSTANT Variant = "dial-error-is-silence"
INVARIANTS AdmittedOnlyIfSilent RefusalIsAnAnswer PrescannedNotProbed
CHECK_DEADLOCK FALSE
