SPECIFICATION GenSpec
CONSTANTS
  LD = {"unset", "zero", "valid", "bad"}
  LC = {"unset", "zero", "valid", "neg"}
  ND = {"unset", "zero", "valid", "bad"}
  NC = {"unset", "zero", "valid", "neg"}
  CBS = {"unset", "A"}
  CAS = {"unset"}
  CBD = {"unset"}
  PBL = {"unset"}
  GEO = {"unset"}
  WK = {"unset"}
  PUB = {"unset"}
  FK = {"ok"}
  SF = {"S1"}
  RCBS = {"unset", "A", "B", "ws", "bad", "badfirst"}
  RCAS = {"unset", "A", "bad", "badfirst", "badonly"}
  RCBD = {"unset", "A", "B", "bad", "badfirst"}
  RPBL = {"unset", "A", "bad", "badfirst"}
  RGEO = {"unset", "missing"}
  RPUB = {"unset", "true"}
  RFK = {"ok", "syntax", "wrongtype", "unreadable"}
  RSF = {"S1", "S2", "malformed", "missing", "badgen"}
  WithShipped = FALSE
  Defects = {}
  Depth = 1
  GoodWeight = 6
  Mode = "exh"
INVARIANT Emit
CHECK_DEADLOCK FALSE
