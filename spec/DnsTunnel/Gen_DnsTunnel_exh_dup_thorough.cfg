\* every path: one client, three requests, one duplicated response (reaches the stale-response scenarios:
\* a duplicate left in the requester's queue fails the NEXT request, and the one after)
SPECIFICATION GenSpec
CONSTANTS
  Clients = {"c1"}
  MaxReq = 3
  JunkKinds = {}
  MaxJunk = 0
  MaxDup = 1
  MaxDrop = 0
  MaxClose = 0
  Faults = {"DupQ", "DupR"}
  StaleMode = "fail"
  KeyCheck = TRUE
  Timeout = FALSE
  Depth = 16
INVARIANT Emit
CHECK_DEADLOCK FALSE
