//go:build verif

package liveness

// Conformance drivers for spec/LivenessCache (property C18).
//
//   TestVerifLivenessReplay      stage B: every behaviour TLC generated (Gen_LivenessCache) is stepped through the
//                                real tester returned by liveness.New(Config) - so the configuration -> cache kind
//                                mapping is under test.  phantomIsLive is replaced by a scripted world, time is
//                                advanced by back-dating cacheElement.cachedTime.  After every step the returned
//                                (verdict, error), the number of probe calls, the statistics counter that moved and
//                                the projected contents (address + age class, Len()) of both caches are compared with what the spec computed.
//   TestVerifLivenessRandom      stage C: seeded random histories (not derived from the spec) over 12 addresses and
//                                capacities 0..8 are recorded as ndjson traces for Trace_LivenessCache.
//   TestVerifLivenessConcurrent  8 goroutines issue seeded query streams against one tester (run under -race);
//                                verdicts are checked against the probes actually made, bounds at quiescence.

import (
	"encoding/json"
	"errors"
	"fmt"
	"math/rand"
	"net"
	"os"
	"sort"
	"strconv"
	"strings"
	"sync"
	"sync/atomic"
	"testing"
	"time"

	"github.com/BurntSushi/toml"
)

// (variables, not constants: TestVerifLivenessBoundary replays the fine-resolution instances of the spec with a
// 3 min tick; every other driver uses the values below)
var (
	vlcTick   = time.Hour
	vlcMaxAge = 3
	// lifetimes strictly between two ticks: a live verdict is fresh at ages 0,1,2 (LiveLife = 3), a non-live
	// verdict at ages 0,1 (NonLiveLife = 2); 30 minutes of slack on either side
	vlcLiveDur    = "2h30m"
	vlcNonLiveDur = "1h30m"
	vlcLiveLife   = 3
	vlcNonLife    = 2
	// injective map abstract address -> concrete IP; nil = 192.0.2.n.  The last octet always carries n (vlcName)
	vlcIPMap func(n int) string
)

func vlcIP(name string) string {
	n, _ := strconv.Atoi(strings.TrimPrefix(name, "a"))
	if vlcIPMap != nil {
		return vlcIPMap(n)
	}
	return fmt.Sprintf("192.0.2.%d", n)
}

func vlcName(ip string) string {
	parts := strings.Split(strings.ReplaceAll(ip, ":", "."), ".")
	return "a" + parts[len(parts)-1]
}

type vlcWorld struct {
	t      Tester
	clt    *CachedLivenessTester
	unc    *UncachedLivenessTester
	mu     sync.Mutex
	world  map[string]bool // ip -> what a probe returns now
	probes int64
	onProbe func(ip string, v bool)
}

func (w *vlcWorld) probe(address string) (bool, error) {
	host, _, err := net.SplitHostPort(address)
	if err != nil {
		panic("probe called with " + address)
	}
	atomic.AddInt64(&w.probes, 1)
	w.mu.Lock()
	v := w.world[host]
	if w.onProbe != nil {
		w.onProbe(host, v)
	}
	w.mu.Unlock()
	if v {
		return true, ErrLiveHost
	}
	return false, NotLive
}

func vlcKind(c cache) (string, int) {
	switch x := c.(type) {
	case nil:
		return "off", 0
	case *mapCache:
		if x == nil {
			return "off", 0
		}
		return "map", 0
	case *lruCache:
		if x == nil {
			return "off", 0
		}
		return "lru", x.lruSize
	}
	return fmt.Sprintf("%T", c), 0
}

func vlcBool(m map[string]any, k string) bool { b, _ := m[k].(bool); return b }
func vlcInt(m map[string]any, k string) int   { f, _ := m[k].(float64); return int(f) }

// The station is configured through its TOML file.  The shipped cmd/application/app_config.toml is taken as it is, the
// values of its four liveness-cache keys (recognised by what they say: capacity or not, non-live or not - not by a
// spelling this driver would have to copy from the struct tags) are replaced, and the text is decoded the way
// lib.ParseConfig decodes it: lib.Config embeds *RegConfig, which embeds *liveness.Config.
type VlcRegConfig struct{ *Config }
type VlcStationConfig struct{ *VlcRegConfig }

var vlcShippedOnce sync.Once
var vlcShipped []string
var vlcTomlBuilt int64

func vlcConfigured(cfg map[string]any) (*Config, error) {
	vlcShippedOnce.Do(func() {
		b, err := os.ReadFile("../../../cmd/application/app_config.toml")
		if err == nil {
			vlcShipped = strings.Split(string(b), "\n")
		}
	})
	if vlcShipped == nil {
		return nil, fmt.Errorf("shipped app_config.toml not found")
	}
	seen := map[string]bool{}
	lines := []string{}
	for _, l := range vlcShipped {
		k := strings.TrimSpace(strings.SplitN(l, "=", 2)[0])
		if strings.HasPrefix(k, "cache_") && strings.Contains(l, "=") {
			capacity, nonlive := strings.Contains(k, "capacity"), strings.Contains(k, "non")
			which := map[[2]bool]string{{false, false}: "ll", {true, false}: "lc", {false, true}: "nl", {true, true}: "nc"}[[2]bool{capacity, nonlive}]
			seen[which] = true
			switch which {
			case "ll", "nl":
				if !vlcBool(cfg, which) {
					continue // key absent: no caching of that verdict
				}
				l = fmt.Sprintf("%s = %q", k, map[string]string{"ll": vlcLiveDur, "nl": vlcNonLiveDur}[which])
			default:
				l = fmt.Sprintf("%s = %d", k, vlcInt(cfg, which))
			}
		}
		lines = append(lines, l)
	}
	if len(seen) != 4 {
		return nil, fmt.Errorf("shipped app_config.toml: liveness-cache keys found: %v", seen)
	}
	var sc VlcStationConfig
	if _, err := toml.Decode(strings.Join(lines, "\n"), &sc); err != nil {
		return nil, err
	}
	atomic.AddInt64(&vlcTomlBuilt, 1)
	if sc.VlcRegConfig == nil || sc.VlcRegConfig.Config == nil {
		return &Config{}, nil
	}
	return sc.VlcRegConfig.Config, nil
}

// vlcNew builds the real tester from the real constructor for the abstract configuration [ll, lc, nl, nc]
func vlcNew(cfg map[string]any) (*vlcWorld, map[string]any, error) {
	c, err := vlcConfigured(cfg)
	if err != nil {
		return nil, nil, err
	}
	t, err := New(c)
	if err != nil {
		return nil, nil, err
	}
	w := &vlcWorld{t: t, world: map[string]bool{}}
	shape := map[string]any{"ll": vlcBool(cfg, "ll"), "lc": vlcInt(cfg, "lc"), "nl": vlcBool(cfg, "nl"), "nc": vlcInt(cfg, "nc")}
	switch x := t.(type) {
	case *CachedLivenessTester:
		w.clt = x
		x.phantomIsLive = w.probe
		shape["tester"] = "cached"
		shape["lk"], shape["lsize"] = vlcKind(x.ipCacheLive)
		shape["nk"], shape["nsize"] = vlcKind(x.ipCacheNonLive)
	case *UncachedLivenessTester:
		w.unc = x
		x.phantomIsLive = w.probe
		shape["tester"] = "uncached"
		shape["lk"], shape["lsize"] = "off", 0
		shape["nk"], shape["nsize"] = "off", 0
	default:
		return nil, nil, fmt.Errorf("unexpected tester type %T", t)
	}
	return w, shape, nil
}

func vlcAgeClass(d time.Duration) int {
	a := int((d + vlcTick/2) / vlcTick)
	if a < 0 {
		a = 0
	}
	if a > vlcMaxAge {
		a = vlcMaxAge
	}
	return a
}

func vlcElems(c cache) map[string]*cacheElement {
	switch x := c.(type) {
	case *mapCache:
		if x != nil {
			return x.ipCache
		}
	case *lruCache:
		if x != nil {
			return x.ipCache
		}
	}
	return nil
}

// vlcSide projects one cache: entries with their age class, Len() as the API reports it, length of the LRU list
func vlcSide(c cache, now time.Time) ([]map[string]any, int, int) {
	ents := []map[string]any{}
	for ip, e := range vlcElems(c) {
		ents = append(ents, map[string]any{"a": vlcName(ip), "age": vlcAgeClass(now.Sub(e.cachedTime))})
	}
	l, o := 0, 0
	switch x := c.(type) {
	case *mapCache:
		if x != nil {
			l = x.Len()
		}
	case *lruCache:
		if x != nil {
			l = x.Len()
			o = x.lru.Len()
		}
	}
	return ents, l, o
}

func (w *vlcWorld) project() map[string]any {
	now := time.Now()
	st := map[string]any{"live": []map[string]any{}, "nonlive": []map[string]any{}, "lenL": 0, "lenN": 0}
	if w.clt != nil {
		st["live"], st["lenL"], _ = vlcSide(w.clt.ipCacheLive, now)
		st["nonlive"], st["lenN"], _ = vlcSide(w.clt.ipCacheNonLive, now)
	}
	return st
}

func (w *vlcWorld) advance(d int) {
	if w.clt == nil {
		return
	}
	now := time.Now()
	for _, c := range []cache{w.clt.ipCacheLive, w.clt.ipCacheNonLive} {
		for _, e := range vlcElems(c) {
			a := vlcAgeClass(now.Sub(e.cachedTime)) + d
			if a > vlcMaxAge {
				a = vlcMaxAge
			}
			e.cachedTime = now.Add(-time.Duration(a) * vlcTick)
		}
	}
}

func (w *vlcWorld) counters() [4]int64 {
	var s *stats
	if w.clt != nil {
		s = w.clt.stats
	} else {
		s = w.unc.stats
	}
	return [4]int64{atomic.LoadInt64(&s.newLivenessPass), atomic.LoadInt64(&s.newLivenessFail),
		atomic.LoadInt64(&s.newLivenessCachedLive), atomic.LoadInt64(&s.newLivenessCachedNonLive)}
}

var vlcStatNames = [4]string{"pass", "fail", "cachedLive", "cachedNonLive"}

// counter the uncached tester bumps for a LIVE verdict (recorded as an observation, not compared)
var vlcUncachedLiveStat atomic.Value

// apply executes one abstract action on the real tester and returns the observation in the spec's obs format
func (w *vlcWorld) apply(step map[string]any) map[string]any {
	a, _ := step["a"].(string)
	got := map[string]any{"a": a}
	switch a {
	case "Query":
		name, _ := step["addr"].(string)
		pv, _ := step["pv"].(bool)
		ip := vlcIP(name)
		w.mu.Lock()
		w.world[ip] = pv
		w.mu.Unlock()
		p0 := atomic.LoadInt64(&w.probes)
		c0 := w.counters()
		v, err := w.t.PhantomIsLive(ip, 443)
		c1 := w.counters()
		got["addr"], got["pv"], got["verdict"] = name, pv, v
		cached := errors.Is(err, ErrCachedPhantom)
		got["cached"] = cached
		got["probes"] = int(atomic.LoadInt64(&w.probes) - p0)
		moved := []string{}
		for i := range c0 {
			for k := c0[i]; k < c1[i]; k++ {
				moved = append(moved, vlcStatNames[i])
			}
		}
		stat := strings.Join(moved, "+")
		if w.unc != nil {
			if v {
				vlcUncachedLiveStat.Store(stat)
			}
			if len(moved) == 1 {
				stat = "uncached"
			}
		}
		got["stat"] = stat
		// the error value is part of the answer: the sentinel for cache hits, the probe's own error otherwise
		if !cached {
			want := NotLive
			if v {
				want = ErrLiveHost
			}
			if err != want {
				got["err"] = fmt.Sprint(err)
			}
		}
	case "Advance":
		d := int(step["d"].(float64))
		got["d"] = d
		w.advance(d)
	case "ClearExpired":
		if w.clt != nil {
			w.clt.ClearExpiredCache()
		}
	default:
		panic("unknown action " + a)
	}
	got["st"] = w.project()
	return got
}

func vlcCfgKey(cfg map[string]any) string {
	return fmt.Sprintf("ll=%v,lc=%d,nl=%v,nc=%d", vlcBool(cfg, "ll"), vlcInt(cfg, "lc"), vlcBool(cfg, "nl"), vlcInt(cfg, "nc"))
}

func vlcOps(beh []map[string]any) []string {
	ops := []string{}
	for _, s := range beh {
		switch s["a"] {
		case "Init":
			ops = append(ops, "Init("+vlcCfgKey(s["cfg"].(map[string]any))+")")
		case "Query":
			ops = append(ops, fmt.Sprintf("Query(%v,world=%v)", s["addr"], s["pv"]))
		case "Advance":
			ops = append(ops, fmt.Sprintf("Advance(%v)", s["d"]))
		default:
			ops = append(ops, fmt.Sprint(s["a"]))
		}
	}
	return ops
}

func TestVerifLivenessReplay(t *testing.T) {
	out := vOpenOut(t)
	defer out.Close()
	nb, ns, nm, nskip := 0, 0, 0, 0
	type cnt struct{ Replayed, Skipped, Mismatches int }
	per := map[string]*cnt{}
	shapes := map[string]bool{}
	vReadLines(t, func(line []byte) {
		var beh []map[string]any
		if err := json.Unmarshal(line, &beh); err != nil {
			t.Fatalf("bad behaviour: %v", err)
		}
		cfg := beh[0]["cfg"].(map[string]any)
		key := vlcCfgKey(cfg)
		if per[key] == nil {
			per[key] = &cnt{}
		}
		w, shape, err := vlcNew(cfg)
		if err != nil {
			nm++
			out.Emit(map[string]any{"kind": "mismatch", "cfg": cfg, "step": 0, "want": beh[0], "got": map[string]any{"a": "Init", "err": err.Error()}, "ops": vlcOps(beh[:1])})
			return
		}
		if !shapes[key] {
			shapes[key] = true
			out.Emit(map[string]any{"kind": "shape", "key": key, "real": shape})
		}
		// Where no capacity is configured the specification admits a map or an LRU of unlimited size; this
		// behaviour was generated for one of the two - replay it only if that is what the implementation built.
		if vlcBool(cfg, "ll") && vlcInt(cfg, "lc") == 0 && (shape["lk"] == "map" || shape["lk"] == "lru") && shape["lk"] != cfg["lk"] {
			nskip++
			per[key].Skipped++
			return
		}
		if vlcBool(cfg, "nl") && vlcInt(cfg, "nc") == 0 && (shape["nk"] == "map" || shape["nk"] == "lru") && shape["nk"] != cfg["nk"] {
			nskip++
			per[key].Skipped++
			return
		}
		nb++
		per[key].Replayed++
		for i, step := range beh[1:] {
			ns++
			var got map[string]any
			func() {
				defer func() {
					if r := recover(); r != nil {
						got = map[string]any{"a": step["a"], "panic": fmt.Sprint(r)}
					}
				}()
				got = w.apply(step)
			}()
			if vCanon(vNorm(got)) != vCanon(step) {
				nm++
				per[key].Mismatches++
				if nm <= 400 {
					out.Emit(map[string]any{"kind": "mismatch", "cfg": cfg, "shape": shape, "beh": nb, "step": i + 1, "want": step, "got": vNorm(got), "ops": vlcOps(beh[:i+2])})
				}
				break
			}
		}
	})
	uls, _ := vlcUncachedLiveStat.Load().(string)
	out.Emit(map[string]any{"kind": "summary", "behaviours": nb, "steps": ns, "mismatches": nm, "skipped": nskip, "per": per, "uncachedLiveStat": uls})
}

// Boundary stage: the fine-resolution instance of the spec (3 min tick, LiveLife = 50, NonLiveLife = 30; queries
// just below, AT and just after the configured lifetime) replayed on the real tester under VERIF_MAPS injective
// address maps per behaviour (the spec is symmetric in Addrs; the implementation must be too - a lifetime that
// depends on the address is then seen whatever class the address falls in).  Same comparison as the replay driver.
func vlcBoundaryMap(k int) func(n int) string {
	switch k % 4 {
	case 3: // IPv6 phantoms
		return func(n int) string { return fmt.Sprintf("2001:db8:%x:%x::%d", k*2654435761%65521, k, n) }
	default:
		return func(n int) string { return fmt.Sprintf("%d.%d.%d.%d", 11+(k*7)%200, (k*37)%251, (k*101+k/3)%256, n) }
	}
}

func TestVerifLivenessBoundary(t *testing.T) {
	out := vOpenOut(t)
	defer out.Close()
	vlcTick, vlcMaxAge = 3*time.Minute, 55
	vlcLiveDur, vlcNonLiveDur = "2h28m30s", "1h28m30s" // half a tick short of 50 / 30 ticks
	vlcLiveLife, vlcNonLife = 50, 30
	nmaps := vEnvInt("VERIF_MAPS", 64)
	confs := map[string]*Config{}
	nb, nrep, ns, nm, nskip := 0, 0, 0, 0, 0
	atL, atN, hitsBelow := 0, 0, 0 // queries made with an entry of age in [Life, 1.1 Life) / fresh hits at the last tick classes below
	ips := map[string]bool{}
	vReadLines(t, func(line []byte) {
		var beh []map[string]any
		if err := json.Unmarshal(line, &beh); err != nil {
			t.Fatalf("bad behaviour: %v", err)
		}
		cfg := beh[0]["cfg"].(map[string]any)
		key := vlcCfgKey(cfg)
		if confs[key] == nil {
			c, err := vlcConfigured(cfg)
			if err != nil {
				t.Fatalf("config: %v", err)
			}
			confs[key] = c
		}
		counted := false
		for k := 0; k < nmaps; k++ {
			vlcIPMap = vlcBoundaryMap(k)
			tst, err := New(confs[key])
			if err != nil {
				t.Fatalf("New: %v", err)
			}
			w := &vlcWorld{t: tst, world: map[string]bool{}}
			lk, nk := "off", "off"
			switch x := tst.(type) {
			case *CachedLivenessTester:
				w.clt = x
				x.phantomIsLive = w.probe
				lk, _ = vlcKind(x.ipCacheLive)
				nk, _ = vlcKind(x.ipCacheNonLive)
			case *UncachedLivenessTester:
				w.unc = x
				x.phantomIsLive = w.probe
			}
			// (the capacity -> kind mapping is stage B's subject; here: replay the instance matching the real kinds)
			if lk != cfg["lk"] || nk != cfg["nk"] {
				nskip++
				return
			}
			if !counted {
				counted = true
				nb++
			}
			nrep++
			for i, step := range beh[1:] {
				ns++
				if step["a"] == "Query" && w.clt != nil {
					ip := vlcIP(step["addr"].(string))
					ips[ip] = true
					now := time.Now()
					if e := vlcElems(w.clt.ipCacheLive)[ip]; e != nil {
						if a := vlcAgeClass(now.Sub(e.cachedTime)); a >= vlcLiveLife && a*10 < vlcLiveLife*11 {
							atL++
						} else if a < vlcLiveLife && a*10 >= vlcLiveLife*8 {
							hitsBelow++
						}
					}
					if e := vlcElems(w.clt.ipCacheNonLive)[ip]; e != nil {
						if a := vlcAgeClass(now.Sub(e.cachedTime)); a >= vlcNonLife && a*10 < vlcNonLife*11 {
							atN++
						} else if a < vlcNonLife && a*10 >= vlcNonLife*8 {
							hitsBelow++
						}
					}
				}
				var got map[string]any
				func() {
					defer func() {
						if r := recover(); r != nil {
							got = map[string]any{"a": step["a"], "panic": fmt.Sprint(r)}
						}
					}()
					got = w.apply(step)
				}()
				if vCanon(vNorm(got)) != vCanon(step) {
					nm++
					if nm <= 300 {
						m := map[string]any{"kind": "mismatch", "cfg": cfg, "map": k, "step": i + 1, "want": step, "got": vNorm(got), "ops": vlcOps(beh[:i+2])}
						if step["a"] == "Query" {
							m["ip"] = vlcIP(step["addr"].(string))
						}
						out.Emit(m)
					}
					break
				}
			}
		}
	})
	out.Emit(map[string]any{"kind": "summary", "behaviours": nb, "replays": nrep, "steps": ns, "mismatches": nm, "skipped": nskip,
		"maps": nmaps, "distinctIPs": len(ips), "queriesAtLifeLive": atL, "queriesAtLifeNonLive": atN, "queriesJustBelow": hitsBelow,
		"tick": vlcTick.String(), "live": vlcLiveDur, "nonlive": vlcNonLiveDur})
}

// random histories over a larger alphabet than TLC explores exhaustively
func TestVerifLivenessRandom(t *testing.T) {
	out := vOpenOut(t)
	defer out.Close()
	rng := rand.New(rand.NewSource(vSeed()*7919 + 18))
	ntr := vEnvInt("VERIF_TRACES", 20)
	nops := vEnvInt("VERIF_OPS", 300)
	const naddr = 12
	for tr := 0; tr < ntr; tr++ {
		cfg := map[string]any{"ll": rng.Intn(5) != 0, "nl": rng.Intn(5) != 0, "lc": float64(0), "nc": float64(0)}
		if rng.Intn(3) != 0 {
			cfg["lc"] = float64(1 + rng.Intn(8))
		}
		if rng.Intn(3) != 0 {
			cfg["nc"] = float64(1 + rng.Intn(8))
		}
		w, shape, err := vlcNew(cfg)
		if err != nil {
			t.Fatalf("New: %v", err)
		}
		out.Emit(map[string]any{"a": "Reset", "cfg": map[string]any{"ll": cfg["ll"], "lc": cfg["lc"], "lk": shape["lk"],
			"nl": cfg["nl"], "nc": cfg["nc"], "nk": shape["nk"]}})
		hot := 2 + rng.Intn(naddr-1) // the history concentrates on the first `hot` addresses
		world := map[string]bool{}
		for i := 1; i <= naddr; i++ {
			world[fmt.Sprintf("a%d", i)] = rng.Intn(2) == 0
		}
		for i := 0; i < nops; i++ {
			var step map[string]any
			switch x := rng.Intn(100); {
			case x < 72:
				a := fmt.Sprintf("a%d", 1+rng.Intn(hot))
				if rng.Intn(5) == 0 {
					world[a] = !world[a] // the host changes state
				}
				step = map[string]any{"a": "Query", "addr": a, "pv": world[a]}
			case x < 90:
				step = map[string]any{"a": "Advance", "d": float64(1 + rng.Intn(2))}
			default:
				step = map[string]any{"a": "ClearExpired"}
			}
			out.Emit(w.apply(step))
		}
	}
}

// concurrent queries: the caches' own locking is all that orders them.  Phases with a fixed world; between
// phases (at quiescence) hosts flip, time advances and expired entries may be cleaned.
func TestVerifLivenessConcurrent(t *testing.T) {
	out := vOpenOut(t)
	defer out.Close()
	seed := vSeed()
	const naddr = 6
	const workers = 8
	nq := vEnvInt("VERIF_QUERIES", 300)
	phases := vEnvInt("VERIF_PHASES", 8)
	cfgs := []map[string]any{
		{"ll": true, "lc": float64(0), "nl": true, "nc": float64(0)},
		{"ll": true, "lc": float64(3), "nl": true, "nc": float64(2)},
		{"ll": true, "lc": float64(2), "nl": false, "nc": float64(0)},
		{"ll": false, "lc": float64(0), "nl": true, "nc": float64(2)},
		{"ll": true, "lc": float64(1), "nl": true, "nc": float64(1)},
		{"ll": true, "lc": float64(0), "nl": true, "nc": float64(3)},
	}
	for ci, cfg := range cfgs {
		w, shape, err := vlcNew(cfg)
		if err != nil {
			t.Fatalf("New: %v", err)
		}
		rng := rand.New(rand.NewSource(seed*131 + int64(ci)))
		anomalies := []string{}
		addAnom := func(s string) {
			if len(anomalies) < 20 {
				anomalies = append(anomalies, s)
			}
		}
		// latest logical time at which a probe of ip returned verdict v
		type pk struct {
			ip string
			v  bool
		}
		probeAt := map[pk]int{}
		now := 0
		w.onProbe = func(ip string, v bool) { probeAt[pk{ip, v}] = now } // called with w.mu held
		total, cachedHits := 0, 0
		maxL, maxN := 0, 0
		for ph := 0; ph < phases; ph++ {
			for i := 1; i <= naddr; i++ {
				ip := vlcIP(fmt.Sprintf("a%d", i))
				if ph == 0 || rng.Intn(3) == 0 {
					w.world[ip] = rng.Intn(2) == 0
				}
			}
			type rec struct {
				ip     string
				v      bool
				cached bool
				err    error
			}
			recs := make([][]rec, workers)
			var wg sync.WaitGroup
			for g := 0; g < workers; g++ {
				wg.Add(1)
				gr := rand.New(rand.NewSource(seed*977 + int64(ci*1000+ph*10+g)))
				go func(g int, gr *rand.Rand) {
					defer wg.Done()
					for q := 0; q < nq; q++ {
						ip := vlcIP(fmt.Sprintf("a%d", 1+gr.Intn(naddr)))
						v, err := w.t.PhantomIsLive(ip, 443)
						recs[g] = append(recs[g], rec{ip, v, errors.Is(err, ErrCachedPhantom), err})
					}
				}(g, gr)
			}
			wg.Wait()
			// quiescence: judge the answers of this phase
			for g := range recs {
				for _, r := range recs[g] {
					total++
					if r.cached {
						cachedHits++
						life := vlcNonLife
						if r.v {
							life = vlcLiveLife
						}
						at, ok := probeAt[pk{r.ip, r.v}]
						if !ok {
							addAnom(fmt.Sprintf("phase %d: cached verdict %v for %s was never measured", ph, r.v, vlcName(r.ip)))
						} else if now-at >= life {
							addAnom(fmt.Sprintf("phase %d: cached verdict %v for %s measured %d ticks ago (lifetime %d)", ph, r.v, vlcName(r.ip), now-at, life))
						}
					} else if r.v != w.world[r.ip] {
						addAnom(fmt.Sprintf("phase %d: probed verdict %v for %s differs from the world", ph, r.v, vlcName(r.ip)))
					}
				}
			}
			if w.clt != nil {
				for side, c := range map[string]cache{"live": w.clt.ipCacheLive, "nonlive": w.clt.ipCacheNonLive} {
					capv := vlcInt(cfg, "lc")
					if side == "nonlive" {
						capv = vlcInt(cfg, "nc")
					}
					if c == nil {
						continue
					}
					n := c.Len()
					if side == "live" && n > maxL {
						maxL = n
					}
					if side == "nonlive" && n > maxN {
						maxN = n
					}
					if capv != 0 && n > capv {
						addAnom(fmt.Sprintf("phase %d: %s cache holds %d entries at quiescence, capacity %d", ph, side, n, capv))
					}
				}
			}
			// time passes, sometimes the clean-up runs
			d := 1 + rng.Intn(2)
			now += d
			w.advance(d)
			if w.clt != nil && rng.Intn(2) == 0 {
				w.clt.ClearExpiredCache()
				tnow := time.Now()
				for side, c := range map[string]cache{"live": w.clt.ipCacheLive, "nonlive": w.clt.ipCacheNonLive} {
					life := vlcNonLife
					if side == "live" {
						life = vlcLiveLife
					}
					for ip, e := range vlcElems(c) {
						if vlcAgeClass(tnow.Sub(e.cachedTime)) >= life {
							addAnom(fmt.Sprintf("phase %d: expired entry %s left in the %s cache after ClearExpired", ph, vlcName(ip), side))
						}
					}
				}
			}
		}
		sort.Strings(anomalies)
		out.Emit(map[string]any{"kind": "concurrent", "cfg": vlcCfgKey(cfg), "shape": shape, "queries": total, "cached": cachedHits,
			"probes": atomic.LoadInt64(&w.probes), "maxLenLive": maxL, "maxLenNonLive": maxN, "anomalies": anomalies})
	}
}
