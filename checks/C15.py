"""C15 - every encoder in the registration channels is inverted exactly by its decoder.

A  TLC exhaustive on spec/Codec at the scaled limits (MaxU8/MaxLabel/MaxName/MaxTxtChunk/MaxU16 = 3/2/7/3/15, 2 pointers):
   RoundTrip, RejectNotAlter, DecoderTotal, Fresh, WrongKeyNeverReveals over every length up to beyond each limit, every name
   shape, every byte string up to length 6.  Non-vacuity: the "truncating" framing, the "unbounded" pointer writer and the
   "static" nonce instance must violate RejectNotAlter / RoundTrip / Fresh; the "inplace" decoder instance (a Reveal that
   consumes the buffer it was given) must violate RoundTrip.
B  Gen_Codec evaluates the same module at the REAL limits on the boundary partition (+ seeded samples in between) and prints
   one JSON case per evaluation (expected accept/reject, encoded length, prefix bytes, chunk structure, outcome of an exchange).
   Drivers inside the real packages instantiate each case with seeded random content and run the real encoders and decoders:
     msgformat   Add/RemoveRequestFormat, Add/RemoveResponseFormat                       (+ arbitrary bytes; thorough: every length 0..66000)
     dns         NewName/ParseName, WireFormat/MessageFromWireFormat, Encode/DecodeRDataTXT, 16-bit RDLENGTH and counts,
                 compression-pointer chains, seeded random messages from arbitrary sections, mutated wire bytes
     responder   requester's DNSPacketConn.send (overlay bridge) -> responder's responseFor for every payload length and several
                 base domains; requester.RequestAndRecv <-> Responder.RecvAndRespond over loopback UDP with fresh Noise keys
     transports  GCM / CTR / XOR / Nil obfuscators with key pairs seeded from VERIF_SEED (two encodings of one tag: both reveal,
                 they differ, another key does not reveal); UnmarshalAnypbTo with own / stripped / legacy / foreign type URL
   Cryptographic round trips are decided by execution on sampled keys; the spec supplies the law and the scenarios (DESIGN 6).
C  n/a (stateless codecs).

Decision on H-C15-2 (XORObfuscator and the zero-length tag): not reported.  The statement is about *tags* - byte strings that
prove knowledge of the shared secret (HMAC outputs; 32 bytes and more in every transport) - and the zero-length string is not
one: XOR's encoding of an n-byte tag is 2n bytes, so the empty encoding is indistinguishable from "no tag", and TryReveal's
explicit rejection of it is a guard, not a decoding failure of an encoded tag.  Nothing is silently altered (the decoder
returns an error, not another value).  The spec's tag domain therefore starts at length 1; what each obfuscator does with the
empty input is recorded in the evidence as an observation.
"""
import json, os
from concurrent.futures import ThreadPoolExecutor
import vlib

D = "pkg/registrars/dns-registrar/"
DRIVERS = [
    ("msgformat", D + "msgformat", ["common/vcommon_test.go", "pkg_dnsregistrar_msgformat/codec_msgformat_verif_test.go"], "msgformat",
     "^TestVerifCodecMsgformat$", None),
    ("dns", D + "dns", ["common/vcommon_test.go", "pkg_dnsregistrar_dns/codec_dns_verif_test.go"], "dns", "^TestVerifCodecDNS$", None),
    ("exchange", D + "responder", ["common/vcommon_test.go", "pkg_dnsregistrar_responder/codec_exchange_verif_test.go"], "responder",
     "^TestVerifCodecExchange$", [(D + "requester", ["pkg_dnsregistrar_requester/codec_bridge_verif.go"], "requester")]),
    ("transports", "pkg/transports", ["common/vcommon_test.go", "pkg_transports/codec_obf_verif_test.go"], "transports",
     "^TestVerifCodecObfuscators$", None),
]


def panic_site(out):
    """first frame of a Go panic that lies in the repository's own (non-harness) code, or None"""
    import re
    i = out.find("panic:")
    if i < 0:
        return None
    for m in re.finditer(r"^\s+(\S+\.go):(\d+)", out[i:], re.M):
        f = m.group(1)
        if "/pkg/" in f and "/go/pkg/mod/" not in f and not os.path.basename(f).startswith("zz_") and "_verif" not in f:
            return "%s:%s" % (f.split("/pkg/", 1)[1], m.group(2))
        if os.path.basename(f).startswith("zz_") or "_verif" in f or "/verif" in f:
            return None      # the harness itself: infrastructure
    return None


def run(ctx):
    ctx.level = "exploration"
    thorough = ctx.tier == "thorough"
    sdir = ctx.spec_copy("Codec")

    # ---- A
    r = ctx.tlc(sdir, "MC_Codec.tla", "MC_Codec_thorough.cfg" if thorough else "MC_Codec.cfg", timeout=1200)
    ctx.require_design_ok(r, "Codec at the scaled limits")
    ctx.log("A: exhaustive %d distinct evaluations, %d generated (%.1fs)" % (r["distinct"], r["generated"], r["wall_s"]))
    nonvac = {}
    for inst, inv in (("truncating", "RejectNotAlter"), ("unbounded", "RoundTrip"), ("static", "Fresh"), ("inplace", "RoundTrip"), ("merge", "RoundTrip")):
        r2 = ctx.tlc(sdir, "MC_Codec.tla", "MC_Codec_%s.cfg" % inst, timeout=300, count=False, workers=4)
        if r2["inv"] != inv:
            raise vlib.InfraError("the %s instance should violate %s, got %s" % (inst, inv, r2["inv"]))
        nonvac[inst] = inv
    ctx.stage("A", invariants=["RejectNotAlter", "RoundTrip", "DecoderTotal", "Fresh", "WrongKeyNeverReveals"],
              nonvacuity="broken instances violate as expected: %s" % nonvac,
              scaled_limits="MaxU8=3 MaxLabel=2 MaxName=7 MaxTxtChunk=3 MaxU16=15 PtrLimit=2")

    # ---- cases at the real limits (boundary partition + seeded samples)
    rng = ctx.rng
    k = 120 if thorough else 8
    samples = {
        "SAMPLES_REQ": sorted({rng.randrange(3, 254) for _ in range(k)} | {rng.randrange(258, 600) for _ in range(k // 2)}),
        "SAMPLES_RESP": sorted({rng.randrange(258, 65534) for _ in range(k)} | {rng.randrange(65538, 70000) for _ in range(k // 4)}),
        "SAMPLES_TXT": sorted({rng.randrange(2, 1100) for _ in range(k)}),
        "SAMPLES_EXRESP": sorted({rng.randrange(2, 900) for _ in range(k // 2)}),
    }
    cfg = open(os.path.join(sdir, "Gen_Codec.cfg")).read()
    for key, vals in samples.items():
        cfg = cfg.replace(key, ", ".join(map(str, vals)))
    open(os.path.join(sdir, "Gen_Codec_run.cfg"), "w").write(cfg)
    g = ctx.tlc(sdir, "Gen_Codec.tla", "Gen_Codec_run.cfg", timeout=900, workers=8, count=False)
    if g["inv"]:
        raise vlib.InfraError("generator failed (%s): %s" % (g["inv"], g["out"][-2000:]))
    cases, seen_err = [], set()
    with open(g["beh_file"]) as f:
        for line in f:
            c = json.loads(line)
            if c["a"] == "Exchange" and c["outcome"].startswith("request"):
                # the request never gets out: the response size is irrelevant, keep one case per request size and domain
                kk = (c["nreq"], json.dumps(c["dom"]))
                if kk in seen_err:
                    continue
                seen_err.add(kk)
            cases.append(c)
    cases.sort(key=lambda c: json.dumps(c, sort_keys=True))
    per = {}
    for c in cases:
        per[c["a"]] = per.get(c["a"], 0) + 1
    ctx.log("B: %d cases at the real limits: %s" % (len(cases), per))
    if len(cases) < 1000 or len(per) < 11:
        raise vlib.InfraError("too few cases generated: %s" % per)
    casef = os.path.join(ctx.scratch, "codec_cases.ndjson")
    with open(casef, "w") as f:
        for c in cases:
            f.write(json.dumps(c) + "\n")
    ctx.sample({"stage": "B", "case": [c for c in cases if c["a"] == "ReqFrame" and c["n"] == 256][0]})
    ctx.sample({"stage": "B", "case": [c for c in cases if c["a"] == "Labels" and not c["accept"]][0]})

    # ---- B: the real packages
    env_extra = {"VERIF_KEYS": 2000 if thorough else 60, "VERIF_MSGS": 300000 if thorough else 3000,
                 "VERIF_ARB": 2000000 if thorough else 20000, "VERIF_SWEEP_MAX": 66000 if thorough else 0}

    def one(d):
        name, pkg, files, pname, rx, extra = d
        outp = os.path.join(ctx.scratch, "out_%s.ndjson" % name)
        env = dict(env_extra, VERIF_IN=casef, VERIF_OUT=outp)
        res = ctx.go_test(pkg, files, pname, rx, env=env, timeout=2400, extra_overlays=extra)
        return name, res, ctx.read_results(outp)

    evaluations, classes, observations = 0, set(), []
    with ThreadPoolExecutor(4) as ex:
        results = list(ex.map(one, DRIVERS))
    for name, res, rows in results:
        summ = [x for x in rows if x.get("kind") == "summary"]
        if not summ:
            # a panic in a goroutine of the real code (e.g. the responder's per-query goroutine) takes the whole driver down
            where = panic_site(res["out"])
            if where:
                ctx.violation("%s:panic:%s" % (name, where), "the real code panics (process-fatal): %s" % where, {"output": res["out"][-3000:]})
                for m in [x for x in rows if x.get("kind") == "mismatch"]:
                    ctx.violation(m["key"], m["what"], {"case": m.get("case"), "got": m.get("got"), "driver": name})
                continue
            raise vlib.InfraError("driver %s did not finish:\n%s" % (name, res["out"][-3000:]))
        summ = summ[0]
        evaluations += summ["evaluations"]
        classes |= {name + "/" + c for c in summ["classes"]}
        mism = [x for x in rows if x.get("kind") == "mismatch"]
        for m in mism:
            ctx.violation(m["key"], m["what"], {"case": m.get("case"), "got": m.get("got"), "driver": name})
        for ob in [x for x in rows if x.get("kind") == "observation"]:
            observations.append(ob)
        ctx.stage("B_" + name, evaluations=summ["evaluations"], classes=len(summ["classes"]), mismatches=len(mism), wall_s=res["wall_s"],
                  **({"key_pairs": summ["key_pairs"]} if "key_pairs" in summ else {}),
                  **({"arbitrary_inputs": summ["arbitrary"]} if "arbitrary" in summ else {}))
        ctx.log("B: %-10s %6d evaluations, %3d classes, %d mismatches (%.1fs)" % (name, summ["evaluations"], len(summ["classes"]), len(mism), res["wall_s"]))
    for ob in observations:
        ctx.notes.append("observation (not judged): %s: %s" % (ob["what"], json.dumps(ob["result"], sort_keys=True)))
    ctx.cov["evaluations"] = evaluations
    ctx.cov["distinct_nontrivial"] = len(classes)
    ctx.cov["exhaustive"] = False
    ctx.cov["rule"] = ("a case class is (codec, boundary class of every length parameter relative to the real limit - e.g. max-1 / max / max+1, "
                       "number of chunks and whether the last one is full, name length 254/255/256 -, base-domain shape, obfuscator kind x tag-length "
                       "class, exchange outcome); classes are counted by the drivers from what they executed; key pairs and random content do not add classes")
    # ---- E: the encrypted exchange with several clients at once.  "Decoding an encoded value yields the original" must hold for the
    # request the responder decodes while OTHER clients' requests arrive back to back (it decodes each datagram in its own goroutine):
    # spec/DnsTunnel (NoCrossTalk: a client accepts only the answer to its own request) exhaustively, then three real requesters
    # against the real responder, ungated and fault-free - every request must be decoded as itself and answered to its own sender.
    tdir = ctx.spec_copy("DnsTunnel")
    rt = ctx.tlc(tdir, "DnsTunnel.tla", "MC_DnsTunnel.cfg", timeout=900, workers=6)
    ctx.require_design_ok(rt, "DnsTunnel (concurrent exchanges)")
    rk = ctx.tlc(tdir, "DnsTunnel.tla", "MC_DnsTunnel_nokeycheck.cfg", timeout=300, count=False, workers=4)
    if rk["inv"] != "NoCrossTalk":
        raise vlib.InfraError("the DnsTunnel instance without the key check should violate NoCrossTalk, got %s" % rk["inv"])
    sp = os.path.join(ctx.scratch, "tunnel_stress.ndjson")
    rs = ctx.go_test(D + "responder", ["common/vcommon_test.go", "pkg_dnsregistrar_responder/dnstunnel_verif_test.go"], "responder",
                     "^TestVerifDnsTunnelStress$", env={"VERIF_OUT": sp, "VERIF_ROUNDS": 40 if thorough else 8}, timeout=600)
    srows = ctx.read_results(sp)
    ssum = [x for x in srows if x.get("kind") == "summary"]
    if not ssum:
        raise vlib.InfraError("concurrent exchange driver did not finish:\n" + rs["out"][-2000:])
    for x in srows:
        if x.get("kind") == "prop":
            ctx.violation("exchange:concurrent:%s" % x["prop"], "three requesters against the responder at once: %s" % x["detail"], x)
    ctx.stage("E", **{k: v for k, v in ssum[0].items() if k != "kind"})
    ctx.assumptions += [
        "DNS names are always built through NewName / ParseName (a Name literal with a 64-byte label makes WriteName panic by design)",
        "cryptographic round trips (X25519+AES obfuscators, Noise-N) are decided by executing the real primitives on key pairs seeded from "
        "VERIF_SEED; the specification supplies the algebraic law and the scenarios, not a proof",
        "the empty tag is outside the tag domain (see the module docstring): recorded as an observation, not judged",
        "a request that does not fit a DNS name is rejected by the query encoder (send returns ErrNameTooLong); that its caller sendLoop only "
        "logs the error (RequestAndRecv then waits for ever) is not judged by this property",
        "decoders on arbitrary bytes: structured space + truncation / byte-flip neighbourhoods of well-formed messages, not coverage-guided fuzzing",
    ]
