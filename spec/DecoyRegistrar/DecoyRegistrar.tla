--------------------------- MODULE DecoyRegistrar ---------------------------
(***************************************************************************)
(* The client-side decoy registrar                                         *)
(*   pkg/registrars/decoy-registrar/decoy-registrar.go  Register, Send     *)
(*   pkg/registrars/decoy-registrar/utils.go            readAndClose       *)
(*                                                                         *)
(* One DecoyRegistrar object is modelled over up to Rounds sequential      *)
(* calls of Register.  A call starts w sender goroutines (go r.Send, one   *)
(* per selected decoy) and then runs the collector (`for err := range      *)
(* dialErrors`) in the caller's goroutine.  One action per step of the     *)
(* real code at which something that another goroutine can see happens:    *)
(*                                                                         *)
(*   Call(n,dl,pre)  Register entered with Width n and a context that has  *)
(*                   (dl) / has not a deadline and is (pre) / is not       *)
(*                   already ended; dialErrors = make(chan error, n); the  *)
(*                   n senders are started (Send: deadline := the          *)
(*                   context's, else now + 1.9..4.0 s; WithDeadline)       *)
(*   DialRet(i,o)    cjSession.Dialer returned for sender i: "ok",         *)
(*                   "unreach" (a net.OpError "connect: network is        *)
(*                   unreachable"), "refused" (any other error), "timeout" *)
(*                   (Send's own dial deadline fired), "ctx" (the dial was *)
(*                   given up because the context ended); r.onceTCP.Do     *)
(*   TlsRet(i,o)     createTLSConn (+ createRequest) returned: "ok",       *)
(*                   "err" (handshake failed; dialConn.Close()), "timeout" *)
(*                   (the same, because TLSDeadline passed),               *)
(*                   "nokeystream" (handshake fine, r.onceTLS.Do, but      *)
(*                   createRequest fails: GetOutKeystream on a non-AEAD    *)
(*                   suite)                                                *)
(*   WriteRet(i,o)   tlsConn.Write(httpRequest) returned: "ok" (the        *)
(*                   registration is on the wire) / "err" (tlsConn.Close())*)
(*   Report(i)       dialError <- pend[i]  (blocks while the channel is    *)
(*                   full); a sender that reported a failure returns, one  *)
(*                   that reported nil goes on to readAndClose             *)
(*   LingerEnd(i,h)  readAndClose(dialConn, 15 s) returned: a "byte"       *)
(*                   arrived (Close), the peer closed ("eof") or the read  *)
(*                   deadline passed ("timeout")                           *)
(*   Recv            one iteration of the collector loop                   *)
(*   Decide          the code after the loop: NETWORK UNREACHABLE or       *)
(*                   "Successfully sent registrations, sleeping for"       *)
(*   Return(sl)      Register returns; after a success it has slept        *)
(*                   3 s + rtt*[0..3] ("full") unless the context ended    *)
(*                   ("cut")                                               *)
(*   CtxEnd          the caller cancels the context / its deadline passes  *)
(*   AbortOnCtx(i), CtxAbort   intended variant only (see below)           *)
(*                                                                         *)
(* Variant selects what is modelled:                                       *)
(*   "asfound"   what the code does (the conformance stages hold the real  *)
(*               code to this variant)                                     *)
(*   "intended"  what a caller of Register relies on; every difference is  *)
(*               guarded by the operator Intended and is stated by an I_*  *)
(*               property below that the as-found variant violates:        *)
(*     - any report that is not "unreachable" ends the collector loop and  *)
(*       Register returns (reg, nil) after the sleep, also when that       *)
(*       report is a FAILURE and no registration was written to any decoy  *)
(*       (connection refused, TLS error, a context that was cancelled      *)
(*       before the call, ...)                        I_SuccessMeansWritten*)
(*     - the collector does not look at the context: when it ends while    *)
(*       the senders are stuck Register keeps waiting   I_CtxEndLeadsToReturn*)
(*     - only the dial is bound to the context; the TLS deadline is        *)
(*       now + 2.1..5.9 s * rtt_ms (minutes), handshake and write go on    *)
(*       after the context ended                        I_NoWorkAfterCtxEnd*)
(*     - createRequest failing leaves the connection open; readAndClose    *)
(*       closes only when a byte arrived                      I_NoConnLeak *)
(*     - onceTCP / onceTLS belong to the registrar, not to the call: the   *)
(*       second Register on the same object never measures, its sleep is   *)
(*       computed from the first call's RTT                I_RttOfThisCall *)
(*     - the time of a FAILED dial is recorded as the TCP RTT              *)
(*                                                    I_RttOfSuccessfulDial*)
(*   "noonce"    deliberately broken: every dial overwrites the RTT        *)
(*               (must violate OnceTCP)                                    *)
(* ChanCap selects the other deliberately broken instances: "less1", a     *)
(* channel of capacity w-1 (a sender has to WAIT for the collector: must   *)
(* violate ReportNeverBlocks; nobody waits for ever, though: the collector *)
(* always takes one) and "unbuffered" (senders that report after Register  *)
(* returned block for good: must violate ReportGetsThrough).               *)
(***************************************************************************)
EXTENDS Naturals, Sequences, FiniteSets, TLC

CONSTANTS Variant,     \* "asfound" | "intended" | "noonce"
          Widths,      \* set of widths a call may use (each >= 1)
          ChanCap,     \* "width": make(chan error, width); broken instances: "less1" (width-1), "unbuffered" (make(chan error))
          Rounds,      \* number of sequential Register calls on the one registrar
          Deadlines,   \* subset of BOOLEAN: may the context carry a deadline
          PreCancel,   \* subset of BOOLEAN: may the context be ended before the call
          DialOut,     \* subset of {"ok", "unreach", "refused", "timeout"}  ("ctx" is always possible once the context ended)
          TlsOut,      \* subset of {"ok", "err", "timeout", "nokeystream"}
          WriteOut,    \* subset of {"ok", "err"}
          LingerOut    \* subset of {"byte", "eof", "timeout"}

VARIABLES round,     \* Register calls so far
          w,         \* width of the current call
          hasdl,     \* the current context has a deadline
          ctx,       \* "live" | "ended"
          cpc,       \* collector: "idle" | "recv" | "after" | "sleep" | "fail" | "done"
          uc,        \* unreachableCount
          nrecv,     \* reports received
          gotnil,    \* a nil report was received
          aborted,   \* (intended) the collector gave up because the context ended
          dec,       \* "-" | "sleep" | "unreachable" | "failed" | "ctx"
          chan,      \* dialErrors: sequence of [s, v]
          spc,       \* sender: "off" | "dial" | "tls" | "write" | "report" | "linger" | "done"
          pend,      \* what the sender reports: "-" | "nil" | "unreach" (RegError Unreachable) | "dialerr" (the dialer's error as
                     \* it is) | "tlserr" / "reqerr" / "wrerr" (RegError TLSError: createConn / createReq / Write) | "ctxerr"
          conn,      \* "none" | "open" | "closed"
          wrote,     \* the registration request was written to the decoy
          reports,   \* number of channel sends of the sender
          tcpBy,     \* None | [r, s, ok]: whose dial is stored in stats.TcpToDecoy (round, sender, the dial succeeded)
          tlsBy,     \* None | [r, s]
          dialFirst, \* history: first sender of this call whose dial was measured (0: none)
          tlsFirst,  \* history: first sender of this call whose handshake finished (0: none)
          late,      \* history: a handshake finished / a registration was written after the context ended
          result,    \* None | [err, reg, slept]
          obs

None == [none |-> TRUE]
Intended == Variant = "intended"
MaxW == CHOOSE n \in Widths : \A m \in Widths : m <= n
All == 1..MaxW
S == 1..w
Cap == IF ChanCap = "width" THEN w ELSE IF ChanCap = "less1" THEN w - 1 ELSE 0
\* a send goes through when there is room - or, on an unbuffered channel, when the collector is waiting to receive
CanSend == Len(chan) < Cap \/ (Cap = 0 /\ cpc = "recv" /\ chan = <<>>)

vars == <<round, w, hasdl, ctx, cpc, uc, nrecv, gotnil, aborted, dec, chan, spc, pend, conn, wrote, reports,
          tcpBy, tlsBy, dialFirst, tlsFirst, late, result, obs>>
view == <<round, w, hasdl, ctx, cpc, uc, nrecv, gotnil, aborted, dec, chan, spc, pend, conn, wrote, reports,
          tcpBy, tlsBy, dialFirst, tlsFirst, late, result>>
collector == <<cpc, uc, nrecv, gotnil, aborted, dec, result>>

Init ==
  /\ round = 0 /\ w = 0 /\ hasdl = FALSE /\ ctx = "live" /\ cpc = "idle" /\ uc = 0 /\ nrecv = 0 /\ gotnil = FALSE
  /\ aborted = FALSE /\ dec = "-" /\ chan = <<>>
  /\ spc = [i \in All |-> "off"] /\ pend = [i \in All |-> "-"] /\ conn = [i \in All |-> "none"]
  /\ wrote = [i \in All |-> FALSE] /\ reports = [i \in All |-> 0]
  /\ tcpBy = None /\ tlsBy = None /\ dialFirst = 0 /\ tlsFirst = 0 /\ late = FALSE /\ result = None
  /\ obs = [a |-> "Init"]

AllQuiet == \A i \in All : spc[i] \in {"off", "done"}

\* ------------------------------------------------------------------ the caller
Call(n, dl, pre) ==
  /\ cpc \in {"idle", "done"} /\ AllQuiet /\ round < Rounds
  /\ n \in Widths /\ dl \in Deadlines /\ pre \in PreCancel
  /\ round' = round + 1 /\ w' = n /\ hasdl' = dl /\ ctx' = (IF pre THEN "ended" ELSE "live")
  /\ cpc' = "recv" /\ uc' = 0 /\ nrecv' = 0 /\ gotnil' = FALSE /\ aborted' = FALSE /\ dec' = "-" /\ chan' = <<>>
  /\ spc' = [i \in All |-> IF i <= n THEN "dial" ELSE "off"]
  /\ pend' = [i \in All |-> "-"] /\ conn' = [i \in All |-> "none"]
  /\ wrote' = [i \in All |-> FALSE] /\ reports' = [i \in All |-> 0]
  \* as found the sync.Once values and the stored RTTs live as long as the registrar object
  /\ IF Intended THEN tcpBy' = None /\ tlsBy' = None ELSE UNCHANGED <<tcpBy, tlsBy>>
  /\ dialFirst' = 0 /\ tlsFirst' = 0 /\ late' = FALSE /\ result' = None
  \* dlsrc: where the senders' dial deadline comes from (decoy-registrar.go:331-335)
  /\ obs' = [a |-> "Call", round |-> round + 1, w |-> n, dl |-> dl, pre |-> pre, dlsrc |-> (IF dl THEN "ctx" ELSE "own")]

CtxEnd ==
  /\ ctx = "live" /\ cpc # "idle" /\ ~(cpc = "done" /\ AllQuiet)
  /\ ctx' = "ended"
  /\ obs' = [a |-> "CtxEnd"]
  /\ UNCHANGED <<round, w, hasdl, cpc, uc, nrecv, gotnil, aborted, dec, chan, spc, pend, conn, wrote, reports,
                 tcpBy, tlsBy, dialFirst, tlsFirst, late, result>>

\* ------------------------------------------------------------------ the senders (Send, decoy-registrar.go:329-397)
\* which dials are measured: as found every dial that returns, failed ones included (line 344-347 precede the error check)
Measured(o) == IF Intended THEN o = "ok" /\ ctx = "live" ELSE TRUE

DialRet(i, o) ==
  /\ i \in S /\ spc[i] = "dial"
  /\ o \in DialOut \cup {"ctx"}
  /\ o = "ctx" => ctx = "ended"
  /\ o = "timeout" => ~hasdl       \* Send's own deadline; with a context deadline the dial ends when the context does
  /\ LET set == Measured(o) /\ (tcpBy = None \/ Variant = "noonce")
         goon == o = "ok" /\ ~(Intended /\ ctx = "ended") IN
     /\ tcpBy' = IF set THEN [r |-> round, s |-> i, ok |-> (o = "ok")] ELSE tcpBy
     /\ dialFirst' = IF dialFirst = 0 /\ Measured(o) THEN i ELSE dialFirst
     /\ spc' = [spc EXCEPT ![i] = IF goon THEN "tls" ELSE "report"]
     /\ conn' = [conn EXCEPT ![i] = IF goon THEN "open" ELSE IF o = "ok" THEN "closed" ELSE "none"]
     /\ pend' = [pend EXCEPT ![i] = IF goon THEN "-" ELSE IF o = "unreach" THEN "unreach"
                                    ELSE IF o = "ok" THEN "ctxerr" ELSE "dialerr"]
     /\ obs' = [a |-> "DialRet", s |-> i, o |-> o, set |-> set]
  /\ UNCHANGED <<round, w, hasdl, ctx, cpc, uc, nrecv, gotnil, aborted, dec, chan, wrote, reports, tlsBy, tlsFirst, late, result>>

TlsRet(i, o) ==
  /\ i \in S /\ spc[i] = "tls" /\ o \in TlsOut
  /\ Intended => ctx = "live"
  /\ LET hs == o \in {"ok", "nokeystream"}              \* the handshake itself succeeded
         set == hs /\ (tlsBy = None \/ Variant = "noonce") IN
     /\ tlsBy' = IF set THEN [r |-> round, s |-> i] ELSE tlsBy
     /\ tlsFirst' = IF hs /\ tlsFirst = 0 THEN i ELSE tlsFirst
     /\ late' = (late \/ (hs /\ ctx = "ended"))
     /\ spc' = [spc EXCEPT ![i] = IF o = "ok" THEN "write" ELSE "report"]
     /\ pend' = [pend EXCEPT ![i] = IF o = "ok" THEN "-" ELSE IF o = "nokeystream" THEN "reqerr" ELSE "tlserr"]
     \* line 365 closes after a failed handshake; lines 378-382 (createRequest failed) do not
     /\ conn' = [conn EXCEPT ![i] = IF o = "ok" THEN "open" ELSE IF o # "nokeystream" \/ Intended THEN "closed" ELSE "open"]
     /\ obs' = [a |-> "TlsRet", s |-> i, o |-> o, set |-> set, closed |-> (conn'[i] = "closed")]
  /\ UNCHANGED <<round, w, hasdl, ctx, cpc, uc, nrecv, gotnil, aborted, dec, chan, wrote, reports, tcpBy, dialFirst, result>>

WriteRet(i, o) ==
  /\ i \in S /\ spc[i] = "write" /\ o \in WriteOut
  /\ Intended => ctx = "live"
  /\ wrote' = [wrote EXCEPT ![i] = (o = "ok")]
  /\ late' = (late \/ (o = "ok" /\ ctx = "ended"))
  /\ pend' = [pend EXCEPT ![i] = IF o = "ok" THEN "nil" ELSE "wrerr"]
  /\ conn' = [conn EXCEPT ![i] = IF o = "ok" THEN "open" ELSE "closed"]
  /\ spc' = [spc EXCEPT ![i] = "report"]
  \* reg: what went onto the wire decodes as this session's registration
  /\ obs' = [a |-> "WriteRet", s |-> i, o |-> o, reg |-> (o = "ok"), closed |-> (o # "ok")]
  /\ UNCHANGED <<round, w, hasdl, ctx, cpc, uc, nrecv, gotnil, aborted, dec, chan, reports, tcpBy, tlsBy, dialFirst, tlsFirst, result>>

\* intended only: handshake and write are bound to the context as well
AbortOnCtx(i) ==
  /\ Intended /\ i \in S /\ spc[i] \in {"tls", "write"} /\ ctx = "ended"
  /\ spc' = [spc EXCEPT ![i] = "report"] /\ pend' = [pend EXCEPT ![i] = "ctxerr"] /\ conn' = [conn EXCEPT ![i] = "closed"]
  /\ obs' = [a |-> "AbortOnCtx", s |-> i]
  /\ UNCHANGED <<round, w, hasdl, ctx, cpc, uc, nrecv, gotnil, aborted, dec, chan, wrote, reports, tcpBy, tlsBy,
                 dialFirst, tlsFirst, late, result>>

Report(i) ==
  /\ i \in S /\ spc[i] = "report"
  /\ CanSend                                           \* a send on a full channel blocks
  /\ chan' = Append(chan, [s |-> i, v |-> pend[i]])
  /\ reports' = [reports EXCEPT ![i] = @ + 1]
  /\ spc' = [spc EXCEPT ![i] = IF pend[i] = "nil" THEN "linger" ELSE "done"]
  \* what a sender puts into the channel after Register returned is never seen by anybody: only nil / not nil is observable
  \* (a sender that reported nil goes on to readAndClose, the others return)
  /\ obs' = [a |-> "Report", s |-> i, nil |-> (pend[i] = "nil")]
  /\ UNCHANGED <<round, w, hasdl, ctx, cpc, uc, nrecv, gotnil, aborted, dec, pend, conn, wrote, tcpBy, tlsBy,
                 dialFirst, tlsFirst, late, result>>

\* readAndClose (utils.go:173-184): Close only after a successful one-byte read
LingerEnd(i, h) ==
  /\ i \in S /\ spc[i] = "linger" /\ h \in LingerOut
  /\ spc' = [spc EXCEPT ![i] = "done"]
  /\ conn' = [conn EXCEPT ![i] = IF h = "byte" \/ Intended THEN "closed" ELSE "open"]
  /\ obs' = [a |-> "LingerEnd", s |-> i, how |-> h, closed |-> (conn'[i] = "closed")]
  /\ UNCHANGED <<round, w, hasdl, ctx, cpc, uc, nrecv, gotnil, aborted, dec, chan, pend, wrote, reports, tcpBy, tlsBy,
                 dialFirst, tlsFirst, late, result>>

\* ------------------------------------------------------------------ the collector (decoy-registrar.go:296-326)
Recv ==
  /\ cpc = "recv" /\ chan # <<>>
  /\ LET h == Head(chan) IN
     /\ chan' = Tail(chan) /\ nrecv' = nrecv + 1
     /\ uc' = IF h.v = "unreach" THEN uc + 1 ELSE uc
     /\ gotnil' = (gotnil \/ h.v = "nil")
     /\ cpc' = IF h.v = "unreach" THEN (IF uc + 1 < w THEN "recv" ELSE "after")
               ELSE IF h.v = "nil" \/ ~Intended THEN "after"         \* as found: ANY other report ends the loop
               ELSE (IF nrecv + 1 < w THEN "recv" ELSE "after")
     /\ obs' = [a |-> "Recv", s |-> h.s, v |-> h.v]
  /\ UNCHANGED <<round, w, hasdl, ctx, aborted, dec, spc, pend, conn, wrote, reports, tcpBy, tlsBy, dialFirst, tlsFirst, late, result>>

\* intended only: the collector watches the context
CtxAbort ==
  /\ Intended /\ cpc = "recv" /\ ctx = "ended" /\ chan = <<>>
  /\ cpc' = "after" /\ aborted' = TRUE
  /\ obs' = [a |-> "CtxAbort"]
  /\ UNCHANGED <<round, w, hasdl, ctx, uc, nrecv, gotnil, dec, chan, spc, pend, conn, wrote, reports, tcpBy, tlsBy,
                 dialFirst, tlsFirst, late, result>>

Decide ==
  /\ cpc = "after"
  /\ LET d == IF uc = w THEN "unreachable"
              ELSE IF ~Intended \/ gotnil THEN "sleep"
              ELSE IF aborted THEN "ctx" ELSE "failed" IN
     /\ dec' = d
     /\ cpc' = IF d = "sleep" THEN "sleep" ELSE "fail"
     \* dur: the announced sleep is 3000 ms + rttInt(stored TCP RTT) * [0..3] ms (getRandomDurationByRTT)
     /\ obs' = [a |-> "Decide", out |-> d, dur |-> (IF d = "sleep" THEN "rtt" ELSE "-")]
  /\ UNCHANGED <<round, w, hasdl, ctx, uc, nrecv, gotnil, aborted, chan, spc, pend, conn, wrote, reports, tcpBy, tlsBy,
                 dialFirst, tlsFirst, late, result>>

Return(sl) ==
  /\ \/ cpc = "fail" /\ sl = "no"
     \/ cpc = "sleep" /\ sl = "cut" /\ ctx = "ended"       \* lib.SleepWithContext
     \/ cpc = "sleep" /\ sl = "full" /\ ctx = "live"
  /\ result' = [err |-> (IF cpc = "sleep" THEN "none" ELSE dec), reg |-> (cpc = "sleep"), slept |-> sl]
  /\ cpc' = "done"
  /\ obs' = [a |-> "Return", err |-> result'.err, reg |-> result'.reg, slept |-> sl]
  /\ UNCHANGED <<round, w, hasdl, ctx, uc, nrecv, gotnil, aborted, dec, chan, spc, pend, conn, wrote, reports, tcpBy, tlsBy,
                 dialFirst, tlsFirst, late>>

\* ------------------------------------------------------------------ next-state relation
\* steps the code takes by itself as soon as they are enabled (no peer, no timer involved)
Internal == \/ \E i \in All : Report(i) \/ AbortOnCtx(i)
            \/ Recv \/ CtxAbort \/ Decide
            \/ Return("no") \/ Return("cut")
InternalEnabled ==
  \/ \E i \in S : spc[i] = "report" /\ CanSend
  \/ \E i \in S : Intended /\ spc[i] \in {"tls", "write"} /\ ctx = "ended"
  \/ cpc = "recv" /\ chan # <<>>
  \/ Intended /\ cpc = "recv" /\ ctx = "ended"
  \/ cpc \in {"after", "fail"}
  \/ cpc = "sleep" /\ ctx = "ended"
\* steps of the environment: peers, timers, the caller
Peer == \E i \in All : \/ \E o \in DialOut \cup {"ctx"} : DialRet(i, o)
                       \/ \E o \in TlsOut : TlsRet(i, o)
                       \/ \E o \in WriteOut : WriteRet(i, o)
                       \/ \E h \in LingerOut : LingerEnd(i, h)
Env == \/ \E n \in Widths, dl \in Deadlines, pre \in PreCancel : Call(n, dl, pre)
       \/ CtxEnd
       \/ Peer
       \/ Return("full")
Next == Internal \/ Env

Spec == Init /\ [][Next]_vars
\* everything answers: peers, timers and the code itself
FairSpec == Spec /\ WF_vars(Internal) /\ WF_vars(Peer) /\ WF_vars(Return("full"))
\* only the code itself is fair: peers may stall for ever, the sleep timer runs
StallSpec == Spec /\ WF_vars(Internal) /\ WF_vars(Return("full"))

\* ------------------------------------------------------------------ properties (hold as found and as intended)
TypeOK ==
  /\ round \in 0..Rounds /\ w \in Widths \cup {0} /\ hasdl \in BOOLEAN /\ ctx \in {"live", "ended"}
  /\ cpc \in {"idle", "recv", "after", "sleep", "fail", "done"}
  /\ uc \in 0..MaxW /\ nrecv \in 0..MaxW /\ gotnil \in BOOLEAN /\ aborted \in BOOLEAN
  /\ dec \in {"-", "sleep", "unreachable", "failed", "ctx"}
  /\ \A k \in 1..Len(chan) : chan[k].s \in S /\ chan[k].v \in {"nil", "unreach", "dialerr", "tlserr", "reqerr", "wrerr", "ctxerr"}
  /\ \A i \in All : /\ spc[i] \in {"off", "dial", "tls", "write", "report", "linger", "done"}
                    /\ pend[i] \in {"-", "nil", "unreach", "dialerr", "tlserr", "reqerr", "wrerr", "ctxerr"}
                    /\ conn[i] \in {"none", "open", "closed"}
                    /\ wrote[i] \in BOOLEAN /\ reports[i] \in Nat
                    /\ i > w => spc[i] = "off"
  /\ (cpc = "done") <=> (result # None)
  /\ result # None => /\ result.err \in {"none", "unreachable", "failed", "ctx"}
                      /\ result.reg \in BOOLEAN /\ result.slept \in {"no", "cut", "full"}

\* every sender reports exactly once ...
ReportAtMostOnce == \A i \in All : reports[i] <= 1
ReportedWhenDone == \A i \in S : (spc[i] \in {"linger", "done"}) <=> (reports[i] = 1)
\* ... and is never blocked by the channel, whether or not Register is still there to read it
ReportNeverBlocks == \A i \in S : spc[i] = "report" => Len(chan) < Cap
ChanBound == Len(chan) <= w
\* Register returns only after at least one sender reported (intended: or the context ended)
ReturnNeedsReport == cpc \in {"after", "sleep", "fail", "done"} => (nrecv >= 1 \/ (Intended /\ aborted))
\* the Unreachable error iff ALL senders reported unreachable
UnreachableIffAll ==
  cpc = "done" => ((result.err = "unreachable") <=> (~aborted /\ \A i \in S : pend[i] = "unreach" /\ reports[i] = 1))
\* (reg, nil) or (nil, err)
RegIffNoError == cpc = "done" => ((result.err = "none") <=> result.reg)
\* a sender reports nil only after its registration request went out; a failed TLS step / write closed the connection
NilMeansWritten == \A i \in S : pend[i] = "nil" => wrote[i]
ClosedOnError == \A i \in S : pend[i] \in {"tlserr", "wrerr", "ctxerr"} => conn[i] = "closed"
\* sync.Once: the stored RTTs are those of the first dial / handshake to finish and do not change afterwards
OnceTCP == [][(tcpBy # None /\ round' = round) => tcpBy' = tcpBy]_vars
OnceTLS == [][(tlsBy # None /\ round' = round) => tlsBy' = tlsBy]_vars
RttIsFirst == /\ (tcpBy # None /\ tcpBy.r = round) => tcpBy.s = dialFirst
              /\ (tlsBy # None /\ tlsBy.r = round) => tlsBy.s = tlsFirst
\* the sleep is computed from an RTT that has been stored (the sender that reported has been through onceTCP)
RttReadyAtSleep == cpc = "sleep" => tcpBy # None
\* once Register has returned the collector does nothing more (until the next call)
NothingAfterReturn == [][(result # None /\ round' = round) => UNCHANGED collector]_vars
\* with everything answering, Register returns and every sender ends
Termination == (cpc \in {"recv", "after", "sleep", "fail"}) ~> (cpc = "done" /\ AllQuiet)
\* peers may stall (StallSpec): still, a sender that has its outcome gets rid of it - Register may be gone, the channel
\* takes it - and once the loop is left Register returns
ReportGetsThrough == \A i \in All : (spc[i] = "report") ~> (spc[i] \in {"linger", "done"})
LoopExitLeadsToReturn == (cpc \in {"after", "sleep", "fail"}) ~> (cpc = "done")

\* ------------------------------------------------------------------ what a caller relies on (intended variant only)
\* success means a registration was written to at least one decoy
I_SuccessMeansWritten == (cpc = "done" /\ result.err = "none") => \E i \in S : wrote[i]
\* nothing is sent on behalf of a context that has ended
I_NoWorkAfterCtxEnd == ~late
\* a sender that is through has not left its connection open
I_NoConnLeak == \A i \in S : spc[i] = "done" => conn[i] # "open"
\* the RTT the sleep is computed from was measured during this call, on a dial that succeeded
I_RttOfThisCall == (cpc = "sleep" /\ tcpBy # None) => tcpBy.r = round
I_RttOfSuccessfulDial == tcpBy # None => tcpBy.ok
\* the end of the context makes Register return even if every peer stalls (checked under StallSpec)
I_CtxEndLeadsToReturn == (ctx = "ended" /\ cpc # "idle") ~> (cpc = "done")
=============================================================================
