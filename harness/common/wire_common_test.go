//go:build verif

package PKGNAME

// Shared by the C11 (spec/Wire) drivers; instantiated per package by bin/vlib.py like vcommon_test.go.
//
//   vwRow            one row TLC emitted: entry point, field -> shape class, expectation, guards exercised
//   vwWrapper...     row -> concrete pb.C2SWrapper / bytes
//   vwGuard          runs one delivery under recover() + a per-call timeout and extracts the crash site
//   vwRun            the crash-resilient row loop: progress marker (so that a panic in a goroutine the harness cannot
//                    recover - which kills the test binary - is attributed to the row in flight and the run is resumed
//                    behind it by checks/C11.py), mutation neighbourhood (truncations, bit flips), result records
//
// Only standard library + protobuf + the repository's proto package, so that it can be added to every package.

import (
	"crypto/sha256"
	"encoding/binary"
	"encoding/json"
	"fmt"
	mrand "math/rand"
	"net"
	"os"
	"runtime/debug"
	"runtime/pprof"
	"sort"
	"strings"
	"testing"
	"time"

	pb "github.com/refraction-networking/conjure/proto"
	"google.golang.org/protobuf/proto"
	"google.golang.org/protobuf/types/known/anypb"
)

type vwRow struct {
	Ep       string            `json:"ep"`
	F        map[string]string `json:"f"`
	Nominal  bool              `json:"nominal"`
	Expect   []string          `json:"expect"`
	Triggers []string          `json:"triggers"`
	idx      int
}

// phantom subnets used by every driver: generations 1, 957 (the clients' "known" one) and 958 (a newer ClientConf)
const vwPhantomToml = `
[Networks]
    [Networks.1]
        Generation = 1
        [[Networks.1.WeightedSubnets]]
            Weight = 9
            Subnets = ["192.122.190.0/24", "2001:48a8:687f:1::/64"]
    [Networks.957]
        Generation = 957
        [[Networks.957.WeightedSubnets]]
            Weight = 9
            RandomizeDstPort = true
            Subnets = ["192.122.190.0/24", "2001:48a8:687f:1::/64"]
        [[Networks.957.WeightedSubnets]]
            Weight = 1
            RandomizeDstPort = false
            Subnets = ["141.219.0.0/16", "2001:48a8:687f:2::/64"]
    [Networks.958]
        Generation = 958
        [[Networks.958.WeightedSubnets]]
            Weight = 9
            RandomizeDstPort = true
            Subnets = ["192.122.190.0/24", "2001:48a8:687f:1::/64"]
`

const (
	vwGenKnown = 957
	vwGenNewer = 958
	vwGenOlder = 1
)

func vwBytes(tag string, n int) []byte {
	out := make([]byte, 0, n+32)
	for i := 0; len(out) < n; i++ {
		h := sha256.Sum256([]byte(fmt.Sprintf("vw-%s-%d-%d", tag, vSeed(), i)))
		out = append(out, h[:]...)
	}
	return out[:n]
}

func vwAddr(class string) []byte {
	switch class {
	case "absent", "nil":
		return nil
	case "len0":
		return []byte{}
	case "len3":
		return []byte{198, 51, 100}
	case "len4":
		return net.ParseIP("198.51.100.7").To4()
	case "len5":
		return []byte{198, 51, 100, 7, 9}
	case "len16m":
		return net.ParseIP("198.51.100.7").To16()
	case "len16":
		return net.ParseIP("2001:db8::7").To16()
	case "len17":
		return append(net.ParseIP("2001:db8::7").To16(), 1)
	}
	panic("addr class " + class)
}

var vwSources = map[string]*pb.RegistrationSource{
	"absent":      nil,
	"unspecified": pb.RegistrationSource_Unspecified.Enum(),
	"api":         pb.RegistrationSource_API.Enum(),
	"detector":    pb.RegistrationSource_Detector.Enum(),
	"prescan":     pb.RegistrationSource_DetectorPrescan.Enum(),
	"bdapi":       pb.RegistrationSource_BidirectionalAPI.Enum(),
	"dns":         pb.RegistrationSource_DNS.Enum(),
	"bddns":       pb.RegistrationSource_BidirectionalDNS.Enum(),
	"outofrange":  pb.RegistrationSource(77).Enum(),
}

var vwTransports = map[string]*pb.TransportType{
	"absent":   nil,
	"null":     pb.TransportType_Null.Enum(),
	"min":      pb.TransportType_Min.Enum(),
	"obfs4":    pb.TransportType_Obfs4.Enum(),
	"prefix":   pb.TransportType_Prefix.Enum(),
	"dtls":     pb.TransportType_DTLS.Enum(),
	"webrtc":   pb.TransportType_Webrtc.Enum(),
	"unknown":  pb.TransportType(1234).Enum(),
	"negative": pb.TransportType(-1).Enum(),
}

func vwBoolPtr(class string) *bool {
	switch class {
	case "true":
		return proto.Bool(true)
	case "false":
		return proto.Bool(false)
	}
	return nil
}

func vwMarshal(m proto.Message) []byte {
	b, err := proto.MarshalOptions{AllowPartial: true}.Marshal(m)
	if err != nil {
		panic(err)
	}
	return b
}

// vwParamsValue gives the bytes inside the Any for a pbytes class
func vwParamsValue(class string) []byte {
	switch class {
	case "empty":
		return nil
	case "generic":
		return vwMarshal(&pb.GenericTransportParams{RandomizeDstPort: proto.Bool(false)})
	case "generic_rand":
		return vwMarshal(&pb.GenericTransportParams{RandomizeDstPort: proto.Bool(true)})
	case "prefix_known":
		return vwMarshal(&pb.PrefixTransportParams{PrefixId: proto.Int32(1), RandomizeDstPort: proto.Bool(false)})
	case "prefix_rand":
		return vwMarshal(&pb.PrefixTransportParams{PrefixId: proto.Int32(-1), RandomizeDstPort: proto.Bool(true)})
	case "prefix_unknown":
		return vwMarshal(&pb.PrefixTransportParams{PrefixId: proto.Int32(77), Prefix: []byte("zz"), CustomFlushPolicy: proto.Int32(9)})
	case "prefix_neg":
		return vwMarshal(&pb.PrefixTransportParams{PrefixId: proto.Int32(-2147483648)})
	case "dtls_addrs":
		return vwMarshal(&pb.DTLSTransportParams{
			SrcAddr4: &pb.Addr{IP: net.ParseIP("192.0.2.44").To4(), Port: proto.Uint32(40044)},
			SrcAddr6: &pb.Addr{IP: net.ParseIP("2001:db8::44").To16(), Port: proto.Uint32(40066)}, RandomizeDstPort: proto.Bool(false)})
	case "dtls_noaddrs":
		return vwMarshal(&pb.DTLSTransportParams{Unordered: proto.Bool(true), RandomizeDstPort: proto.Bool(true)})
	case "dtls_badaddrs":
		return vwMarshal(&pb.DTLSTransportParams{
			SrcAddr4: &pb.Addr{IP: []byte{192, 0, 2}, Port: proto.Uint32(70000)},
			SrcAddr6: &pb.Addr{IP: append(net.ParseIP("2001:db8::44").To16(), 7), Port: proto.Uint32(4294967295)}})
	case "garbage":
		return []byte{0xff, 0xff, 0xff, 0xff}
	case "truncated":
		b := vwParamsValue("dtls_addrs")
		return b[:len(b)-9]
	}
	panic("pbytes class " + class)
}

func vwParamsURL(purl, pbytes string) string {
	const base = "type.googleapis.com/"
	switch purl {
	case "none":
		return ""
	case "generic":
		return base + "proto.GenericTransportParams"
	case "prefix":
		return base + "proto.PrefixTransportParams"
	case "dtls":
		return base + "proto.DTLSTransportParams"
	case "bogus":
		return base + "proto.NoSuchMessage"
	case "tapdance":
		switch {
		case strings.HasPrefix(pbytes, "prefix"):
			return base + "tapdance.PrefixTransportParams"
		case strings.HasPrefix(pbytes, "dtls"):
			return base + "tapdance.DTLSTransportParams"
		}
		return base + "tapdance.GenericTransportParams"
	}
	panic("purl class " + purl)
}

// vwParamsAny builds the transport parameters of a row (nil when the Any itself is absent)
func vwParamsAny(purl, pbytes string) *anypb.Any {
	if pbytes == "nil" {
		return nil
	}
	return &anypb.Any{TypeUrl: vwParamsURL(purl, pbytes), Value: vwParamsValue(pbytes)}
}

func vwRRParams(class string) *anypb.Any {
	switch class {
	case "absent":
		return nil
	case "empty":
		return &anypb.Any{}
	case "generic":
		return vwParamsAny("generic", "generic_rand")
	case "prefix_known":
		return vwParamsAny("prefix", "prefix_known")
	case "prefix_unknown":
		return vwParamsAny("prefix", "prefix_unknown")
	case "garbage":
		return vwParamsAny("none", "garbage")
	case "wrongurl":
		return vwParamsAny("bogus", "prefix_known")
	}
	panic("rr_params class " + class)
}

func vwRR(f map[string]string) *pb.RegistrationResponse {
	switch f["rr"] {
	case "absent", "":
		return nil
	case "empty":
		return &pb.RegistrationResponse{}
	}
	rr := &pb.RegistrationResponse{}
	switch f["rr_ip4"] {
	case "nonzero":
		rr.Ipv4Addr = proto.Uint32(binary.BigEndian.Uint32(net.ParseIP("192.122.190.77").To4()))
	case "zero":
		rr.Ipv4Addr = proto.Uint32(0)
	}
	switch f["rr_ip6"] {
	case "len16":
		rr.Ipv6Addr = net.ParseIP("2001:48a8:687f:1::77").To16()
	case "len0":
		rr.Ipv6Addr = []byte{}
	case "len3":
		rr.Ipv6Addr = []byte{0x20, 0x01, 0x48}
	case "len17":
		rr.Ipv6Addr = append(net.ParseIP("2001:48a8:687f:1::77").To16(), 3)
	}
	switch f["rr_port"] {
	case "zero":
		rr.DstPort = proto.Uint32(0)
	case "p443":
		rr.DstPort = proto.Uint32(443)
	case "p65535":
		rr.DstPort = proto.Uint32(65535)
	case "p65536":
		rr.DstPort = proto.Uint32(65536)
	case "max32":
		rr.DstPort = proto.Uint32(4294967295)
	}
	rr.TransportParams = vwRRParams(f["rr_params"])
	rr.PhantomsSupportPortRand = vwBoolPtr(f["rr_portrand"])
	if f["rr_extra"] == "present" {
		rr.ServerRandom = vwBytes("srvrand", 32)
		rr.Error = proto.String("an error")
		rr.ClientConf = &pb.ClientConf{Generation: proto.Uint32(7), DecoyList: &pb.DecoyList{TlsDecoys: []*pb.TLSDecoySpec{{}, {Hostname: proto.String("x")}}}}
	}
	return rr
}

func vwC2S(f map[string]string) *pb.ClientToStation {
	switch f["payload"] {
	case "absent":
		return nil
	case "empty":
		return &pb.ClientToStation{}
	}
	c := &pb.ClientToStation{}
	c.Transport = vwTransports[f["transport"]]
	switch f["gen"] {
	case "known":
		c.DecoyListGeneration = proto.Uint32(vwGenKnown)
	case "unknown":
		c.DecoyListGeneration = proto.Uint32(123456)
	case "max":
		c.DecoyListGeneration = proto.Uint32(4294967295)
	}
	switch f["libver"] {
	case "cur":
		c.ClientLibVersion = proto.Uint32(4)
	case "v0":
		c.ClientLibVersion = proto.Uint32(0)
	case "v1":
		c.ClientLibVersion = proto.Uint32(1)
	case "v2":
		c.ClientLibVersion = proto.Uint32(2)
	case "v3":
		c.ClientLibVersion = proto.Uint32(3)
	case "v5":
		c.ClientLibVersion = proto.Uint32(5)
	case "huge":
		c.ClientLibVersion = proto.Uint32(4294967295)
	}
	c.V4Support = vwBoolPtr(f["v4"])
	c.V6Support = vwBoolPtr(f["v6"])
	switch f["covert"] {
	case "ok":
		c.CovertAddress = proto.String("192.0.2.5:443")
	case "empty":
		c.CovertAddress = proto.String("")
	case "nohost":
		c.CovertAddress = proto.String(":443")
	case "noport":
		c.CovertAddress = proto.String("192.0.2.5")
	case "garbage":
		c.CovertAddress = proto.String("not an address")
	case "huge":
		c.CovertAddress = proto.String(strings.Repeat("a", 5000) + ":443")
	case "v6lit":
		c.CovertAddress = proto.String("[2001:db8::5]:443")
	case "blocked":
		c.CovertAddress = proto.String("10.1.1.1:443")
	case "name":
		c.CovertAddress = proto.String("covert.example.com:443")
	}
	switch f["flags"] {
	case "set":
		c.Flags = &pb.RegistrationFlags{ProxyHeader: proto.Bool(true), UploadOnly: proto.Bool(false), Use_TIL: proto.Bool(true)}
	case "empty":
		c.Flags = &pb.RegistrationFlags{}
	case "prescanned":
		c.Flags = &pb.RegistrationFlags{Prescanned: proto.Bool(true)}
	}
	c.DisableRegistrarOverrides = vwBoolPtr(f["noovr"])
	c.TransportParams = vwParamsAny(f["purl"], f["pbytes"])
	switch f["extras"] {
	case "present":
		c.Padding = vwBytes("pad", 100)
		c.FailedDecoys = []string{"a.example", ""}
		c.Stats = &pb.SessionStats{FailedDecoysAmount: proto.Uint32(3)}
		c.MaskedDecoyServerName = proto.String("masked.example")
		c.WebrtcSignal = &pb.WebRTCSignal{Seed: proto.String("s"), Sdp: &pb.WebRTCSDP{Type: proto.Uint32(1),
			Candidates: []*pb.WebRTCICECandidate{{IpUpper: proto.Uint64(1), IpLower: proto.Uint64(2), ComposedInfo: proto.Uint32(3)}}}}
		c.ProtocolVersion = proto.Uint32(9)
		c.UploadSync = proto.Uint64(1 << 40)
	case "partial":
		c.WebrtcSignal = &pb.WebRTCSignal{Sdp: &pb.WebRTCSDP{}}
	}
	return c
}

// vwSecretFor derives the row's shared secret (distinct per row so that registrations do not collapse into duplicates)
func vwSecretFor(class string, salt string) []byte {
	s := vwBytes("secret-"+salt, 33)
	switch class {
	case "absent":
		return nil
	case "empty":
		return []byte{}
	case "len7":
		return s[:7]
	case "len8":
		return s[:8]
	case "len31":
		return s[:31]
	case "exact32":
		return s[:32]
	case "len33":
		return s[:33]
	}
	panic("secret class " + class)
}

func vwWrapper(f map[string]string, salt string) *pb.C2SWrapper {
	w := &pb.C2SWrapper{}
	w.SharedSecret = vwSecretFor(f["secret"], salt)
	w.RegistrationPayload = vwC2S(f)
	w.RegistrationSource = vwSources[f["source"]]
	w.RegistrationAddress = vwAddr(f["regaddr"])
	w.DecoyAddress = vwAddr(f["decoyaddr"])
	w.RegistrationResponse = vwRR(f)
	switch f["respbytes"] {
	case "garbage":
		w.RegRespBytes = []byte{0xff, 0xff, 0x01}
	case "valid":
		rr := w.RegistrationResponse
		if rr == nil {
			rr = &pb.RegistrationResponse{DstPort: proto.Uint32(443)}
		}
		w.RegRespBytes = vwMarshal(rr)
	}
	switch f["sig"] {
	case "len3":
		w.RegRespSignature = []byte{1, 2, 3}
	case "len64":
		w.RegRespSignature = vwBytes("sig", 64)
	}
	return w
}

// vwWrapperBytes serialises the row's wrapper; unknown fields are appended on the wire
func vwWrapperBytes(f map[string]string, salt string) []byte {
	b := vwMarshal(vwWrapper(f, salt))
	if f["unk"] == "present" {
		b = append(b, 0x78, 0x01) // field 15, varint
		b = append(b, 0x12, 0x03, 'a', 'b', 'c') // field 2 (unused), bytes
		b = append(b, 0xc1, 0x3e, 1, 2, 3, 4, 5, 6, 7, 8) // field 1000, fixed64
	}
	return b
}

// ------------------------------------------------------------------ guarded execution

type vwResult struct {
	Outcome string // error | ignored | accepted | panic | hang
	Detail  string // e.g. HTTP status, error text (short)
	Panic   string
	Site    string // top non-runtime frame of the panic stack
	Stack   string
}

var vwCallTimeout = time.Duration(vEnvInt("VERIF_CALL_TIMEOUT_MS", 10000)) * time.Millisecond

// vwSite extracts the first frame below the panic machinery that is neither runtime nor the harness itself
func vwSite(stack string) string {
	lines := strings.Split(stack, "\n")
	seenPanic := false
	for i := 0; i+1 < len(lines); i++ {
		l := lines[i]
		if strings.HasPrefix(l, "\t") || l == "" || strings.HasPrefix(l, "goroutine ") {
			continue
		}
		fn := l
		if k := strings.LastIndex(fn, "("); k > 0 {
			fn = fn[:k]
		}
		if strings.HasPrefix(fn, "panic") || strings.HasPrefix(fn, "runtime.") {
			if strings.HasPrefix(fn, "panic") || strings.Contains(fn, "sigpanic") || strings.Contains(fn, "gopanic") || strings.Contains(fn, "panic") {
				seenPanic = true
			}
			continue
		}
		if !seenPanic {
			continue
		}
		if strings.HasPrefix(fn, "runtime/debug.") || strings.HasPrefix(fn, "testing.") {
			continue
		}
		// harness frames: functions whose source file is an overlay file (zz_*_verif*)
		if strings.Contains(lines[i+1], "_verif") {
			return "harness:" + vwShortFn(fn)
		}
		return vwShortFn(fn)
	}
	return "unknown"
}

func vwShortFn(fn string) string {
	fn = strings.TrimSpace(fn)
	if k := strings.LastIndex(fn, "/"); k >= 0 {
		fn = fn[k+1:]
	}
	// closures: pkg.(*T).m.func1 -> keep
	return fn
}

// vwGuard runs fn under recover() and a timeout.  fn returns (outcome, detail).
func vwGuard(fn func() (string, string)) vwResult {
	ch := make(chan vwResult, 1)
	go func() {
		var r vwResult
		defer func() {
			if rec := recover(); rec != nil {
				st := string(debug.Stack())
				r = vwResult{Outcome: "panic", Panic: fmt.Sprint(rec), Stack: st, Site: vwSite(st)}
			}
			ch <- r
		}()
		o, d := fn()
		r = vwResult{Outcome: o, Detail: d}
	}()
	select {
	case r := <-ch:
		return r
	case <-time.After(vwCallTimeout):
		site, st := vwHangSite("vwGuard.func1")
		return vwResult{Outcome: "hang", Detail: fmt.Sprintf("no return within %v", vwCallTimeout), Site: site, Stack: st}
	}
}

// vwHangSite looks for a goroutine whose stack contains marker and names the innermost frame of the repository's own
// code in it (a spinning goroutine is sampled at a different library frame every time; the repository frame is stable)
func vwHangSite(marker string) (string, string) {
	var sb strings.Builder
	_ = pprof.Lookup("goroutine").WriteTo(&sb, 2)
	for _, g := range strings.Split(sb.String(), "\n\n") {
		if !strings.Contains(g, marker) {
			continue
		}
		ls := strings.Split(g, "\n")
		for i := 1; i+1 < len(ls); i++ {
			if strings.HasPrefix(ls[i], "\t") || !strings.Contains(ls[i], "refraction-networking/conjure/") {
				continue
			}
			if strings.Contains(ls[i+1], "_verif") {
				continue
			}
			fn := ls[i]
			if k := strings.LastIndex(fn, "("); k > 0 {
				fn = fn[:k]
			}
			return vwShortFn(fn), g
		}
		return "unknown", g
	}
	return "unknown", ""
}

// ------------------------------------------------------------------ mutation neighbourhood

type vwMut struct {
	Kind string // "", "trunc", "flip"
	Pos  int
	Raw  []byte
}

// vwExact returns a copy of b whose capacity equals its length: the receiving code gets no slack behind the bytes it was
// given (network buffers are decoded into exact-size slices), so slicing past the end panics instead of silently
// reading stale bytes
func vwExact(b []byte) []byte {
	c := make([]byte, len(b))
	copy(c, b)
	return c[:len(c):len(c)]
}

// vwMutations: truncation at every offset (a seeded sample of maxTrunc offsets when longer) and nflip single-bit flips
func vwMutations(raw []byte, rng *mrand.Rand, maxTrunc, nflip int) []vwMut {
	var out []vwMut
	n := len(raw)
	if n == 0 {
		return out
	}
	if n <= maxTrunc {
		for k := 0; k < n; k++ {
			out = append(out, vwMut{"trunc", k, vwExact(raw[:k])})
		}
	} else {
		seen := map[int]bool{}
		for len(seen) < maxTrunc {
			k := rng.Intn(n)
			if !seen[k] {
				seen[k] = true
				out = append(out, vwMut{"trunc", k, vwExact(raw[:k])})
			}
		}
	}
	for i := 0; i < nflip; i++ {
		p := rng.Intn(n * 8)
		m := vwExact(raw)
		m[p/8] ^= 1 << uint(p%8)
		out = append(out, vwMut{"flip", p, m})
	}
	return out
}

// ------------------------------------------------------------------ the row loop

type vwRunner struct {
	t        testing.TB
	out      *vOut
	prog     *os.File
	rng      *mrand.Rand
	start    int
	skip     map[int]bool
	mutEvery int
	maxTrunc int
	nflip    int
	counts   map[string]int
	nDeliv   int
	nRows    int
	nDisagr  int
	nAnom    int
	perSite  map[string]int
	nomBad   int
	nHang    int
	aborted  bool
}

// every hang costs a full timeout and may leave a spinning goroutine behind: a few are enough for a verdict
const vwMaxHangs = 3

func vwNewRunner(t testing.TB) *vwRunner {
	r := &vwRunner{t: t, out: vOpenOut(t), rng: mrand.New(mrand.NewSource(vSeed()*7919 + 11)), skip: map[int]bool{},
		counts: map[string]int{}, perSite: map[string]int{}}
	r.start = vEnvInt("VERIF_START", 0)
	for _, s := range strings.Split(os.Getenv("VERIF_SKIP"), ",") {
		var k int
		if _, err := fmt.Sscanf(s, "%d", &k); err == nil {
			r.skip[k] = true
		}
	}
	r.mutEvery = vEnvInt("VERIF_MUT_EVERY", 0)
	r.maxTrunc = vEnvInt("VERIF_MUT_TRUNC", 24)
	r.nflip = vEnvInt("VERIF_MUT_FLIPS", 8)
	if p := os.Getenv("VERIF_PROGRESS"); p != "" {
		f, err := os.OpenFile(p, os.O_CREATE|os.O_WRONLY|os.O_TRUNC, 0o644)
		if err != nil {
			t.Fatalf("progress file: %v", err)
		}
		r.prog = f
	}
	return r
}

func (r *vwRunner) mark(idx int, variant string) {
	if r.prog == nil {
		return
	}
	s := fmt.Sprintf("%-12d %-24s\n", idx, variant)
	r.prog.WriteAt([]byte(s), 0)
}

// wantMut says whether the row gets its mutation neighbourhood (nominal rows always do, others one in mutEvery)
func (r *vwRunner) wantMut(row *vwRow) bool {
	if r.mutEvery <= 0 {
		return false
	}
	return row.Nominal || row.idx%r.mutEvery == int(vSeed())%r.mutEvery
}

// muts gives the row's mutation neighbourhood: nominal rows are truncated at EVERY offset, others at a seeded sample
func (r *vwRunner) muts(row *vwRow, raw []byte) []vwMut {
	mt := r.maxTrunc
	if row.Nominal && len(raw) <= 4096 {
		mt = len(raw)
	}
	return vwMutations(raw, r.rng, mt, r.nflip)
}

// record classifies one delivery.  variant "" = the row as modelled.
func (r *vwRunner) record(row *vwRow, variant string, res vwResult) {
	r.nDeliv++
	r.counts[row.Ep+":"+res.Outcome]++
	if res.Outcome == "hang" {
		r.nHang++
	}
	if res.Outcome == "panic" || res.Outcome == "hang" || res.Outcome == "nostatus" {
		r.nAnom++
		key := res.Outcome + "|" + res.Site
		r.perSite[key]++
		if r.perSite[key] <= 20000 {
			rec := map[string]any{"kind": "anomaly", "what": res.Outcome, "ep": row.Ep, "idx": row.idx, "f": row.F, "variant": variant, "site": res.Site}
			if r.perSite[key] <= 3 {
				rec["panic"], rec["detail"], rec["stack"] = res.Panic, res.Detail, res.Stack
			}
			r.out.Emit(rec)
			r.flush()
		}
		return
	}
	if variant != "" {
		return
	}
	ok := false
	for _, e := range row.Expect {
		if e == res.Outcome {
			ok = true
		}
	}
	if !ok {
		r.nDisagr++
		if row.Nominal {
			r.nomBad++
		}
		if r.nDisagr <= 200 {
			r.out.Emit(map[string]any{"kind": "disagree", "ep": row.Ep, "idx": row.idx, "f": row.F, "nominal": row.Nominal, "expect": row.Expect,
				"got": res.Outcome, "detail": res.Detail})
			r.flush()
		}
	}
}

// flush makes what was emitted survive a crash of the test binary
func (r *vwRunner) flush() {
	r.out.mu.Lock()
	r.out.w.Flush()
	r.out.mu.Unlock()
}

// each calls fn for every row of VERIF_IN that belongs to one of eps (resuming / skipping as told)
func (r *vwRunner) each(eps []string, fn func(row *vwRow)) {
	want := map[string]bool{}
	for _, e := range eps {
		want[e] = true
	}
	idx := -1
	vReadLines(r.t, func(line []byte) {
		idx++
		if idx < r.start || r.skip[idx] {
			return
		}
		if r.nHang >= vwMaxHangs {
			r.aborted = true
			return
		}
		var row vwRow
		if err := json.Unmarshal(line, &row); err != nil {
			r.t.Fatalf("row %d: %v", idx, err)
		}
		if !want[row.Ep] {
			return
		}
		row.idx = idx
		r.nRows++
		r.mark(idx, "")
		fn(&row)
	})
}

func (r *vwRunner) finish(extra map[string]any) {
	keys := make([]string, 0, len(r.counts))
	for k := range r.counts {
		keys = append(keys, k)
	}
	sort.Strings(keys)
	m := map[string]any{"kind": "summary", "rows": r.nRows, "deliveries": r.nDeliv, "anomalies": r.nAnom, "disagreements": r.nDisagr,
		"nominal_not_accepted": r.nomBad, "counts": r.counts, "aborted_after_hangs": r.aborted}
	for k, v := range extra {
		m[k] = v
	}
	r.out.Emit(m)
	r.out.Close()
	if r.prog != nil {
		r.mark(-1, "done")
		r.prog.Close()
	}
}
