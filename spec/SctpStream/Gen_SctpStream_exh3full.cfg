SPECIFICATION GenSpec
CONSTANTS
  M = 3
  MsgLens = {1, 2, 3}
  ErrLens = {0, 1, 2, 3}
  ReadSizes = {1, 2, 3, 4}
  MaxItems = 3
  MaxPostErr = 1
  Mode = "intended"
  Cap = 64
  BufMode = "fresh"
  RingSize = 1
  Depth = 30
INVARIANT Emit
CHECK_DEADLOCK FALSE
