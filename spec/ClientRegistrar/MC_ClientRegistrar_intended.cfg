\* intended variant, exhaustive: everything a caller relies on
SPECIFICATION Spec
CONSTANTS
  Variant = "intended"
  Configs <- CfgMC
  ApiOutcomes = {"neterr", "s404", "s500", "garbage", "R0", "R1", "R2", "RT", "RB", "RE"}
  DnsOutcomes = {"servfail", "garbage", "nosuccess", "nobidi", "R0", "R1", "R2", "RT", "RB", "RE"}
VIEW view
INVARIANTS TypeOK AttemptBound FallbackAtMostOnce SecondaryUntouchedWithoutFallback ErrIffNoAccept UniIsLocal
           AddrFromAccepted OverridesOnlyFromAccepted PromptAfterCancel ApiNoWireAfterCancel
           I_NoWireAfterCancel I_NoFallbackAfterCancel I_NoInflightAfterCancel I_RegReflectsAccepted
           I_ErrorIndicationRespected I_AcceptedHasAddr I_FailureIsRegFailed I_DelayOnceAfterSuccess
PROPERTIES NothingAfterResult FallbackOnlyAfterGiveUp
CHECK_DEADLOCK FALSE
