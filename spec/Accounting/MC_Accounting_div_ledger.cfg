\* MUST VIOLATE Ledger: as found an outcome is lost (D1 lost update / D2 silent epoch)
SPECIFICATION SpecObj
CONSTANTS
  Conns = {"c1", "c2"}
  Kons = {}
  Asns = {"a1"}
  CCs = {"", "US"}
  Variant = "as_found"
  Broken = "none"
  MaxLoops = 0
  MaxPrints = 2
  MaxAuth = 0
VIEW view
CONSTRAINT Canon
INVARIANTS Ledger
CHECK_DEADLOCK FALSE
