SPECIFICATION Spec
CONSTANTS
  StationLegacySkip = 128
  StationRandMinVer = 3
  ClientPortSource = "session"
INVARIANTS Agreement
CHECK_DEADLOCK FALSE
