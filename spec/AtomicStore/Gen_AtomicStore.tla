-------------------------- MODULE Gen_AtomicStore --------------------------
(* Case generator for stage B: every behaviour of the store protocol with the
   environment's faults (Fail at any step with any errno, Crash in any state)
   is printed as JSON once it is complete -- all operations returned, or the
   process crashed.  checks/C20.py turns each behaviour into one run of the
   real assets package under strace fault injection (Fail(step, e) -> error
   injected into the syscall of that step; Crash at pc -> SIGKILL at the entry
   of the next syscall) and compares every observation.  Temp-file cleanup is
   not enumerated here (the replay does not compare left-over temp files). *)
EXTENDS AtomicStore, Json
VARIABLE hist
Terminal == (pc = "idle" /\ nxt > NOps) \/ pc = "dead"
GenInit == Init /\ hist = <<>>
GenStep == \/ \E kd \in Kinds : Begin(kd)
           \/ Marshal
           \/ \E n \in 1..MaxChunks : Create(NextTmp, n)
           \/ Write \/ Close \/ Rename \/ Return
           \/ \E e \in Errnos : Fail(e, FALSE)
           \/ Crash
GenNext == ~Terminal /\ GenStep /\ hist' = Append(hist, obs')
GenSpec == GenInit /\ [][GenNext]_<<vars, hist>>
Emit == ~Terminal \/ PrintT(ToJson(hist))
=============================================================================
