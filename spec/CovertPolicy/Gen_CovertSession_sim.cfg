SPECIFICATION GenSpec
CONSTANT DupMode = "ignore"
CONSTANT MaxMsgs = 4
CONSTANT MaxConns = 4
CONSTANT Classes = {"litP1", "litP2", "litF", "nameP", "nameRebind", "nameF", "nameFlip", "nameNx", "blocked", "malformed"}
CONSTANT Depth = 8
INVARIANT Emit
CHECK_DEADLOCK FALSE
