SPECIFICATION Spec
CONSTANTS
  CfgNames = {"one", "sizes", "wts", "ties", "zero", "dup", "lead0", "fam", "allzero", "mix3", "hostbits"}
  LibVers = {0, 1, 2, 3, 4}
  Fams = {4, 6}
  NSel = 1
  Mode = "enum"
  ProcSeedKs = {}
  RNG = "local"
  AddrBytes = "fill"
  NetBase = "masked"
  DerivedMode = "once"
VIEW view
INVARIANTS TypeOK DerivedSound Contained WellFormed RandPortFromSubnet Pure UnknownGenerationFails NoSpuriousError ZeroWeightNeverChosen NoWeightFails
CHECK_DEADLOCK FALSE
