SPECIFICATION GenSpec
CONSTANTS
  Variant = "asfound"
  Configs <- CfgGenC
  ApiOutcomes = {"s500", "R1", "RB"}
  DnsOutcomes = {"servfail", "nosuccess", "R2", "RB"}
  Depth = 40
INVARIANT Emit
CHECK_DEADLOCK FALSE
