------------------------------ MODULE Pipeline ------------------------------
(***************************************************************************)
(* The registration ingest pipeline of HandleRegUpdates                    *)
(* (pkg/station/lib/registration_ingest.go): one distributor goroutine     *)
(* reading the input channel, a shallow buffer of capacity Cap =           *)
(* workers/10, W worker goroutines, cancellation through a context.        *)
(*                                                                         *)
(* Distributor:  recv  : take a message from the input channel, count it   *)
(*               dispatch : select { ctx.Done | buffer <- msg | default:   *)
(*                          drop and count }                               *)
(*               wait  : wg.Wait() for the workers, then return            *)
(* Worker:       take (select { ctx.Done | <-buffer }), finish, exit       *)
(*                                                                         *)
(* RecvObservesCancel = TRUE : the receive step also selects on ctx.Done   *)
(*   (what bounded shutdown needs); FALSE : `for msg := range regChan`     *)
(*   (pre-fix: a cancelled distributor stays blocked while the input is    *)
(*   idle).                                                                *)
(***************************************************************************)
EXTENDS Naturals, TLC

CONSTANTS W, Cap, MaxOffer, MaxIn, RecvObservesCancel

VARIABLES chan,      \* messages waiting in the input channel
          buf,       \* messages in the shallow buffer
          busy,      \* workers processing a message
          exited,    \* workers that returned
          dpc,       \* distributor: "recv" | "dispatch" | "wait" | "returned"
          cancelled,
          offered, ingested, accepted, dropped,
          obs

vars == <<chan, buf, busy, exited, dpc, cancelled, offered, ingested, accepted, dropped, obs>>
view == <<chan, buf, busy, exited, dpc, cancelled, offered, ingested, accepted, dropped>>
idle == W - busy - exited

Init == /\ chan = 0 /\ buf = 0 /\ busy = 0 /\ exited = 0 /\ dpc = "recv" /\ cancelled = FALSE
        /\ offered = 0 /\ ingested = 0 /\ accepted = 0 /\ dropped = 0
        /\ obs = [a |-> "Init"]

St == [ingested |-> ingested', dropped |-> dropped', buf |-> buf', busy |-> busy']

Offer == /\ offered < MaxOffer /\ chan < MaxIn
         /\ chan' = chan + 1 /\ offered' = offered + 1
         /\ UNCHANGED <<buf, busy, exited, dpc, cancelled, ingested, accepted, dropped>>
         /\ obs' = [a |-> "Offer", st |-> St]

DRecv == /\ dpc = "recv"
         /\ \/ /\ chan > 0
               /\ chan' = chan - 1 /\ ingested' = ingested + 1 /\ dpc' = "dispatch"
            \/ /\ RecvObservesCancel /\ cancelled
               /\ dpc' = "wait" /\ UNCHANGED <<chan, ingested>>
         /\ UNCHANGED <<buf, busy, exited, cancelled, offered, accepted, dropped>>
         /\ obs' = [a |-> "DRecv", st |-> St]

\* Go's select picks among the ready cases; `default` only when none is ready
DDispatch == /\ dpc = "dispatch"
             /\ \/ /\ cancelled /\ dpc' = "wait" /\ UNCHANGED <<buf, accepted, dropped>>
                \/ /\ buf < Cap /\ buf' = buf + 1 /\ accepted' = accepted + 1 /\ dpc' = "recv" /\ UNCHANGED dropped
                \/ /\ buf = Cap /\ ~cancelled /\ dropped' = dropped + 1 /\ dpc' = "recv" /\ UNCHANGED <<buf, accepted>>
             /\ UNCHANGED <<chan, busy, exited, cancelled, offered, ingested>>
             /\ obs' = [a |-> "DDispatch", st |-> St]

WTake == /\ idle > 0 /\ buf > 0
         /\ buf' = buf - 1 /\ busy' = busy + 1
         /\ UNCHANGED <<chan, exited, dpc, cancelled, offered, ingested, accepted, dropped>>
         /\ obs' = [a |-> "WTake", st |-> St]
WFinish == /\ busy > 0 /\ busy' = busy - 1
           /\ UNCHANGED <<chan, buf, exited, dpc, cancelled, offered, ingested, accepted, dropped>>
           /\ obs' = [a |-> "WFinish", st |-> St]
WExit == /\ cancelled /\ idle > 0 /\ exited' = exited + 1
         /\ UNCHANGED <<chan, buf, busy, dpc, cancelled, offered, ingested, accepted, dropped>>
         /\ obs' = [a |-> "WExit", st |-> St]
Cancel == /\ ~cancelled /\ cancelled' = TRUE
          /\ UNCHANGED <<chan, buf, busy, exited, dpc, offered, ingested, accepted, dropped>>
          /\ obs' = [a |-> "Cancel", st |-> St]
DReturn == /\ dpc = "wait" /\ exited = W /\ dpc' = "returned"
           /\ UNCHANGED <<chan, buf, busy, exited, cancelled, offered, ingested, accepted, dropped>>
           /\ obs' = [a |-> "Returned", st |-> St]

Sys == DRecv \/ DDispatch \/ WTake \/ WFinish \/ WExit \/ DReturn
Next == Offer \/ Cancel \/ Sys
\* the environment (Offer, Cancel) is not obliged to act: the input may stay idle for ever
Spec == Init /\ [][Next]_vars /\ WF_vars(DRecv) /\ WF_vars(DDispatch) /\ WF_vars(WTake) /\ WF_vars(WFinish)
             /\ WF_vars(WExit) /\ WF_vars(DReturn)

TypeOK == /\ chan \in 0..MaxIn /\ buf \in 0..Cap /\ busy \in 0..W /\ exited \in 0..W /\ busy + exited <= W
          /\ dpc \in {"recv", "dispatch", "wait", "returned"}
\* every message taken from the input is either handed to the workers or dropped AND counted
DropsCounted == ingested = accepted + dropped + (IF dpc = "dispatch" THEN 1 ELSE 0)
                \/ (dpc \in {"wait", "returned"} /\ ingested <= accepted + dropped + 1)
\* the distributor never waits for a worker: in "dispatch" it can always move
NeverBlocksReceiver == dpc = "dispatch" => ENABLED DDispatch
\* a message is dropped only when the buffer is full
DropOnlyWhenFull == [][dropped' > dropped => buf = Cap]_vars
\* after a stop request the pipeline winds down, whether or not registrations keep arriving
ShutdownBounded == cancelled ~> (dpc = "returned")
=============================================================================
