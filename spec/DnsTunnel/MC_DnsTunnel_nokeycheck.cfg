\* deliberately broken instance: a client that accepts whatever arrives must violate NoCrossTalk
SPECIFICATION Spec
CONSTANTS
  Clients = {"c1", "c2"}
  MaxReq = 2
  JunkKinds = {}
  MaxJunk = 0
  MaxDup = 1
  MaxDrop = 0
  MaxClose = 0
  Faults = {"DropQ", "DupQ", "ReplayQ", "DropR", "DupR"}
  StaleMode = "fail"
  KeyCheck = FALSE
  Timeout = FALSE
VIEW view
INVARIANTS TypeOK NoCrossTalk
CHECK_DEADLOCK FALSE
