\* min as found against the intended-only law I_FailedUnchanged: must be violated (divergence D5)
SPECIFICATION Spec
CONSTANTS
  Kind = "min"
  Variant = "asfound"
  KnownIds = {0, 1}
  FieldIds = {}
  SetArgs <- SetArgsG
  OvArgs <- OvArgsG
  Secrets = {"s1"}
  ReaderOk = {TRUE, FALSE}
  Seeds = {"sd1"}
  DeadConns = {FALSE, TRUE}
  MaxConns = 1
  MaxWrites = 1
  WriteSizes = {3}
  MaxPeer = 0
  PeerSizes = {4}
VIEW view
PROPERTIES I_FailedUnchanged
CHECK_DEADLOCK FALSE
