SPECIFICATION GenSpec
CONSTANTS
  Conns = {}
  Kons = {"k1", "k2"}
  Asns = {"a1"}
  CCs = {"", "US"}
  Variant = "as_found"
  Broken = "none"
  MaxLoops = 1
  MaxPrints = 1
  MaxAuth = 1
  Depth = 5
CONSTRAINT Canon
INVARIANT Emit
CHECK_DEADLOCK FALSE
