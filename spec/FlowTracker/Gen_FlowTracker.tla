--------------------------- MODULE Gen_FlowTracker ---------------------------
(* Behaviour generator for stage B of X07 (specification -> real Rust code): carries the history of observations and prints each
   behaviour of length Depth as JSON.  Exhaustive mode enumerates every path (hist is part of the state), -simulate samples long
   ones.  Only state-changing steps are generated: the projected state after every step already fixes what is_tracked_flow,
   is_phantom_session and the two counts must return, and the harness asks all of them after every step. *)
EXTENDS MC_FlowTracker, Json
CONSTANT Depth
VARIABLE hist
GenInit == Init /\ hist = <<>>
GenNext == /\ Len(hist) < Depth
           /\ NextMut
           /\ hist' = Append(hist, obs')
GenSpec == GenInit /\ [][GenNext]_<<vars, hist>>
Emit == Len(hist) < Depth \/ PrintT(ToJson(hist))
=============================================================================
