\* exhaustive over the covering design of strength 2 of every entry point, every guard in place
SPECIFICATION Spec
CONSTANTS
  EPs = {"station.ingest", "station.wrap", "transport.params", "dtls.connect", "regproc", "api", "dnsreg", "responder", "msgformat", "rdatatxt"}
  Strength = 2
  Thin = FALSE
  MissingGuards = {}
INVARIANTS TypeOK NeverCrash NeverHangs NoFourthValue AlwaysAnswersHTTP AcceptedOnlyWhenComplete StatusMatchesOutcome NominalAccepted
CHECK_DEADLOCK FALSE
