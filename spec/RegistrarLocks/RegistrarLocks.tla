--------------------------- MODULE RegistrarLocks ---------------------------
(***************************************************************************)
(* Locking of the registrar's swappable phantom selector                   *)
(* (pkg/regserver/regprocessor/regprocessor.go: RegProcessor.selectorMutex *)
(* / ipSelector, processBdReq, ReloadSubnets).  Property C13: requests     *)
(* that run concurrently with phantom-subnet reloads all complete, each    *)
(* using the old or the new subnet set in full, and the reloads complete.  *)
(*                                                                         *)
(* Go's sync.RWMutex is modelled with its writer-preference rule, because  *)
(* the property lives there:                                               *)
(*   readers        number of read locks currently held                    *)
(*   writerWaiting  a Lock() call has announced itself (readerCount went   *)
(*                  negative) and waits for the readers to drain           *)
(*   writerHolding  the write lock is held                                 *)
(*   RLock   enabled iff ~writerWaiting /\ ~writerHolding (a reader that   *)
(*           arrives behind a pending writer blocks, EVEN IF the caller    *)
(*           already holds a read lock - RWMutex is not reentrant)         *)
(*   Lock    = Announce (needs the writers' mutex rw.w: no other writer    *)
(*           announced or holding) ; Acquire (enabled iff readers = 0)     *)
(*                                                                         *)
(* Request(r), families v4 / v6 / dual, is a little program of operations  *)
(* selected by the CONSTANT Protocol:                                      *)
(*   "nested-deferred"  RLock; sel v4; RLock; sel v6; build; RUnlock x2    *)
(*                      (read lock taken again while the first is held,    *)
(*                      both released by `defer` at return)                *)
(*   "single"           RLock; sel v4; sel v6; build; RUnlock              *)
(*                      (what the property needs)                          *)
(*   "per-selection"    RLock; sel v4; RUnlock; RLock; sel v6; RUnlock;    *)
(*                      build  (lock released between the selections)      *)
(* Reload(m): load (parse the subnet file: content "A" or "B"), announce,  *)
(* acquire, swap (p.ipSelector = new), unlock.                             *)
(*                                                                         *)
(* gen[r][f] = content id of the selector that served r's selection for    *)
(* family f; resp[r] = what the response is built from.                    *)
(***************************************************************************)
EXTENDS Naturals, FiniteSets, Sequences, TLC

CONSTANTS ReqV4, ReqV6, ReqDual,  \* request ids (strings) by requested families
          ReqFail,                \* dual-stack requests whose FIRST selection (v4) fails (they name a ClientConf generation no subnet
                                  \* file has): processBdReq returns the error from inside the locked region - no response is built
          ReqFail6,               \* v6-only requests of that kind: their only selection, the v6 one, fails
          ErrorPath,              \* what the failing path does before it returns: "plain" - nothing (the code);  "rlock" - it takes
                                  \* the read lock AGAIN (to look at the selector and classify the error) while the first one is
                                  \* still held: a broken instance, deadlocks behind a pending reload;  "leak6" - the return after
                                  \* a failed v6 selection forgets to release the read lock: a broken instance, the next reload
                                  \* never gets the write lock
          Reloads,                \* reload ids (strings)
          ToB,                    \* the reloads that find file "B" on disk (the others find "A")
          Bad,                    \* the reloads that find a malformed file: ReloadSubnets returns an error and changes nothing
          Protocol,               \* "nested-deferred" | "single" | "per-selection"
          ReloadOrder             \* "load-first": parse the file, then take the write lock (what the code does; a failed load never
                                  \*               touches the lock);  "lock-first-leak": write lock taken before the file is parsed and
                                  \*               NOT released on the error path (a deliberately broken instance)

VARIABLES readers, writerWaiting, writerHolding, writer,
          cur,      \* content id of the installed selector ("A" initially)
          rpc,      \* [Requests -> 1 .. Len(Prog)+1]
          held,     \* [Requests -> Nat]   read locks held by the request
          gen,      \* [Requests -> [v4, v6 : {"-","A","B"}]]
          resp,     \* [Requests -> [v4, v6]]  the built response ("-" = family not present)
          mpc,      \* [Reloads -> {"load","announce","acquire","swap","unlock","done"}]
          loaded,   \* [Reloads -> {"-","A","B"}]
          obs       \* observation of the last step

Failing == ReqFail \cup ReqFail6
Requests == ReqV4 \cup ReqV6 \cup ReqDual \cup Failing
Fam(r) == IF r \in ReqDual \cup ReqFail THEN "dual" ELSE IF r \in ReqV4 THEN "v4" ELSE "v6"
Target(m) == IF m \in Bad THEN "bad" ELSE IF m \in ToB THEN "B" ELSE "A"
\* order of a reload's steps
FirstStep == IF ReloadOrder = "load-first" THEN "load" ELSE "announce"
AfterLoad == IF ReloadOrder = "load-first" THEN "announce" ELSE "swap"
AfterAcquire == IF ReloadOrder = "load-first" THEN "swap" ELSE "load"

vars == <<readers, writerWaiting, writerHolding, writer, cur, rpc, held, gen, resp, mpc, loaded, obs>>
view == <<readers, writerWaiting, writerHolding, writer, cur, rpc, held, gen, resp, mpc, loaded>>

Op(o) == [op |-> o, f |-> "-"]
SelOp(f) == [op |-> "sel", f |-> f]
Fams(r) == IF Fam(r) = "dual" THEN <<"v4", "v6">> ELSE <<Fam(r)>>

\* a failing request: read lock, the first selection (which fails), [the error path], release - whatever the protocol
FailProg(r) == <<Op("rlock"), SelOp(IF r \in ReqFail6 THEN "v6" ELSE "v4")>>
               \o (IF ErrorPath = "rlock" THEN <<Op("rlock"), Op("classify")>> ELSE <<>>)
               \o (IF ErrorPath = "leak6" /\ r \in ReqFail6 THEN <<Op("return")>> ELSE <<Op("runlock")>>)
Prog(r) ==
  LET fs == Fams(r) IN
  CASE r \in Failing -> FailProg(r)
    [] Protocol = "single" ->
         <<Op("rlock")>> \o [i \in 1..Len(fs) |-> SelOp(fs[i])] \o <<Op("build"), Op("runlock")>>
    [] Protocol = "nested-deferred" ->
         (IF Len(fs) = 2 THEN <<Op("rlock"), SelOp(fs[1]), Op("rlock"), SelOp(fs[2])>>
                         ELSE <<Op("rlock"), SelOp(fs[1])>>) \o <<Op("build"), Op("runlock")>>
    [] Protocol = "per-selection" ->
         (IF Len(fs) = 2 THEN <<Op("rlock"), SelOp(fs[1]), Op("runlock"), Op("rlock"), SelOp(fs[2]), Op("runlock")>>
                         ELSE <<Op("rlock"), SelOp(fs[1]), Op("runlock")>>) \o <<Op("build")>>

ReqDone(r) == rpc[r] > Len(Prog(r))
NextOp(r) == IF ReqDone(r) THEN Op("done") ELSE Prog(r)[rpc[r]]
AllDone == (\A r \in Requests : ReqDone(r)) /\ (\A m \in Reloads : mpc[m] = "done")

\* where a request is, in terms the conformance driver can observe (gates inside the wrapping selector)
\* index of the last selection / release the request has executed (0 = none yet)
LastMark(r) == LET S == {j \in 1..(rpc[r] - 1) : j <= Len(Prog(r)) /\ Prog(r)[j].op \in {"sel", "runlock"}}
               IN IF S = {} THEN 0 ELSE CHOOSE j \in S : \A k \in S : k <= j
At(r) == IF rpc[r] = 1 THEN "idle"
         ELSE IF ReqDone(r) THEN "done"
         ELSE IF NextOp(r).op = "sel" THEN "pre_" \o NextOp(r).f
         ELSE IF LastMark(r) > 0 /\ Prog(r)[LastMark(r)].op = "sel" THEN "post_" \o Prog(r)[LastMark(r)].f
         ELSE "between"

Proj == [readers |-> readers,
         w |-> IF writerHolding THEN "holding" ELSE IF writerWaiting THEN "waiting" ELSE "none",
         cur |-> cur,
         at |-> [r \in Requests |-> At(r)],
         mdone |-> [m \in Reloads |-> mpc[m] = "done"]]

Init == /\ readers = 0 /\ writerWaiting = FALSE /\ writerHolding = FALSE /\ writer = "none"
        /\ cur = "A"
        /\ rpc = [r \in Requests |-> 1]
        /\ held = [r \in Requests |-> 0]
        /\ gen = [r \in Requests |-> [v4 |-> "-", v6 |-> "-"]]
        /\ resp = [r \in Requests |-> [v4 |-> "-", v6 |-> "-"]]
        /\ mpc = [m \in Reloads |-> FirstStep]
        /\ loaded = [m \in Reloads |-> "-"]
        /\ obs = [a |-> "Init"]

\* ---- enabling conditions (explicit, so the generator can compute priorities without ENABLED) ----
RLockEn(r)   == NextOp(r).op = "rlock" /\ ~writerWaiting /\ ~writerHolding
SelectEn(r)  == NextOp(r).op = "sel"
BuildEn(r)   == NextOp(r).op = "build"
ClassifyEn(r) == NextOp(r).op \in {"classify", "return"}
RUnlockEn(r) == NextOp(r).op = "runlock"
LoadEn(m)    == mpc[m] = "load"
AnnounceEn(m) == mpc[m] = "announce" /\ ~writerWaiting /\ ~writerHolding
AcquireEn(m) == mpc[m] = "acquire" /\ writer = m /\ writerWaiting /\ readers = 0
SwapEn(m)    == mpc[m] = "swap" /\ writer = m /\ writerHolding
UnlockEn(m)  == mpc[m] = "unlock" /\ writer = m /\ writerHolding

\* ---- request steps ----
RLock(r) ==
  /\ RLockEn(r)
  /\ readers' = readers + 1
  /\ held' = [held EXCEPT ![r] = @ + 1]
  /\ rpc' = [rpc EXCEPT ![r] = @ + 1]
  /\ UNCHANGED <<writerWaiting, writerHolding, writer, cur, gen, resp, mpc, loaded>>
  /\ obs' = [a |-> "RLock", p |-> r, f |-> "-"]

Select(r) ==
  /\ SelectEn(r)
  /\ gen' = IF r \in Failing THEN gen ELSE [gen EXCEPT ![r][NextOp(r).f] = cur]     \* a failed selection yields nothing
  /\ rpc' = [rpc EXCEPT ![r] = @ + 1]
  /\ UNCHANGED <<readers, writerWaiting, writerHolding, writer, cur, held, resp, mpc, loaded>>
  /\ obs' = [a |-> "Select", p |-> r, f |-> NextOp(r).f]

Build(r) ==
  /\ BuildEn(r)
  /\ resp' = [resp EXCEPT ![r] = gen[r]]
  /\ rpc' = [rpc EXCEPT ![r] = @ + 1]
  /\ UNCHANGED <<readers, writerWaiting, writerHolding, writer, cur, held, gen, mpc, loaded>>
  /\ obs' = [a |-> "Build", p |-> r, f |-> "-"]

\* (broken instance only) the error path looks at the selector under its second read lock
Classify(r) ==
  /\ ClassifyEn(r)
  /\ rpc' = [rpc EXCEPT ![r] = @ + 1]
  /\ UNCHANGED <<readers, writerWaiting, writerHolding, writer, cur, held, gen, resp, mpc, loaded>>
  /\ obs' = [a |-> "Classify", p |-> r, f |-> "-"]

\* releases every read lock the request holds (the deferred RUnlocks run back to back at return)
RUnlock(r) ==
  /\ RUnlockEn(r)
  /\ readers' = readers - held[r]
  /\ held' = [held EXCEPT ![r] = 0]
  /\ rpc' = [rpc EXCEPT ![r] = @ + 1]
  /\ UNCHANGED <<writerWaiting, writerHolding, writer, cur, gen, resp, mpc, loaded>>
  /\ obs' = [a |-> "RUnlock", p |-> r, f |-> "-"]

\* ---- reload steps ----
\* parse the subnet file; a malformed file makes ReloadSubnets return its error right here: nothing is installed and
\* (ReloadOrder = "load-first") the lock was never touched
Load(m) ==
  /\ LoadEn(m)
  /\ IF m \in Bad
       THEN loaded' = loaded /\ mpc' = [mpc EXCEPT ![m] = "done"]
       ELSE loaded' = [loaded EXCEPT ![m] = Target(m)] /\ mpc' = [mpc EXCEPT ![m] = AfterLoad]
  /\ UNCHANGED <<readers, writerWaiting, writerHolding, writer, cur, rpc, held, gen, resp>>
  /\ obs' = [a |-> "Load", p |-> m, f |-> Target(m)]

Announce(m) ==
  /\ AnnounceEn(m)
  /\ writerWaiting' = TRUE /\ writer' = m
  /\ mpc' = [mpc EXCEPT ![m] = "acquire"]
  /\ UNCHANGED <<readers, writerHolding, cur, rpc, held, gen, resp, loaded>>
  /\ obs' = [a |-> "Announce", p |-> m, f |-> "-"]

Acquire(m) ==
  /\ AcquireEn(m)
  /\ writerWaiting' = FALSE /\ writerHolding' = TRUE
  /\ mpc' = [mpc EXCEPT ![m] = AfterAcquire]
  /\ UNCHANGED <<readers, writer, cur, rpc, held, gen, resp, loaded>>
  /\ obs' = [a |-> "Acquire", p |-> m, f |-> "-"]

Swap(m) ==
  /\ SwapEn(m)
  /\ cur' = loaded[m]
  /\ mpc' = [mpc EXCEPT ![m] = "unlock"]
  /\ UNCHANGED <<readers, writerWaiting, writerHolding, writer, rpc, held, gen, resp, loaded>>
  /\ obs' = [a |-> "Swap", p |-> m, f |-> loaded[m]]

Unlock(m) ==
  /\ UnlockEn(m)
  /\ writerHolding' = FALSE /\ writer' = "none"
  /\ mpc' = [mpc EXCEPT ![m] = "done"]
  /\ UNCHANGED <<readers, writerWaiting, cur, rpc, held, gen, resp, loaded>>
  /\ obs' = [a |-> "Unlock", p |-> m, f |-> "-"]

ReqNext(r) == RLock(r) \/ Select(r) \/ Build(r) \/ Classify(r) \/ RUnlock(r)
ReloadNext(m) == Load(m) \/ Announce(m) \/ Acquire(m) \/ Swap(m) \/ Unlock(m)
\* stuttering once everything returned, so that TLC's deadlock check reports real deadlocks only
Terminated == AllDone /\ UNCHANGED vars

Next == (\E r \in Requests : ReqNext(r)) \/ (\E m \in Reloads : ReloadNext(m)) \/ Terminated

Fairness == (\A r \in Requests : WF_vars(ReqNext(r))) /\ (\A m \in Reloads : WF_vars(ReloadNext(m)))
Spec == Init /\ [][Next]_vars /\ Fairness

\* ---- properties ----
Gens == {"-", "A", "B"}
TypeOK == /\ readers \in Nat /\ writerWaiting \in BOOLEAN /\ writerHolding \in BOOLEAN
          /\ writer \in Reloads \cup {"none"} /\ cur \in {"A", "B"}
          /\ \A r \in Requests : /\ rpc[r] \in 1..(Len(Prog(r)) + 1) /\ held[r] \in 0..2
                                 /\ gen[r].v4 \in Gens /\ gen[r].v6 \in Gens
                                 /\ resp[r].v4 \in Gens /\ resp[r].v6 \in Gens
          /\ \A m \in Reloads : loaded[m] \in Gens

\* C13, "each using either the old or the new subnet set in full"
WholeGeneration == \A r \in ReqDual : (resp[r].v4 # "-" /\ resp[r].v6 # "-") => resp[r].v4 = resp[r].v6
\* C13, "all complete ... and the reloads complete as well"
EventuallyAllDone == <>[]AllDone
\* a finished request answered every family it was asked for
ResponseComplete == \A r \in Requests : ReqDone(r) =>
                      IF r \in Failing THEN resp[r].v4 = "-" /\ resp[r].v6 = "-"        \* an error, no response
                      ELSE /\ (Fam(r) \in {"v4", "dual"}) = (resp[r].v4 # "-")
                           /\ (Fam(r) \in {"v6", "dual"}) = (resp[r].v6 # "-")
\* secondary: the lock's own bookkeeping
RECURSIVE SumHeld(_)
SumHeld(S) == IF S = {} THEN 0 ELSE LET x == CHOOSE x \in S : TRUE IN held[x] + SumHeld(S \ {x})
LockBalance == readers = SumHeld(Requests)
MutualExclusion == /\ ~(writerHolding /\ readers > 0)
                   /\ ~(writerHolding /\ writerWaiting)
                   /\ (writer = "none") = (~writerHolding /\ ~writerWaiting)
\* a selection only ever runs under a read lock; the selector is only swapped under the write lock
SelectUnderReadLock == \A r \in Requests : NextOp(r).op = "sel" => held[r] > 0
NoLeakAtEnd == AllDone => (readers = 0 /\ ~writerWaiting /\ ~writerHolding)
\* C13, a reload that fails changes nothing: it holds no lock once it returned and installed nothing
FailedReloadHoldsNothing == \A m \in Bad : mpc[m] = "done" => (writer # m /\ loaded[m] = "-")
FailedReloadInstallsNothing == [][\A m \in Bad : (mpc[m] # "done" /\ mpc'[m] = "done") => cur' = cur]_vars
=============================================================================
