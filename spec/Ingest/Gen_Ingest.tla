----------------------------- MODULE Gen_Ingest -----------------------------
(* Schedule generator: every maximal interleaving of the scenario's processes (hist is part of the
   state, so exhaustive search enumerates every path).  Each behaviour is printed as JSON once all
   processes are done; the scenario's serial outcomes are printed once. *)
EXTENDS Ingest, Json
VARIABLE hist
GenInit == Init /\ hist = <<>>
GenNext == Next /\ hist' = Append(hist, obs')
GenSpec == GenInit /\ [][GenNext]_<<vars, hist>>
Emit == AllDone => PrintT(ToJson(hist))
ASSUME PrintT(ToJson([serial |-> SerialOutcomes, scenario |-> Scenario, procs |-> Procs,
                      msgs |-> Scen.msgs, init |-> Scen.init, handler |-> Scen.handler, keys |-> Keys]))
=============================================================================
