---------------------------- MODULE Gen_ZmqProxy ----------------------------
(* Behaviour generator for stage B (spec -> implementation replay).

   The real proxy cannot be single-stepped (its goroutines and the ZMQ I/O threads run by themselves), so the generated
   behaviours are RUN-TO-COMPLETION schedules: a driver step (Env) is taken only when no step of the code itself (Auto) is
   enabled.  What the driver decides: who publishes next, when the reader of regChan takes a message, when the context is
   cancelled, when Reset / PrintAndReset are called and - through the two loggers it owns - when a decided drop is counted
   (IDrop) and when PrintAndReset goes on to its final Reset() (PStore).  Publishing is held back while RunZMQ is parked
   before counting a drop (arrival order of two in-flight messages at the PUB socket would not be determined), and after a
   stop request unless regChan is full (otherwise Go's select chooses at random between returning and enqueueing; that
   case is covered by recorded traces, stage C).

   hist carries every step (Auto steps included: the driver reads the expected quiescent projection from the last one);
   Depth bounds the number of driver steps.  Lifecycle = FALSE: Start is the first step and there is no Cancel (these
   behaviours are replayed back to back on one running proxy); TRUE: publishing before Start and Cancel are included
   (one fresh proxy per behaviour). *)
EXTENDS ZmqProxy, Json
CONSTANTS Depth, Lifecycle,
          SimPad      \* TRUE for -simulate runs: a finished behaviour takes one more step (then idles until -depth)
VARIABLES hist, nenv, done

PubOK(u) == \/ u \in BadUps
            \/ ~started
            \/ /\ ipc # "warn"
               /\ cancelled => (Len(chanq) = ChanCap \/ ipc = "returned")

GenEnv == \/ Start
          \/ ((Lifecycle /\ nenv < 2) \/ started) /\ \E u \in Ups : PubOK(u) /\ Publish(u)
          \/ Lifecycle /\ Cancel
          \/ started /\ (Consume \/ Reset \/ PLen \/ PStore \/ IDrop)

Terminal == nenv >= Depth /\ ~AutoEn
GenInit == Init /\ hist = <<>> /\ nenv = 0 /\ done = 0
GenNext == \/ /\ done = 0 /\ done' = 0
              /\ IF AutoEn THEN Auto /\ nenv' = nenv
                           ELSE nenv < Depth /\ GenEnv /\ nenv' = nenv + 1
              /\ hist' = Append(hist, obs')
           \/ /\ SimPad /\ Terminal /\ done' = done + 1
              /\ UNCHANGED <<vars, hist, nenv>>
GenSpec == GenInit /\ [][GenNext]_<<vars, hist, nenv, done>>
\* (a simulation evaluates invariants on EVERY successor before choosing one: print only once a finished behaviour was chosen)
Emit == IF SimPad THEN done # 1 \/ PrintT(ToJson(hist))
                  ELSE ~Terminal \/ PrintT(ToJson(hist))
=============================================================================
