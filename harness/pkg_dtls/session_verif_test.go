//go:build verif

package dtls

// Conformance drivers for the write path, the heartbeat watchdog and the certificate derivation (C16).
//
//   TestVerifWriteReplay   stage B for spec/SctpStream/SctpWrite.tla: every generated behaviour (Write calls of
//                          two writers, network drains, Close - each run to quiescence) on the real SCTPConn
//                          over a scripted stream with pion/sctp's buffered-amount semantics; 1 unit = 64 KiB.
//   TestVerifWatchdog      stage B for HbWatchdog.tla: every tick sequence (heartbeat / data only / nothing per
//                          half interval) is played in real time against the real hbConn with a 40-50 ms
//                          interval; verdicts come from one-sided bounds on the observed timeline.
//   TestVerifCerts         certsFromSeed / clientHelloRandomFromSeed on sampled secrets (crypto is decided by
//                          execution): same secret -> same keys, serial, CN, hello-random; different -> different.

import (
	"bytes"
	"crypto/ecdsa"
	"crypto/sha256"
	"crypto/x509"
	"encoding/json"
	"fmt"
	"math/rand"
	"runtime"
	"sort"
	"sync"
	"sync/atomic"
	"testing"
	"time"
)

// ---------------------------------------------------------------- write flow control

const vwUnit = 64 * 1024

type vwWriter struct {
	cmd  chan int
	busy atomic.Bool
	res  atomic.Value // string
	done atomic.Int64
}

type vwWorld struct {
	st *vsStream
	sc *SCTPConn
	ws map[string]*vwWriter
}

var vwBuf = make([]byte, 4*vwUnit)

func vwNewWorld() *vwWorld {
	w := &vwWorld{st: vsNewStream(), ws: map[string]*vwWriter{}}
	w.sc = newSCTPConn(w.st, &vsConn{}, 65536)
	for _, name := range []string{"w1", "w2"} {
		wr := &vwWriter{cmd: make(chan int)}
		wr.res.Store("none")
		w.ws[name] = wr
		go func() {
			for n := range wr.cmd {
				got, err := vwSafeWrite(w.sc, vwBuf[:n*vwUnit])
				r := "ok"
				switch {
				case err == nil && n == 0 && got == 0:
					r = "zero"
				case err == nil && got == n*vwUnit:
					r = "ok"
				case err != nil && err.Error() == "write limit exceeded":
					r = "limit"
				case err != nil:
					r = "closed"
				default:
					r = fmt.Sprintf("short(%d)", got)
				}
				wr.res.Store(r)
				wr.done.Add(1)
				wr.busy.Store(false)
			}
		}()
	}
	return w
}

func vwSafeWrite(sc *SCTPConn, b []byte) (n int, err error) {
	defer func() {
		if r := recover(); r != nil {
			n, err = 0, fmt.Errorf("panic in SCTPConn.Write: %v", r)
		}
	}()
	return sc.Write(b)
}

func (w *vwWorld) project() map[string]any {
	busy := []string{}
	res := map[string]any{}
	done := map[string]any{}
	for name, wr := range w.ws {
		if wr.busy.Load() {
			busy = append(busy, name)
		}
		res[name] = wr.res.Load().(string)
		done[name] = int(wr.done.Load())
	}
	sort.Strings(busy)
	amt := w.st.BufferedAmount()
	var a any = int(amt / vwUnit)
	if amt%vwUnit != 0 {
		a = float64(amt) / vwUnit
	}
	token := len(w.sc.write)
	select {
	case <-w.sc.closed:
		token = 0 // after Close the token no longer matters (projected away, as in the specification)
	default:
	}
	return map[string]any{"amt": a, "token": token, "busy": busy, "res": res, "done": done}
}

func (w *vwWorld) close() {
	w.sc.Close()
	for _, wr := range w.ws {
		close(wr.cmd)
	}
}

// apply performs one driver action and waits for the real objects to settle in the state the specification
// expects (or for the timeout); the real state reached is returned.
func (w *vwWorld) apply(step map[string]any, wait time.Duration) map[string]any {
	a, _ := step["a"].(string)
	got := map[string]any{"a": a}
	switch a {
	case "Call":
		name := step["w"].(string)
		n := int(step["n"].(float64))
		got["w"], got["n"] = name, n
		wr := w.ws[name]
		if wr.busy.Load() {
			got["writerBusy"] = true
			return got
		}
		wr.busy.Store(true)
		wr.cmd <- n
	case "Drain":
		k := int(step["k"].(float64))
		got["k"] = k
		w.st.drain(uint64(k) * vwUnit)
	case "Close":
		w.sc.Close()
	default:
		panic("unknown action " + a)
	}
	want := vCanon(step["st"])
	deadline := time.Now().Add(wait)
	spins := 0
	for {
		st := w.project()
		if vCanon(vNorm(st)) == want {
			// settled as expected; if somebody is supposed to stay parked, make sure it does
			if b, _ := step["st"].(map[string]any)["busy"].([]any); len(b) > 0 {
				time.Sleep(300 * time.Microsecond)
				st = w.project()
			}
			got["st"] = st
			return got
		}
		if time.Now().After(deadline) {
			got["st"] = st
			return got
		}
		spins++
		if spins < 200 {
			runtime.Gosched()
		} else {
			time.Sleep(100 * time.Microsecond)
		}
	}
}

func vwOps(beh []map[string]any) []string {
	ops := []string{}
	for _, s := range beh {
		switch s["a"] {
		case "Call":
			ops = append(ops, fmt.Sprintf("Write(%v,%v)", s["w"], s["n"]))
		case "Drain":
			ops = append(ops, fmt.Sprintf("Drain(%v)", s["k"]))
		default:
			ops = append(ops, fmt.Sprint(s["a"]))
		}
	}
	return ops
}

func TestVerifWriteReplay(t *testing.T) {
	out := vOpenOut(t)
	defer out.Close()
	workers := vEnvInt("VERIF_WORKERS", runtime.GOMAXPROCS(0))
	const limitUnits, maxWriteUnits = 4, 2 // writeMaxBufferedAmount = 256 KiB, largest accepted write = 128 KiB
	if writeMaxBufferedAmount != limitUnits*vwUnit {
		t.Fatalf("writeMaxBufferedAmount = %d: the model's unit (64 KiB, limit 4) no longer matches", writeMaxBufferedAmount)
	}
	var nb, ns, nm, nprop, nshape, nblocked atomic.Int64
	jobs := make(chan []byte, 256)
	var wg sync.WaitGroup
	for i := 0; i < workers; i++ {
		wg.Add(1)
		go func() {
			defer wg.Done()
			for line := range jobs {
				var beh []map[string]any
				if err := json.Unmarshal(line, &beh); err != nil {
					t.Errorf("bad behaviour: %v", err)
					continue
				}
				nb.Add(1)
				for attempt := 0; attempt < 2; attempt++ {
					w := vwNewWorld()
					var mis map[string]any
					sawBlocked := false
					for i, step := range beh {
						if attempt == 0 {
							ns.Add(1)
						}
						wait := 1500 * time.Millisecond
						if mis != nil {
							// already diverged: the remaining calls are still issued (to see whether the divergence
							// has a property-level consequence) but there is no expected state to wait for
							wait = 20 * time.Millisecond
						}
						got := w.apply(step, wait)
						if b, _ := step["st"].(map[string]any)["busy"].([]any); len(b) > 0 {
							sawBlocked = true
						}
						if mis == nil && vCanon(vNorm(got)) != vCanon(step) {
							mis = map[string]any{"kind": "mismatch", "step": i, "want": step, "got": vNorm(got), "ops": vwOps(beh[:i+1])}
						}
					}
					// property-level oracle on the real stream: the high-water mark of the buffered amount
					w.st.wmu.Lock()
					maxAmt := w.st.maxAmt
					w.st.wmu.Unlock()
					w.close()
					prop := ""
					if maxAmt > (limitUnits+maxWriteUnits)*vwUnit {
						prop = "BufferedBounded"
					}
					if sawBlocked && attempt == 0 {
						nblocked.Add(1) // counted from the specification's side: a writer is held back in this behaviour
					}
					if mis == nil && prop == "" {
						break
					}
					if attempt == 0 {
						continue // retry once: a writer goroutine may simply have been slow
					}
					if mis == nil {
						mis = map[string]any{"kind": "mismatch", "ops": vwOps(beh)}
					}
					mis["prop"], mis["maxAmt"] = prop, maxAmt
					nm.Add(1)
					if prop != "" {
						if nprop.Add(1) <= 100 {
							out.Emit(mis)
						}
					} else if nshape.Add(1) <= 100 {
						out.Emit(mis)
					}
				}
			}
		}()
	}
	vReadLines(t, func(line []byte) { jobs <- line })
	close(jobs)
	wg.Wait()
	out.Emit(map[string]any{"kind": "summary", "behaviours": nb.Load(), "steps": ns.Load(), "mismatches": nm.Load(),
		"property": nprop.Load(), "with_blocked_writer": nblocked.Load()})
}

// ---------------------------------------------------------------- heartbeat watchdog

type vhRun struct {
	Closed   []bool  `json:"closed"`   // sample after each tick
	HbBefore []int64 `json:"hbBefore"` // ns since start, taken before handing a heartbeat to recvLoop
	HbAfter  []int64 `json:"hbAfter"`  // ns since start, taken after recvLoop took it
	CloseAt  int64   `json:"closeAt"`  // ns since start of the stream's Close, -1 if never
	End      int64   `json:"end"`
	Late     int64   `json:"late"` // worst lateness of the driver's own schedule (ns)
}

func vhPlay(kinds []string, interval, slack time.Duration, honorDl bool) vhRun {
	tick := interval / 2
	hbBytes := []byte("verif-heartbeat")
	st := vsNewStream()
	st.honorDl = honorDl
	t0 := time.Now()
	hb, err := heartbeatServer(st, &heartbeatConfig{Interval: interval, Heartbeat: hbBytes}, 64)
	if err != nil {
		panic(err)
	}
	sc := newSCTPConn(hb, &vsConn{}, 64)
	defer sc.Close()
	run := vhRun{CloseAt: -1}
	sleepUntil := func(d time.Duration) {
		if x := time.Until(t0.Add(d)); x > 0 {
			time.Sleep(x)
		}
		if late := int64(time.Since(t0) - d); late > run.Late {
			run.Late = late
		}
	}
	rbuf := make([]byte, 64)
	for j, k := range kinds {
		sleepUntil(time.Duration(j)*tick + tick/2)
		switch k {
		case "hb":
			before := int64(time.Since(t0))
			select {
			case st.feed <- vsItem{data: hbBytes}:
				run.HbBefore = append(run.HbBefore, before)
				run.HbAfter = append(run.HbAfter, int64(time.Since(t0)))
			case <-st.closedCh:
			case <-time.After(tick / 2):
			}
		case "data":
			select {
			case st.feed <- vsItem{data: []byte{byte(j + 1)}}:
				// consume it so the queue never fills
				go func() { sc.Read(rbuf) }()
			case <-st.closedCh:
			case <-time.After(tick / 2):
			}
		}
		sleepUntil(time.Duration(j+1)*tick + tick/4)
		run.Closed = append(run.Closed, st.isClosed())
	}
	// keep watching (peer silent) until the heartbeat timeout after the last heartbeat has certainly passed
	lastHb := int64(0)
	if n := len(run.HbAfter); n > 0 {
		lastHb = run.HbAfter[n-1]
	}
	tail := time.Duration(lastHb) + 2*interval + slack + 5*time.Millisecond
	for !st.isClosed() && time.Since(t0) < tail {
		time.Sleep(time.Millisecond)
	}
	run.End = int64(time.Since(t0))
	if c := st.closeAt.Load(); c != 0 {
		run.CloseAt = c - t0.UnixNano()
	}
	return run
}

// vhJudge applies the two one-sided timing bounds to an observed timeline
func vhJudge(r vhRun, interval time.Duration, slack time.Duration) string {
	I := int64(interval)
	if r.CloseAt >= 0 {
		// closed: the last heartbeat handed over before the close must be at least one interval old
		last := int64(0)
		for _, h := range r.HbBefore {
			if h <= r.CloseAt && h > last {
				last = h
			}
		}
		if r.CloseAt-last < I-int64(2*time.Millisecond) {
			return "NoEarlyClose"
		}
	}
	// dead peer: after the last heartbeat the connection must be closed within two intervals (+ slack)
	last := int64(0)
	for _, h := range r.HbAfter {
		if h > last {
			last = h
		}
	}
	limit := last + 2*I + int64(slack)
	if r.End > limit && (r.CloseAt < 0 || r.CloseAt > limit) {
		return "DeadPeerCloses"
	}
	return ""
}

func TestVerifWatchdog(t *testing.T) {
	out := vOpenOut(t)
	defer out.Close()
	interval := time.Duration(vEnvInt("VERIF_HB_MS", 50)) * time.Millisecond
	par := vEnvInt("VERIF_PAR", 48)
	slack := interval/2 + 15*time.Millisecond
	type job struct {
		idx   int
		kinds []string
		want  []bool
	}
	var all []job
	vReadLines(t, func(line []byte) {
		var beh []map[string]any
		if err := json.Unmarshal(line, &beh); err != nil {
			t.Fatalf("bad behaviour: %v", err)
		}
		j := job{idx: len(all)}
		for _, s := range beh {
			j.kinds = append(j.kinds, s["k"].(string))
			j.want = append(j.want, s["closed"].(bool))
		}
		all = append(all, j)
	})
	type result struct {
		job    job
		run    vhRun
		honor  bool
		viol   string
		differ bool
	}
	play := func(j job, honor bool) result {
		r := vhPlay(j.kinds, interval, slack, honor)
		res := result{job: j, run: r, honor: honor, viol: vhJudge(r, interval, slack)}
		if !honor {
			for i := range j.want {
				if i < len(r.Closed) && r.Closed[i] != j.want[i] {
					res.differ = true
				}
			}
		}
		return res
	}
	results := make([]result, 0, 2*len(all))
	var mu sync.Mutex
	sem := make(chan struct{}, par)
	var wg sync.WaitGroup
	for _, j := range all {
		for _, honor := range []bool{false, true} {
			if honor && j.idx%4 != int(vSeed()%4) {
				continue // the deadline-honouring stream variant on a quarter of the scenarios
			}
			wg.Add(1)
			sem <- struct{}{}
			go func(j job, honor bool) {
				defer wg.Done()
				defer func() { <-sem }()
				r := play(j, honor)
				mu.Lock()
				results = append(results, r)
				mu.Unlock()
			}(j, honor)
		}
	}
	wg.Wait()
	// anything suspicious is repeated alone (no parallel load from this driver) before it is reported
	nrun, nviol, nincon, nmatch, nretry := 0, 0, 0, 0, 0
	for _, r := range results {
		nrun++
		if r.viol == "" && !r.differ {
			nmatch++
			continue
		}
		if nviol >= 25 {
			continue // enough confirmed violations; the remaining candidates are not pursued
		}
		nretry++
		r2 := play(r.job, r.honor)
		switch {
		case r.viol != "" && r2.viol == r.viol:
			nviol++
			out.Emit(map[string]any{"kind": "violation", "prop": r.viol, "kinds": r.job.kinds, "honorDeadline": r.honor,
				"run1": r.run, "run2": r2.run, "interval_ms": interval.Milliseconds()})
		case r2.viol == "" && !r2.differ:
			nmatch++
		default:
			nincon++
			out.Emit(map[string]any{"kind": "inconclusive", "kinds": r.job.kinds, "want": r.job.want, "honorDeadline": r.honor,
				"run1": r.run, "run2": r2.run, "viol1": r.viol, "viol2": r2.viol})
		}
	}
	out.Emit(map[string]any{"kind": "summary", "scenarios": len(all), "runs": nrun, "matched": nmatch, "violations": nviol,
		"inconclusive": nincon, "retried": nretry, "interval_ms": interval.Milliseconds()})
}

// ---------------------------------------------------------------- certificates

func vcPub(t *testing.T, der []byte) (*x509.Certificate, []byte) {
	c, err := x509.ParseCertificate(der)
	if err != nil {
		t.Fatalf("parse: %v", err)
	}
	pk, ok := c.PublicKey.(*ecdsa.PublicKey)
	if !ok {
		t.Fatalf("not an ECDSA key")
	}
	return c, append(pk.X.Bytes(), pk.Y.Bytes()...)
}

func TestVerifCerts(t *testing.T) {
	out := vOpenOut(t)
	defer out.Close()
	rng := rand.New(rand.NewSource(vSeed()*104729 + 16))
	n := vEnvInt("VERIF_SECRETS", 60)
	type derived struct {
		secret            []byte
		cpub, spub        []byte
		cser, sser        string
		ccn, scn          string
		random            [28]byte
		clientDER, srvDER []byte
	}
	derive := func(secret []byte) derived {
		cc, sc, err := certsFromSeed(secret)
		if err != nil {
			t.Fatalf("certsFromSeed: %v", err)
		}
		r, err := clientHelloRandomFromSeed(secret)
		if err != nil {
			t.Fatalf("clientHelloRandomFromSeed: %v", err)
		}
		c, cp := vcPub(t, cc.Certificate[0])
		s, sp := vcPub(t, sc.Certificate[0])
		return derived{secret, cp, sp, c.SerialNumber.String(), s.SerialNumber.String(), c.Subject.CommonName, s.Subject.CommonName, r,
			cc.Certificate[0], sc.Certificate[0]}
	}
	lens := []int{32, 32, 32, 32, 16, 1, 48, 64, 100}
	var ds []derived
	bad := 0
	report := func(key string, detail map[string]any) {
		bad++
		detail["kind"], detail["key"] = "violation", key
		out.Emit(detail)
	}
	for i := 0; i < n; i++ {
		secret := make([]byte, lens[i%len(lens)])
		rng.Read(secret)
		if i%7 == 3 && len(ds) > 0 {
			// a neighbour of an earlier secret: one flipped bit
			secret = append([]byte(nil), ds[len(ds)-1].secret...)
			secret[rng.Intn(len(secret))] ^= 1 << uint(rng.Intn(8))
		}
		if i%7 == 5 && len(ds) > 0 {
			// a secret RELATED to an earlier one the way keyed-hash constructions normalise their keys: zero-padded at either end,
			// shortened by a trailing byte, or - for secrets longer than a hash block - replaced by its digest.  Different secrets all.
			prev := ds[len(ds)-1-rng.Intn(minInt(len(ds), 9))].secret
			switch (i / 7) % 6 {
			case 0:
				secret = append(append([]byte(nil), prev...), 0)
			case 1:
				secret = append(append([]byte(nil), prev...), 0, 0, 0, 0)
			case 2:
				secret = append([]byte{0}, prev...)
			case 3:
				if len(prev) > 1 {
					secret = append([]byte(nil), prev[:len(prev)-1]...)
				}
			case 4:
				long := make([]byte, 100)
				rng.Read(long)
				ds = append(ds, derive(long))
				h := sha256.Sum256(long)
				secret = h[:]
			case 5:
				h := sha256.Sum256(prev)
				secret = h[:]
			}
		}
		a, b := derive(secret), derive(append([]byte(nil), secret...))
		same := bytes.Equal(a.cpub, b.cpub) && bytes.Equal(a.spub, b.spub) && a.cser == b.cser && a.sser == b.sser &&
			a.ccn == b.ccn && a.scn == b.scn && a.random == b.random
		if !same {
			report("certs:same-secret-differs", map[string]any{"secret": fmt.Sprintf("%x", secret)})
		}
		// the checks the two ends make on each other must accept the other end's derivation
		if err := verifyCert(a.clientDER, b.clientDER); err != nil {
			report("certs:same-secret-client-cert-rejected", map[string]any{"secret": fmt.Sprintf("%x", secret), "err": err.Error()})
		}
		if err := verifyCert(a.srvDER, b.srvDER); err != nil {
			report("certs:same-secret-server-cert-rejected", map[string]any{"secret": fmt.Sprintf("%x", secret), "err": err.Error()})
		}
		if bytes.Equal(a.cpub, a.spub) {
			report("certs:client-and-server-key-equal", map[string]any{"secret": fmt.Sprintf("%x", secret)})
		}
		ds = append(ds, a)
	}
	pairs := 0
	for i := range ds {
		for j := i + 1; j < len(ds); j++ {
			if bytes.Equal(ds[i].secret, ds[j].secret) {
				continue
			}
			pairs++
			x, y := ds[i], ds[j]
			if bytes.Equal(x.cpub, y.cpub) || bytes.Equal(x.spub, y.spub) || x.cser == y.cser || x.sser == y.sser || x.random == y.random ||
				x.ccn == y.ccn || x.scn == y.scn {
				report("certs:different-secrets-collide", map[string]any{"a": fmt.Sprintf("%x", x.secret), "b": fmt.Sprintf("%x", y.secret)})
			}
			if j == i+1 {
				if err := verifyCert(x.clientDER, y.clientDER); err == nil {
					report("certs:different-secret-client-cert-accepted", map[string]any{"a": fmt.Sprintf("%x", x.secret), "b": fmt.Sprintf("%x", y.secret)})
				}
				if err := verifyCert(x.srvDER, y.srvDER); err == nil {
					report("certs:different-secret-server-cert-accepted", map[string]any{"a": fmt.Sprintf("%x", x.secret), "b": fmt.Sprintf("%x", y.secret)})
				}
			}
		}
	}
	out.Emit(map[string]any{"kind": "summary", "secrets": len(ds), "pairs": pairs, "violations": bad,
		"sample": map[string]any{"secret": fmt.Sprintf("%x", ds[0].secret), "clientCN": ds[0].ccn, "serverCN": ds[0].scn,
			"helloRandom": fmt.Sprintf("%x", ds[0].random[:])}})
}

func minInt(a, b int) int {
	if a < b {
		return a
	}
	return b
}
