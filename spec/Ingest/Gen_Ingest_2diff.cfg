SPECIFICATION GenSpec
CONSTANTS
  Scenario = "2diff"
  Protocol = "atomic"
  SweepRecheck = TRUE
  ShareEnabled = TRUE
  ShareMode = "detached"
  ReloadProtocol = "snapshot"
INVARIANT Emit
CHECK_DEADLOCK FALSE
