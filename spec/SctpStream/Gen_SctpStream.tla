--------------------------- MODULE Gen_SctpStream ---------------------------
(* Behaviour generator for stage B: every maximal path (the source exhausted or
   failed, everything readable read, MaxPostErr reads after the error) or every
   path cut at Depth is printed as one JSON list of observations.  The same
   constants (maxMessageSize = M, buffer sizes, item sequence) are then run on
   the real hbConn + SCTPConn through a scripted msgStream. *)
EXTENDS SctpStream, Json
CONSTANT Depth
VARIABLE hist
GenInit == Init /\ hist = <<>>
GenNext == /\ Len(hist) < Depth
           /\ Next
           /\ hist' = Append(hist, obs')
GenSpec == GenInit /\ [][GenNext]_<<vars, hist>>
Emit == (Len(hist) = Depth \/ (Terminal /\ Len(hist) > 0)) => PrintT(ToJson(hist))
=============================================================================
