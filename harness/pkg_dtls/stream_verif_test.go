//go:build verif

package dtls

// Conformance drivers for spec/SctpStream (property C16, read path).
//
//   TestVerifStreamReplay   stage B: every behaviour TLC generated (Gen_SctpStream) is run on the real
//                           hbConn (heartbeatServer) + SCTPConn (newSCTPConn) over a scripted msgStream with
//                           THE SAME constants (maxMessageSize = M, buffer lengths, item sequence).  After every
//                           step the result of the call and the projected real state are compared with what the
//                           specification computed, and the observation is also judged by a property-level
//                           oracle that does not depend on the spec (bytes returned vs bytes fed).
//                           Slow-reader behaviours (Gen_SctpBacklog) fill the real recvCh to its capacity and one
//                           beyond: the driver then observes that recvLoop holds the message (asks for no further
//                           one) until a read makes room.
//   TestVerifStreamRandom   stage C: seeded random item / buffer-size sequences at the production message size
//                           (65536) and with the production heartbeat payload are recorded as ndjson traces
//                           for Trace_SctpStream; the first VERIF_SLOW of them with a stalled reader.
//   TestVerifStreamFreeRun  unscheduled slow reader (peer pushes freely, reader falls behind until the peer is
//                           stuck, catches up in bursts); byte oracle only, optionally under -race.

import (
	"bytes"
	"encoding/json"
	"fmt"
	"math/rand"
	"net"
	"runtime"
	"sync"
	"sync/atomic"
	"testing"
	"time"
)

// ---------------------------------------------------------------- scripted msgStream

type vsItem struct {
	data []byte
	err  error
}

// vsStream is a msgStream whose Read side is fed item by item by the driver and whose write side is a
// counter with pion/sctp's buffered-amount semantics (onBufferReleased: the callback fires when the amount
// drops from above the threshold to the threshold or below).
type vsStream struct {
	feed      chan vsItem   // unbuffered: an item is handed over only while recvLoop sits in Read
	ready     chan struct{} // one token per Read call entered
	closedCh  chan struct{}
	closeOnce sync.Once
	closeAt   atomic.Int64 // unix nanos of the first Close
	honorDl   bool         // return a timeout error when the read deadline passes
	dlMu      sync.Mutex
	rddl      time.Time

	wmu    sync.Mutex
	amt    uint64 // BufferedAmount()
	maxAmt uint64 // its high-water mark
	th     uint64
	onLow  func()
}

func vsNewStream() *vsStream {
	return &vsStream{feed: make(chan vsItem), ready: make(chan struct{}, 1), closedCh: make(chan struct{})}
}

// how long recvLoop is given to ask for another message before it is taken to be blocked on a full recvCh
const vsHeldGrace = 10 * time.Millisecond

var errVsTimeout = fmt.Errorf("vs: read deadline exceeded")
var errVsStream = fmt.Errorf("vs: scripted stream error")

func (s *vsStream) Read(b []byte) (int, error) {
	select {
	case <-s.closedCh:
		return 0, net.ErrClosed
	default:
	}
	select {
	case s.ready <- struct{}{}:
	default:
	}
	var dl <-chan time.Time
	if s.honorDl {
		s.dlMu.Lock()
		d := s.rddl
		s.dlMu.Unlock()
		if !d.IsZero() {
			t := time.NewTimer(time.Until(d))
			defer t.Stop()
			dl = t.C
		}
	}
	select {
	case it := <-s.feed:
		if len(it.data) > len(b) {
			return 0, fmt.Errorf("vs: short buffer (%d < %d)", len(b), len(it.data))
		}
		n := copy(b, it.data)
		return n, it.err
	case <-s.closedCh:
		return 0, net.ErrClosed
	case <-dl:
		return 0, errVsTimeout
	}
}

func (s *vsStream) Write(b []byte) (int, error) {
	select {
	case <-s.closedCh:
		return 0, net.ErrClosed
	default:
	}
	s.wmu.Lock()
	s.amt += uint64(len(b))
	if s.amt > s.maxAmt {
		s.maxAmt = s.amt
	}
	s.wmu.Unlock()
	return len(b), nil
}

// drain models the network acknowledging k bytes (pion/sctp Stream.onBufferReleased)
func (s *vsStream) drain(k uint64) {
	s.wmu.Lock()
	from := s.amt
	if s.amt < k {
		s.amt = 0
	} else {
		s.amt -= k
	}
	f := s.onLow
	fire := f != nil && from > s.th && s.amt <= s.th
	s.wmu.Unlock()
	if fire {
		f()
	}
}

func (s *vsStream) Close() error {
	s.closeOnce.Do(func() {
		s.closeAt.Store(time.Now().UnixNano())
		close(s.closedCh)
	})
	return nil
}

func (s *vsStream) isClosed() bool {
	select {
	case <-s.closedCh:
		return true
	default:
		return false
	}
}

func (s *vsStream) BufferedAmount() uint64 {
	s.wmu.Lock()
	defer s.wmu.Unlock()
	return s.amt
}

func (s *vsStream) SetReadDeadline(t time.Time) error {
	if s.honorDl {
		s.dlMu.Lock()
		s.rddl = t
		s.dlMu.Unlock()
	}
	return nil
}

func (s *vsStream) SetBufferedAmountLowThreshold(th uint64) {
	s.wmu.Lock()
	s.th = th
	s.wmu.Unlock()
}

func (s *vsStream) OnBufferedAmountLow(f func()) {
	s.wmu.Lock()
	s.onLow = f
	s.wmu.Unlock()
}

// vsConn is the net.Conn handed to newSCTPConn (only Close / addresses / deadlines are used through it)
type vsConn struct{ closed atomic.Bool }

func (c *vsConn) Read(b []byte) (int, error)         { return 0, net.ErrClosed }
func (c *vsConn) Write(b []byte) (int, error)        { return len(b), nil }
func (c *vsConn) Close() error                       { c.closed.Store(true); return nil }
func (c *vsConn) LocalAddr() net.Addr                { return &net.UDPAddr{IP: net.IPv4(127, 0, 0, 1), Port: 1} }
func (c *vsConn) RemoteAddr() net.Addr               { return &net.UDPAddr{IP: net.IPv4(127, 0, 0, 1), Port: 2} }
func (c *vsConn) SetDeadline(t time.Time) error      { return nil }
func (c *vsConn) SetReadDeadline(t time.Time) error  { return nil }
func (c *vsConn) SetWriteDeadline(t time.Time) error { return nil }

// ---------------------------------------------------------------- one real session under the driver

type vsRead struct {
	n      int
	err    error
	bytes  []byte
	broken bool // the call panicked or returned an impossible count
}

type vsWorld struct {
	m       int
	hbBytes []byte
	st      *vsStream
	hb      *hbConn
	sc      *SCTPConn
	cmd     chan int
	res     chan vsRead
	timer   *time.Timer
	// property-level oracle state (independent of the specification)
	expect    []byte // every data byte released to the real code, in order
	delivered int
	srcErr    bool
	errSeen   bool
	pending   int
	fedN      int
	stuck     bool // a real call did not return: the behaviour cannot be continued
	fullSeen  bool // the receive queue has been full at some point of this session (slow reader)
	held      bool // recvLoop took the last item and has not asked for another: it is blocked handing it to a full recvCh
	msgBytes  int  // bytes released as plain messages (the rest of expect came together with the error)
}

func vsNewWorld(m int, hbBytes []byte, interval time.Duration) (*vsWorld, error) {
	w := &vsWorld{m: m, hbBytes: hbBytes, st: vsNewStream(), cmd: make(chan int), res: make(chan vsRead, 1)}
	hb, err := heartbeatServer(w.st, &heartbeatConfig{Interval: interval, Heartbeat: hbBytes}, m)
	if err != nil {
		return nil, err
	}
	w.hb = hb
	w.sc = newSCTPConn(hb, &vsConn{}, uint64(m))
	w.timer = time.NewTimer(time.Hour)
	w.timer.Stop()
	go func() {
		for b := range w.cmd {
			func() {
				defer func() {
					if r := recover(); r != nil {
						w.res <- vsRead{0, fmt.Errorf("panic in SCTPConn.Read: %v", r), nil, true}
					}
				}()
				buf := make([]byte, b)
				n, err := w.sc.Read(buf)
				if n < 0 || n > b {
					w.res <- vsRead{0, fmt.Errorf("SCTPConn.Read returned n=%d for a %d-byte buffer", n, b), nil, true}
					return
				}
				w.res <- vsRead{n, err, buf[:n], false}
			}()
		}
	}()
	// recvLoop must be sitting in Read before the first item is released
	if !w.waitReady(2 * time.Second) {
		return nil, fmt.Errorf("recvLoop did not start reading")
	}
	return w, nil
}

func (w *vsWorld) waitReady(d time.Duration) bool {
	w.timer.Reset(d)
	defer w.timer.Stop()
	select {
	case <-w.st.ready:
		return true
	case <-w.st.closedCh:
		return true
	case <-w.timer.C:
		return false
	}
}

func (w *vsWorld) close() {
	w.sc.Close()
	close(w.cmd)
}

// content of the next n data bytes; class selects plain bytes or bytes that overlap the heartbeat payload
func (w *vsWorld) content(n int, class int) []byte {
	b := make([]byte, n)
	base := len(w.expect)
	for i := range b {
		b[i] = byte(1 + (base+i)%239)
	}
	switch class {
	case 1: // the heartbeat payload is a proper prefix of the message
		if n > len(w.hbBytes) {
			copy(b, w.hbBytes)
		}
	case 2: // the message is a proper prefix of the heartbeat payload
		if n < len(w.hbBytes) {
			copy(b, w.hbBytes[:n])
		}
	case 3: // the message ends with the heartbeat payload
		if n > len(w.hbBytes) {
			copy(b[n-len(w.hbBytes):], w.hbBytes)
		}
	}
	return b
}

func (w *vsWorld) project() map[string]any {
	buf := w.sc.readLength - w.sc.readOffset
	closed := false
	select {
	case <-w.hb.closed:
		closed = true
	default:
	}
	return map[string]any{"chan": len(w.hb.recvCh), "held": w.held, "buf": buf, "bufErr": w.sc.readErr != nil && buf > 0,
		"delivered": w.delivered, "closed": closed}
}

// judge applies the property to one real read result; returns "" or the name of the violated clause
func (w *vsWorld) judge(r vsRead) (string, int) {
	off := w.delivered
	viol := ""
	if r.broken {
		w.stuck = true
		return "StreamFidelity:read-broke", off
	}
	if r.n > 0 {
		end := w.delivered + r.n
		if end > len(w.expect) || !bytes.Equal(r.bytes, w.expect[w.delivered:end]) {
			off = bytes.Index(w.expect, r.bytes)
			if len(w.hbBytes) > 0 && bytes.Contains(r.bytes, w.hbBytes) && (end > len(w.expect) || !bytes.Contains(w.expect[w.delivered:end], w.hbBytes)) {
				viol = "HeartbeatsNeverSurface"
			} else {
				viol = "StreamFidelity:wrong-bytes"
			}
		}
		if w.errSeen && viol == "" {
			viol = "ErrorAfterItsData:data-after-error"
		}
		w.delivered += r.n
	}
	if r.err != nil {
		if !w.srcErr && viol == "" {
			viol = "NoSpuriousError"
		}
		if w.delivered < len(w.expect) && viol == "" {
			viol = "ErrorAfterItsData:error-before-data"
		}
		w.errSeen = true
	}
	return viol, off
}

func vsRdObs(r vsRead, off int) map[string]any {
	return map[string]any{"n": r.n, "err": r.err != nil, "off": off}
}

func vsErrText(e error) string {
	if e == nil {
		return ""
	}
	return e.Error()
}

// apply runs one abstract action on the real objects; got is in the spec's obs format.
// wantRd tells whether the specification expects a pending read to complete in this step.
func (w *vsWorld) apply(step map[string]any, class int, wait time.Duration) (got map[string]any, viol string, errText string) {
	a, _ := step["a"].(string)
	got = map[string]any{"a": a}
	switch a {
	case "Feed":
		k, _ := step["k"].(string)
		n := int(step["n"].(float64))
		got["k"], got["n"] = k, n
		var it vsItem
		switch k {
		case "hb":
			it = vsItem{data: w.hbBytes}
		case "msg":
			it = vsItem{data: w.content(n, class)}
			w.expect = append(w.expect, it.data...)
			w.msgBytes = len(w.expect)
		case "err":
			it = vsItem{data: w.content(n, 0), err: errVsStream}
			w.expect = append(w.expect, it.data...)
			w.srcErr = true
		}
		w.fedN++
		full := len(w.hb.recvCh) == cap(w.hb.recvCh)
		w.fullSeen = w.fullSeen || full
		w.timer.Reset(wait)
		select {
		case w.st.feed <- it:
			w.timer.Stop()
		case <-w.st.closedCh:
			w.timer.Stop()
			got["feedRefused"] = "stream already closed"
			w.stuck = true
			return got, "NoSpuriousError:closed-without-error", ""
		case <-w.timer.C:
			got["feedRefused"] = "recvLoop not reading"
			w.stuck = true
			return got, "StreamFidelity:receiver-stalled", ""
		}
		if full && k != "hb" {
			// Slow reader: the receive queue (read from the real object) was full when this message was handed
			// over, so recvLoop has nowhere to put it and must hold it - it asks for the next message only after
			// a reader has made room.  Whether it really does is observed (no new stream.Read within the grace
			// period), not assumed: a receiver that drops or overwrites instead shows up as held = false here
			// and in the bytes read later.
			w.held = !w.waitReady(vsHeldGrace)
		} else if !w.waitReady(wait) {
			got["feedStuck"] = true
			w.stuck = true
			return got, "StreamFidelity:receiver-stalled", ""
		}
		got["rd"] = map[string]any{"none": true}
		if w.pending != 0 {
			wantRd := false
			if rd, ok := step["rd"].(map[string]any); ok {
				_, none := rd["none"]
				wantRd = !none
			}
			if wantRd {
				w.timer.Reset(wait)
				select {
				case r := <-w.res:
					w.timer.Stop()
					w.pending = 0
					v, off := w.judge(r)
					viol, errText = v, vsErrText(r.err)
					got["rd"] = vsRdObs(r, off)
				case <-w.timer.C:
					got["rd"] = map[string]any{"blocked": true}
					w.stuck = true
					if w.delivered < len(w.expect) {
						viol = "StreamFidelity:fed-bytes-never-delivered"
					} else if w.srcErr && !w.errSeen {
						viol = "ErrorNeverReported"
					}
				}
			} else {
				// the read should still be waiting; give it a chance to (wrongly) complete
				runtime.Gosched()
				select {
				case r := <-w.res:
					w.pending = 0
					v, off := w.judge(r)
					viol, errText = v, vsErrText(r.err)
					got["rd"] = vsRdObs(r, off)
				default:
				}
			}
		}
	case "Read":
		b := int(step["b"].(float64))
		got["b"] = b
		// a read that finds SCTPConn's own buffer empty takes a message out of recvCh
		dequeues := w.sc.readOffset == w.sc.readLength
		w.cmd <- b
		w.timer.Reset(wait)
		select {
		case r := <-w.res:
			w.timer.Stop()
			v, off := w.judge(r)
			viol, errText = v, vsErrText(r.err)
			got["rd"] = vsRdObs(r, off)
			if w.held && dequeues {
				// room was made: recvLoop's blocked send completes and it asks for the next message (or, if what
				// it held was the stream error, closes the connection)
				if !w.waitReady(wait) {
					got["refillStuck"] = true
					w.stuck = true
					if viol == "" {
						viol = "StreamFidelity:receiver-stalled"
					}
				}
				w.held = false
			}
		case <-w.timer.C:
			w.pending = b
			w.stuck = true
			got["rd"] = map[string]any{"blocked": true}
			if w.delivered < len(w.expect) {
				viol = "StreamFidelity:fed-bytes-never-delivered"
			} else if w.srcErr && !w.errSeen {
				viol = "ErrorNeverReported"
			} else {
				viol = ""
			}
		}
	case "ReadStart":
		b := int(step["b"].(float64))
		got["b"] = b
		w.cmd <- b
		w.pending = b
		// let the reader run into its wait
		runtime.Gosched()
		select {
		case r := <-w.res:
			w.pending = 0
			v, off := w.judge(r)
			viol, errText = v, vsErrText(r.err)
			got["rd"] = vsRdObs(r, off)
		default:
		}
	default:
		panic("unknown action " + a)
	}
	got["st"] = w.project()
	return got, viol, errText
}

func vsOps(beh []map[string]any) []string {
	ops := []string{}
	for _, s := range beh {
		switch s["a"] {
		case "Feed":
			ops = append(ops, fmt.Sprintf("Feed(%v,%v)", s["k"], s["n"]))
		default:
			ops = append(ops, fmt.Sprintf("%v(%v)", s["a"], s["b"]))
		}
	}
	return ops
}

// situation names what was outstanding when a property violation was observed (part of the violation key)
func (w *vsWorld) situation() string {
	queued := w.delivered < w.msgBytes
	withErr := len(w.expect) > w.msgBytes && w.delivered < len(w.expect)
	sit := "none"
	switch {
	case queued && withErr:
		sit = "queued+with-error"
	case withErr:
		sit = "with-error"
	case queued:
		sit = "queued"
	}
	if w.fullSeen {
		// the reader fell behind by the whole receive queue before this happened
		sit += ":slow-reader"
	}
	return sit
}

func TestVerifStreamReplay(t *testing.T) {
	out := vOpenOut(t)
	defer out.Close()
	m := vEnvInt("VERIF_M", 3)
	workers := vEnvInt("VERIF_WORKERS", runtime.GOMAXPROCS(0))
	maxMis := int64(vEnvInt("VERIF_MAXMIS", 200))
	hbBytes := []byte{0xFE, 0xFF}
	if m < 2 {
		hbBytes = hbBytes[:1]
	}
	var nb, ns, nm, nprop, nshape, qcap atomic.Int64
	type job struct {
		idx  int64
		line []byte
	}
	jobs := make(chan job, 1024)
	var wg sync.WaitGroup
	for i := 0; i < workers; i++ {
		wg.Add(1)
		go func() {
			defer wg.Done()
			for j := range jobs {
				if nm.Load() >= maxMis {
					continue
				}
				var beh []map[string]any
				if err := json.Unmarshal(j.line, &beh); err != nil {
					t.Errorf("bad behaviour: %v", err)
					continue
				}
				nb.Add(1)
				class := int((j.idx + vSeed()) % 4)
				// Run the whole behaviour: the first divergence from the specification is a candidate; the
				// property-level oracle decides whether the real code broke the property (a divergence of the
				// projected state alone is a modelling difference, reported separately).  Only a call that
				// did not return in time depends on timing: such a behaviour is run a second time with a much
				// longer wait before anything is reported.
				var rec map[string]any
				for attempt, wait := range []time.Duration{300 * time.Millisecond, 1500 * time.Millisecond} {
					w, err := vsNewWorld(m, hbBytes, time.Hour)
					if err != nil {
						t.Errorf("setup: %v", err)
						break
					}
					qcap.Store(int64(cap(w.hb.recvCh)))
					rec = nil
					var first map[string]any
					for i, step := range beh {
						if attempt == 0 {
							ns.Add(1)
						}
						got, viol, errText := w.apply(step, class, wait)
						same := vCanon(vNorm(got)) == vCanon(step)
						if !same && first == nil {
							first = map[string]any{"step": i, "want": step, "got": vNorm(got), "ops": vsOps(beh[:i+1])}
						}
						if viol != "" {
							rec = map[string]any{"kind": "mismatch", "beh": j.idx, "step": i, "want": step, "got": vNorm(got),
								"prop": viol, "situation": w.situation(), "err": errText, "ops": vsOps(beh[:i+1]), "class": class, "m": m,
								"first": first, "attempt": attempt}
							break
						}
						if w.stuck {
							break
						}
					}
					if rec == nil && first != nil {
						first["kind"], first["beh"], first["prop"], first["class"], first["m"], first["attempt"] = "mismatch", j.idx, "", class, m, attempt
						rec = first
					}
					stuck := w.stuck
					w.close()
					if !stuck {
						break
					}
				}
				if rec != nil {
					nm.Add(1)
					if rec["prop"] != "" {
						nprop.Add(1)
					} else {
						nshape.Add(1)
					}
					out.Emit(rec)
				}
			}
		}()
	}
	var idx int64
	vReadLines(t, func(line []byte) {
		idx++
		jobs <- job{idx, line}
	})
	close(jobs)
	wg.Wait()
	out.Emit(map[string]any{"kind": "summary", "behaviours": nb.Load(), "steps": ns.Load(), "mismatches": nm.Load(),
		"property": nprop.Load(), "shape": nshape.Load(), "m": m, "truncated": nm.Load() >= maxMis, "recvch_cap": qcap.Load()})
}

// ---------------------------------------------------------------- stage C: production-size random histories

func TestVerifStreamRandom(t *testing.T) {
	out := vOpenOut(t)
	defer out.Close()
	rng := rand.New(rand.NewSource(vSeed()*7919 + 16))
	ntr := vEnvInt("VERIF_TRACES", 30)
	nitems := vEnvInt("VERIF_ITEMS", 12)
	const m = 65536
	msgLens := []int{1, 2, 31, 32, 33, 100, 1000, 4096, 65535, 65536}
	rdSmall := []int{1, 2, 7, 32, 33, 1000}
	rdLarge := []int{4096, 20000, 65535, 65536, 65537, 200000}
	// the first VERIF_SLOW traces have a SLOW READER: nothing is read until `stall` messages wait unread (levels
	// around the real capacity of recvCh: the queue full, and recvLoop holding one more), then reads and
	// further arrivals interleave at random and everything is read out
	nslow := vEnvInt("VERIF_SLOW", 0)
	nitems0 := nitems
	nviol := 0
	for tr := 0; tr < ntr; tr++ {
		// production heartbeat payload (validate() default), interval long enough to keep the watchdog out
		w, err := vsNewWorld(m, nil, time.Hour)
		if err != nil {
			t.Fatalf("setup: %v", err)
		}
		w.hbBytes = defaultConfig.Heartbeat
		out.Emit(map[string]any{"a": "Reset"})
		stall, nitems := 0, nitems0
		if tr < nslow {
			c := cap(w.hb.recvCh)
			stall = []int{c + 1, c, c - 1, c / 2, c + 1, c}[tr%6]
			nitems = 2*stall + 16 + rng.Intn(24)
		}
		errAt := -1 // index (1-based) of the item that is the stream error; -1: the stream stays healthy
		if rng.Intn(4) != 0 {
			errAt = 1 + rng.Intn(nitems)
		}
		postErr := 0
		var beh []map[string]any
	steps:
		for len(beh) < nitems*12 && !w.stuck {
			p := w.project()
			buf, qlen := p["buf"].(int), p["chan"].(int)
			readable := buf > 0 || qlen > 0 || p["closed"].(bool)
			// recvLoop takes the next item only when it is not holding one for a full queue
			canFeed := !w.srcErr && w.fedN < nitems && !w.held
			outstanding := qlen
			if w.held {
				outstanding++
			}
			if stall > 0 && (outstanding >= stall || !canFeed) {
				stall = 0
			}
			if stall > 0 && w.fedN+1 == errAt {
				errAt++ // the stream does not fail while the backlog builds up
			}
			var s map[string]any
			feed := func() {
				switch x := rng.Intn(10); {
				case w.fedN+1 == errAt:
					n := 0
					if rng.Intn(2) == 0 {
						n = msgLens[rng.Intn(len(msgLens))]
					}
					s = map[string]any{"a": "Feed", "k": "err", "n": float64(n)}
				case x < 3:
					s = map[string]any{"a": "Feed", "k": "hb", "n": float64(0)}
				default:
					s = map[string]any{"a": "Feed", "k": "msg", "n": float64(msgLens[rng.Intn(len(msgLens))])}
				}
				// tell apply() whether the waiting read is expected to complete with this item
				if w.pending != 0 && s["k"] != "hb" {
					s["rd"] = map[string]any{"n": 0}
				}
			}
			switch {
			case stall > 0:
				feed()
			case w.pending != 0:
				if !canFeed {
					break steps
				}
				feed()
			case readable && (!canFeed || rng.Intn(3) != 0):
				if w.errSeen {
					if postErr++; postErr > 2 {
						break steps
					}
				}
				b := rdSmall[rng.Intn(len(rdSmall))]
				// a large message is not chopped into thousands of events
				if buf > 5000 || (buf == 0 && qlen > 0) || rng.Intn(3) == 0 {
					b = rdLarge[rng.Intn(len(rdLarge))]
				}
				s = map[string]any{"a": "Read", "b": float64(b)}
			case canFeed && (readable || rng.Intn(3) != 0):
				feed()
			case canFeed:
				b := rdSmall[rng.Intn(len(rdSmall))]
				if rng.Intn(2) == 0 {
					b = rdLarge[rng.Intn(len(rdLarge))]
				}
				s = map[string]any{"a": "ReadStart", "b": float64(b)}
			default:
				break steps
			}
			beh = append(beh, s)
			got, viol, errText := w.apply(s, rng.Intn(4), 2*time.Second)
			out.Emit(got)
			if viol != "" {
				nviol++
				out.Emit(map[string]any{"a": "PropertyViolation", "prop": viol, "situation": w.situation(), "err": errText,
					"ops": vsOps(beh), "got": got})
				break
			}
		}
		w.close()
	}
	t.Logf("traces=%d property violations=%d", ntr, nviol)
}

// ---------------------------------------------------------------- free-running slow reader (no stepping)

// TestVerifStreamFreeRun lets the peer push as fast as the receive path takes it while the reader repeatedly falls
// behind until the peer can push no more (recvCh full, recvLoop holding one message, the next one waiting in the
// stream) and then catches up partly or fully - the literal "many messages before the application reads".  Nothing is
// scheduled by the driver, so what happens inside one call (a message taken out of recvCh but not yet copied) is
// exercised too; under -race (thorough tier) an unsynchronised reuse of a receive buffer is reported by the race
// detector even when the bytes happen to come out right.  Oracle: the bytes read are the concatenation of the messages.
func TestVerifStreamFreeRun(t *testing.T) {
	out := vOpenOut(t)
	defer out.Close()
	rounds := vEnvInt("VERIF_ROUNDS", 16)
	nviol := 0
	for round := 0; round < rounds; round++ {
		rng := rand.New(rand.NewSource(vSeed()*104729 + int64(round)))
		m := []int{3, 64, 1500, 65536}[round%4]
		hbBytes := []byte{0xFE, 0xFF}
		if m > 64 {
			hbBytes = defaultConfig.Heartbeat
		}
		st := vsNewStream()
		hb, err := heartbeatServer(st, &heartbeatConfig{Interval: time.Hour, Heartbeat: hbBytes}, m)
		if err != nil {
			t.Fatalf("setup: %v", err)
		}
		sc := newSCTPConn(hb, &vsConn{}, uint64(m))
		qcap := cap(hb.recvCh)
		nitems := 3*qcap + rng.Intn(2*qcap)
		withErr := round%3 == 2
		var items []vsItem
		var expect []byte
		nmsg, nhb := 0, 0
		for i := 0; i < nitems; i++ {
			if rng.Intn(5) == 0 {
				items = append(items, vsItem{data: hbBytes})
				nhb++
				continue
			}
			n := 1 + rng.Intn(m)
			if m > 1500 && rng.Intn(4) != 0 {
				n = 1 + rng.Intn(200)
			}
			b := make([]byte, n)
			for j := range b {
				b[j] = byte(1 + (len(expect)+j)%239)
			}
			items = append(items, vsItem{data: b})
			expect = append(expect, b...)
			nmsg++
		}
		if withErr {
			items = append(items, vsItem{err: errVsStream})
		}
		var fedCount atomic.Int64
		writerDone := make(chan struct{})
		go func() {
			defer close(writerDone)
			for _, it := range items {
				select {
				case st.feed <- it:
					fedCount.Add(1)
				case <-st.closedCh:
					return
				}
			}
		}()
		// the reader: stall until the peer is stuck (or done), then read a random number of times, and again
		type result struct {
			got     []byte
			err     error
			reads   int
			stalls  int
			maxBack int
			broke   string
		}
		resCh := make(chan result, 1)
		go func() {
			var r result
			defer func() {
				if p := recover(); p != nil {
					r.broke = fmt.Sprint(p)
				}
				resCh <- r
			}()
			sizes := []int{1, 2, 3, 7, m - 1, m, m + 1, 4 * m}
			for len(r.got) < len(expect) || withErr {
				// fall behind: wait until the writer makes no progress any more
				last := int64(-1)
				for {
					select {
					case <-writerDone:
					default:
						if c := fedCount.Load(); c != last {
							last = c
							time.Sleep(2 * time.Millisecond)
							continue
						}
					}
					break
				}
				r.stalls++
				if b := len(hb.recvCh); b > r.maxBack {
					r.maxBack = b
				}
				burst := 1 + rng.Intn(3*qcap)
				if rng.Intn(3) == 0 {
					burst = 1 + rng.Intn(4) // barely catches up: the backlog stays at the top
				}
				for i := 0; i < burst && (len(r.got) < len(expect) || withErr); i++ {
					sz := sizes[rng.Intn(len(sizes))]
					if sz < 1 {
						sz = 1
					}
					buf := make([]byte, sz)
					n, err := sc.Read(buf)
					r.reads++
					if n < 0 || n > sz {
						r.broke = fmt.Sprintf("Read returned n=%d for a %d-byte buffer", n, sz)
						return
					}
					r.got = append(r.got, buf[:n]...)
					if err != nil {
						r.err = err
						return
					}
				}
			}
		}()
		var r result
		timedOut := false
		select {
		case r = <-resCh:
		case <-time.After(20 * time.Second):
			timedOut = true
			sc.Close()
			r = <-resCh
		}
		sc.Close()
		<-writerDone
		prop := ""
		off := 0
		for off < len(r.got) && off < len(expect) && r.got[off] == expect[off] {
			off++
		}
		switch {
		case r.broke != "":
			prop = "StreamFidelity:read-broke"
		case off < len(r.got):
			prop = "StreamFidelity:wrong-bytes"
			end := off + 2*len(hbBytes)
			if end > len(r.got) {
				end = len(r.got)
			}
			start := off - len(hbBytes)
			if start < 0 {
				start = 0
			}
			if bytes.Contains(r.got[start:end], hbBytes) && !bytes.Contains(expect[start:min(end, len(expect))], hbBytes) {
				prop = "HeartbeatsNeverSurface"
			}
		case timedOut:
			prop = "StreamFidelity:fed-bytes-never-delivered"
		case r.err != nil && !withErr:
			prop = "NoSpuriousError"
		case r.err != nil && len(r.got) < len(expect):
			prop = "ErrorAfterItsData:error-before-data"
		}
		rec := map[string]any{"kind": "freerun", "round": round, "m": m, "messages": nmsg, "heartbeats": nhb, "bytes": len(expect),
			"read": len(r.got), "reads": r.reads, "stalls": r.stalls, "max_backlog": r.maxBack, "cap": qcap, "with_error": withErr,
			"prop": prop, "first_bad_offset": off, "err": vsErrText(r.err), "broke": r.broke}
		if prop != "" {
			nviol++
			lo, hi := off, min(off+12, len(r.got))
			rec["got_at"] = fmt.Sprintf("%x", r.got[lo:hi])
			rec["want_at"] = fmt.Sprintf("%x", expect[min(lo, len(expect)):min(off+12, len(expect))])
		}
		out.Emit(rec)
	}
	out.Emit(map[string]any{"kind": "summary", "rounds": rounds, "violations": nviol})
}
