SPECIFICATION Spec
CONSTANTS
  StationLegacySkip = 104
  StationRandMinVer = 4
  ClientPortSource = "session"
INVARIANTS Agreement
CHECK_DEADLOCK FALSE
