"""X05 - the client-side decoy registrar (extension module): senders, collector, context, RTT bookkeeping.

spec/DecoyRegistrar models one DecoyRegistrar object over up to two sequential calls of Register
(pkg/registrars/decoy-registrar/decoy-registrar.go): Call starts `width` sender goroutines (Send) and the collector loop
(`for err := range dialErrors`); one action per step another goroutine can see: DialRet / TlsRet / WriteRet (what the
dialer, the handshake + createRequest, the write of the registration request come back with; sync.Once RTT bookkeeping),
Report (the channel send; blocks while the channel is full), LingerEnd (readAndClose), Recv / Decide / Return (collector),
CtxEnd (the caller's context ends).  Two variants: "asfound" (what the code does; the conformance stages hold the real code
to it) and "intended" (what a caller relies on); the differences are the I_* properties, which the as-found variant violates
and which the conformance stages reproduce on the real code (reported as divergences, not as violations).

A  TLC exhaustive.  As found: every sender reports exactly once and never waits for the channel (capacity = width), also
   after Register returned; Register returns only after a report; the Unreachable error iff ALL senders reported
   unreachable; (reg, nil) or (nil, err); nil is reported only after the registration was written; failed handshake / write
   closed the connection; the stored RTTs are those of the first dial / handshake (sync.Once) and are there when the sleep
   is computed; nothing after the return.  Liveness: Termination with everything answering; with peers that stall for
   ever every report still gets through and a left loop leads to the return.  Intended: all that plus I_SuccessMeansWritten,
   I_NoWorkAfterCtxEnd, I_NoConnLeak, I_RttOfThisCall, I_RttOfSuccessfulDial and I_CtxEndLeadsToReturn under stalling
   peers.  Non-vacuity: a channel of width-1 must violate ReportNeverBlocks, an unbuffered one ReportGetsThrough, the
   instance without sync.Once OnceTCP; the as-found variant must violate every I_* property.
P  real-time probes for what the untimed specification cannot say (TLS deadline against the context's deadline and as a
   function of the dial time, Width 0, a late sender after the next session's PrepareRegKeys); recorded, not judged.
B  TLC-generated behaviours (every complete run-to-completion behaviour of four small instances + simulated ones of the
   large instance: widths 1..5, two calls) executed in lockstep on the real Register / Send through the injected dialer,
   a real TLS server on the other end of a pipe, a context with an exit hook and the registrar's own logger; the recorded
   event sequence must be exactly the behaviour.
C  seeded random scripts (not derived from the specification) recorded from the real code, also under -race, validated by
   Trace_DecoyRegistrar with every invariant; two corrupted traces must be rejected.
D  no gates: peers answer by themselves, all goroutines run freely under -race; judged at quiescence (reports exactly
   once, everybody returns, Unreachable iff all unreachable, one decision, one return, no data race).
"""
import json, os, copy, re, random, threading, time
from concurrent.futures import ThreadPoolExecutor
import vlib

PKG = "pkg/registrars/decoy-registrar"
FILES = ["common/vcommon_test.go", "pkg_registrars_decoy/decoyreg_verif_test.go"]
CORE = ["TypeOK", "ReportAtMostOnce", "ReportedWhenDone", "ReportNeverBlocks", "ChanBound", "ReturnNeedsReport", "UnreachableIffAll",
        "RegIffNoError", "NilMeansWritten", "ClosedOnError", "RttIsFirst", "RttReadyAtSleep", "OnceTCP", "OnceTLS", "NothingAfterReturn"]
INTENDED = ["I_SuccessMeansWritten", "I_NoWorkAfterCtxEnd", "I_NoConnLeak", "I_RttOfThisCall", "I_RttOfSuccessfulDial"]

_ticket = threading.Lock()
_count = threading.Lock()
_go = threading.Lock()


def tlc(ctx, sdir, module, cfg, count=True, **kw):
    """ctx.tlc from several threads: starts are spaced (the output file name has millisecond resolution) and the state
    counters are added under a lock."""
    with _ticket:
        time.sleep(0.04)
    r = ctx.tlc(sdir, module, cfg, count=False, **kw)
    if count:
        with _count:
            ctx.cov["states"] += r["distinct"]
            ctx.cov["transitions"] += r["generated"]
    return r


def validate(ctx, *a, **kw):
    with _ticket:
        time.sleep(0.04)
    return ctx.validate_traces(*a, **kw)


def go_test(ctx, run, env, **kw):
    with _go:
        return ctx.go_test(PKG, FILES, "decoy", run, env=env, **kw)


def fmt_ev(e):
    a = e.get("a")
    if a == "Call":
        return "Call(#%s w=%s%s%s)" % (e.get("round"), e.get("w"), " deadline" if e.get("dl") else "", " ctx-already-ended" if e.get("pre") else "")
    if a in ("DialRet", "TlsRet", "WriteRet"):
        x = "%s(%s,%s" % (a, e.get("s"), e.get("o"))
        for k in ("set", "closed", "reg"):
            if e.get(k):
                x += " " + k
        return x + ")"
    if a == "Report":
        return "Report(%s%s)" % (e.get("s"), " nil" if e.get("nil") else "")
    if a == "LingerEnd":
        return "LingerEnd(%s,%s%s)" % (e.get("s"), e.get("how"), " closed" if e.get("closed") else "")
    if a == "Recv":
        return "Recv(%s,%s)" % (e.get("s"), e.get("v"))
    if a == "Decide":
        return "Decide(%s)" % e.get("out")
    if a == "Return":
        return "Return(err=%s reg=%s slept=%s)" % (e.get("err"), e.get("reg"), e.get("slept"))
    if a == "CtxEnd":
        return "CtxEnd"
    return json.dumps(e, sort_keys=True)[:200]


def divergence_tags(b):
    """which as-found divergences from the intended behaviour an event sequence exhibits"""
    tags = set()
    ended = False
    wrote = False
    rnd = 0
    first_dial = True
    for e in b:
        a = e["a"]
        if a == "Call":
            ended = bool(e.get("pre"))
            wrote = False
            rnd = e.get("round", rnd + 1)
            first_dial = True
        elif a == "CtxEnd":
            ended = True
        elif a == "DialRet":
            if e.get("set") and e.get("o") != "ok":
                tags.add("time-of-a-failed-dial-stored-as-tcp-rtt")
            if first_dial and rnd >= 2 and not e.get("set"):
                tags.add("second-call-on-the-registrar-measures-no-rtt")
            first_dial = False
        elif a == "TlsRet":
            if ended and e.get("o") in ("ok", "nokeystream"):
                tags.add("handshake-completed-after-the-context-ended")
            if e.get("o") == "nokeystream" and not e.get("closed"):
                tags.add("connection-left-open-after-createRequest-failed")
        elif a == "WriteRet":
            if e.get("o") == "ok":
                wrote = True
                if ended:
                    tags.add("registration-written-after-the-context-ended")
        elif a == "LingerEnd":
            if not e.get("closed"):
                tags.add("connection-left-open-by-readAndClose-after-%s" % e.get("how"))
        elif a == "Return":
            if e.get("err") == "none" and not wrote:
                tags.add("success-returned-although-no-registration-was-written")
    return tags


def key_of(s):
    return re.sub(r"\d+", "N", re.sub(r"[^A-Za-z0-9]+", "-", s)).strip("-")[:80]


# ------------------------------------------------------------------------------------------------ A
def stage_a(ctx, sdir, thorough):
    t0 = time.time()
    r = tlc(ctx, sdir, "DecoyRegistrar.tla", "MC_DecoyRegistrar_thorough.cfg" if thorough else "MC_DecoyRegistrar.cfg", timeout=2400, workers=6)
    ctx.require_design_ok(r, "as-found variant")
    r3 = tlc(ctx, sdir, "DecoyRegistrar.tla", "MC_DecoyRegistrar_w3.cfg", timeout=900, workers=6)
    ctx.require_design_ok(r3, "as-found variant, three senders")
    ri = tlc(ctx, sdir, "DecoyRegistrar.tla", "MC_DecoyRegistrar_intended.cfg", timeout=900, workers=4)
    ctx.require_design_ok(ri, "intended variant")
    for cfg, what in (("MC_DecoyRegistrar_live.cfg", "Termination (as found, everything answers)"),
                      ("MC_DecoyRegistrar_stall.cfg", "ReportGetsThrough, LoopExitLeadsToReturn (as found, peers stall)"),
                      ("MC_DecoyRegistrar_stall_intended.cfg", "I_CtxEndLeadsToReturn (intended, peers stall)")):
        rl = tlc(ctx, sdir, "DecoyRegistrar.tla", cfg, timeout=900, workers=4)
        ctx.require_design_ok(rl, what)
    # non-vacuity 1: deliberately broken instances
    for cfg, inv in (("MC_DecoyRegistrar_smallchan.cfg", "ReportNeverBlocks"), ("MC_DecoyRegistrar_stall_unbuffered.cfg", "ReportGetsThrough"),
                     ("MC_DecoyRegistrar_noonce.cfg", "OnceTCP")):
        rb = tlc(ctx, sdir, "DecoyRegistrar.tla", cfg, timeout=300, workers=2, count=False)
        if rb["inv"] != inv:
            raise vlib.InfraError("%s should violate %s, TLC says %s" % (cfg, inv, rb["inv"]))
    # non-vacuity 2 / the divergences at design level: the as-found variant violates every intended-only property
    rg = tlc(ctx, sdir, "DecoyRegistrar.tla", "MC_DecoyRegistrar_gaps.cfg", timeout=300, count=False, workers=2, extra=["-continue"], check=False)
    violated = set(re.findall(r"Invariant (\S+) is violated", rg["out"]))
    missing = [i for i in INTENDED if i not in violated]
    if missing:
        raise vlib.InfraError("as-found variant no longer violates %s: the intended-only invariants are vacuous or the model changed" % missing)
    rlg = tlc(ctx, sdir, "DecoyRegistrar.tla", "MC_DecoyRegistrar_stall_gap.cfg", timeout=300, count=False, workers=2)
    if rlg["inv"] != "I_CtxEndLeadsToReturn":
        raise vlib.InfraError("as-found variant should violate I_CtxEndLeadsToReturn when peers stall, got %s" % rlg["inv"])
    ctx.log("A: as found %d distinct / %d generated states (depth %d), three senders %d distinct, intended %d distinct; %.0fs"
            % (r["distinct"], r["generated"], r["depth"], r3["distinct"], ri["distinct"], time.time() - t0))
    ctx.stage("A", invariants=CORE + ["Termination", "ReportGetsThrough", "LoopExitLeadsToReturn"],
              intended_only=INTENDED + ["I_CtxEndLeadsToReturn"],
              nonvacuity="ChanCap=less1 violates ReportNeverBlocks; ChanCap=unbuffered violates ReportGetsThrough; Variant=noonce violates OnceTCP; "
                         "Variant=asfound violates each of %s and I_CtxEndLeadsToReturn" % ", ".join(INTENDED))


# ------------------------------------------------------------------------------------------------ generators
def generate(ctx, sdir, thorough):
    rng = random.Random(ctx.seed)
    quota = {"exhA": None, "exhA2": None, "exhB": None if thorough else 1200, "exhC": None if thorough else 900}
    counts, total = {}, {}
    seen = set()
    behs = []
    for g in ("exhA", "exhA2", "exhB", "exhC"):
        gr = tlc(ctx, sdir, "Gen_DecoyRegistrar.tla", "Gen_DecoyRegistrar_%s.cfg" % g, timeout=900, workers=4, count=False)
        if gr["inv"]:
            raise vlib.InfraError("generator %s failed: %s" % (g, gr["out"][-2000:]))
        lines = [l for l in open(gr["beh_file"]) if l.strip()]
        total[g] = len(lines)
        if quota[g] is not None and len(lines) > quota[g]:
            lines = rng.sample(lines, quota[g])            # a seeded sample of the complete enumeration (thorough: all of it)
        n = 0
        for l in lines:
            if l in seen:
                continue
            seen.add(l)
            behs.append(l)
            n += 1
        counts[g] = n
    nsim = 1800 if thorough else 230
    sr = tlc(ctx, sdir, "Gen_DecoyRegistrar.tla", "Gen_DecoyRegistrar_sim.cfg", timeout=900, workers=4, count=False,
             simulate="num=%d" % nsim, depth=71, deadlock=False, extra=["-seed", str(ctx.seed)])
    n = 0
    for l in open(sr["beh_file"]):
        if l.strip() and l not in seen:
            seen.add(l)
            behs.append(l)
            n += 1
    counts["sim"] = n
    total["sim"] = n
    if total["exhA"] < 100 or total["exhA2"] < 500 or total["exhB"] < 3000 or total["exhC"] < 2000 or counts["sim"] < 300:
        raise vlib.InfraError("too few behaviours generated: %s" % total)
    rng.shuffle(behs)          # slow behaviours (sleep timer, dial timeout) spread over the whole run
    path = os.path.join(ctx.scratch, "decoyreg_beh.ndjson")
    with open(path, "w") as f:
        f.writelines(behs)
    return path, counts, total, [json.loads(l) for l in behs]


# ------------------------------------------------------------------------------------------------ driver output
def race_reports(ctx, res, stage):
    if "WARNING: DATA RACE" not in res["out"]:
        return 0
    blocks = res["out"].split("WARNING: DATA RACE")[1:]
    n = 0
    for b in blocks:
        # the two racing accesses: the first frame after "Read/Write at" and after "Previous read/write at"
        tops = re.findall(r"(?:^|\n)(?:Previous )?(?:[Rr]ead|[Ww]rite)(?: at| by)[^\n]*\n\s+(\S+)\(\)\n\s+(\S+):\d+", b)
        if tops and all("/zz_" in f for _, f in tops):
            raise vlib.InfraError("data race inside the driver itself (%s):\n%s" % (stage, b[:3000]))
        site = "+".join(sorted({fn.split("/")[-1] for fn, f in tops if "/zz_" not in f})[:2]) or "unknown"
        ctx.violation("race:%s:%s" % (stage, site), "the race detector reports a data race in %s (%s)" % (site, stage), {"report": b[:4000]})
        n += 1
    return n


def crashed(ctx, res, stage):
    m = re.search(r"^(fatal error: .*|panic: .*)$", res["out"], re.M)
    if m:
        if "test timed out" in m.group(1):
            ctx.violation("%s:hang" % stage, "%s: the driver did not finish (something blocks for good)" % stage, {"out": res["out"][-6000:]})
        else:
            ctx.violation("%s:crash:%s" % (stage, key_of(m.group(1))), "%s crashed: %s" % (stage, m.group(1)), {"out": res["out"][-6000:]})
        return True
    return False


def read_traces(ctx, path):
    traces, scripts, cur, summ = [], [], None, None
    for e in ctx.read_results(path):
        if e["a"] == "Summary":
            summ = e
        elif e["a"] == "Reset":
            cur = []
            traces.append(cur)
            scripts.append(e)
        else:
            cur.append({k: v for k, v in e.items() if not k.startswith("_") and v is not None})
    return traces, scripts, summ


def run(ctx):
    thorough = ctx.tier == "thorough"
    sd_a, sd_g, sd_t, sd_t2 = (ctx.spec_copy("DecoyRegistrar") for _ in range(4))
    pool = ThreadPoolExecutor(max_workers=6)
    f_a = pool.submit(stage_a, ctx, sd_a, thorough)
    f_gen = pool.submit(generate, ctx, sd_g, thorough)

    # ---------------------------------------------------------------- P (while TLC generates)
    pp = os.path.join(ctx.scratch, "probe.ndjson")
    rp = go_test(ctx, "^TestVerifDecoyRegProbe$", {"VERIF_OUT": pp}, timeout=300)
    if crashed(ctx, rp, "P"):
        return
    probes = [x for x in ctx.read_results(pp) if x.get("kind") == "probe"]
    pstage = {}
    for p in probes:
        nm = p["name"]
        d = {k: v for k, v in p.items() if k not in ("kind", "name", "events")}
        if nm == "tls-deadline-vs-dial-time":
            pstage.setdefault(nm, []).append(d)
        else:
            pstage[nm] = d
    ctx.stage("P", **pstage)
    p1 = pstage.get("tls-deadline-vs-context-deadline", {})
    if p1 and p1.get("tls_deadline_after_context_deadline_s", 0) > 0:
        ctx.notes.append("as-found divergence (real time): context deadline 300 ms, one decoy that accepts and then stays silent: the TLS deadline "
                         "lies %.0f s AFTER the context's deadline; 400 ms after the deadline Register has %sreturned, the sender has %sreturned"
                         % (p1["tls_deadline_after_context_deadline_s"], "" if p1.get("register_returned_400ms_after_deadline") else "not ",
                            "" if p1.get("sender_returned_400ms_after_deadline") else "not "))
    p2 = pstage.get("width-0", {})
    if p2 and not p2.get("register_returned_within_500ms"):
        ctx.notes.append("as-found divergence: Register with Width 0 never returns (nobody writes to or closes dialErrors), not even with an ended context")
    p3 = pstage.get("tls-deadline-vs-dial-time", [])
    if p3:
        ctx.notes.append("TLS deadline as a function of the dial time (decoy-registrar.go:358-360, seconds per millisecond): " +
                         "; ".join("dial %s ms (stored %s) -> %.0f s" % (x["dial_ms_asked"], x["stored_tcp_rtt_ms"], x["tls_deadline_s"]) for x in p3))
    p4 = pstage.get("late-sender-after-next-PrepareRegKeys", {})
    if p4 and p4.get("late_sender_registration_decodes_with_its_session_secret") is False:
        ctx.notes.append("as-found divergence: a sender still on its way when the next session calls PrepareRegKeys on the same registrar encrypts "
                         "its registration with the NEXT session's keys (it does not decode with its own session's secret)")

    p5 = pstage.get("registrar-dialer", {})
    if p5 and p5.get("dials_through_registrar_dialer") == 0:
        ctx.notes.append("as-found divergence: the dialer given to NewDecoyRegistrarWithDialer (field comment: 'custom dialer to use when establishing "
                         "TCP connections to decoys') is not used for the decoys: %d of %d senders dialled through ConjureSession.Dialer"
                         % (p5.get("dials_through_session_dialer"), p5.get("senders")))

    # ---------------------------------------------------------------- B
    beh_all, counts, total, behs = f_gen.result()
    ctx.log("B: behaviours %s (complete enumerations: %s)" % (counts, {k: v for k, v in total.items() if k != "sim"}))
    outp = os.path.join(ctx.scratch, "replay_out.ndjson")
    res = go_test(ctx, "^TestVerifDecoyRegReplay$", {"VERIF_IN": beh_all, "VERIF_OUT": outp, "VERIF_PAR": 700, "VERIF_MAXRETRY": 12},
                  timeout=2400 if thorough else 600)
    if crashed(ctx, res, "B"):
        return
    rows = ctx.read_results(outp)
    summ = [x for x in rows if x.get("kind") == "summary"]
    if not summ:
        raise vlib.InfraError("replay driver did not finish:\n" + res["out"][-3000:])
    summ = summ[0]
    bad_idx = set()
    for m in [x for x in rows if x.get("kind") == "mismatch"]:
        bad_idx.add(m["idx"])
        w, g = m.get("want_event"), m.get("got_event")
        wa = (w or {}).get("a", "end")
        ga = (g or {}).get("a", "nothing")
        diff = sorted(k for k in (w or {}) if not k.startswith("_") and (g or {}).get(k) != (w or {}).get(k)) if wa == ga else []
        st = (g or {}).get("_station")
        key = "replay:want=%s:got=%s%s%s" % (wa, ga, (":" + "+".join(diff)) if diff else "", (":sender-" + st) if st else "")
        if w is None and g is None:
            key = "replay:end:%s" % key_of(m.get("why", ""))
        ctx.violation(key, "real decoy registrar diverges from DecoyRegistrar.tla (as found) at step %s of [%s]: specification %s, real code %s (%s%s)"
                      % (m.get("at"), " ; ".join(fmt_ev(e) for e in m.get("want", [])), fmt_ev(w) if w else "end of behaviour",
                         fmt_ev(g) if g else "nothing", m.get("why"), ("; " + "; ".join(m["problems"])) if m.get("problems") else ""), m)
    if summ.get("send_goroutines_left", 0) > 0 and not bad_idx:
        ctx.violation("leak:send-goroutines:B", "%d goroutines are still inside Send after every behaviour was through" % summ["send_goroutines_left"], summ)
    tags = {}
    nontrivial = 0
    for i, b in enumerate(behs):
        acts = [e["a"] for e in b]
        if "CtxEnd" in acts and any(e["a"] == "Recv" for e in b) and len({e.get("s") for e in b if e["a"] == "Report"}) >= 2:
            nontrivial += 1
        if i in bad_idx:
            continue
        for t in divergence_tags(b):
            tags[t] = tags.get(t, 0) + 1
    for i in (0, len(behs) // 2, len(behs) - 1):
        ctx.sample({"stage": "B", "behaviour": [fmt_ev(e) for e in behs[i]]})
    ctx.stage("B", behaviours=summ["behaviours"], steps=summ["steps"], mismatches=summ["mismatches"], retried_alone=summ["retried"],
              generated=counts, complete_enumerations=total, send_goroutines_left=summ.get("send_goroutines_left"),
              divergences_confirmed_on_real_code=tags, wall_s=res["wall_s"])
    ctx.log("B: %d behaviours / %d steps replayed in %.0fs, %d mismatches (%d re-run alone); divergences exhibited by the real code: %s"
            % (summ["behaviours"], summ["steps"], res["wall_s"], summ["mismatches"], summ["retried"], tags))
    for t, n in sorted(tags.items()):
        ctx.notes.append("as-found divergence from the intended behaviour, reproduced on the real code in %d replayed behaviours: %s" % (n, t))

    # ---------------------------------------------------------------- C
    ntr = 3000 if thorough else 350
    nrace = 600 if thorough else 80

    def record(n, race, tag, only=None):
        trp = os.path.join(ctx.scratch, "decoyreg_traces_%s%s.ndjson" % (tag, "" if only is None else "_%d" % only))
        env = {"VERIF_OUT": trp, "VERIF_TRACES": n, "VERIF_PAR": 300}
        if race:
            env["VERIF_WAITMUL"] = 3
            env["VERIF_PAR"] = 64
        if only is not None:
            env["VERIF_ONLY"] = only
        r = go_test(ctx, "^TestVerifDecoyRegRandom$", env, timeout=1500, race=race)
        if crashed(ctx, r, "C"):
            return None
        if race:
            race_reports(ctx, r, "C")
        tr, sc, sm = read_traces(ctx, trp)
        if only is None and len(tr) != n:
            raise vlib.InfraError("random driver recorded %d of %d traces" % (len(tr), n))
        return tr, sc, sm

    def judge(traces, scripts, sdir, tag, rerecord):
        def locate(reached):
            pos = 0
            for i, t in enumerate(traces):
                if reached < pos + 1 + len(t):
                    return i, reached - pos - 1
                pos += 1 + len(t)
            return len(traces) - 1, len(traces[-1])
        ok, reached, total_ev, tr = validate(ctx, sdir, "Trace_DecoyRegistrar.tla", "Trace_DecoyRegistrar.cfg", traces + [[]], timeout=1500)
        retried = 0
        while not ok and retried < 4:
            ti, ei = locate(reached)
            if ti >= len(traces):
                break
            ctx.log("C(%s): trace %d rejected at event %d (%s); recording that script once more, alone"
                    % (tag, ti, ei, fmt_ev(traces[ti][ei]) if 0 <= ei < len(traces[ti]) else "?"))
            got = rerecord(ti)
            retried += 1
            if not got or len(got[0]) != 1:
                break
            traces[ti] = got[0][0]
            ok, reached2, total_ev, tr = validate(ctx, sdir, "Trace_DecoyRegistrar.tla", "Trace_DecoyRegistrar.cfg", traces + [[]], timeout=1500)
            same = locate(reached2)[0] == ti
            reached = reached2
            if not ok and same:
                break
        if not ok:
            ti, ei = locate(reached)
            ti = min(ti, len(traces) - 1)
            bad = traces[ti][ei] if 0 <= ei < len(traces[ti]) else None
            what = "[%s]" % " ; ".join(fmt_ev(e) for e in traces[ti])
            if tr["inv"]:
                ctx.violation("trace:invariant:%s" % tr["inv"], "recorded real trace reaches a state violating %s: %s" % (tr["inv"], what),
                              {"trace": traces[ti], "script": scripts[ti], "tlc": tr["out"][-2500:]})
            else:
                ctx.violation("trace:rejected:%s" % (bad or {}).get("a", "end"),
                              "recorded real trace is not a behaviour of DecoyRegistrar.tla (as found) at event %d (%s): %s" % (ei, fmt_ev(bad) if bad else "incomplete", what),
                              {"trace": traces[ti], "event_index": ei, "script": scripts[ti]})
        return ok, total_ev, retried

    got = record(ntr, False, "plain")
    if got is None:
        return
    traces, scripts, csum = got
    f_c = pool.submit(judge, traces, scripts, sd_t, "plain", lambda ti: record(ntr, False, "plain", only=ti))
    gotr = record(nrace, True, "race")
    if gotr is None:
        return
    rtraces, rscripts, rsum = gotr
    f_cr = pool.submit(judge, rtraces, rscripts, sd_t2, "race", lambda ti: record(nrace, True, "race", only=ti))

    # ---------------------------------------------------------------- D (go lane free while TLC validates)
    sp = os.path.join(ctx.scratch, "stress.ndjson")
    nstress = 6000 if thorough else 600
    rs = go_test(ctx, "^TestVerifDecoyRegStress$", {"VERIF_OUT": sp, "VERIF_RUNS": nstress, "VERIF_WAITMUL": 3}, timeout=900, race=True)
    if not crashed(ctx, rs, "D"):
        nr = race_reports(ctx, rs, "D")
        srows = ctx.read_results(sp)
        ssum = [x for x in srows if x.get("kind") == "summary"]
        if not ssum:
            raise vlib.InfraError("stress driver did not finish:\n" + rs["out"][-3000:])
        for x in srows:
            if x.get("kind") == "prop":
                ctx.violation("concurrent:%s" % x["prop"], "ungated run: %s (%s); outcomes %s" % (x["prop"], x["detail"], json.dumps(x["plans"])), x)
        if ssum[0].get("send_goroutines_left", 0) > 0:
            ctx.violation("leak:send-goroutines:D", "%d goroutines are still inside Send after the ungated runs" % ssum[0]["send_goroutines_left"], ssum[0])
        if ssum[0]["all_unreachable"] == 0 or ssum[0]["reachable"] == 0 or ssum[0]["nil_received"] == 0:
            raise vlib.InfraError("stress stage is vacuous: %s" % ssum[0])
        ctx.stage("D", race_detector=True, data_races=nr, **{k: v for k, v in ssum[0].items() if k != "kind"})
        ctx.log("D: %s" % ssum[0])

    okc, total_ev, retried = f_c.result()
    okr, total_evr, retriedr = f_cr.result()
    ctx.log("C: %d traces / %d events accepted=%s; under -race %d traces / %d events accepted=%s" % (len(traces), total_ev, okc, len(rtraces), total_evr, okr))
    for sc_list, tg in ((scripts, "plain"), (rscripts, "race")):
        for s in sc_list:
            for pr in s.get("problems") or []:
                ctx.violation("trace:problem:%s" % key_of(pr), "while recording (%s): %s; script %s" % (tg, pr, json.dumps((s.get("script") or {}).get("ops"))), s)
    for sm, tg in ((csum, "C"), (rsum, "C-race")):
        if sm and sm.get("send_goroutines_left", 0) > 0:
            ctx.violation("leak:send-goroutines:%s" % tg, "%d goroutines are still inside Send after every trace was recorded" % sm["send_goroutines_left"], sm)
    if okc:
        # the binding demonstration: corrupted fields must make TLC reject
        done = []
        for name, pick, change in (
                ("DialRet.set", lambda e: e["a"] == "DialRet" and e["set"], lambda e: e.__setitem__("set", False)),
                ("Return.err", lambda e: e["a"] == "Return" and e["err"] == "none", lambda e: (e.__setitem__("err", "unreachable"), e.__setitem__("reg", False))),
                ("Recv.v", lambda e: e["a"] == "Recv" and e["v"] == "unreach", lambda e: e.__setitem__("v", "dialerr"))):
            bad = copy.deepcopy(traces[:60])
            hit = False
            for t in bad:
                for e in t:
                    if pick(e):
                        change(e)
                        hit = True
                        break
                if hit:
                    break
            if not hit:
                raise vlib.InfraError("no event to corrupt (%s) for the binding demonstration" % name)
            ok2, reached2, _, _ = validate(ctx, sd_t, "Trace_DecoyRegistrar.tla", "Trace_DecoyRegistrar.cfg", bad + [[]], timeout=600)
            if ok2:
                raise vlib.InfraError("binding is vacuous: corrupted trace (%s) accepted" % name)
            done.append("%s rejected at line %d" % (name, reached2))
        ctx.stage("C", corrupted=done)
    ctx.cov["traces_validated_against_impl"] = len(traces) + len(rtraces)
    ctags = {}
    for t in traces + rtraces:
        for x in divergence_tags(t):
            ctags[x] = ctags.get(x, 0) + 1
    ctx.sample({"stage": "C", "trace": [fmt_ev(x) for x in max(traces[:80], key=len)]})
    ctx.stage("C", traces=len(traces), events=total_ev, accepted=okc, rerecorded=retried,
              race_traces=len(rtraces), race_events=total_evr, race_accepted=okr, race_rerecorded=retriedr,
              widths={str(w): sum(1 for t in traces for e in t if e["a"] == "Call" and e["w"] == w) for w in range(1, 6)},
              two_calls=sum(1 for t in traces if sum(1 for e in t if e["a"] == "Call") == 2),
              unreachable_returns=sum(1 for t in traces for e in t if e["a"] == "Return" and e["err"] == "unreachable"),
              full_sleeps=sum(1 for t in traces for e in t if e["a"] == "Return" and e["slept"] == "full"),
              longest=max(len(t) for t in traces), divergences_seen=ctags)

    f_a.result()
    pool.shutdown()
    ctx.cov["evaluations"] = summ["behaviours"] + len(traces) + len(rtraces)
    ctx.cov["distinct_nontrivial"] = nontrivial
    ctx.cov["exhaustive"] = False
    ctx.cov["rule"] = ("stage B behaviours are distinct by construction (de-duplicated event sequences); non-trivial = at least two senders "
                       "report, the collector receives and the context ends; stage C traces counted separately")
    ctx.assumptions += [
        "the decoys are crypto/tls servers with a self-signed certificate on the far end of a net.Pipe (DecoyRegistrar.insecureSkipVerify, as in the "
        "package's own test); dial failures are *net.OpError values built like the net package's; a failing write is EPIPE from the connection",
        "the steps the code takes by itself follow an environment step at once (run-to-completion form): interleavings in which, e.g., a sender "
        "sits between its dial and its channel send while others move are checked on the specification (stage A) and exercised without gates "
        "(stage D), but cannot be forced step by step",
        "the sender's return is observed through the context (the stop function / Value call that Send's deferred cancel triggers in package "
        "context); what a sender puts into the channel after Register returned is not observable (only nil / not nil)",
        "a gated successful dial takes at least 20 ms, so that the TLS deadline (2.1 .. 5.9 s per millisecond of dial time) lies beyond the run; "
        "TlsRet(timeout) and LingerEnd(timeout) are produced by bringing the connection's deadline forward",
        "real time: the sleep (3 .. 7.5 s) and Send's own dial deadline (1.9 .. 4.0 s) are waited out; a dial timeout is not asked for while "
        "the sleep timer runs; Return.slept is classified one-sidedly (full: at least the announced duration)",
        "selectDecoys draws with replacement; the driver picks sessions whose decoys are distinct (senders are told apart by address); "
        "the failure paths before the senders start (UnidirectionalRegData, empty decoy list) are not driven",
        "sequential reuse only: the second Register starts when every sender of the first is through (the probe of stage P shows what a "
        "late sender does when the next session's keys are prepared under it)",
    ]
