"""C05 - the proxy relays byte streams faithfully and always tears both sides down.

A  TLC exhaustive on spec/Relay (two halfPipe processes + Proxy join; every call's outcome chosen by the
   environment): PrefixFidelity, NothingReadIsLost, InFlightOnly, CountsMatch, BothClosed, EndedClosesBoth,
   NoExtraClose, GaugeBalanced, NoWriteAfterEnd, and under fairness Returns / AllClosesHappen.  The instance that
   stops on a read error before forwarding the data (ForwardWithErr = FALSE) must violate NothingReadIsLost.
   Buffer ownership is explicit (BufCap cells per direction, a Read may fill its buffer, a Write delivers what the
   buffer holds then): BufferIntegrity holds for BufMode = "private"; the instance in which up's buffer runs on into
   down's (BufMode = "shared") must violate PrefixFidelity.
B  every complete behaviour with <= 1 fault (quick) / <= 2 faults (thorough) under three deterministic schedules x
   eager/lazy source close, plus simulated behaviours with arbitrary interleavings and any number of faults, is
   replayed on two real halfPipe goroutines wired as Proxy wires them: every call the real code makes parks at a
   gate, the driver releases the call the behaviour names with the outcome the behaviour names and compares the
   call, its arguments and the projected state after every step.
B2 every "px" behaviour of Gen_Relay (data phase, both directions active: all placements of up's Read/Write blocks
   relative to down's Read -> Write windows, Reads filling 1..BufCap parts of the buffer they are handed) is stepped
   through the REAL Proxy() - the only place that says which memory the two directions relay through - with a gated
   client connection (its Write parks holding the relay's buffer) and a driver-paced loopback covert; bytes delivered,
   per-direction fidelity, closes, gauge and return are compared with TLC's state after every step.
C2 free-running simultaneous bulk transfer in both directions through the real Proxy(): in-memory client whose Read
   returns as many bytes as the buffer takes (also seeded fractions / caps around every plausible relay buffer size)
   and real TCP on both legs with large socket buffers, with and without back-pressure; position-dependent streams
   that tell the directions apart; judged by PrefixFidelity / NothingReadIsLost per direction, CountsMatch, BothClosed.
C  seeded random fault scripts, halves free-running (real scheduling), and the real Proxy with a scripted client
   connection and a loopback covert (EOF / RST / stall, dial error): each connection's own call log is validated by
   Trace_Relay (all interleavings of the two logs; all invariants on every state; reported counts must equal the
   specification's); join, session gauge, summary byte counts and goroutine count are checked on the real Proxy.
   One corrupted trace must be rejected.
"""
import copy, json, os, re
import vlib

PKG = "pkg/station/lib"
FILES = ["common/vcommon_test.go", "pkg_station_lib/relay_verif_test.go", "pkg_station_lib/relay_duplex_verif_test.go"]
INVS = ["TypeOK", "PrefixFidelity", "BufferIntegrity", "NothingReadIsLost", "InFlightOnly", "CountsMatch", "BothClosed", "EndedClosesBoth",
        "NoExtraClose", "GaugeBalanced", "NoWriteAfterEnd", "Returns", "AllClosesHappen"]


def step_class(s):
    if not s:
        return "-"
    return "%s(%s,%s)" % (s.get("a"), "n>0" if s.get("n", 0) > 0 else "0", "err" if s.get("e") != "nil" else "nil")


def lost_after_data_err(src_log):
    """bytes a Read returned together with an error (the last Read of the log)"""
    reads = [e for e in src_log if e["op"] == "Read"]
    if reads and reads[-1]["n"] > 0 and reads[-1]["e"] != "nil":
        return reads[-1]["n"]
    return 0


def data_err_dropped(src_log, dst_log):
    """the direction's last Read returned n > 0 bytes with an error and exactly those n bytes were never offered to Write"""
    n = lost_after_data_err(src_log)
    if not n:
        return False
    read = sum(e["n"] for e in src_log if e["op"] == "Read")
    offered = sum(e["off"] for e in dst_log if e["op"] == "Write")
    return offered == read - n


def trace_fields(d):
    out = {}
    for k in ("a", "mode", "dial", "client", "covert", "ret", "cvok", "fin"):
        v = d.get(k)
        out[k] = [] if v is None else v
    out["fin"] = {k: v for k, v in d["fin"].items() if k in ("bu", "bd", "ku", "kd", "ses")}
    for k in ("ku", "kd"):
        out["fin"].setdefault(k, -1)
    return out


def duplex_stages(ctx, sdir, thorough):
    """B2 (px behaviours replayed through the real Proxy) and C2 (free-running full-duplex bulk); returns the number of evaluations"""
    g = ctx.tlc(sdir, "Gen_Relay.tla", "Gen_Relay_px_thorough.cfg" if thorough else "Gen_Relay_px.cfg", timeout=1200, workers=4, count=False)
    if g["inv"] or g["nbeh"] < 200:
        raise vlib.InfraError("px generator failed (%s behaviours): %s" % (g["nbeh"], g["out"][-2000:]))
    outp = os.path.join(ctx.scratch, "relay_px_replay.ndjson")
    bulkp = os.path.join(ctx.scratch, "relay_duplex_bulk.ndjson")
    res = ctx.go_test(PKG, FILES, "lib", "^TestVerifRelay(ProxyDuplexReplay|DuplexBulk)$",
                      env={"VERIF_IN": g["beh_file"], "VERIF_OUT": outp, "VERIF_OUT_BULK": bulkp, "VERIF_BUFCAP": 2,
                           "VERIF_BULK_MB": 32 if thorough else 8, "VERIF_BULK_REPS": 4 if thorough else 1}, timeout=3000)
    rows, bulk = ctx.read_results(outp), ctx.read_results(bulkp)
    summ = [x for x in rows if x.get("kind") == "summary"]
    bsum = [x for x in bulk if x.get("kind") == "summary"]
    if not summ or not bsum:
        raise vlib.InfraError("duplex drivers did not finish:\n" + res["out"][-3000:])
    summ, bsum = summ[0], bsum[0]
    for m in [x for x in rows if x.get("kind") == "mismatch"]:
        want, got = m["want"], m["got"]
        site = "%s.%s" % (want.get("d"), want.get("a"))
        if got.get("stuck"):
            key = "replay:proxy-duplex:stuck:%s" % site
            what = "real Proxy stuck at %s (%s); behaviour: %s" % (site, got["stuck"], " ; ".join(m["ops"][-8:]))
        elif got.get("a") != want.get("a") or got.get("n") != want.get("n"):
            key = "replay:proxy-duplex:%s>%s" % (site, got.get("a"))
            what = "real Proxy makes %s(%s) where Relay.tla requires %s(%s); behaviour: %s" % (
                got.get("a"), got.get("n"), want.get("a"), want.get("n"), " ; ".join(m["ops"][-8:]))
        else:
            diff = m.get("diff") or []
            key = "replay:proxy-duplex:state:%s:%s" % (site, "+".join(diff))
            streams = "; ".join("%s stream: %s" % (d, m[d + "_stream"]) for d in ("up", "down") if m.get(d + "_stream"))
            what = ("after %s through the real Proxy() the state differs from Relay.tla in %s (want %s, got %s)%s%s [relay buffers handed to "
                    "Read: %s bytes]; behaviour: %s"
                    % (site, diff, {k: want["st"].get(k, True) for k in diff}, {k: got["st"].get(k) for k in diff},
                       " - the buffer a parked Write holds changed before it was delivered (BufferIntegrity)" if "hi" in diff else "",
                       " - " + streams if streams else "", m.get("buffer_lengths"), " ; ".join(m["ops"][-8:])))
        ctx.violation(key, what, m)
    for f in [x for x in rows + bulk if x.get("kind") == "final"]:
        name = f["what"].split(" ")[0]
        if name.startswith("Infra:"):
            raise vlib.InfraError("duplex driver: " + f["what"])
        case = f.get("case", {}).get("name", "")
        ctx.violation("final:%s:%s" % (f["mode"], name),
                      "real Proxy() %s run %s ends in a state violating %s" % (f["mode"], ("%s (%s)" % (f["run"], case)) if case else f["run"], f["what"]), f)
    for sm, name in ((summ, "proxy-duplex-replay"), (bsum, "proxy-duplex")):
        if sm.get("goroutines_left", 0) > 0:
            ctx.violation("leak:goroutines:%s" % name, "%d goroutine(s) left behind" % sm["goroutines_left"], sm)
    if summ.get("skipped", 0) > 0:
        ctx.notes.append("duplex replay stopped early after repeated stuck steps: %d behaviours skipped" % summ["skipped"])
    runs = [x for x in bulk if x.get("kind") == "bulk"]
    filled = [x for x in runs if x["case"]["client"] == "mem" and x["fin"].get("max_read", 0) >= max(x["fin"].get("buffer_lengths") or [1 << 62])]
    if not ctx.violations:
        # the new stages must have exercised what they are for
        if summ["behaviours"] < 200 or summ["up_reads_while_down_holds"] < 50 or summ["up_reads_filling_the_buffer"] < 50 or summ["mismatches"]:
            raise vlib.InfraError("duplex replay is vacuous: %s" % json.dumps(summ))
        if len(filled) < 2 or len([x for x in runs if x["case"]["client"] == "tcp"]) < 3:
            raise vlib.InfraError("duplex bulk is vacuous: %d in-memory runs filled the relay buffer" % len(filled))
    ctx.log("B2: %d px behaviours through the real Proxy (%d steps, %d up Reads while down holds its buffer, buffers %s), mismatches=%d; "
            "C2: %d full-duplex bulk runs, %d failures" % (summ["behaviours"], summ["steps"], summ["up_reads_while_down_holds"],
                                                         summ["buffer_lengths"], summ["mismatches"], len(runs), bsum["final_failures"]))
    ctx.stage("B2", behaviours=summ["behaviours"], steps=summ["steps"], mismatches=summ["mismatches"], classes=summ["classes"],
              up_reads_while_down_holds=summ["up_reads_while_down_holds"], up_reads_filling_the_buffer=summ["up_reads_filling_the_buffer"],
              relay_buffer_lengths_seen=summ["buffer_lengths"], down_reads_in_pieces=summ["down_reads_in_pieces"])
    ctx.stage("C2", runs=len(runs), failures=bsum["final_failures"], in_memory_runs_filling_the_buffer=len(filled),
              bytes_per_direction=sum(x["case"]["total"] for x in runs), cases=sorted(set(x["case"]["name"] for x in runs)))
    if runs:
        ctx.sample({"stage": "C2", "case": runs[0]["case"], "fin": runs[0]["fin"]})
    return summ["behaviours"] + len(runs)


def run(ctx):
    thorough = ctx.tier == "thorough"
    sdir = ctx.spec_copy("Relay")

    # ---- A
    r = ctx.tlc(sdir, "Relay.tla", "MC_Relay_thorough.cfg" if thorough else "MC_Relay.cfg", timeout=1500 if thorough else 300)
    ctx.require_design_ok(r, "Relay, intended instance")
    if r["distinct"] < 1000:
        raise vlib.InfraError("Relay state space implausibly small (%d)" % r["distinct"])
    ctx.log("A: exhaustive %d distinct states, %d generated, depth %d, %.1fs" % (r["distinct"], r["generated"], r["depth"], r["wall_s"]))
    r2 = ctx.tlc(sdir, "Relay.tla", "MC_Relay_drop.cfg", timeout=300, count=False)
    if r2["inv"] != "NothingReadIsLost":
        raise vlib.InfraError("the non-forwarding instance should violate NothingReadIsLost, got %s" % r2["inv"])
    r3 = ctx.tlc(sdir, "Relay.tla", "MC_Relay_shared.cfg", timeout=300, count=False)
    if r3["inv"] != "PrefixFidelity":
        raise vlib.InfraError("the shared-buffer instance (BufMode = \"shared\") should violate PrefixFidelity, got %s" % r3["inv"])
    ctx.stage("A", invariants=INVS, nonvacuity="ForwardWithErr=FALSE instance violates NothingReadIsLost as expected; "
              "BufMode=\"shared\" instance (up's relay buffer overlaps down's) violates PrefixFidelity as expected")

    # ---- B
    g = ctx.tlc(sdir, "Gen_Relay.tla", "Gen_Relay_f2.cfg" if thorough else "Gen_Relay_f1.cfg", timeout=3000, workers=8, count=False)
    if g["inv"]:
        raise vlib.InfraError("generator failed: %s" % g["out"][-2000:])
    nsim = 3000 if thorough else 300
    s = ctx.tlc(sdir, "Gen_Relay.tla", "Gen_Relay_sim.cfg", timeout=3000, workers=4, count=False,
                simulate="num=%d" % nsim, depth=400, deadlock=False, extra=["-seed", str(ctx.seed)])
    beh_all = os.path.join(ctx.scratch, "relay_beh.ndjson")
    seen, nexh, nsimb = set(), 0, 0
    samples = []
    with open(beh_all, "w") as fo:
        for fn, tag in ((g["beh_file"], "exh"), (s["beh_file"], "sim")):
            with open(fn) as fi:
                for line in fi:
                    h = hash(line)
                    if h in seen:
                        continue
                    seen.add(h)
                    fo.write(line)
                    if tag == "exh":
                        nexh += 1
                        if nexh in (100, 2000):
                            samples.append(line)
                    else:
                        nsimb += 1
                        if nsimb == 5:
                            samples.append(line)
    ctx.log("B: %d exhaustive complete behaviours (<=%d faults) + %d simulated" % (nexh, 2 if thorough else 1, nsimb))
    if nexh < 3000 or nsimb < nsim // 3:
        raise vlib.InfraError("too few behaviours generated (%d exhaustive, %d simulated)" % (nexh, nsimb))
    outp = os.path.join(ctx.scratch, "relay_replay.ndjson")
    res = ctx.go_test(PKG, FILES, "lib", "^TestVerifRelayReplay$", env={"VERIF_IN": beh_all, "VERIF_OUT": outp}, timeout=3000)
    rows = ctx.read_results(outp)
    summ = [x for x in rows if x.get("kind") == "summary"]
    if not summ:
        raise vlib.InfraError("replay driver did not finish:\n" + res["out"][-3000:])
    summ = summ[0]
    for m in [x for x in rows if x.get("kind") == "mismatch"]:
        want, got = m["want"], m["got"]
        if want.get("a") != got.get("a") or want.get("c") != got.get("c"):
            key = "replay:%s>%s:after-%s" % (want.get("a"), got.get("a"), step_class(m.get("prevSame")))
            what = ("real halfPipe makes call %s(%s) where Relay.tla requires %s(%s) [direction %s, after %s]; behaviour: %s"
                    % (got.get("a"), got.get("c"), want.get("a"), want.get("c"), want.get("d"), step_class(m.get("prevSame")),
                       " ; ".join(m["ops"][-8:])))
        elif got.get("stuck"):
            key = "replay:stuck:%s" % want.get("a")
            what = "real code stuck at %s (%s); behaviour: %s" % (want.get("a"), got.get("stuck"), " ; ".join(m["ops"][-8:]))
        else:
            diff = sorted(k for k in set(want.get("st", {})) | set(got.get("st", {})) if want.get("st", {}).get(k) != got.get("st", {}).get(k))
            diff += sorted(k for k in ("n", "off", "e") if want.get(k) != got.get(k))
            key = "replay:state:%s:%s" % (want.get("a"), "+".join(diff))
            what = ("after %s(%s) the real state differs from Relay.tla in %s (want %s, got %s); behaviour: %s"
                    % (want.get("a"), want.get("c"), diff, {k: want.get("st", {}).get(k, want.get(k)) for k in diff},
                       {k: got.get("st", {}).get(k, got.get(k)) for k in diff}, " ; ".join(m["ops"][-8:])))
        ctx.violation(key, what, m)
    if summ.get("goroutines_left", 0) > 0:
        ctx.violation("leak:goroutines:replay", "%d goroutine(s) still alive after all replayed behaviours ended" % summ["goroutines_left"], summ)
    if summ.get("skipped", 0) > 0:
        ctx.notes.append("replay stopped early after repeated stuck steps: %d behaviours skipped" % summ["skipped"])
    for line in samples[:3]:
        b = json.loads(line)
        ctx.sample({"stage": "B", "sched": b["sched"], "async": b["async"], "faults": b["faults"],
                    "behaviour": ["%s.%s(%s,%s)" % (x["d"], x["a"], x["n"], x["e"]) for x in b["steps"]]})
    ctx.stage("B", behaviours=summ["behaviours"], steps=summ["steps"], mismatches=summ["mismatches"], exhaustive_complete=nexh,
              simulated=nsimb, classes=summ["classes"], classes_with_bytes_in_flight=summ["nontrivial"],
              mismatch_classes=summ.get("mismatch_classes"))

    # ---- B2 / C2: full duplex through the real Proxy()
    duplex_evals = duplex_stages(ctx, sdir, thorough)

    # ---- C
    ntr, npx = (600, 150) if thorough else (80, 20)
    trp = os.path.join(ctx.scratch, "relay_random.ndjson")
    res = ctx.go_test(PKG, FILES, "lib", "^TestVerifRelayRandom$", env={"VERIF_OUT": trp, "VERIF_TRACES": ntr}, timeout=1500)
    ev1 = ctx.read_results(trp)
    pxp = os.path.join(ctx.scratch, "relay_proxy.ndjson")
    res2 = ctx.go_test(PKG, FILES, "lib", "^TestVerifRelayProxy$", env={"VERIF_OUT": pxp, "VERIF_TRACES": npx}, timeout=1500)
    ev2 = ctx.read_results(pxp)
    for evs, res_, name in ((ev1, res, "random"), (ev2, res2, "proxy")):
        sm = [x for x in evs if x.get("kind") == "summary"]
        if not sm:
            raise vlib.InfraError("%s driver did not finish:\n%s" % (name, res_["out"][-3000:]))
        if sm[0].get("goroutines_left", 0) > 0:
            ctx.violation("leak:goroutines:%s" % name, "%d goroutine(s) left behind" % sm[0]["goroutines_left"], sm[0])
    runs = [x for x in ev1 + ev2 if x.get("a") == "Run"]
    by_run = {}
    for x in ev1 + ev2:
        if x.get("a") == "Run":
            by_run[(x["mode"], x["run"])] = x
    # state predicates evaluated by the drivers on the real end state
    for f in [x for x in ev1 + ev2 if x.get("kind") == "final"]:
        name = f["what"].split(" ")[0]
        cause = ""
        if name.startswith("NothingReadIsLost"):
            d = name.split(":")[1]
            src = f["client"] if d == "up" else f.get("covert") or []
            lost = lost_after_data_err(src)
            m = re.search(r"read=(\d+)(?: refused=(\d+))? delivered=(\d+)", f["what"])
            exact = m and int(m.group(1)) - int(m.group(2) or 0) - int(m.group(3)) == lost
            cause = ":after-Read(n>0,err)" if lost and exact else ":other"
        ctx.violation("final:%s:%s%s" % (f["mode"], name, cause),
                      "real %s run %d ends in a state violating %s" % (f["mode"], f["run"], f["what"]), f)
    traces = [[trace_fields(x)] for x in runs]
    nfull = len([x for x in runs if x["mode"] == "full"])
    rejected = 0
    cur = list(traces)
    for attempt in range(8):
        ok, reached, total, tr = ctx.validate_traces(sdir, "Trace_Relay.tla", "Trace_Relay.cfg", cur, timeout=1500)
        if ok:
            break
        if tr["inv"]:
            ctx.violation("trace:invariant:%s" % tr["inv"], "recorded real trace reaches a state violating %s" % tr["inv"],
                          {"tlc": tr["out"][-3000:]})
            break
        idx = reached // 2
        if idx >= len(cur) or "TRACE_REACHED" not in tr["out"]:
            raise vlib.InfraError("trace validation failed unexpectedly:\n" + tr["out"][-3000:])
        bad = cur[idx][0]
        m = re.search(r'TRACE_FRONT", (\d+), (\d+), (\d+)', tr["out"])
        ic, iv = (int(m.group(2)), int(m.group(3))) if m and int(m.group(1)) == reached + 1 else (0, 0)
        cause = "other"
        if bad["mode"] == "full":
            if data_err_dropped(bad["client"], bad["covert"]) or data_err_dropped(bad["covert"], bad["client"]):
                cause = "after-Read(n>0,err)"
        elif bad.get("cvok") and lost_after_data_err(bad["client"]) and \
                bad["fin"]["bu"] == sum(e["n"] for e in bad["client"] if e["op"] == "Read") - lost_after_data_err(bad["client"]):
            cause = "after-Read(n>0,err)"
        nxt = [lg[i] for lg, i in ((bad["client"], ic), (bad["covert"], iv)) if i < len(lg)]
        ctx.violation("trace:rejected:%s:%s" % (bad["mode"], cause),
                      "recorded real execution (%s) is not a behaviour of Relay.tla: stuck after %d client / %d covert events, next events %s"
                      % (bad["mode"], ic, iv, json.dumps(nxt)[:400]),
                      {"run": bad, "client_consumed": ic, "covert_consumed": iv})
        rejected += 1
        cur = cur[:idx] + cur[idx + 1:]
    ctx.log("C: %d traces (%d free-running halves, %d real Proxy), rejected=%d" % (len(traces), nfull, len(traces) - nfull, rejected))
    if rejected == 0 and not ctx.violations:
        bad = copy.deepcopy([t for t in traces if t[0]["mode"] == "full"][:20])
        done = False
        for t in bad:
            for e in t[0]["covert"] + t[0]["client"]:
                if e["op"] == "Write" and e["n"] > 0:
                    e["n"] -= 1
                    done = True
                    break
            if done:
                break
        if not done:
            raise vlib.InfraError("no event to corrupt for the binding demonstration")
        ok2, reached2, _, _ = ctx.validate_traces(sdir, "Trace_Relay.tla", "Trace_Relay.cfg", bad, timeout=600)
        if ok2:
            raise vlib.InfraError("binding is vacuous: corrupted trace accepted")
        ctx.stage("C", corrupted_trace_rejected_at=reached2)
    ctx.cov["traces_validated_against_impl"] = len(traces)
    if runs:
        r0 = runs[0]
        ctx.sample({"stage": "C", "mode": r0["mode"], "client_log": ["%s(%s,%s)" % (e["op"], e["n"], e["e"]) for e in r0["client"]],
                    "covert_log": ["%s(%s,%s)" % (e["op"], e["n"], e["e"]) for e in r0["covert"]], "fin": r0["fin"]})
        px = [x for x in runs if x["mode"] == "client"]
        if px:
            ctx.sample({"stage": "C", "mode": "real Proxy", "case": px[0].get("case"), "fin": px[0]["fin"],
                        "client_log": ["%s(%s,%s)" % (e["op"], e["n"], e["e"]) for e in px[0]["client"]]})
    ctx.stage("C", traces=len(traces), free_running=nfull, real_proxy=len(traces) - nfull, rejected=rejected)

    ctx.cov["evaluations"] = summ["behaviours"] + len(traces) + duplex_evals
    ctx.cov["distinct_nontrivial"] = summ["nontrivial"]
    ctx.cov["exhaustive"] = False
    ctx.cov["rule"] = ("stage B behaviours are classed by (schedule, chunking of both directions, site+kind of every fault), measured by "
                       "the driver; a class is non-trivial when at least one byte was in flight; stage C traces counted separately")
    ctx.assumptions += [
        "stage B steps the two real halfPipe goroutines through gated net.Conn views (the views only add the half's identity); "
        "interleavings: up-first, down-first, strict alternation, each with eager / after-return source close, plus simulated free ones",
        "bounds: <=2 successful reads of 2 bytes per direction in the exhaustive part, <=4 reads of 1..3 bytes in simulation; "
        "errors EOF/RST/EPIPE/timeout/opaque/closed, short writes, (k,err) writes, failing SetDeadline and Close",
        "the covert side of the real-Proxy runs is a loopback TCP socket and has no call log (its calls are silent steps in Trace_Relay); "
        "the deferred third covertConn.Close() of Proxy is therefore not observed",
        "real deadlines (30 s / 2 min) are never awaited: scripted connections ignore them; a stall is ended by the peer direction",
        "stage B2 gates the client connection only (the covert leg of the real Proxy is a kernel socket): up's Write follows its Read at "
        "once, deadline refreshes are silent; BufCap = 2 abstract cells stand for the real buffer (a Read of n cells fills n/2 of whatever "
        "buffer the real code hands over); schedules in which down READS while up holds its buffer are reached only by the free-running "
        "stage C2 (back-pressure cases)",
    ]
