\* MUST VIOLATE CrossObject: as found R is reset two lines before S (R4)
SPECIFICATION Spec
CONSTANTS
  Regs = {"r1"}
  Srcs = {"detector", "api"}
  RFams = {"v6"}
  Gens = {"g1"}
  TTs = {"min"}
  LVs = {"l1"}
  Variant = "as_found"
  Broken = "none"
  MapWindow = TRUE
  MaxPrints = 2
  MaxFree = 0
VIEW view
CONSTRAINT Canon
INVARIANTS CrossObject
CHECK_DEADLOCK FALSE
