------------------------- MODULE Trace_CovertSession -------------------------
(* Stage C of the session histories (implementation -> spec): one ndjson line per step the driver made the REAL code take
   (First / Dup = parseRegMessage + ingestRegistration of a message of class c, Admit = the first worker released from its
   gate, Connect = GetRegistrations + Proxy), with what was observed after it: phase (tracked / parked / visible), what the
   tracked registration's Covert holds (mapped back to P1 / P2 / F, "raw" when it is not the literal of one of them), the
   scripted DNS server's lookup count per message, the lookups made during connections, which listener was dialed.
   DupMode = "any": a duplicate may be ignored or re-checked - the property does not say which - so only what the property
   states is constrained.  Several histories are concatenated; a "Reset" line re-initialises. *)
EXTENDS CovertSession, Json, TLCExt
TraceLog == ndJsonDeserialize("trace.ndjson")
VARIABLE l
tvars == <<vars, l>>

StateMatches(e) ==
  /\ e.st.phase = phase'
  /\ e.st.stored = stored'
  /\ Len(e.st.lookups) = Len(msgs')
  /\ \A i \in 1..Len(msgs') : e.st.lookups[i] = lookups'[i]
  /\ e.st.dialLookups = dialLookups'
  /\ Len(e.st.dialed) = Len(dialed')
  /\ \A k \in 1..Len(dialed') : e.st.dialed[k] = dialed'[k]

TraceInit == Init /\ pk = "block" /\ l = 1
TraceReset == /\ l <= Len(TraceLog) /\ TraceLog[l].a = "Reset"
              /\ msgs' = <<>> /\ phase' = "none" /\ stored' = NoAddr /\ rawOf' = 0 /\ checked' = {}
              /\ lookups' = [i \in 1..MaxMsgs |-> 0] /\ dialLookups' = 0 /\ dialed' = <<>>
              /\ obs' = [a |-> "Init"] /\ pk' = pk /\ l' = l + 1
TraceStep == /\ l <= Len(TraceLog) /\ TraceLog[l].a # "Reset"
             /\ l' = l + 1
             /\ LET e == TraceLog[l] IN
                /\ CASE e.a = "First"   -> e.c \in Classes /\ First(e.c)
                     [] e.a = "Dup"     -> e.c \in Classes /\ Dup(e.c)
                     [] e.a = "Admit"   -> Admit
                     [] e.a = "Connect" -> Connect
                     [] OTHER           -> FALSE
                /\ StateMatches(e)
TraceNext == TraceReset \/ TraceStep
TraceSpec == TraceInit /\ [][TraceNext]_tvars
TraceView == <<view, l>>
TraceAccepted == TLCGet("stats").diameter - 1 = Len(TraceLog)
Reached == PrintT(<<"TRACE_REACHED", TLCGet("stats").diameter - 1>>)
Post == Reached /\ TraceAccepted
=============================================================================
