--------------------------- MODULE ClientRegistrar ---------------------------
(***************************************************************************)
(* The client-side registrars (pkg/registrars/registration):               *)
(*   api-registrar.go  APIRegistrar.Register -> registerUnidirectional /   *)
(*                     registerBidirectional -> executeHTTPRequest[Bidi-   *)
(*                     rectional]; fallback to secondaryRegistrar          *)
(*   dns-registrar.go  DNSRegistrar.Register -> registerUnidirectional /   *)
(*                     registerBidirectional -> requester.RequestAndRecv   *)
(* One call of Register is modelled from entry to return.  `cur` is the    *)
(* registrar currently running: 1 = the one the caller invoked, 2 = its    *)
(* secondary (a real DNSRegistrar, or an opaque stub implementing          *)
(* tapdance.Registrar).  One action per step of the retry loop:            *)
(*                                                                         *)
(*   Call(c)       Register entered with configuration c; the ConjureReg   *)
(*                 is created ONCE, before the loop (Uni-/Bidirectional-   *)
(*                 RegData)                                                *)
(*   Send          loop guard tries < maxRetries+1 passed and the request  *)
(*                 of this attempt reached the registration server         *)
(*   LocalFail(w)  the attempt failed before anything reached the wire:    *)
(*                 w="dial" (DNS: dialTransport failed, nothing cached),   *)
(*                 w="ctx"  (API: http.Client.Do on a cancelled context)   *)
(*   Recv(o)       the server's scripted answer o reached the client       *)
(*   Cancel        the caller cancels the context                          *)
(*   Fail          the registrar classified the attempt as failed          *)
(*                 (`continue`; it logs "attempt i/of")                    *)
(*   Fallback      all attempts used up: secondaryRegistrar.Register       *)
(*   StubReturn    the opaque secondary returns                            *)
(*   Return        Register returns (after the deferred SleepWithContext)  *)
(*                                                                         *)
(* Outcomes (scripted by the environment):                                 *)
(*   API  neterr (connection closed without a response), s404 (any status  *)
(*        300..499), s500 (500..599), garbage (2xx, body is not a          *)
(*        RegistrationResponse), R* (2xx with the RegistrationResponse     *)
(*        below; R0 = empty body)                                          *)
(*   DNS  servfail (resolver answers with an error RCODE), garbage (bytes  *)
(*        that are no DnsResponse), nosuccess (success=false), nobidi      *)
(*        (success=true, no bidirectional_response), R* (success=true)     *)
(*                                                                         *)
(* Variant selects the behaviour that is modelled:                         *)
(*   "asfound"   what the code does (bound to the code by conformance)     *)
(*   "intended"  what a caller relies on (see the I_* invariants; every    *)
(*               difference is guarded by the operator Intended)           *)
(*   "offbyone"  a deliberately broken instance (loop guard <= instead of  *)
(*               <): must violate AttemptBound                             *)
(*                                                                         *)
(* Where the two variants differ (each is an I_* property below that the   *)
(* as-found variant violates and the conformance stages reproduce on the   *)
(* real code; when the code is repaired, drop the corresponding guard):    *)
(*   - the DNS registrar ignores the context: requests are sent after the  *)
(*     cancellation and a request in flight is not given up                *)
(*   - the API registrar calls its secondary with a cancelled context      *)
(*   - a rejected response leaves its port in the registration (DNS)       *)
(*   - DnsResponse.success=false is a success for the unidirectional DNS   *)
(*     registrar; RegistrationResponse.error is never looked at            *)
(*   - a success without any phantom address (empty body, no               *)
(*     bidirectional_response) is accepted                                 *)
(*   - an unpack failure makes the API registrar return at once (no retry, *)
(*     no fallback, not ErrRegFailed) while the DNS registrar retries      *)
(*   - the connection delay is slept after failures, and twice after a     *)
(*     fallback to a DNS registrar                                         *)
(*   - the DNS registrar logs "attempt i/maxRetries" (API: maxRetries+1)   *)
(***************************************************************************)
EXTENDS Naturals, Sequences, FiniteSets, TLC

CONSTANTS Variant,       \* "asfound" | "intended" | "offbyone"
          Configs,       \* set of configuration records (see AllConfigs)
          ApiOutcomes,   \* what the API endpoint may answer
          DnsOutcomes    \* what the DNS channel may answer

VARIABLES cfg,        \* configuration of this call (None before Call)
          pc,         \* "idle" | "ready" | "inflight" | "got" | "stub" | "stubret" | "done"
          cur,        \* 1 | 2
          tries,      \* <<t1, t2>> loop counter of each registrar (= failed attempts so far)
          wire,       \* <<w1, w2>> requests that reached the server
          dialed,     \* <<d1, d2>> DNS: requester.transport is established (cached for later attempts)
          last,       \* outcome of the attempt being evaluated, "-" if none
          reg,        \* the ConjureReg of the running registrar [p4, p6, port, tp]
          accepted,   \* "-" | the outcome that made Register succeed
          cancelled,  \* the context is cancelled
          wireAC,     \* history: <<n1, n2>> requests put on the wire after the cancellation
          fbAC,       \* history: the secondary was invoked with a cancelled context
          secCalls,   \* history: number of secondaryRegistrar.Register calls
          result,     \* None | [err, reg, slept]
          obs

None == [none |-> TRUE]
Intended == Variant = "intended"

vars == <<cfg, pc, cur, tries, wire, dialed, last, reg, accepted, cancelled, wireAC, fbAC, secCalls, result, obs>>
view == <<cfg, pc, cur, tries, wire, dialed, last, reg, accepted, cancelled, wireAC, fbAC, secCalls, result>>

\* ------------------------------------------------------------------ configurations
\* kind/bidi/max: the registrar the caller invokes; sec: its SecondaryRegistrar ("none" | "stub" | "dns" with sbidi/smax);
\* delay: connectionDelay > 0 (the same value in both registrars); noovr: ConjureSession.DisableRegistrarOverrides
AllConfigs(Ms, SMs, Ds, Ns) ==
  { c \in [kind : {"api", "dns"}, bidi : BOOLEAN, max : Ms, sec : {"none", "stub", "dns"}, sbidi : BOOLEAN, smax : SMs,
           delay : Ds, noovr : Ns] :
      /\ c.kind = "dns" => c.sec = "none"          \* DNSRegistrar has no secondary
      /\ c.sec # "dns" => (~c.sbidi /\ c.smax = 0) }
CfgMC      == AllConfigs(0..2, 0..1, BOOLEAN, BOOLEAN)
CfgThorough == AllConfigs(0..3, 0..2, BOOLEAN, BOOLEAN)
CfgTrace   == AllConfigs(0..4, 0..3, BOOLEAN, BOOLEAN)
CfgGenA    == AllConfigs(0..1, {0}, {FALSE}, {FALSE})                          \* broad, no sleeping
CfgGenB    == {c \in AllConfigs({1}, {0, 1}, {FALSE}, BOOLEAN) : c.bidi /\ (c.sec = "dns" => c.sbidi)}
CfgGenD    == {c \in AllConfigs({0, 1}, {0}, {TRUE}, {FALSE}) : c.bidi}        \* with connectionDelay
CfgGenC    == AllConfigs({2}, {0, 1}, {FALSE}, {FALSE})                          \* three attempts, small alphabets
CfgGenE    == AllConfigs(0..2, {0, 1}, {FALSE}, BOOLEAN)                         \* thorough tier: everything up to three attempts
CfgGap     == CfgGenA \cup CfgGenD
CfgSim     == AllConfigs(0..3, 0..2, {FALSE}, BOOLEAN)

Rg(i) == IF i = 1 THEN [kind |-> cfg.kind, bidi |-> cfg.bidi, max |-> cfg.max]
                  ELSE [kind |-> "dns", bidi |-> cfg.sbidi, max |-> cfg.smax]
Limit(R) == IF Variant = "offbyone" THEN R.max + 2 ELSE R.max + 1
Src(R) == IF R.kind = "api" THEN (IF R.bidi THEN "BidirectionalAPI" ELSE "API")
                            ELSE (IF R.bidi THEN "BidirectionalDNS" ELSE "DNS")
\* the "attempt i/of" the registrar logs: api-registrar.go:93,133 use maxRetries+1, dns-registrar.go:109,155 maxRetries
LogOf(R) == IF R.kind = "api" \/ Intended THEN R.max + 1 ELSE R.max
Outcomes(k) == IF k = "api" THEN ApiOutcomes ELSE DnsOutcomes

\* ------------------------------------------------------------------ registration responses
\* ip4 "zero" = field unset (UnpackRegResp stores 0.0.0.0), ip6 "empty" = field unset (empty net.IP), port 0 = unset,
\* tp = transport_params: none | good (parses; sets RandomizeDstPort) | bad (does not parse), err = the `error` string is set
Resp == [ R0 |-> [ip4 |-> "zero", ip6 |-> "empty", port |-> 0,    tp |-> "none", err |-> FALSE],
          R1 |-> [ip4 |-> "a1",   ip6 |-> "b1",    port |-> 1001, tp |-> "none", err |-> FALSE],
          R2 |-> [ip4 |-> "a2",   ip6 |-> "b2",    port |-> 0,    tp |-> "none", err |-> FALSE],
          RT |-> [ip4 |-> "a1",   ip6 |-> "b2",    port |-> 1002, tp |-> "good", err |-> FALSE],
          RB |-> [ip4 |-> "a2",   ip6 |-> "b1",    port |-> 1003, tp |-> "bad",  err |-> FALSE],
          RE |-> [ip4 |-> "a1",   ip6 |-> "b1",    port |-> 1001, tp |-> "none", err |-> TRUE] ]
IsResp(o) == o \in DOMAIN Resp
TransportFail == {"neterr", "s404", "s500", "servfail", "dialerr", "ctxerr"}

\* the ConjureReg as Uni-/BidirectionalRegData create it: unidirectional = phantoms and port derived locally from the seed
\* (port 1 stands for "the locally derived port"), bidirectional = nothing chosen yet
Fresh(bidi) == IF bidi THEN [p4 |-> "nil", p6 |-> "nil", port |-> 0, tp |-> "default"]
                       ELSE [p4 |-> "local", p6 |-> "local", port |-> 1, tp |-> "default"]

\* tapdance.ConjureReg.UnpackRegResp (v6Support = both): addresses and port are stored BEFORE the transport parameters are
\* looked at, so a failing unpack leaves them behind (the intended variant unpacks into a copy)
Unpack(rg, r, noovr) ==
  LET port2 == IF r.port # 0 THEN r.port ELSE IF rg.port = 0 THEN 443 ELSE rg.port
      base  == [rg EXCEPT !.p4 = r.ip4, !.p6 = r.ip6, !.port = port2]
      left  == IF Intended THEN rg ELSE base IN
  IF r.tp = "none" THEN [ok |-> TRUE, reg |-> base]
  ELSE IF noovr \/ r.tp = "bad" THEN [ok |-> FALSE, reg |-> left]
  ELSE [ok |-> TRUE, reg |-> [base EXCEPT !.tp = "rand"]]

\* how registrar R classifies outcome o of an attempt: [v |-> "retry" | "accept" | "fatal", reg |-> the ConjureReg afterwards]
Eval(R, o, rg) ==
  LET retry == [v |-> "retry", reg |-> rg] IN
  IF o \in TransportFail THEN retry
  ELSE IF ~R.bidi THEN
    \* unidirectional: any 2xx / anything that decrypts is a success, the body is not looked at
    IF Intended /\ R.kind = "dns" /\ o = "nosuccess" THEN retry ELSE [v |-> "accept", reg |-> rg]
  ELSE IF o \in {"garbage", "nosuccess"} THEN retry
  ELSE IF o = "nobidi" THEN (IF Intended THEN retry ELSE [v |-> "accept", reg |-> rg])   \* UnpackRegResp(nil) = nil
  ELSE LET r == Resp[o]
           u == Unpack(rg, r, cfg.noovr) IN
       IF Intended /\ (r.err \/ (r.ip4 = "zero" /\ r.ip6 = "empty")) THEN retry
       ELSE IF u.ok THEN [v |-> "accept", reg |-> u.reg]
       ELSE IF R.kind = "api" /\ ~Intended THEN [v |-> "fatal", reg |-> u.reg]      \* api-registrar.go:141-144
       ELSE [v |-> "retry", reg |-> u.reg]                                            \* dns-registrar.go:177-181

\* ------------------------------------------------------------------ actions
Init == /\ cfg = None /\ pc = "idle" /\ cur = 1 /\ tries = <<0, 0>> /\ wire = <<0, 0>> /\ dialed = <<FALSE, FALSE>>
        /\ last = "-" /\ reg = None /\ accepted = "-" /\ cancelled = FALSE /\ wireAC = <<0, 0>> /\ fbAC = FALSE
        /\ secCalls = 0 /\ result = None /\ obs = [a |-> "Init"]

Call(c) ==
  /\ pc = "idle" /\ c \in Configs
  /\ cfg' = c /\ pc' = "ready" /\ reg' = Fresh(c.bidi)
  /\ obs' = [a |-> "Call", cfg |-> c, pre |-> cancelled]
  /\ UNCHANGED <<cur, tries, wire, dialed, last, accepted, cancelled, wireAC, fbAC, secCalls, result>>

Send ==
  /\ pc = "ready"
  /\ LET R == Rg(cur) IN
     /\ tries[cur] < Limit(R)
     /\ R.kind = "api" => ~cancelled      \* http.Client.Do refuses a cancelled context before touching the network
     /\ Intended => ~cancelled
     /\ wire' = [wire EXCEPT ![cur] = @ + 1]
     /\ dialed' = [dialed EXCEPT ![cur] = TRUE]
     /\ wireAC' = IF cancelled THEN [wireAC EXCEPT ![cur] = @ + 1] ELSE wireAC
     /\ pc' = "inflight"
     /\ obs' = [a |-> "Send", r |-> cur, n |-> wire'[cur], src |-> Src(R)]
  /\ UNCHANGED <<cfg, cur, tries, last, reg, accepted, cancelled, fbAC, secCalls, result>>

LocalFail(why) ==
  /\ pc = "ready"
  /\ LET R == Rg(cur) IN
     /\ tries[cur] < Limit(R)
     /\ \/ why = "dial" /\ R.kind = "dns" /\ ~dialed[cur] /\ (Intended => ~cancelled)
        \/ why = "ctx" /\ R.kind = "api" /\ cancelled /\ ~Intended
  /\ pc' = "got" /\ last' = (IF why = "dial" THEN "dialerr" ELSE "ctxerr")
  /\ obs' = [a |-> "LocalFail", r |-> cur, why |-> why]
  /\ UNCHANGED <<cfg, cur, tries, wire, dialed, reg, accepted, cancelled, wireAC, fbAC, secCalls, result>>

Recv(o) ==
  /\ pc = "inflight" /\ o \in Outcomes(Rg(cur).kind)
  /\ pc' = "got" /\ last' = o
  /\ obs' = [a |-> "Recv", r |-> cur, o |-> o]
  /\ UNCHANGED <<cfg, cur, tries, wire, dialed, reg, accepted, cancelled, wireAC, fbAC, secCalls, result>>

\* the caller cancels: before the call, while a request is in flight, or while the opaque secondary runs.  An API request in
\* flight is aborted (the attempt fails with the context's error); requester.RequestAndRecv takes no context, so a DNS
\* request in flight keeps waiting for its answer (as found).
Cancel ==
  /\ ~cancelled /\ pc \in {"idle", "inflight", "stub"}
  /\ cancelled' = TRUE
  /\ LET abort == pc = "inflight" /\ (Rg(cur).kind = "api" \/ Intended) IN
     /\ IF abort THEN pc' = "got" /\ last' = "ctxerr" ELSE UNCHANGED <<pc, last>>
     /\ obs' = [a |-> "Cancel", at |-> pc, aborted |-> abort]
  /\ UNCHANGED <<cfg, cur, tries, wire, dialed, reg, accepted, wireAC, fbAC, secCalls, result>>

Fail ==
  /\ pc = "got"
  /\ LET R == Rg(cur)
         e == Eval(R, last, reg) IN
     /\ e.v = "retry"
     /\ tries' = [tries EXCEPT ![cur] = @ + 1]
     /\ reg' = e.reg
     /\ obs' = [a |-> "Fail", r |-> cur, i |-> tries'[cur], of |-> LogOf(R)]
  /\ pc' = "ready" /\ last' = "-"
  /\ UNCHANGED <<cfg, cur, wire, dialed, accepted, cancelled, wireAC, fbAC, secCalls, result>>

Fallback ==
  /\ pc = "ready" /\ cur = 1 /\ tries[1] >= Limit(Rg(1)) /\ cfg.sec # "none"
  /\ Intended => ~cancelled
  /\ cur' = 2 /\ secCalls' = secCalls + 1 /\ fbAC' = cancelled
  /\ IF cfg.sec = "stub" THEN pc' = "stub" /\ UNCHANGED reg
                         ELSE pc' = "ready" /\ reg' = Fresh(cfg.sbidi)     \* the secondary builds its own ConjureReg
  /\ obs' = [a |-> "Fallback", to |-> cfg.sec, cancelled |-> cancelled]
  /\ UNCHANGED <<cfg, tries, wire, dialed, last, accepted, cancelled, wireAC, result>>

StubReturn(ok) ==
  /\ pc = "stub"
  /\ pc' = "stubret" /\ last' = (IF ok THEN "stubok" ELSE "stubfail")
  /\ obs' = [a |-> "StubReturn", ok |-> ok]
  /\ UNCHANGED <<cfg, cur, tries, wire, dialed, reg, accepted, cancelled, wireAC, fbAC, secCalls, result>>

\* deferred lib.SleepWithContext(ctx, connectionDelay) of every registrar that was entered: as found it runs on failure as
\* well (and twice after a fallback to a DNS registrar with a delay of its own); it returns at once when the context is
\* cancelled.  Intended (Config.Delay / APIRegistrar.connectionDelay: "delay after confirming successful registration"):
\* once, after a success.
Slept(err) == IF cancelled \/ ~cfg.delay THEN 0
              ELSE IF Intended THEN (IF err = "none" THEN 1 ELSE 0)
              ELSE IF cur = 2 /\ cfg.sec = "dns" THEN 2 ELSE 1

Return ==
  /\ LET R == Rg(cur)
         e == Eval(R, last, reg)
         fin(err, rg, acc) ==
           /\ result' = [err |-> err, reg |-> rg, slept |-> Slept(err)]
           /\ accepted' = acc
           /\ obs' = [a |-> "Return", err |-> err, reg |-> rg, slept |-> Slept(err)] IN
     \/ pc = "got" /\ e.v = "accept" /\ fin("none", e.reg, last)
     \/ pc = "got" /\ e.v = "fatal" /\ fin("unpack", None, "-")                       \* `return nil, err`, not ErrRegFailed
     \/ /\ pc = "ready" /\ tries[cur] >= Limit(R)
        /\ cur = 2 \/ cfg.sec = "none" \/ (Intended /\ cancelled)
        /\ fin("regfailed", None, "-")
     \/ Intended /\ cancelled /\ pc = "ready" /\ tries[cur] < Limit(R) /\ fin("regfailed", None, "-")
     \/ pc = "stubret" /\ last = "stubok" /\ fin("none", Fresh(FALSE), "stubok")      \* whatever the secondary returned
     \/ pc = "stubret" /\ last = "stubfail" /\ fin("stub", None, "-")                 \* ... its error is passed through
  /\ pc' = "done"
  /\ UNCHANGED <<cfg, cur, tries, wire, dialed, last, reg, cancelled, wireAC, fbAC, secCalls>>

RegistrarStep == Send \/ (\E w \in {"dial", "ctx"} : LocalFail(w)) \/ Fail \/ Fallback \/ Return
EnvRecv == \E o \in ApiOutcomes \cup DnsOutcomes : Recv(o)
EnvStub == \E ok \in BOOLEAN : StubReturn(ok)

Next == \/ \E c \in Configs : Call(c)
        \/ RegistrarStep
        \/ EnvRecv
        \/ EnvStub
        \/ Cancel

Spec == Init /\ [][Next]_vars
\* the registrar takes its own steps; the server always answers and the opaque secondary always returns
FairSpec == Spec /\ WF_vars(RegistrarStep) /\ WF_vars(EnvRecv) /\ WF_vars(EnvStub)
\* as FairSpec, but answers may be lost
LossySpec == Spec /\ WF_vars(RegistrarStep) /\ WF_vars(EnvStub)

\* ------------------------------------------------------------------ properties (both variants)
RegT == [p4 : {"nil", "local", "zero", "a1", "a2"}, p6 : {"nil", "local", "empty", "b1", "b2"},
         port : {0, 1, 443, 1001, 1002, 1003}, tp : {"default", "rand"}]
TypeOK ==
  /\ pc \in {"idle", "ready", "inflight", "got", "stub", "stubret", "done"}
  /\ cur \in {1, 2} /\ tries \in Nat \X Nat /\ wire \in Nat \X Nat /\ dialed \in BOOLEAN \X BOOLEAN
  /\ cancelled \in BOOLEAN /\ fbAC \in BOOLEAN /\ secCalls \in Nat
  /\ pc = "idle" <=> cfg = None
  /\ pc # "idle" => (cfg \in Configs /\ reg \in RegT)
  /\ pc = "done" <=> result # None
  /\ result # None => (result.err \in {"none", "regfailed", "unpack", "stub"} /\ result.slept \in 0..2
                       /\ (result.reg = None \/ result.reg \in RegT))

\* at most MaxRetries+1 attempts per registrar, each attempt is at most one request
AttemptBound ==
  pc # "idle" => \A i \in {1, 2} : /\ tries[i] <= Rg(i).max + 1
                                    /\ wire[i] <= Rg(i).max + 1
                                    /\ wire[i] <= tries[i] + 1
\* no attempt (and nothing else) after the call has its result
NothingAfterResult == [][result # None => UNCHANGED <<wire, tries, cur, secCalls>>]_vars
\* the secondary is entered only when the primary used up all its attempts without success, and at most once
FallbackOnlyAfterGiveUp ==
  [][cur' # cur => (cur = 1 /\ cur' = 2 /\ pc = "ready" /\ tries[1] = cfg.max + 1 /\ accepted = "-" /\ cfg.sec # "none")]_vars
FallbackAtMostOnce == secCalls <= 1 /\ (cur = 2 <=> secCalls = 1)
SecondaryUntouchedWithoutFallback == cur = 1 => (wire[2] = 0 /\ tries[2] = 0)
\* an error is returned iff nothing was accepted; (reg, nil) or (nil, err), never both / neither
ErrIffNoAccept ==
  pc = "done" => /\ (result.err = "none") <=> (accepted # "-")
                 /\ (result.err = "none") <=> (result.reg # None)
                 /\ result.err = "regfailed" => tries[cur] >= Rg(cur).max + 1 \/ (Intended /\ cancelled)
Ok == pc = "done" /\ result.err = "none"
AcceptingBidi == accepted # "stubok" /\ Rg(cur).bidi
\* a unidirectional success (and whatever the stub returns) carries the locally derived phantoms: nothing is unpacked
UniIsLocal == (Ok /\ ~AcceptingBidi) => result.reg = Fresh(FALSE)
\* a bidirectional success carries the addresses (and the port, when set) of the accepted response
AddrFromAccepted ==
  (Ok /\ AcceptingBidi /\ IsResp(accepted)) =>
     /\ result.reg.p4 = Resp[accepted].ip4 /\ result.reg.p6 = Resp[accepted].ip6
     /\ Resp[accepted].port # 0 => result.reg.port = Resp[accepted].port
\* transport-parameter overrides are applied only from the accepted bidirectional response, never with overrides disabled
OverridesOnlyFromAccepted ==
  Ok => /\ (result.reg.tp = "rand") <=> (AcceptingBidi /\ IsResp(accepted) /\ Resp[accepted].tp = "good")
        /\ cfg.noovr => result.reg.tp = "default"
\* a cancelled call does not sit out the connection delay
PromptAfterCancel == (pc = "done" /\ cancelled) => result.slept = 0
\* after the cancellation the API registrar puts nothing on the wire any more
ApiNoWireAfterCancel == pc # "idle" => \A i \in {1, 2} : wireAC[i] > 0 => Rg(i).kind = "dns"
\* with the server answering, every call returns
Termination == (pc # "idle") ~> (pc = "done")

\* ------------------------------------------------------------------ properties a caller relies on (intended variant only)
I_NoWireAfterCancel     == wireAC = <<0, 0>>
I_NoFallbackAfterCancel == ~fbAC
I_NoInflightAfterCancel == ~(cancelled /\ pc = "inflight")
\* the returned registration reflects exactly the accepted response: nothing of a rejected response is left in it
I_RegReflectsAccepted ==
  (Ok /\ AcceptingBidi /\ IsResp(accepted)) => result.reg = Unpack(Fresh(TRUE), Resp[accepted], cfg.noovr).reg
\* a response that says "failed" (DnsResponse.success = false, RegistrationResponse.error set) is not a success
\* (a unidirectional registrar does not read the RegistrationResponse at all)
I_ErrorIndicationRespected == accepted # "nosuccess" /\ (accepted = "RE" => ~Rg(cur).bidi)
\* a bidirectional success names at least one phantom
I_AcceptedHasAddr == (Ok /\ AcceptingBidi) => (result.reg.p4 \notin {"nil", "zero"} \/ result.reg.p6 \notin {"nil", "empty"})
\* every failure is reported as ErrRegFailed (or the secondary's own error), after the retries and the fallback
I_FailureIsRegFailed == pc = "done" => result.err \in {"none", "regfailed", "stub"}
\* the connection delay is waited out once, after a successful registration only
I_DelayOnceAfterSuccess == pc = "done" => result.slept = (IF Ok /\ cfg.delay /\ ~cancelled THEN 1 ELSE 0)
\* the caller's cancellation makes Register return even if answers are lost (checked under LossySpec)
CancelLeadsToReturn == (cancelled /\ pc # "idle") ~> (pc = "done")
=============================================================================
