SPECIFICATION TraceSpec
CONSTANTS
  Transports = {"min", "prefix", "obfs4"}
  Families = {"v4", "v6", "dual"}
  OverrideSets = {"none", "rand", "fixed"}
  SubnetCfgs = {"none", "one", "two", "zero", "three", "shared"}
  Exclusions = {"none", "orig", "other"}
  Percents = {"neither", "both", "minonly", "prefixonly"}
  ForgedKinds = {"none", "resp", "sig", "both"}
  Outdated = {FALSE, TRUE}
  Variant = "intended"
VIEW TraceView
INVARIANTS RespEqualsForwarded StationAgrees ForgedFieldsDropped OverridesOnlyIfAllowed SubstituteFromConfiguredSubnets ExcludedNeverReplaced FamiliesAnswered
POSTCONDITION Post
CHECK_DEADLOCK FALSE
