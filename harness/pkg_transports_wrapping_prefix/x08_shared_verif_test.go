//go:build verif

package PKGNAME

// X08 (spec/ClientTransport): engine shared by the three in-package drivers of the client-side wrapping transports
// (instantiated into pkg/transports/wrapping/{min,obfs4,prefix} by the overlay; each package adds its adapter file).
//
// One step = one call on the REAL ClientTransport (or on a connection it wrapped), made over an in-memory duplex
// connection that records every Write call.  After every step the real object is projected onto the specification's
// state (P, S, pfx, keys, conns) and the step's observation (result, error class, random pick, returned parameters / port,
// what the call wrote) is built exactly in the shape of ClientTransport.tla's obs.
//
//   TestVerifX08  VERIF_IN  = TLC behaviours (one JSON list per line): replayed, every field of every observation compared
//                 VERIF_TRACES = N: N seeded random call sequences (larger alphabet, not from the spec) recorded as ndjson
//                 VERIF_OUT = results (kind: summary | mismatch) and traces (a: Reset | <call>)

import (
	"bytes"
	"context"
	crand "crypto/rand"
	"crypto/sha256"
	"encoding/binary"
	"encoding/json"
	"errors"
	"fmt"
	"io"
	mrand "math/rand"
	"net"
	"os"
	"sync"
	"testing"
	"time"

	"golang.org/x/crypto/curve25519"
	"google.golang.org/protobuf/proto"
	"google.golang.org/protobuf/types/known/anypb"
)

// ------------------------------------------------------------------ the transport under test

type x08T interface {
	SetParams(any) error
	Prepare(ctx context.Context, dialer func(ctx context.Context, network, laddr, raddr string) (net.Conn, error)) error
	GetParams() (proto.Message, error)
	SetSessionParams(incoming *anypb.Any, unchecked ...bool) error
	PrepareKeys(pubkey [32]byte, sharedSecret []byte, dRand io.Reader) error
	GetDstPort(seed []byte) (uint16, error)
	WrapConn(conn net.Conn) (net.Conn, error)
}

// x08Adapter is what each package provides (in-package: it reads the unexported fields).
type x08Adapter interface {
	Kind() string
	New(field int) x08T
	SetArg(arg map[string]any) any
	Inc(inc map[string]any) *anypb.Any
	Proj(t x08T) (P, S, pfx, keys any)
	ProjMsg(m proto.Message) any
	Why(err error) string
	Port(seedName string, seed []byte, port uint16) any
	// Header parses the start of the byte stream a connection carried: which prefix, whose tag, their lengths
	Header(raw []byte) (hp, hs string, plen, tlen int)
	// StartPeer starts the station side of a connection for the named secret (obfs4 only; nil = no peer needed)
	StartPeer(p *x08Pipe, sec string) *x08Peer
	UsesRand() bool // the package draws a random prefix from crypto/rand.Reader (forced / observed by the driver)
}

var x08None = map[string]any{"none": true}

const x08NoPick = -2

var x08SecretNames = []string{"s1", "s2", "s3"}

func x08StationKeys() (priv, pub [32]byte) {
	h := sha256.Sum256([]byte("x08-station-key"))
	h[0] &= 248
	h[31] &= 127
	h[31] |= 64
	priv = h
	p, err := curve25519.X25519(priv[:], curve25519.Basepoint)
	if err != nil {
		panic(err)
	}
	copy(pub[:], p)
	return
}

// x08Stream is a deterministic, position-addressable byte stream (application data, peer data, key material).
func x08Stream(label string, off, n int) []byte {
	out := make([]byte, 0, n+32)
	for blk := off / 32; len(out) < n+off%32; blk++ {
		var c [8]byte
		binary.BigEndian.PutUint64(c[:], uint64(blk))
		h := sha256.Sum256(append([]byte("x08-"+label+"-"), c[:]...))
		out = append(out, h[:]...)
	}
	return out[off%32 : off%32+n]
}

type x08KeyReader struct {
	label string
	off   int
}

func (r *x08KeyReader) Read(b []byte) (int, error) {
	copy(b, x08Stream(r.label, r.off, len(b)))
	r.off += len(b)
	return len(b), nil
}

type x08ErrReader struct{}

func (x08ErrReader) Read(b []byte) (int, error) { return 0, errors.New("x08: key reader exhausted") }

// x08Tok / x08TokOf: the names the specification uses for prefix byte strings
var x08Custom = map[string][]byte{
	"":     {},
	"X":    []byte("\x01X08pfx"),
	"EDGE": x08Pattern(4064),
	"FULL": x08Pattern(4096),
	"BIG":  x08Pattern(5000),
}

func x08Pattern(n int) []byte {
	b := make([]byte, n)
	for i := range b {
		b[i] = byte(0x80 | (i*7+n)%113)
	}
	return b
}

// ------------------------------------------------------------------ in-memory duplex connection, recording client writes

type x08Pipe struct {
	mu       sync.Mutex
	cond     *sync.Cond
	c2s, s2c []byte
	cClosed  bool
	sClosed  bool
	writes   []int  // length of every client Write call, in order
	raw      []byte // everything the client wrote
	// both ends blocked in Read with nothing in flight (a handshake that cannot complete): the station end gives up
	cWait, sWait bool
}

func (p *x08Pipe) stalled() bool {
	if p.cWait && p.sWait && len(p.c2s) == 0 && len(p.s2c) == 0 {
		p.sClosed = true
		p.cond.Broadcast()
		return true
	}
	return false
}

func x08NewPipe() *x08Pipe {
	p := &x08Pipe{}
	p.cond = sync.NewCond(&p.mu)
	return p
}

type x08Addr struct{}

func (x08Addr) Network() string { return "x08" }
func (x08Addr) String() string  { return "x08-pipe" }

type x08PipeC struct{ p *x08Pipe }
type x08PipeS struct{ p *x08Pipe }

func (c x08PipeC) Write(b []byte) (int, error) {
	p := c.p
	p.mu.Lock()
	defer p.mu.Unlock()
	if p.cClosed || p.sClosed {
		return 0, io.ErrClosedPipe
	}
	p.writes = append(p.writes, len(b))
	p.raw = append(p.raw, b...)
	p.c2s = append(p.c2s, b...)
	p.cond.Broadcast()
	return len(b), nil
}
func (c x08PipeC) Read(b []byte) (int, error) {
	p := c.p
	p.mu.Lock()
	defer p.mu.Unlock()
	for len(p.s2c) == 0 && !p.cClosed && !p.sClosed {
		p.cWait = true
		if !p.stalled() {
			p.cond.Wait()
		}
		p.cWait = false
	}
	if p.cClosed {
		return 0, io.ErrClosedPipe
	}
	if len(p.s2c) > 0 {
		n := copy(b, p.s2c)
		p.s2c = p.s2c[n:]
		return n, nil
	}
	return 0, io.EOF
}
func (c x08PipeC) Close() error {
	c.p.mu.Lock()
	c.p.cClosed = true
	c.p.cond.Broadcast()
	c.p.mu.Unlock()
	return nil
}
func (x08PipeC) LocalAddr() net.Addr                { return x08Addr{} }
func (x08PipeC) RemoteAddr() net.Addr               { return x08Addr{} }
func (x08PipeC) SetDeadline(t time.Time) error      { return nil }
func (x08PipeC) SetReadDeadline(t time.Time) error  { return nil }
func (x08PipeC) SetWriteDeadline(t time.Time) error { return nil }

func (s x08PipeS) Write(b []byte) (int, error) {
	p := s.p
	p.mu.Lock()
	defer p.mu.Unlock()
	if p.cClosed || p.sClosed {
		return 0, io.ErrClosedPipe
	}
	p.s2c = append(p.s2c, b...)
	p.cond.Broadcast()
	return len(b), nil
}
func (s x08PipeS) Read(b []byte) (int, error) {
	p := s.p
	p.mu.Lock()
	defer p.mu.Unlock()
	for len(p.c2s) == 0 && !p.cClosed && !p.sClosed {
		p.sWait = true
		if !p.stalled() {
			p.cond.Wait()
		}
		p.sWait = false
	}
	if p.sClosed {
		return 0, io.ErrClosedPipe
	}
	if len(p.c2s) > 0 {
		n := copy(b, p.c2s)
		p.c2s = p.c2s[n:]
		return n, nil
	}
	return 0, io.EOF
}
func (s x08PipeS) Close() error {
	s.p.mu.Lock()
	s.p.sClosed = true
	s.p.cond.Broadcast()
	s.p.mu.Unlock()
	return nil
}
func (x08PipeS) LocalAddr() net.Addr           { return x08Addr{} }
func (x08PipeS) RemoteAddr() net.Addr          { return x08Addr{} }
func (x08PipeS) SetDeadline(t time.Time) error { return nil }

// a failed obfs4 server handshake "closes after a delay" bounded by the read deadline: refusing the deadline makes it close at once
func (x08PipeS) SetReadDeadline(t time.Time) error  { return errors.New("x08: no deadlines") }
func (x08PipeS) SetWriteDeadline(t time.Time) error { return nil }

func (p *x08Pipe) closed() bool {
	p.mu.Lock()
	defer p.mu.Unlock()
	return p.cClosed || p.sClosed
}
func (p *x08Pipe) snapshot() ([]int, []byte) {
	p.mu.Lock()
	defer p.mu.Unlock()
	return append([]int(nil), p.writes...), append([]byte(nil), p.raw...)
}

// x08Peer is the station end of a connection whose transport transforms the stream (obfs4).
type x08Peer struct {
	sec   string
	ready chan error
	mu    sync.Mutex
	conn  net.Conn
	buf   []byte
}

func (pe *x08Peer) got() []byte {
	pe.mu.Lock()
	defer pe.mu.Unlock()
	return append([]byte(nil), pe.buf...)
}

// ------------------------------------------------------------------ one session: the transport and its connections

type x08Conn struct {
	pipe       *x08Pipe
	w          net.Conn
	peer       *x08Peer
	hp, hs     string
	plen, tlen int
	sent, nw   int
	inb, got   int
	np         int
	psent      int
	bad        bool
}

type x08Session struct {
	ad      x08Adapter
	t       x08T
	conns   []*x08Conn
	lastSec string
	panics  int
	hangs   int
	forced  *x08Rand
}

type x08Rand struct {
	forced []byte
	used   int
	orig   io.Reader
}

func (r *x08Rand) Read(b []byte) (int, error) {
	r.used++
	n := 0
	if len(r.forced) > 0 {
		n = copy(b, r.forced)
		r.forced = r.forced[n:]
	}
	if n < len(b) {
		m, err := r.orig.Read(b[n:])
		return n + m, err
	}
	return n, nil
}

func x08NewSession(ad x08Adapter, field int) *x08Session {
	return &x08Session{ad: ad, t: ad.New(field)}
}

func (s *x08Session) cleanup() {
	for _, c := range s.conns {
		x08PipeC{c.pipe}.Close()
		x08PipeS{c.pipe}.Close()
	}
}

// guarded runs f; res is "ok" / "err" / "panic" / "hang"
func x08Guard(timeout time.Duration, onSlow func(), f func() error) (res string, err error) {
	type out struct {
		res string
		err error
	}
	ch := make(chan out, 1)
	go func() {
		defer func() {
			if r := recover(); r != nil {
				ch <- out{"panic", fmt.Errorf("%v", r)}
			}
		}()
		e := f()
		if e != nil {
			ch <- out{"err", e}
		} else {
			ch <- out{"ok", nil}
		}
	}()
	slow := time.NewTimer(timeout)
	defer slow.Stop()
	select {
	case o := <-ch:
		return o.res, o.err
	case <-slow.C:
		if onSlow != nil {
			onSlow()
		}
	}
	select {
	case o := <-ch:
		return o.res, o.err
	case <-time.After(5 * time.Second):
		return "hang", nil
	}
}

func (s *x08Session) why(res string, err error) string {
	if res != "err" {
		return "-"
	}
	return s.ad.Why(err)
}

func (s *x08Session) chunks(c *x08Conn) []any {
	if s.ad.Kind() == "obfs4" {
		return []any{}
	}
	writes, _ := c.pipe.snapshot()
	return x08Chunks(writes, c.plen, c.tlen)
}

func x08Chunks(writes []int, plen, tlen int) []any {
	out := []any{}
	off := 0
	ov := func(a, b, lo, hi int) int { // |[a,b) ^ [lo,hi)|
		if a < lo {
			a = lo
		}
		if b > hi {
			b = hi
		}
		if b > a {
			return b - a
		}
		return 0
	}
	for _, l := range writes {
		p := ov(off, off+l, 0, plen)
		t := ov(off, off+l, plen, plen+tlen)
		out = append(out, map[string]any{"p": p, "t": t, "d": l - p - t})
		off += l
	}
	return out
}

// dlv: how many application bytes the peer has, in order and unmodified (-1: something else arrived)
func (s *x08Session) delivered(c *x08Conn) int {
	if c.peer != nil {
		deadline := time.Now().Add(3 * time.Second)
		for {
			got := c.peer.got()
			if len(got) >= c.sent || time.Now().After(deadline) {
				if !bytes.Equal(got, c.appBytes(0, len(got))) {
					return -1
				}
				return len(got)
			}
			time.Sleep(200 * time.Microsecond)
		}
	}
	_, raw := c.pipe.snapshot()
	h := c.plen + c.tlen
	if len(raw) < h {
		return 0
	}
	data := raw[h:]
	if !bytes.Equal(data, c.appBytes(0, len(data))) {
		return -1
	}
	return len(data)
}

func (c *x08Conn) appBytes(off, n int) []byte  { return x08Stream("app", off, n) }
func (c *x08Conn) peerBytes(off, n int) []byte { return x08Stream("peer", off, n) }

func (s *x08Session) state() map[string]any {
	P, S, pfx, keys := s.ad.Proj(s.t)
	conns := []any{}
	for _, c := range s.conns {
		st := "open"
		if c.pipe.closed() {
			st = "closed"
		}
		got := c.got
		if c.bad {
			got = -1
		}
		conns = append(conns, map[string]any{"st": st, "hp": c.hp, "hs": c.hs, "wire": s.chunks(c), "sent": c.sent, "nw": c.nw,
			"dlv": s.delivered(c), "inb": c.inb, "got": got, "np": c.np})
	}
	return map[string]any{"P": P, "S": S, "pfx": pfx, "keys": keys, "conns": conns}
}

func x08Int(v any) int {
	switch x := v.(type) {
	case float64:
		return int(x)
	case int:
		return x
	}
	return 0
}

// step makes the call the event names, with the event's arguments, and returns the observation
func (s *x08Session) step(ev map[string]any) map[string]any {
	a, _ := ev["a"].(string)
	obs := map[string]any{"a": a}
	withRand := func(f func() error) (string, error, int) {
		pick := x08NoPick
		if !s.ad.UsesRand() {
			r, e := x08Guard(3*time.Second, nil, f)
			return r, e, pick
		}
		fr := &x08Rand{orig: crand.Reader}
		if p, ok := ev["pick"]; ok && x08Int(p) >= 0 && s.forced != nil {
			fr.forced = []byte{byte(x08Int(p))}
		}
		old := crand.Reader
		crand.Reader = fr
		r, e := x08Guard(3*time.Second, nil, f)
		crand.Reader = old
		if fr.used > 0 && r == "ok" {
			_, _, pfx, _ := s.ad.Proj(s.t)
			if m, ok := pfx.(map[string]any); ok {
				if id, ok := m["id"]; ok {
					pick = x08Int(id)
				}
			}
		}
		return r, e, pick
	}
	switch a {
	case "SetParams":
		arg, _ := ev["arg"].(map[string]any)
		obs["arg"] = arg
		res, err, pick := withRand(func() error { return s.t.SetParams(s.ad.SetArg(arg)) })
		obs["res"], obs["why"], obs["pick"] = res, s.why(res, err), pick
	case "Prepare":
		res, err, pick := withRand(func() error { return s.t.Prepare(context.Background(), nil) })
		obs["res"], obs["why"], obs["pick"] = res, s.why(res, err), pick
	case "GetParams":
		var m proto.Message
		res, err := x08Guard(3*time.Second, nil, func() error {
			var e error
			m, e = s.t.GetParams()
			return e
		})
		obs["res"], obs["why"] = res, s.why(res, err)
		if res == "ok" {
			obs["val"] = s.ad.ProjMsg(m)
		} else {
			obs["val"] = x08None
		}
	case "SetSessionParams":
		inc, _ := ev["inc"].(map[string]any)
		un, _ := ev["un"].(bool)
		obs["inc"], obs["un"] = inc, un
		res, err, pick := withRand(func() error {
			if un {
				return s.t.SetSessionParams(s.ad.Inc(inc), true)
			}
			if x08Int(ev["_explicit_false"]) == 1 {
				return s.t.SetSessionParams(s.ad.Inc(inc), false)
			}
			return s.t.SetSessionParams(s.ad.Inc(inc))
		})
		obs["res"], obs["why"], obs["pick"] = res, s.why(res, err), pick
	case "PrepareKeys":
		sec, _ := ev["sec"].(string)
		rok, _ := ev["rok"].(bool)
		obs["sec"], obs["rok"] = sec, rok
		_, pub := x08StationKeys()
		var rd io.Reader = x08ErrReader{}
		if rok {
			rd = &x08KeyReader{label: "keys-" + sec}
		}
		res, err := x08Guard(3*time.Second, nil, func() error { return s.t.PrepareKeys(pub, vSecret(sec), rd) })
		obs["res"], obs["why"] = res, s.why(res, err)
		if res == "ok" {
			s.lastSec = sec
		}
	case "GetDstPort":
		seed, _ := ev["seed"].(string)
		obs["seed"] = seed
		var port uint16
		res, err := x08Guard(3*time.Second, nil, func() error {
			var e error
			port, e = s.t.GetDstPort([]byte("x08-seed-" + seed))
			return e
		})
		obs["res"], obs["why"] = res, s.why(res, err)
		if res == "ok" {
			obs["port"] = s.ad.Port(seed, []byte("x08-seed-"+seed), port)
		} else {
			obs["port"] = x08None
		}
	case "WrapConn":
		dead, _ := ev["dead"].(bool)
		obs["dead"] = dead
		pipe := x08NewPipe()
		var peer *x08Peer
		if dead {
			x08PipeS{pipe}.Close()
		} else if s.lastSec != "" {
			peer = s.ad.StartPeer(pipe, s.lastSec)
		}
		if peer == nil && s.ad.Kind() == "obfs4" {
			x08PipeS{pipe}.Close() // nobody to shake hands with
		}
		var w net.Conn
		res, err := x08Guard(1500*time.Millisecond, func() { x08PipeS{pipe}.Close() }, func() error {
			var e error
			w, e = s.t.WrapConn(x08PipeC{pipe})
			return e
		})
		obs["res"], obs["why"] = res, s.why(res, err)
		writes, raw := pipe.snapshot()
		c := &x08Conn{pipe: pipe, w: w, peer: peer, hp: "", hs: "none"}
		if s.ad.Kind() == "obfs4" {
			obs["wire"] = []any{}
			if res == "ok" && peer != nil {
				select {
				case e := <-peer.ready:
					if e == nil {
						c.hs = peer.sec
					}
				case <-time.After(3 * time.Second):
				}
			}
		} else {
			c.hp, c.hs, c.plen, c.tlen = s.ad.Header(raw)
			obs["wire"] = x08Chunks(writes, c.plen, c.tlen)
		}
		if res == "ok" {
			if w == nil {
				obs["res"] = "ok-nil-conn"
			}
			s.conns = append(s.conns, c)
		} else {
			if w != nil {
				obs["res"] = res + "-with-conn"
			}
			x08PipeC{pipe}.Close()
			x08PipeS{pipe}.Close()
		}
	case "Write":
		ci, n := x08Int(ev["c"]), x08Int(ev["n"])
		obs["c"], obs["n"] = ci, n
		c := s.conns[ci-1]
		data := c.appBytes(c.sent, n)
		ret := 0
		res, err := x08Guard(5*time.Second, nil, func() error {
			var e error
			ret, e = c.w.Write(data)
			return e
		})
		obs["res"], obs["why"], obs["ret"] = res, s.why(res, err), ret
		if res == "ok" {
			c.sent += ret
			c.nw++
		}
	case "PeerSend":
		ci, n := x08Int(ev["c"]), x08Int(ev["n"])
		obs["c"], obs["n"] = ci, n
		c := s.conns[ci-1]
		data := c.peerBytes(c.psent, n)
		var err error
		if c.peer != nil {
			c.peer.mu.Lock()
			pc := c.peer.conn
			c.peer.mu.Unlock()
			if pc == nil {
				err = errors.New("peer not connected")
			} else {
				_, err = pc.Write(data)
			}
		} else {
			_, err = x08PipeS{c.pipe}.Write(data)
		}
		if err != nil {
			obs["res"], obs["why"] = "err", "other"
		} else {
			obs["res"], obs["why"] = "ok", "-"
			c.psent += n
			c.inb += n
			c.np++
		}
	case "Read":
		ci := x08Int(ev["c"])
		obs["c"] = ci
		c := s.conns[ci-1]
		want := c.inb
		if want == 0 {
			want = 1
		}
		buf := make([]byte, want)
		ret := 0
		res, err := x08Guard(3*time.Second, nil, func() error {
			var e error
			ret, e = io.ReadFull(c.w, buf)
			return e
		})
		obs["res"], obs["why"] = res, s.why(res, err)
		if res == "ok" {
			if !bytes.Equal(buf[:ret], c.peerBytes(c.got, ret)) {
				c.bad = true
			}
			c.got += ret
			c.inb -= ret
			obs["ret"] = ret
		} else {
			obs["ret"] = 0
		}
	case "Close":
		ci := x08Int(ev["c"])
		obs["c"] = ci
		c := s.conns[ci-1]
		res, err := x08Guard(3*time.Second, nil, func() error { return c.w.Close() })
		obs["res"], obs["why"] = res, s.why(res, err)
		if res == "ok" {
			c.inb = 0
		}
	default:
		obs["res"] = "unknown-action"
	}
	if obs["res"] == "panic" {
		s.panics++
	}
	if obs["res"] == "hang" {
		s.hangs++
	}
	obs["st"] = s.state()
	return obs
}

func x08JSON(v any) string {
	b, err := json.Marshal(vNorm(v))
	if err != nil {
		panic(err)
	}
	return string(b)
}

// ------------------------------------------------------------------ stage B: replay of TLC behaviours

func x08Replay(t *testing.T, ad x08Adapter, out *vOut) {
	var behs [][]map[string]any
	vReadLines(t, func(line []byte) {
		var b []map[string]any
		if err := json.Unmarshal(line, &b); err != nil {
			t.Fatalf("bad behaviour: %v", err)
		}
		behs = append(behs, b)
	})
	workers := 1
	if !ad.UsesRand() {
		workers = vEnvInt("VERIF_WORKERS", 32)
	}
	var mu sync.Mutex
	steps, mism, panics, hangs, wraps := 0, 0, 0, 0, 0
	var wg sync.WaitGroup
	next := make(chan int, len(behs))
	for i := range behs {
		next <- i
	}
	close(next)
	for w := 0; w < workers; w++ {
		wg.Add(1)
		go func() {
			defer wg.Done()
			for idx := range next {
				b := behs[idx]
				if len(b) == 0 || b[0]["a"] != "New" {
					t.Errorf("behaviour %d does not start with New", idx)
					continue
				}
				s := x08NewSession(ad, x08Int(b[0]["field"]))
				s.forced = &x08Rand{}
				n, bad, nw := 0, false, 0
				first := s.state()
				if x08JSON(first) != x08JSON(b[0]["st"]) {
					out.Emit(map[string]any{"kind": "mismatch", "idx": idx, "at": 0, "field": "st", "want_event": b[0], "got_event": map[string]any{"a": "New", "st": first}, "want": b[:1]})
					bad = true
				}
				for i := 1; i < len(b) && !bad; i++ {
					got := s.step(b[i])
					n++
					if b[i]["a"] == "WrapConn" {
						nw++
					}
					for k, wv := range b[i] {
						gv, ok := got[k]
						if !ok || x08JSON(gv) != x08JSON(wv) {
							out.Emit(map[string]any{"kind": "mismatch", "idx": idx, "at": i, "field": k, "want_event": b[i], "got_event": got, "want": b[:i+1]})
							bad = true
							break
						}
					}
				}
				s.cleanup()
				mu.Lock()
				steps += n
				wraps += nw
				panics += s.panics
				hangs += s.hangs
				if bad {
					mism++
				}
				mu.Unlock()
			}
		}()
	}
	wg.Wait()
	out.Emit(map[string]any{"kind": "summary", "behaviours": len(behs), "steps": steps, "mismatches": mism, "panics": panics, "hangs": hangs, "wraps": wraps, "tr": ad.Kind()})
}

// ------------------------------------------------------------------ stage C: seeded random call sequences, recorded

func x08Random(t *testing.T, ad x08Adapter, out *vOut, n int) {
	rng := mrand.New(mrand.NewSource(vSeed()*7919 + int64(len(ad.Kind()))))
	isP := ad.Kind() == "prefix"
	pick := func(xs ...any) any { return xs[rng.Intn(len(xs))] }
	ids := []any{0, 0, 1, 1, 2, 3, 4, 5, 6, 7, 8, 9, -1, -1, 77, 10}
	pArg := func(types []any, withBytes []any) map[string]any {
		ty := pick(types...).(string)
		m := map[string]any{"t": ty, "id": pick(ids...), "rand": rng.Intn(2) == 0, "flush": pick(0, 0, 1, 2, 2, 5), "bytes": ""}
		if ty == "pb" {
			m["bytes"] = pick(withBytes...)
		}
		return m
	}
	only := vEnvInt("VERIF_ONLY", -1)
	for tr := 0; tr < n; tr++ {
		field := x08NoPick
		if isP && rng.Intn(4) == 0 {
			field = rng.Intn(10)
		}
		s := x08NewSession(ad, field)
		var evs []map[string]any
		length := 8 + rng.Intn(18)
		// half of the traces start the way a dial does (parameters, Prepare, keys) so that the connection part is reached often;
		// the other half starts anywhere
		var pre []map[string]any
		if rng.Intn(2) == 0 {
			if isP {
				pre = append(pre, map[string]any{"a": "SetParams", "arg": map[string]any{"t": pick("pb", "cpp", "cpv"), "id": pick(0, 1, 2, 3, 4, 5, 6, 7, 8, 9, -1), "rand": rng.Intn(2) == 0, "flush": pick(0, 1, 2), "bytes": ""}})
			} else if rng.Intn(2) == 0 {
				pre = append(pre, map[string]any{"a": "SetParams", "arg": map[string]any{"t": "gen", "rand": rng.Intn(2) == 0}})
			}
			pre = append(pre, map[string]any{"a": "Prepare"}, map[string]any{"a": "PrepareKeys", "sec": pick("s1", "s2", "s3"), "rok": true})
		}
		for i := 0; i < length; i++ {
			var ev map[string]any
			r := rng.Intn(100)
			if len(pre) > 0 {
				evs = append(evs, s.step(pre[0]))
				pre = pre[1:]
				continue
			}
			open, closedOrPending, writable := []int{}, []int{}, []int{}
			for ci, c := range s.conns {
				if !c.pipe.closed() {
					open = append(open, ci+1)
				}
				if c.pipe.closed() || c.inb > 0 {
					closedOrPending = append(closedOrPending, ci+1)
				}
				if c.nw < 8 {
					writable = append(writable, ci+1)
				}
			}
			switch {
			case r < 14:
				var arg map[string]any
				if isP {
					switch rng.Intn(10) {
					case 0:
						arg = map[string]any{"t": "nil"}
					case 1:
						arg = map[string]any{"t": pick("bad", "pnil", "cnil", "bad")}
					case 2:
						arg = map[string]any{"t": "gen", "rand": rng.Intn(2) == 0}
					default:
						arg = pArg([]any{"pb", "cpp", "cpv"}, []any{"", "", "X"})
					}
				} else {
					switch rng.Intn(5) {
					case 0:
						arg = map[string]any{"t": "nil"}
					case 1:
						arg = map[string]any{"t": pick("bad", "pnil")}
					default:
						arg = map[string]any{"t": "gen", "rand": rng.Intn(2) == 0}
					}
				}
				ev = map[string]any{"a": "SetParams", "arg": arg}
			case r < 22:
				ev = map[string]any{"a": "Prepare"}
			case r < 30:
				ev = map[string]any{"a": "GetParams"}
			case r < 44:
				var inc map[string]any
				switch k := rng.Intn(10); {
				case k == 0:
					inc = map[string]any{"t": "nil"}
				case k == 1:
					inc = map[string]any{"t": "bad"}
				case k == 2 || !isP:
					inc = map[string]any{"t": "gen", "rand": rng.Intn(2) == 0}
				default:
					inc = pArg([]any{"pb"}, []any{"", "", "X", "k3", "EDGE", "FULL", "BIG"})
					inc["id"] = pick(0, 1, 2, 5, 8, 9, -1, 77, 78)
					inc["flush"] = pick(0, 0, 1, 2, 7)
				}
				ev = map[string]any{"a": "SetSessionParams", "inc": inc, "un": rng.Intn(3) == 0, "_explicit_false": rng.Intn(2)}
			case r < 54:
				ev = map[string]any{"a": "PrepareKeys", "sec": pick("s1", "s2", "s3"), "rok": rng.Intn(10) != 0}
			case r < 62:
				ev = map[string]any{"a": "GetDstPort", "seed": pick("sd1", "sd2", "sd3")}
			case r < 74:
				if len(s.conns) >= 4 {
					continue
				}
				ev = map[string]any{"a": "WrapConn", "dead": rng.Intn(7) == 0}
			case r < 88:
				if len(writable) == 0 {
					continue
				}
				ev = map[string]any{"a": "Write", "c": writable[rng.Intn(len(writable))], "n": pick(0, 1, 3, 64, 1448, 1449, 5000, 9000)}
			case r < 92:
				var cand []int
				for _, ci := range open {
					if s.conns[ci-1].np < 4 {
						cand = append(cand, ci)
					}
				}
				if len(cand) == 0 {
					continue
				}
				ev = map[string]any{"a": "PeerSend", "c": cand[rng.Intn(len(cand))], "n": pick(1, 4, 2000)}
			case r < 96:
				if len(closedOrPending) == 0 {
					continue
				}
				ev = map[string]any{"a": "Read", "c": closedOrPending[rng.Intn(len(closedOrPending))]}
			default:
				if len(open) == 0 {
					continue
				}
				ev = map[string]any{"a": "Close", "c": open[rng.Intn(len(open))]}
			}
			obs := s.step(ev)
			evs = append(evs, obs)
		}
		s.cleanup()
		if only >= 0 && tr != only {
			continue
		}
		out.Emit(map[string]any{"a": "Reset", "field": field})
		for _, e := range evs {
			out.Emit(e)
		}
	}
}

func TestVerifX08(t *testing.T) {
	ad := x08NewAdapter()
	out := vOpenOut(t)
	defer out.Close()
	if os.Getenv("VERIF_IN") != "" {
		x08Replay(t, ad, out)
	}
	if n := vEnvInt("VERIF_TRACES", 0); n > 0 {
		x08Random(t, ad, out, n)
	}
}
