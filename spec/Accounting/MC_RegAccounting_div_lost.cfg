\* MUST VIOLATE LedgerPrinted: as found a printed counter loses an update between its load and Reset() (R1)
SPECIFICATION Spec
CONSTANTS
  Regs = {"r1"}
  Srcs = {"detector", "api"}
  RFams = {"v6"}
  Gens = {"g1"}
  TTs = {"min"}
  LVs = {"l1"}
  Variant = "as_found"
  Broken = "none"
  MapWindow = TRUE
  MaxPrints = 2
  MaxFree = 0
VIEW view
CONSTRAINT Canon
INVARIANTS LedgerPrinted
CHECK_DEADLOCK FALSE
