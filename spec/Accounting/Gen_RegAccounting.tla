-------------------------- MODULE Gen_RegAccounting --------------------------
(* Behaviour generator for stage B: every path of bounded depth (hist is part of the state) / simulated long ones. *)
EXTENDS RegAccounting, Json
CONSTANTS Depth
VARIABLE hist
GenInit == Init /\ hist = <<>>
GenNext == /\ Len(hist) < Depth
           /\ Next
           /\ hist' = Append(hist, obs')
GenSpec == GenInit /\ [][GenNext]_<<vars, hist>>
Complete == Len(hist) = Depth \/ ~ENABLED Next
Emit == ~Complete \/ PrintT(ToJson(hist))
=============================================================================
