SPECIFICATION TraceSpec
CONSTANTS
  FlowInfo <- TraceFlowInfo
  Keys <- TraceKeys
  T = 30
  K = 300
  SessTimeouts = {}
  TickSteps = {}
  MaxT = 0
  MaxQ = 3
  MaxLag = 2
  StaleEvent = "kills"
  DropRemoves = TRUE
  DueCmp = "le"
  KeepLonger = TRUE
  Level = "both"
  FlagKinds = {}
  PayloadKinds = {}
  FrameKinds = {}
INVARIANTS TypeOK TrackedHasEvent QueueSorted EventHorizon PostDropWindow PostDropFresh PostDropPhantoms CountsExact PacketLaws
POSTCONDITION Post
CHECK_DEADLOCK FALSE
