SPECIFICATION Spec
CONSTANTS
  Starts = {"S", "X"}
  PDs = {"open", "drop"}
  PLs = {"open", "drop", "nobind"}
  Nats = {"icmp", "silent"}
  Dnats = {"ok"}
  Dups = {FALSE}
  Keys = {"good"}
  Prios = {"none"}
  Coord = "none"
  LeakOnRefuse = TRUE
  CancelInSctp = FALSE
  TimeoutMode = "any"
  Broken = "nodereg"
VIEW view
INVARIANTS KeyReleased

CHECK_DEADLOCK FALSE
