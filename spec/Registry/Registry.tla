------------------------------ MODULE Registry ------------------------------
(***************************************************************************)
(* The station's registration table (pkg/station/lib/registration.go,      *)
(* type RegisteredDecoys): `decoys[phantom][identifier]` and the separate   *)
(* expiry table `decoysTimeouts[key]`.  One action per locked method, i.e. *)
(* per critical section of r.m:                                            *)
(*   Track      = RegisteredDecoys.Track          (write lock)             *)
(*   Register   = RegisteredDecoys.register       (write lock; validate +  *)
(*                announce New to the detector)                            *)
(*   MarkActive = RegisteredDecoys.markActive     (write lock; announce    *)
(*                Update)                                                  *)
(*   Lookup     = getRegistrations + countRegistrations (read lock)        *)
(*   Sweep      = removeOldRegistrations run to completion by one caller   *)
(*                (collect under the read lock, one write-locked removal   *)
(*                per collected index; the interleaved version is in       *)
(*                Ingest.tla)                                              *)
(*   Tick       = time passing (driver action)                             *)
(*                                                                         *)
(* The transport identifier of a registration is HMAC(secret, transport-   *)
(* specific label): it is modelled as the pair <<transport, secret>>, so a *)
(* registration key is <<phantom, transport, secret>>.                     *)
(*                                                                         *)
(* KeyMode selects how the expiry table is keyed:                          *)
(*   "ident"  - by phantom + transport identifier (one expiry record per   *)
(*              registration; what the property needs)                     *)
(*   "secret" - by the first 16 hex digits of the secret + phantom (one    *)
(*              secret used with two transports on one phantom shares a    *)
(*              record: the pre-fix implementation, H-C08-1)               *)
(*                                                                         *)
(* Logical time: ages are small naturals; the conformance driver maps age  *)
(* a to a real duration f(a) with f(TU) < 10 min < f(TU+1) and             *)
(* f(TA) < 6 h < f(TA+1), so `age > TU` is exactly the code's              *)
(* `time.Since(registrationTime) > timeoutUnused`.                         *)
(***************************************************************************)
EXTENDS Naturals, FiniteSets, Sequences, TLC

CONSTANTS Secrets, Phantoms, Transports,  \* sets of strings
          KeyMode,                        \* "ident" | "secret"
          TU, TA, MaxAge,                 \* unused / active lifetime, age cap
          MaxCount,                       \* cap on the duplicate counter (bounding only)
          TickSteps,                      \* set of admissible time advances
          MaxTracked,                     \* state constraint: registrations tracked at once
          IndexMode,                      \* "exact": the per-phantom index (outer map of `decoys`) has an entry exactly for the phantoms that
                                          \* carry a tracked registration ("forgotten entirely");  "keep-unvalidated": the entry of a phantom
                                          \* whose last registration is removed WITHOUT ever having been validated stays behind, empty
                                          \* (a broken instance: state grows with every dropped registration)
          StaleMark,                      \* what MarkActive does with the handle of a registration that is no longer tracked (a connection
                                          \* handler looked it up, the sweeper removed it, the handler then marks it):  "ignore": nothing
                                          \* (what the property needs - an expired registration stays forgotten);  "reinsert": the handle is
                                          \* filed again as a used registration with a fresh lifetime (a broken instance)
          SweepCap                        \* 0: one sweep removes EVERY expired registration (what the property states - "after a clean-up
                                          \* sweep ... if and only if"); n > 0: a sweep stops after n removals (a broken instance)

VARIABLES reg,    \* [Keys -> {None} \cup [valid, count]]
          tmo,    \* [TKeys -> {None} \cup [k, age, used]]
          swept,  \* TRUE from the end of a sweep until time passes
          idx,    \* the phantoms the per-phantom index has an entry for
          obs     \* observation of the last action (name, arguments, result, projected state)

None == [none |-> TRUE]
Keys == Phantoms \X Transports \X Secrets
TKey(k) == IF KeyMode = "secret" THEN <<k[1], "*", k[3]>> ELSE k
TKeys == {TKey(k) : k \in Keys}

vars == <<reg, tmo, swept, idx, obs>>
view == <<reg, tmo, swept, idx>>

Expired(r) == (~r.used /\ r.age > TU) \/ r.age > TA

\* ---- projection shared with the Go driver (Appendix A of DESIGN.md) ----
RegProj(rg) == {[p |-> k[1], t |-> k[2], s |-> k[3], valid |-> rg[k].valid, count |-> rg[k].count] :
                  k \in {kk \in Keys : rg[kk] # None}}
TmoProj(tm) == {[p |-> tm[tk].k[1], t |-> tm[tk].k[2], s |-> tm[tk].k[3], age |-> tm[tk].age, used |-> tm[tk].used] :
                  tk \in {x \in TKeys : tm[x] # None}}
\* what a connection handler sees per phantom: getRegistrations (valid only) / countRegistrations
Look(rg) == [p \in Phantoms |->
               [found |-> {[t |-> k[2], s |-> k[3]] : k \in {kk \in Keys : kk[1] = p /\ rg[kk] # None /\ rg[kk].valid}},
                count |-> Cardinality({kk \in Keys : kk[1] = p /\ rg[kk] # None})]]
Proj(rg, tm, ix) == [reg |-> RegProj(rg), tmo |-> TmoProj(tm), look |-> Look(rg), idx |-> ix]

Init == /\ reg = [k \in Keys |-> None]
        /\ tmo = [tk \in TKeys |-> None]
        /\ swept = TRUE /\ idx = {}
        /\ obs = [a |-> "Init"]

Inc(c) == IF c < MaxCount THEN c + 1 ELSE c

\* r.track(d): count a duplicate, or insert (not valid, seen once) + fresh expiry record
TrackEffect(k, rg, tm) ==
  IF rg[k] # None
    THEN <<[rg EXCEPT ![k].count = Inc(@)], tm>>
    ELSE <<[rg EXCEPT ![k] = [valid |-> FALSE, count |-> 1]],
           [tm EXCEPT ![TKey(k)] = [k |-> k, age |-> 0, used |-> FALSE]]>>

Track(k) ==
  LET e == TrackEffect(k, reg, tmo) IN
  /\ reg' = e[1] /\ tmo' = e[2] /\ idx' = idx \cup {k[1]}
  /\ UNCHANGED swept
  /\ obs' = [a |-> "Track", p |-> k[1], t |-> k[2], s |-> k[3], st |-> Proj(e[1], e[2], idx')]

\* r.register(addr, d): track if unknown; first validation announces New exactly once
Register(k) ==
  LET e == IF reg[k] = None THEN TrackEffect(k, reg, tmo) ELSE <<reg, tmo>>
      announce == ~e[1][k].valid
      rg2 == [e[1] EXCEPT ![k].valid = TRUE] IN
  /\ reg' = rg2 /\ tmo' = e[2] /\ idx' = idx \cup {k[1]}
  /\ UNCHANGED swept
  /\ obs' = [a |-> "Register", p |-> k[1], t |-> k[2], s |-> k[3],
             announced |-> announce, st |-> Proj(rg2, e[2], idx')]

\* r.markActive(d): the expiry record found under d's key becomes "used"; announce Update.  d is a HANDLE the connection
\* handler got from a lookup: the registration may have been removed since (stale) - then nothing is found and nothing changes.
MarkActive(k) ==
  LET stale == reg[k] = None
      hit == tmo[TKey(k)] # None
      re == stale /\ ~hit /\ StaleMark = "reinsert"
      tm2 == IF hit THEN [tmo EXCEPT ![TKey(k)].used = TRUE]
             ELSE IF re THEN [tmo EXCEPT ![TKey(k)] = [k |-> k, age |-> 0, used |-> TRUE]] ELSE tmo
      rg2 == IF re THEN [reg EXCEPT ![k] = [valid |-> TRUE, count |-> 1]] ELSE reg
      ix2 == IF re THEN idx \cup {k[1]} ELSE idx IN
  /\ tmo' = tm2 /\ reg' = rg2 /\ idx' = ix2
  /\ UNCHANGED swept
  /\ obs' = [a |-> "MarkActive", p |-> k[1], t |-> k[2], s |-> k[3], stale |-> stale,
             announced |-> (hit \/ re), st |-> Proj(rg2, tm2, ix2)]

\* getRegistrations(p) (only valid ones) and countRegistrations(p) (all tracked)
Lookup(p) ==
  /\ UNCHANGED <<reg, tmo, swept, idx>>
  /\ obs' = [a |-> "Lookup", p |-> p,
             found |-> {[t |-> k[2], s |-> k[3]] : k \in {kk \in Keys : kk[1] = p /\ reg[kk] # None /\ reg[kk].valid}},
             count |-> Cardinality({kk \in Keys : kk[1] = p /\ reg[kk] # None}),
             st |-> Proj(reg, tmo, idx)]

Tick(d) ==
  /\ d \in TickSteps
  /\ tmo' = [tk \in TKeys |-> IF tmo[tk] = None THEN None
                               ELSE [tmo[tk] EXCEPT !.age = IF @ + d > MaxAge THEN MaxAge ELSE @ + d]]
  /\ swept' = FALSE
  /\ UNCHANGED <<reg, idx>>
  /\ obs' = [a |-> "Tick", d |-> d, st |-> Proj(reg, tmo', idx)]

\* removeOldRegistrations: every expired expiry record whose registration object still exists is
\* removed together with the object; a record whose object vanished is left behind (removeRegistration
\* returns nil before deleting anything).
StillOn(p, rg) == \E k \in Keys : k[1] = p /\ rg[k] # None
LeftBehind(p, gone) == /\ IndexMode = "keep-unvalidated"
                       /\ \E k \in gone : k[1] = p
                       /\ \A k \in gone : (k[1] = p) => ~reg[k].valid
Sweep ==
  LET ex == {tk \in TKeys : tmo[tk] # None /\ Expired(tmo[tk])}
      rmAll == {tk \in ex : reg[tmo[tk].k] # None}
      rm == IF SweepCap = 0 \/ Cardinality(rmAll) <= SweepCap THEN rmAll
            ELSE CHOOSE S \in SUBSET rmAll : Cardinality(S) = SweepCap
      gone == {tmo[tk].k : tk \in rm} IN
  /\ tmo' = [tk \in TKeys |-> IF tk \in rm THEN None ELSE tmo[tk]]
  /\ reg' = [k \in Keys |-> IF k \in gone THEN None ELSE reg[k]]
  /\ swept' = TRUE
  \* removeRegistration drops the phantom's entry of the index together with the last registration on it
  /\ idx' = {p \in idx : StillOn(p, reg') \/ LeftBehind(p, gone)}
  /\ obs' = [a |-> "Sweep", expired |-> Cardinality(ex),
             validExpired |-> Cardinality({tk \in rm : reg[tmo[tk].k].valid}),
             st |-> Proj(reg', tmo', idx')]

NextNoLookup == \/ \E k \in Keys : Track(k) \/ Register(k) \/ MarkActive(k)
                \/ \E d \in TickSteps : Tick(d)
                \/ Sweep

Next == \/ \E k \in Keys : Track(k) \/ Register(k) \/ MarkActive(k)
        \/ \E p \in Phantoms : Lookup(p)
        \/ \E d \in TickSteps : Tick(d)
        \/ Sweep

Spec == Init /\ [][Next]_vars

\* ------------------------------ properties ------------------------------
TypeOK == /\ \A k \in Keys : reg[k] = None \/ (reg[k].valid \in BOOLEAN /\ reg[k].count \in 1..MaxCount)
          /\ \A tk \in TKeys : tmo[tk] = None \/ (tmo[tk].k \in Keys /\ tmo[tk].age \in 0..MaxAge /\ tmo[tk].used \in BOOLEAN)

\* every tracked registration has its own expiry record and vice versa ("tracked state is bounded",
\* "forgotten entirely")
OneRecordPerRegistration ==
  /\ \A k \in Keys : reg[k] # None => (tmo[TKey(k)] # None /\ tmo[TKey(k)].k = k)
  /\ \A tk \in TKeys : tmo[tk] # None => reg[tmo[tk].k] # None

\* "forgotten entirely": the per-phantom index names exactly the phantoms that carry a tracked registration
IndexExact == idx = {p \in Phantoms : \E k \in Keys : k[1] = p /\ reg[k] # None}

\* after a completed sweep: tracked <=> younger than the lifetime that applies
PostSweepExact ==
  swept => \A k \in Keys : reg[k] # None => (tmo[TKey(k)] # None /\ tmo[TKey(k)].k = k /\ ~Expired(tmo[TKey(k)]))

\* after a completed sweep no expired registration can be matched by a connection
ExpiredNeverMatchesAfterSweep ==
  swept => \A k \in Keys : (reg[k] # None /\ reg[k].valid) => (tmo[TKey(k)] # None /\ ~Expired(tmo[TKey(k)]))

\* never early: a registration disappears only in a sweep and only when its own record is expired
NeverRemovedEarly ==
  [][\A k \in Keys : (reg[k] # None /\ reg'[k] = None) =>
        (tmo[TKey(k)] # None /\ tmo[TKey(k)].k = k /\ Expired(tmo[TKey(k)]))]_vars

\* a registration enters the table only through ingest (Track / Register of that very registration): in particular one that
\* expired and was swept stays forgotten whatever a connection handler still holding its handle does
OnlyIngestAdds ==
  [][\A k \in Keys : (reg[k] = None /\ reg'[k] # None) =>
        (obs'.a \in {"Track", "Register"} /\ <<obs'.p, obs'.t, obs'.s>> = k)]_vars

\* a registration is announced as New exactly when it turns valid; valid never reverts while tracked
ValidMonotone ==
  [][\A k \in Keys : (reg[k] # None /\ reg[k].valid /\ reg'[k] # None) => reg'[k].valid]_vars

\* state constraint used by the bounded configurations
Bounded == Cardinality({k \in Keys : reg[k] # None}) <= MaxTracked
=============================================================================
