SPECIFICATION Spec
CONSTANT MatchMode = "search"
CONSTANT PubMode = "all"
CONSTANT StoreLiteral = FALSE
INVARIANTS DialedIsChecked CheckedIsPermitted ResolvedOnce PermittedLiteralAccepted MalformedRejected
CHECK_DEADLOCK FALSE
