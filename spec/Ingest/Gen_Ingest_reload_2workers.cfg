SPECIFICATION GenSpec
CONSTANTS
  Scenario = "reload_2workers"
  Protocol = "atomic"
  SweepRecheck = TRUE
  ShareEnabled = TRUE
  ShareMode = "detached"
  ReloadProtocol = "snapshot"
INVARIANT Emit
CHECK_DEADLOCK FALSE
