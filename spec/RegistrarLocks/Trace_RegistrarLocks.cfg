SPECIFICATION TraceSpec
CONSTANTS
  ReqV4 = {"f1"}
  ReqV6 = {"s1"}
  ReqDual = {"d1", "d2"}
  Reloads = {"m1", "m2", "m3"}
  ToB = {"m1", "m3"}
  Protocol = "single"
VIEW TraceView
INVARIANTS WholeGeneration LockBalance MutualExclusion
POSTCONDITION Post
CHECK_DEADLOCK FALSE
