SPECIFICATION Spec
CONSTANTS
  Ups = {"c1"}
  BadUps = {}
  MaxSend = 2
  ChanCap = 1
  MaxEpochs = 1
  AuthEnforced = TRUE
  StatsMode = "loadstore"
  ShutdownMode = "observed"
VIEW view
INVARIANTS TypeOK NoLostCount
CHECK_DEADLOCK FALSE
