------------------------------ MODULE DnsTunnel ------------------------------
(***************************************************************************)
(* The DNS registration channel beyond its codecs                           *)
(* (pkg/registrars/dns-registrar: requester/requester.go, requester/dns.go, *)
(* responder/responder.go).  Sibling modules in this directory model the    *)
(* two small objects the channel is built from: QueueConn.tla               *)
(* (queuepacketconn.QueuePacketConn) and RemoteMap.tla (remotemap).         *)
(*                                                                         *)
(* Parties: clients (one requester.Requester each, used sequentially as the *)
(* registrar does), an outside host "x" that sends junk / replayed queries, *)
(* the network (two bags of UDP datagrams; it may delay, reorder, drop,     *)
(* duplicate and re-address datagrams) and one responder.Responder.         *)
(*                                                                         *)
(* One action per API call / program point of the real code:                *)
(*   Request(c)     Requester.RequestAndRecv up to the blocking ReadFrom:   *)
(*                  sendHandshake (fresh Noise-N ephemeral key, payload in  *)
(*                  the one handshake message) -> WriteTo -> sendLoop ->    *)
(*                  one DNS query on the wire                               *)
(*   Return(c)      RequestAndRecv from the ReadFrom on: the FIRST packet   *)
(*                  in the requester's receive queue decides the call:      *)
(*                  RemoveResponseFormat + recvCipher.Decrypt -> bytes or   *)
(*                  error (requester.go:223-244)                            *)
(*   Close(c)       Requester.Close (QueuePacketConn.Close): a blocked      *)
(*                  RequestAndRecv returns an error                         *)
(*   RequestClosed  RequestAndRecv on a closed requester: error, no query   *)
(*   DeliverQ(d)    Responder.RecvAndRespond: ReadFrom returned d and the   *)
(*                  per-query goroutine ran up to its first blocking point  *)
(*                  (responseFor, RemoveRequestFormat, Noise ReadMessage):  *)
(*                  callback / WriteTo / finished without a response        *)
(*   Process(h)     craftResponse: processMsg(payload) + Encrypt            *)
(*   Send(h)        transport.WriteTo(response, addr)                       *)
(*   DeliverR(d)    requester recvLoop: transport.Read, dnsResponsePayload, *)
(*                  QueueIncoming (an error-rcode response is queued as an  *)
(*                  EMPTY packet: requester/dns.go:117-119)                 *)
(*   Junk(k)        "x" sends a query of class k                            *)
(*   DropQ/DupQ/ReplayQ/DropR/DupR  network faults (budgeted)               *)
(*                                                                         *)
(* The responder handles queries CONCURRENTLY (one goroutine per datagram,  *)
(* responder.go:203), hence handlers are a set with a pc.                   *)
(*                                                                         *)
(* Noise: every request uses a fresh ephemeral key, so a response can be    *)
(* decrypted only with the cipher state of the request it answers.  A key   *)
(* is modelled as the request's identity [c, n]; KeyCheck = FALSE is the    *)
(* deliberately broken instance (a client that accepts whatever arrives).   *)
(*                                                                         *)
(* Variants (CONSTANTS):                                                    *)
(*   StaleMode = "fail"  AS FOUND: the first packet read decides the call;  *)
(*                       an undecryptable (stale / duplicated / foreign)    *)
(*                       response makes the CURRENT request fail            *)
(*             = "skip"  INTENDED: undecryptable packets are skipped and    *)
(*                       the call keeps waiting for its own response        *)
(*   Timeout   = FALSE   AS FOUND: RequestAndRecv has no deadline and       *)
(*                       ignores any context: a lost datagram blocks it     *)
(*                       until Close                                        *)
(*             = TRUE    INTENDED: the call gives up with a timeout error   *)
(***************************************************************************)
EXTENDS Naturals, FiniteSets, Sequences, Bags, TLC

CONSTANTS Clients,     \* set of strings
          MaxReq,      \* RequestAndRecv calls per client
          JunkKinds,   \* classes of queries "x" may send
          MaxJunk, MaxDup, MaxDrop, MaxClose,   \* budgets
          Faults,      \* which network faults are explored: subset of {"DropQ", "DupQ", "ReplayQ", "DropR", "DupR"}
          StaleMode,   \* "fail" | "skip"
          KeyCheck,    \* TRUE; FALSE = broken instance
          Timeout      \* FALSE | TRUE

\* Datagrams carry no model identifier: copies of one datagram are indistinguishable on the wire, so the network and the
\* responder's goroutines are BAGS of records (a datagram is named by its content in every action and observation).
VARIABLES qnet,    \* bag of query datagrams in flight  [src, kind, key]
          hs,      \* bag of responder goroutines in progress [src, kind, key, pc]
          rnet,    \* bag of response datagrams in flight [dst, rc, key]
          cq,      \* per client: the requester's receive queue, Seq([rc, key])
          cpc,     \* per client: "idle" | "wait" | "closed"
          cn,      \* per client: requests issued
          cres,    \* per client: results, one per finished request [r, key]
          jk,      \* classes of the junk queries sent so far (junk query j has key [c |-> "x", n |-> j])
          ncalls,  \* per key: callback invocations
          ndeliv,  \* per key: query copies the responder received
          nresp,   \* per key: responses the responder sent
          ndup, ndrop, nclose,
          obs

X == "x"
K(c, n) == [c |-> c, n |-> n]
NoKey == K("-", 0)
Srcs == Clients \cup {X}
KeyN == 1..(IF MaxReq > MaxJunk THEN MaxReq ELSE MaxJunk)
AllKeys == {K(c, n) : c \in Srcs, n \in KeyN}

\* query classes and what the responder does with them (responder.go:59-184, 203-257)
CbKinds == {"good", "cberr"}          \* reach the callback; "cberr": the callback returns an error -> no response
ErrRC == [garbage |-> "FORMERR",      \* unparseable datagram: parse error only logged, the zero/partial message is answered
          foreign |-> "NXDOMAIN",     \* not our domain
          nontxt  |-> "NXDOMAIN_AA",  \* our domain, QTYPE != TXT
          badb32  |-> "NXDOMAIN_AA",  \* our domain, labels are not base32
          noedns  |-> "FORMERR_AA"]   \* our domain, no OPT RR (payload size < 1232)
ErrKinds == DOMAIN ErrRC
NoneKinds == {"isresp",               \* QR = 1: ignored silently
              "badframe",             \* length prefix exceeds the decoded name: logged, no response
              "badnoise"}             \* Noise ReadMessage fails: logged, no response
AllKinds == CbKinds \cup ErrKinds \cup NoneKinds
RC(k) == IF k = "good" THEN "NOERROR" ELSE ErrRC[k]
Expected(k) == IF k = "good" \/ k \in ErrKinds THEN 1 ELSE 0
KindOf(k) == IF k.c \in Clients THEN "good" ELSE jk[k.n]

vars == <<qnet, hs, rnet, cq, cpc, cn, cres, jk, ncalls, ndeliv, nresp, ndup, ndrop, nclose, obs>>
view == <<qnet, hs, rnet, cq, cpc, cn, cres, jk, ncalls, ndeliv, nresp, ndup, ndrop, nclose>>

One(e) == SetToBag({e})
RECURSIVE SumF(_, _)
SumF(f, S) == IF S = {} THEN 0 ELSE LET x == CHOOSE y \in S : TRUE IN f[x] + SumF(f, S \ {x})
CountPc(h, pc) == LET S == {x \in BagToSet(h) : x.pc = pc} IN SumF([x \in S |-> CopiesIn(x, h)], S)

\* projection shared with the Go driver: what the relay / the gates can see
Proj(q, h, r, nc) == [q |-> BagCardinality(q), r |-> BagCardinality(r),
                      cb |-> CountPc(h, "cb"), snd |-> CountPc(h, "send"),
                      calls |-> SumF(nc, AllKeys)]

Init == /\ qnet = EmptyBag /\ hs = EmptyBag /\ rnet = EmptyBag
        /\ cq = [c \in Clients |-> <<>>] /\ cpc = [c \in Clients |-> "idle"]
        /\ cn = [c \in Clients |-> 0] /\ cres = [c \in Clients |-> <<>>]
        /\ jk = <<>>
        /\ ncalls = [k \in AllKeys |-> 0] /\ ndeliv = [k \in AllKeys |-> 0] /\ nresp = [k \in AllKeys |-> 0]
        /\ ndup = 0 /\ ndrop = 0 /\ nclose = 0
        /\ obs = [a |-> "Init"]

\* ------------------------------- clients --------------------------------
Request(c) ==
  /\ cpc[c] = "idle" /\ cn[c] < MaxReq
  /\ LET n == cn[c] + 1
         q2 == qnet (+) One([src |-> c, kind |-> "good", key |-> K(c, n)]) IN
     /\ qnet' = q2
     /\ cn' = [cn EXCEPT ![c] = n] /\ cpc' = [cpc EXCEPT ![c] = "wait"]
     /\ obs' = [a |-> "Request", c |-> c, n |-> n, st |-> Proj(q2, hs, rnet, ncalls)]
  /\ UNCHANGED <<hs, rnet, cq, cres, jk, ncalls, ndeliv, nresp, ndup, ndrop, nclose>>

Own(c, h) == h.rc = "NOERROR" /\ (h.key = K(c, cn[c]) \/ ~KeyCheck)

\* the first queued packet decides the call (as found) / undecryptable packets are skipped (intended)
Return(c) ==
  /\ cpc[c] = "wait" /\ cq[c] # <<>>
  /\ LET h == Head(cq[c]) IN
     /\ cq' = [cq EXCEPT ![c] = Tail(@)]
     /\ IF Own(c, h)
          THEN /\ cres' = [cres EXCEPT ![c] = Append(@, [r |-> "ok", key |-> h.key])]
               /\ cpc' = [cpc EXCEPT ![c] = "idle"]
               /\ obs' = [a |-> "Return", c |-> c, n |-> cn[c], r |-> "ok", body |-> h.key]
          ELSE IF StaleMode = "fail"
          THEN /\ cres' = [cres EXCEPT ![c] = Append(@, [r |-> "err", key |-> NoKey])]
               /\ cpc' = [cpc EXCEPT ![c] = "idle"]
               /\ obs' = [a |-> "Return", c |-> c, n |-> cn[c], r |-> "err", body |-> NoKey]
          ELSE /\ UNCHANGED <<cres, cpc>>
               /\ obs' = [a |-> "Skip", c |-> c, n |-> cn[c]]
  /\ UNCHANGED <<qnet, hs, rnet, cn, jk, ncalls, ndeliv, nresp, ndup, ndrop, nclose>>

\* intended only: the call gives up
TimeoutRet(c) ==
  /\ Timeout /\ cpc[c] = "wait" /\ cq[c] = <<>>
  /\ cres' = [cres EXCEPT ![c] = Append(@, [r |-> "timeout", key |-> NoKey])]
  /\ cpc' = [cpc EXCEPT ![c] = "idle"]
  /\ obs' = [a |-> "TimeoutRet", c |-> c, n |-> cn[c]]
  /\ UNCHANGED <<qnet, hs, rnet, cq, cn, jk, ncalls, ndeliv, nresp, ndup, ndrop, nclose>>

\* Requester.Close.  A waiting call whose queue is non-empty has in reality already returned (Return is only
\* reported later), so Close is not offered then.  Close before the first request is not modelled (r.transport is nil).
Close(c) ==
  /\ nclose < MaxClose /\ cn[c] >= 1 /\ cpc[c] \in {"idle", "wait"}
  /\ ~(cpc[c] = "wait" /\ cq[c] # <<>>)
  /\ nclose' = nclose + 1
  /\ cpc' = [cpc EXCEPT ![c] = "closed"]
  /\ cq' = [cq EXCEPT ![c] = <<>>]
  /\ cres' = IF cpc[c] = "wait" THEN [cres EXCEPT ![c] = Append(@, [r |-> "closed", key |-> NoKey])] ELSE cres
  /\ obs' = [a |-> "Close", c |-> c, unblocked |-> (cpc[c] = "wait")]
  /\ UNCHANGED <<qnet, hs, rnet, cn, jk, ncalls, ndeliv, nresp, ndup, ndrop>>

RequestClosed(c) ==
  /\ cpc[c] = "closed" /\ cn[c] < MaxReq
  /\ cn' = [cn EXCEPT ![c] = @ + 1]
  /\ cres' = [cres EXCEPT ![c] = Append(@, [r |-> "closed", key |-> NoKey])]
  /\ obs' = [a |-> "RequestClosed", c |-> c, n |-> cn[c] + 1, r |-> "closed", st |-> Proj(qnet, hs, rnet, ncalls)]
  /\ UNCHANGED <<qnet, hs, rnet, cq, cpc, jk, ncalls, ndeliv, nresp, ndup, ndrop, nclose>>

\* ------------------------------- outside host ----------------------------
Junk(k) ==
  /\ k \in JunkKinds /\ Len(jk) < MaxJunk
  /\ jk' = Append(jk, k)
  /\ qnet' = qnet (+) One([src |-> X, kind |-> k, key |-> K(X, Len(jk) + 1)])
  /\ obs' = [a |-> "Junk", kind |-> k, key |-> K(X, Len(jk) + 1)]
  /\ UNCHANGED <<hs, rnet, cq, cpc, cn, cres, ncalls, ndeliv, nresp, ndup, ndrop, nclose>>

\* ------------------------------- responder -------------------------------
DeliverQ(d) ==
  /\ BagIn(d, qnet)
  /\ LET next == IF d.kind \in CbKinds THEN "cb" ELSE IF d.kind \in ErrKinds THEN "send" ELSE "none"
         q2 == qnet (-) One(d)
         h2 == IF next = "none" THEN hs ELSE hs (+) One([src |-> d.src, kind |-> d.kind, key |-> d.key, pc |-> next]) IN
     /\ qnet' = q2 /\ hs' = h2
     /\ ndeliv' = [ndeliv EXCEPT ![d.key] = @ + 1]
     /\ obs' = [a |-> "DeliverQ", src |-> d.src, kind |-> d.kind, key |-> d.key, next |-> next, st |-> Proj(q2, h2, rnet, ncalls)]
  /\ UNCHANGED <<rnet, cq, cpc, cn, cres, jk, ncalls, nresp, ndup, ndrop, nclose>>

Process(h) ==
  /\ BagIn(h, hs) /\ h.pc = "cb"
  /\ LET nc2 == [ncalls EXCEPT ![h.key] = @ + 1]
         next == IF h.kind = "cberr" THEN "none" ELSE "send"
         h2 == IF next = "none" THEN hs (-) One(h) ELSE (hs (-) One(h)) (+) One([h EXCEPT !.pc = "send"]) IN
     /\ ncalls' = nc2 /\ hs' = h2
     /\ obs' = [a |-> "Process", src |-> h.src, kind |-> h.kind, key |-> h.key, saw |-> h.key, next |-> next,
                st |-> Proj(qnet, h2, rnet, nc2)]
  /\ UNCHANGED <<qnet, rnet, cq, cpc, cn, cres, jk, ndeliv, nresp, ndup, ndrop, nclose>>

Send(h) ==
  /\ BagIn(h, hs) /\ h.pc = "send"
  /\ LET r2 == rnet (+) One([dst |-> h.src, rc |-> RC(h.kind), key |-> h.key])
         h2 == hs (-) One(h) IN
     /\ rnet' = r2 /\ hs' = h2
     /\ nresp' = [nresp EXCEPT ![h.key] = @ + 1]
     /\ obs' = [a |-> "Send", src |-> h.src, kind |-> h.kind, key |-> h.key, dst |-> h.src, rc |-> RC(h.kind),
                st |-> Proj(qnet, h2, r2, ncalls)]
  /\ UNCHANGED <<qnet, cq, cpc, cn, cres, jk, ncalls, ndeliv, ndup, ndrop, nclose>>

\* ------------------------------- network ---------------------------------
DropQ(d) ==
  /\ "DropQ" \in Faults
  /\ BagIn(d, qnet) /\ ndrop < MaxDrop
  /\ ndrop' = ndrop + 1 /\ qnet' = qnet (-) One(d)
  /\ obs' = [a |-> "DropQ", src |-> d.src, kind |-> d.kind, key |-> d.key]
  /\ UNCHANGED <<hs, rnet, cq, cpc, cn, cres, jk, ncalls, ndeliv, nresp, ndup, nclose>>

DupQ(d) ==
  /\ "DupQ" \in Faults
  /\ BagIn(d, qnet) /\ ndup < MaxDup
  /\ ndup' = ndup + 1
  /\ qnet' = qnet (+) One(d)
  /\ obs' = [a |-> "DupQ", src |-> d.src, kind |-> d.kind, key |-> d.key]
  /\ UNCHANGED <<hs, rnet, cq, cpc, cn, cres, jk, ncalls, ndeliv, nresp, ndrop, nclose>>

\* "x" captured a client's query and sends a copy from its own address
ReplayQ(d) ==
  /\ "ReplayQ" \in Faults
  /\ BagIn(d, qnet) /\ d.src \in Clients /\ ndup < MaxDup
  /\ ndup' = ndup + 1
  /\ qnet' = qnet (+) One([d EXCEPT !.src = X])
  /\ obs' = [a |-> "ReplayQ", src |-> d.src, kind |-> d.kind, key |-> d.key]
  /\ UNCHANGED <<hs, rnet, cq, cpc, cn, cres, jk, ncalls, ndeliv, nresp, ndrop, nclose>>

DeliverR(d) ==
  /\ BagIn(d, rnet)
  /\ rnet' = rnet (-) One(d)
  \* a requester dials its transport in its first RequestAndRecv: before that nothing listens; after Close the queue drops
  /\ cq' = IF d.dst \in Clients /\ cn[d.dst] > 0 /\ cpc[d.dst] # "closed"
             THEN [cq EXCEPT ![d.dst] = Append(@, [rc |-> d.rc, key |-> d.key])] ELSE cq
  /\ obs' = [a |-> "DeliverR", dst |-> d.dst, rc |-> d.rc, key |-> d.key]
  /\ UNCHANGED <<qnet, hs, cpc, cn, cres, jk, ncalls, ndeliv, nresp, ndup, ndrop, nclose>>

DropR(d) ==
  /\ "DropR" \in Faults
  /\ BagIn(d, rnet) /\ ndrop < MaxDrop
  /\ ndrop' = ndrop + 1 /\ rnet' = rnet (-) One(d)
  /\ obs' = [a |-> "DropR", dst |-> d.dst, rc |-> d.rc, key |-> d.key]
  /\ UNCHANGED <<qnet, hs, cq, cpc, cn, cres, jk, ncalls, ndeliv, nresp, ndup, nclose>>

\* duplicate a response, possibly re-addressed to another client
DupR(d, c) ==
  /\ "DupR" \in Faults
  /\ BagIn(d, rnet) /\ c \in Clients /\ ndup < MaxDup
  /\ ndup' = ndup + 1
  /\ rnet' = rnet (+) One([d EXCEPT !.dst = c])
  /\ obs' = [a |-> "DupR", dst |-> d.dst, rc |-> d.rc, key |-> d.key, to |-> c]
  /\ UNCHANGED <<qnet, hs, cq, cpc, cn, cres, jk, ncalls, ndeliv, nresp, ndrop, nclose>>

ClientStep(c) == Return(c) \/ TimeoutRet(c)
ServerStep == (\E d \in BagToSet(qnet) : DeliverQ(d)) \/ (\E h \in BagToSet(hs) : Process(h) \/ Send(h))
NetStep == \E d \in BagToSet(rnet) : DeliverR(d)

Next == \/ \E c \in Clients : Request(c) \/ ClientStep(c) \/ Close(c) \/ RequestClosed(c)
        \/ \E k \in JunkKinds : Junk(k)
        \/ ServerStep \/ NetStep
        \/ \E d \in BagToSet(qnet) : DropQ(d) \/ DupQ(d) \/ ReplayQ(d)
        \/ \E d \in BagToSet(rnet) : DropR(d) \/ (\E c \in Clients : DupR(d, c))

Spec == Init /\ [][Next]_vars
\* fairness of everything that is not a fault or an environment choice
LiveSpec == Spec /\ WF_vars(ServerStep) /\ WF_vars(NetStep) /\ \A c \in Clients : WF_vars(ClientStep(c))

\* nothing left to do (used by the behaviour generator to emit behaviours that end early)
Terminal == /\ qnet = EmptyBag /\ hs = EmptyBag /\ rnet = EmptyBag
            /\ \A c \in Clients : /\ ~(cpc[c] = "wait" /\ cq[c] # <<>>)
                                  /\ (cpc[c] = "wait" \/ cn[c] = MaxReq)
            /\ (Len(jk) = MaxJunk \/ JunkKinds = {})

\* ------------------------------ properties ------------------------------
TypeOK == /\ \A d \in BagToSet(qnet) : d.src \in Srcs /\ d.kind \in AllKinds /\ d.key \in AllKeys
          /\ \A h \in BagToSet(hs) : h.pc \in {"cb", "send"} /\ (h.pc = "cb" => h.kind \in CbKinds)
          /\ \A d \in BagToSet(rnet) : d.dst \in Srcs /\ d.key \in AllKeys
          /\ \A c \in Clients : cpc[c] \in {"idle", "wait", "closed"} /\ cn[c] \in 0..MaxReq

\* every response a client accepts is the response to ITS OWN request: request i of client c
\* returns bytes only if they are the callback's answer to request i of client c
NoCrossTalk == \A c \in Clients : \A i \in DOMAIN cres[c] : cres[c][i].r = "ok" => cres[c][i].key = K(c, i)

\* one result per request, in order
ResultsInOrder == \A c \in Clients : Len(cres[c]) = cn[c] - (IF cpc[c] = "wait" THEN 1 ELSE 0)

\* an accepted response was produced by the callback for exactly that request
OkImpliesProcessed == \A c \in Clients : \A i \in DOMAIN cres[c] : cres[c][i].r = "ok" => ncalls[K(c, i)] >= 1

\* the callback runs at most once per query copy received, and only for queries that carry a valid Noise message
CallbackBound == \A k \in AllKeys : /\ ncalls[k] <= ndeliv[k]
                                    /\ (ncalls[k] > 0 => KindOf(k) \in CbKinds)

\* the responder answers every query copy exactly as often as its class demands (once / never): per key,
\* responses sent = (copies received - copies still being handled) * expected
InProgress(k) == LET S == {h \in BagToSet(hs) : h.key = k} IN SumF([h \in S |-> CopiesIn(h, hs)], S)
AnsweredOnce == \A k \in AllKeys : ndeliv[k] > 0 => nresp[k] = (ndeliv[k] - InProgress(k)) * Expected(KindOf(k))

\* responses in flight are accounted for: never more copies on the wire than sent + duplicated
ResponsesAccounted == BagCardinality(rnet) <= SumF(nresp, AllKeys) + ndup

\* as found: a request fails with an error only when the network duplicated something
ErrNeedsDup == (\E c \in Clients : \E i \in DOMAIN cres[c] : cres[c][i].r = "err") => ndup > 0

\* INTENDED (StaleMode = "skip"): stale / duplicated / foreign responses never fail a request
NoSpuriousFailure == \A c \in Clients : \A i \in DOMAIN cres[c] : cres[c][i].r # "err"

\* INTENDED (Timeout = TRUE): no call blocks for good
Terminates == \A c \in Clients : (cpc[c] = "wait") ~> (cpc[c] # "wait")
=============================================================================
