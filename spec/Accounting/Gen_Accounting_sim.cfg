SPECIFICATION GenSpec
CONSTANTS
  Conns = {"c1", "c2", "c3"}
  Kons = {"k1", "k2"}
  Asns = {"a1", "a2"}
  CCs = {"", "US"}
  Variant = "as_found"
  Broken = "none"
  MaxLoops = 2
  MaxPrints = 4
  MaxAuth = 2
  Depth = 40
CONSTRAINT Canon
INVARIANT Emit
CHECK_DEADLOCK FALSE
