------------------------------ MODULE RemoteMap ------------------------------
(***************************************************************************)
(* pkg/registrars/dns-registrar/remotemap/remotemap.go: a map from peer     *)
(* address to a send queue, with idle peers expired by a periodic sweep.    *)
(* The backing store is a binary heap (container/heap) ordered by last-seen *)
(* time plus an index map; the heap array is modelled literally (Push = up, *)
(* Fix = down-or-up, Pop = swap with the last, down, cut), so the           *)
(* conformance driver can compare the real byAge slice slot by slot.        *)
(*                                                                         *)
(*   Lookup(a)  RemoteMap.GetChan / Chan (lock; inner.Lookup(addr, now)):   *)
(*              existing record: refresh LastSeen, heap.Fix; else create a  *)
(*              record with a fresh channel, heap.Push.  Returns the        *)
(*              channel and whether it is new.                              *)
(*   Expire     the sweeper's critical section (lock; removeExpired(now,     *)
(*              timeout)): pops the root while now - LastSeen >= timeout    *)
(*              and closes the popped record's channel.                     *)
(*   Tick(d)    time passes.                                                *)
(*                                                                         *)
(* LastSeen comes from time.Now(), which is strictly increasing between     *)
(* calls, so the heap order is the order of each record's latest Lookup:    *)
(* `seq` (a logical clock) orders records, `t` (model time) ages them.      *)
(*                                                                         *)
(* FixOnRefresh: TRUE as in the code; FALSE is the deliberately broken       *)
(* instance (a refreshed record is not re-heapified: the heap order breaks  *)
(* and a sweep stops at a fresh root although older records lie below it).  *)
(***************************************************************************)
EXTENDS Naturals, FiniteSets, Sequences, TLC

CONSTANTS Addrs,       \* set of strings
          T,           \* timeout
          MaxTime, TickSteps,
          MaxClk,      \* state constraint: number of Lookups
          FixOnRefresh \* TRUE | FALSE

VARIABLES heap,      \* Seq([addr, t, seq, ch])  -- inner.byAge
          now, clk, nch,
          closedCh,  \* channels closed by expiry
          swept,     \* TRUE from a sweep until time passes
          obs

vars == <<heap, now, clk, nch, closedCh, swept, obs>>
view == <<heap, now, clk, nch, closedCh, swept>>

Less(h, i, j) == h[i].seq < h[j].seq           \* LastSeen.Before
Swap(h, i, j) == [h EXCEPT ![i] = h[j], ![j] = h[i]]

\* container/heap.up / down, 1-based
RECURSIVE Up(_, _)
Up(h, j) == IF j = 1 THEN h
            ELSE LET i == j \div 2 IN IF ~Less(h, j, i) THEN h ELSE Up(Swap(h, i, j), i)
RECURSIVE Down(_, _, _)
Down(h, i, n) == LET l == 2 * i IN
                 IF l > n THEN <<h, i>>
                 ELSE LET r == l + 1
                          j == IF r <= n /\ Less(h, r, l) THEN r ELSE l IN
                      IF ~Less(h, j, i) THEN <<h, i>> ELSE Down(Swap(h, i, j), j, n)
Fix(h, i) == LET d == Down(h, i, Len(h)) IN IF d[2] > i THEN d[1] ELSE Up(h, i)
Push(h, x) == Up(Append(h, x), Len(h) + 1)
\* heap.Pop: swap root and last, sift the new root down within the first n-1, cut the last
PopRoot(h) == LET n == Len(h) IN SubSeq(Down(Swap(h, 1, n), 1, n - 1)[1], 1, n - 1)

Idx(h, a) == {i \in DOMAIN h : h[i].addr = a}
Proj(h, t, cl) == [heap |-> {[i |-> i, addr |-> h[i].addr, age |-> t - h[i].t, ch |-> h[i].ch] : i \in DOMAIN h},
                   closed |-> cl]

Init == /\ heap = <<>> /\ now = 0 /\ clk = 0 /\ nch = 0 /\ closedCh = {} /\ swept = TRUE
        /\ obs = [a |-> "Init"]

Lookup(a) ==
  /\ clk' = clk + 1
  /\ IF Idx(heap, a) # {}
       THEN LET i == CHOOSE x \in Idx(heap, a) : TRUE
                h1 == [heap EXCEPT ![i].t = now, ![i].seq = clk + 1]
                h2 == IF FixOnRefresh THEN Fix(h1, i) ELSE h1 IN
            /\ heap' = h2 /\ nch' = nch
            /\ obs' = [a |-> "Lookup", addr |-> a, ch |-> heap[i].ch, isnew |-> FALSE, st |-> Proj(h2, now, closedCh)]
       ELSE LET h2 == Push(heap, [addr |-> a, t |-> now, seq |-> clk + 1, ch |-> nch + 1]) IN
            /\ heap' = h2 /\ nch' = nch + 1
            /\ obs' = [a |-> "Lookup", addr |-> a, ch |-> nch + 1, isnew |-> TRUE, st |-> Proj(h2, now, closedCh)]
  /\ UNCHANGED <<now, closedCh, swept>>

Old(r) == now - r.t >= T
RECURSIVE Sweep(_)
Sweep(h) == IF Len(h) > 0 /\ Old(h[1]) THEN Sweep(PopRoot(h)) ELSE h

Expire ==
  LET h2 == Sweep(heap)
      gone == {heap[i].ch : i \in DOMAIN heap} \ {h2[i].ch : i \in DOMAIN h2} IN
  /\ heap' = h2 /\ closedCh' = closedCh \cup gone /\ swept' = TRUE
  /\ obs' = [a |-> "Expire", removed |-> Cardinality(gone), st |-> Proj(h2, now, closedCh \cup gone)]
  /\ UNCHANGED <<now, clk, nch>>

Tick(d) ==
  /\ d \in TickSteps /\ now + d <= MaxTime
  /\ now' = now + d /\ swept' = FALSE
  /\ obs' = [a |-> "Tick", d |-> d, st |-> Proj(heap, now + d, closedCh)]
  /\ UNCHANGED <<heap, clk, nch, closedCh>>

Next == (\E a \in Addrs : Lookup(a)) \/ Expire \/ (\E d \in TickSteps : Tick(d))
Spec == Init /\ [][Next]_vars
Bounded == clk <= MaxClk

\* ------------------------------ properties ------------------------------
TypeOK == /\ \A i \in DOMAIN heap : heap[i].addr \in Addrs /\ heap[i].t \in 0..now /\ heap[i].ch \in 1..nch
          /\ closedCh \subseteq 1..nch
\* heap order consistent with last-seen: no record is older than its parent
HeapOrdered == \A i \in DOMAIN heap : i > 1 => ~Less(heap, i, i \div 2)
\* ... hence the root is the least recently seen record, which is what makes the sweep exact
RootOldest == \A i \in DOMAIN heap : heap[1].t <= heap[i].t
\* one record per address (byAddr and byAge have the same size; Len() panics otherwise)
OnePerAddr == \A i, j \in DOMAIN heap : heap[i].addr = heap[j].addr => i = j
\* a channel is closed exactly when its record was expired; live records never share or lose their channel
ClosedIffGone == /\ closedCh = (1..nch) \ {heap[i].ch : i \in DOMAIN heap}
                 /\ \A i, j \in DOMAIN heap : heap[i].ch = heap[j].ch => i = j
\* after a sweep: a record exists iff its peer was seen less than the timeout ago
PostSweepExact == swept => \A i \in DOMAIN heap : now - heap[i].t < T
\* expiry removes only idle peers: a record disappears only in a sweep and only if it was not seen for the timeout
NeverExpiredEarly == [][\A i \in DOMAIN heap : (\A j \in DOMAIN heap' : heap'[j].ch # heap[i].ch) => now - heap[i].t >= T]_vars
\* a Lookup leaves the peer's record fresh ...
LookupFresh == [][clk' = clk + 1 => \E i \in DOMAIN heap' : heap'[i].seq = clk' /\ heap'[i].t = now]_vars
\* ... and a peer keeps its channel for as long as its record lives
ChannelStable == [][\A i \in DOMAIN heap : \A j \in DOMAIN heap' :
                      (heap[i].addr = heap'[j].addr /\ heap[i].ch \notin closedCh') => heap'[j].ch = heap[i].ch]_vars
=============================================================================
