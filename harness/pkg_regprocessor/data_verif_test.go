//go:build verif

package regprocessor

// Conformance drivers for spec/RegistrarData (property C12); the concrete world and the abstraction live in the
// bridge file data_bridge_verif.go (same package, overlay only).  See there for the description of the three drivers.

import (
	"encoding/json"
	"fmt"
	"math"
	mrand "math/rand"
	"net"
	"sort"
	"strings"
	"testing"

	"github.com/refraction-networking/conjure/pkg/transports/wrapping/prefix"
)

var vrdPidNum = map[string]int32{"pmin": int32(prefix.Min), "pget": int32(prefix.GetLong)}

func vrdViewsEqual(a, b vrdViews) bool {
	return vCanon(vNorm(a)) == vCanon(vNorm(b))
}

func vrdDiff(want, got vrdViews) []string {
	var d []string
	w, g := vNorm(want).(map[string]any), vNorm(got).(map[string]any)
	var walk func(pfx string, x, y any)
	walk = func(pfx string, x, y any) {
		xm, ok1 := x.(map[string]any)
		ym, ok2 := y.(map[string]any)
		if ok1 && ok2 {
			keys := map[string]bool{}
			for k := range xm {
				keys[k] = true
			}
			for k := range ym {
				keys[k] = true
			}
			for k := range keys {
				walk(pfx+"."+k, xm[k], ym[k])
			}
			return
		}
		if vCanon(x) != vCanon(y) {
			d = append(d, strings.TrimPrefix(pfx, "."))
		}
	}
	walk("", w, g)
	sort.Strings(d)
	return d
}

// TestVerifDataRows: stage B
func TestVerifDataRows(t *testing.T) {
	out := vOpenOut(t)
	defer out.Close()
	e, err := vrdNewEnv()
	if err != nil {
		t.Fatalf("world: %v", err)
	}
	defer e.cleanup()
	// the draw is controllable only if seeding the global source makes the next Float64 predictable
	mrand.Seed(12345)
	x := mrand.Float64()
	if x != mrand.New(mrand.NewSource(12345)).Float64() {
		t.Fatalf("global math/rand is not seedable in this toolchain (GODEBUG randseednop?)")
	}
	n, nmis, nerr := 0, 0, 0
	classes := map[string]int{}
	emitted := map[string]int{}
	obsV6Sub := 0
	vReadLines(t, func(line []byte) {
		var row vrdRow
		if err := json.Unmarshal(line, &row); err != nil {
			t.Fatalf("bad row: %v", err)
		}
		n++
		cc := e.request(row.Req, fmt.Sprintf("row-%d", n), net.ParseIP("198.51.100.7"), vrdPidNum[row.Req.Pid])
		got, detail, err := e.run(row.Req, row.Cfg, cc, e.drawSeed(row.U, row.Total), true)
		if err != nil {
			nerr++
			out.Emit(map[string]any{"kind": "error", "idx": n, "req": row.Req, "cfg": row.Cfg, "u": row.U, "err": err.Error()})
			return
		}
		ok := false
		for _, al := range row.Allowed {
			if vrdViewsEqual(al, got) {
				ok = true
				break
			}
		}
		if len(detail) > 0 && detail["payload_changed"] != nil {
			ok = false
		}
		classes[got.Resp.V4+"|"+got.Resp.Port+"|"+got.Resp.Params.Kind+"|"+got.Fwd.Sig]++
		if row.Req.Fam == "v6" && strings.HasPrefix(got.Resp.V4, "sub:") {
			obsV6Sub++
		}
		if !ok {
			nmis++
			// keep the result file small: a few examples per (transport, differing fields) signature
			sig := row.Req.T + "|" + strings.Join(vrdDiff(row.Allowed[0], got), ",")
			emitted[sig]++
			if emitted[sig] <= 12 && len(emitted) <= 200 {
				out.Emit(map[string]any{"kind": "mismatch", "idx": n, "req": row.Req, "cfg": row.Cfg, "u": row.U, "total": row.Total,
					"want": row.Allowed, "got": got, "diff": vrdDiff(row.Allowed[0], got), "detail": detail})
			}
		}
	})
	out.Emit(map[string]any{"kind": "summary", "rows": n, "mismatches": nmis, "errors": nerr, "classes": classes, "built_auth": VerifBuiltCount[0], "built_noauth": VerifBuiltCount[1],
		"obs_v6only_substituted": obsV6Sub})
}

func vrdEvent(q vrdReq, c vrdCfg, v vrdViews) map[string]any {
	return map[string]any{"a": "Register", "req": q, "cfg": c, "resp": v.Resp, "fwd": v.Fwd, "sv": v.Sv}
}

// TestVerifDataWeighted: the probabilistic clause of C12
func TestVerifDataWeighted(t *testing.T) {
	out := vOpenOut(t)
	defer out.Close()
	e, err := vrdNewEnv()
	if err != nil {
		t.Fatalf("world: %v", err)
	}
	defer e.cleanup()
	mrand.Seed(vSeed())
	for _, subs := range []string{"one", "two", "zero", "three", "shared"} {
		for _, tname := range []string{"min", "prefix"} {
			var ws []vrdW
			for _, w := range vrdSubnetTable[subs] {
				if (vrdSubnetDefs[w.n].transport == "Min_Transport") == (tname == "min") {
					ws = append(ws, w)
				}
			}
			total, wmin := 0.0, math.Inf(1)
			for _, w := range ws {
				total += w.w
			}
			for _, w := range ws {
				if w.w > 0 && w.w/total < wmin {
					wmin = w.w / total
				}
			}
			N := 1
			if wmin < 1 {
				N = int(math.Ceil(math.Log(1e-12) / math.Log(1-wmin)))
			}
			hits := map[string]int{}
			outside := []string{}
			c := vrdCfg{Ovr: "none", Enforce: true, Subs: subs, Excl: "other", Pct: "both", Auth: true, Rnd: true}
			for i := 0; i < N; i++ {
				q := vrdReq{T: tname, Fam: []string{"v4", "dual"}[i%2], Disable: false, Randomize: i%3 == 0, Pid: "pmin", Forged: "none"}
				cc := e.request(q, fmt.Sprintf("w-%s-%s-%d", subs, tname, i), net.ParseIP("198.51.100.9"), 0)
				v, _, err := e.run(q, c, cc, 0, false)
				if err != nil {
					out.Emit(map[string]any{"kind": "error", "where": "weighted", "subs": subs, "t": tname, "err": err.Error()})
					continue
				}
				if strings.HasPrefix(v.Resp.V4, "sub:") {
					hits[strings.TrimPrefix(v.Resp.V4, "sub:")]++
				} else {
					outside = append(outside, v.Resp.V4)
				}
				if i < 40 {
					out.Emit(map[string]any{"kind": "event", "ev": vrdEvent(q, c, v)})
				}
			}
			weights := map[string]float64{}
			for _, w := range ws {
				weights[w.n] = w.w
			}
			out.Emit(map[string]any{"kind": "weighted", "subs": subs, "t": tname, "n": N, "wmin": wmin, "weights": weights, "hits": hits,
				"outside": outside})
		}
	}
	out.Emit(map[string]any{"kind": "summary"})
}

// TestVerifDataRandom: stage C - random registrations that do not come from the specification
func TestVerifDataRandom(t *testing.T) {
	out := vOpenOut(t)
	defer out.Close()
	e, err := vrdNewEnv()
	if err != nil {
		t.Fatalf("world: %v", err)
	}
	defer e.cleanup()
	rng := mrand.New(mrand.NewSource(vSeed()*7919 + 13))
	n := vEnvInt("VERIF_EVENTS", 400)
	pick := func(xs ...string) string { return xs[rng.Intn(len(xs))] }
	for i := 0; i < n; i++ {
		q := vrdReq{T: pick("min", "prefix", "prefix", "obfs4"), Fam: pick("v4", "v6", "dual"), Disable: rng.Intn(3) == 0,
			Randomize: rng.Intn(2) == 0, Pid: "pmin", Forged: pick("none", "resp", "sig", "both")}
		pid := int32(0)
		if q.T == "prefix" && rng.Intn(2) == 0 {
			q.Pid, pid = "pget", int32(prefix.GetLong)
		}
		c := vrdCfg{Ovr: pick("none", "rand", "fixed"), Enforce: rng.Intn(3) != 0, Subs: pick("none", "one", "two", "zero", "three"),
			Excl: pick("none", "orig", "other"), Pct: pick("neither", "both", "both", "minonly", "prefixonly"), Auth: rng.Intn(2) == 0, Rnd: rng.Intn(2) == 0}
		addr := net.IPv4(byte(1+rng.Intn(222)), byte(rng.Intn(256)), byte(rng.Intn(256)), byte(1+rng.Intn(254)))
		cc := e.request(q, fmt.Sprintf("rand-%d-%d", i, rng.Int63()), addr, pid)
		v, detail, err := e.run(q, c, cc, rng.Int63(), true)
		if err != nil {
			out.Emit(map[string]any{"kind": "error", "where": "random", "req": q, "cfg": c, "err": err.Error()})
			continue
		}
		out.Emit(map[string]any{"kind": "event", "ev": vrdEvent(q, c, v), "detail": detail})
	}
	out.Emit(map[string]any{"kind": "summary"})
}
