//go:build verif

package dtls

// Bridge for the X06 (DtlsConnect) drivers (exists only in the go-test overlay): read access to the shared listener's
// two maps, so a driver in another package can tell whether a registration's secret is still registered.

// VerifX06Registered reports whether connToCert / connMap hold an entry for the hello-random derived from psk.
func VerifX06Registered(l *Listener, psk []byte) (cert bool, ch bool) {
	id, err := clientHelloRandomFromSeed(psk)
	if err != nil {
		return false, false
	}
	l.connToCertMutex.Lock()
	_, cert = l.connToCert[id]
	l.connToCertMutex.Unlock()
	l.connMapMutex.Lock()
	_, ch = l.connMap[id]
	l.connMapMutex.Unlock()
	return cert, ch
}

// VerifX06Sizes returns len(connToCert), len(connMap).
func VerifX06Sizes(l *Listener) (int, int) {
	l.connToCertMutex.Lock()
	a := len(l.connToCert)
	l.connToCertMutex.Unlock()
	l.connMapMutex.Lock()
	b := len(l.connMap)
	l.connMapMutex.Unlock()
	return a, b
}
