\* prefix as found against the intended-only law I_NoPanic: must be violated (divergence D1 D3)
SPECIFICATION Spec
CONSTANTS
  Kind = "prefix"
  Variant = "asfound"
  KnownIds = {0, 1}
  FieldIds = {1}
  SetArgs <- SetArgsP
  OvArgs <- OvArgsP
  Secrets = {"s1"}
  ReaderOk = {TRUE, FALSE}
  Seeds = {"sd1"}
  DeadConns = {FALSE, TRUE}
  MaxConns = 1
  MaxWrites = 1
  WriteSizes = {3}
  MaxPeer = 0
  PeerSizes = {4}
VIEW view
PROPERTIES I_NoPanic
CHECK_DEADLOCK FALSE
