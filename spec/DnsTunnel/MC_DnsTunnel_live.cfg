\* INTENDED liveness: with a deadline every call terminates whatever the network loses
SPECIFICATION LiveSpec
CONSTANTS
  Clients = {"c1"}
  MaxReq = 2
  JunkKinds = {}
  MaxJunk = 0
  MaxDup = 1
  MaxDrop = 1
  MaxClose = 0
  Faults = {"DropQ", "DupQ", "ReplayQ", "DropR", "DupR"}
  StaleMode = "skip"
  KeyCheck = TRUE
  Timeout = TRUE
PROPERTIES Terminates
CHECK_DEADLOCK FALSE
