\* prefix intended: parameter life cycle
SPECIFICATION Spec
CONSTANTS
  Kind = "prefix"
  Variant = "intended"
  KnownIds = {0, 1}
  FieldIds = {1}
  SetArgs <- SetArgsP
  OvArgs <- OvArgsP
  Secrets = {"s1", "s2"}
  ReaderOk = {TRUE, FALSE}
  Seeds = {"sd1", "sd2"}
  DeadConns = {FALSE, TRUE}
  MaxConns = 0
  MaxWrites = 0
  WriteSizes = {}
  MaxPeer = 0
  PeerSizes = {4}
VIEW view
INVARIANTS TypeOK HeaderOnce HeaderAlone DataExact OwnPrefixKnown I_ReportedIsUsed I_ParamsImplyPrefix I_TagBeforeData
PROPERTIES Core I_NoPanic I_FailedUnchanged I_GettersPure I_PortNonZero I_WrapOkMeansHeaderSent I_FlushPolicyHonoured I_SessionLeavesClientParams I_PortFromEffective
CHECK_DEADLOCK FALSE
