------------------------ MODULE Trace_RegistrarLocks ------------------------
(* Stage C (implementation -> spec) of C13: validates ndjson traces recorded from UNGATED
   stress runs of the real RegProcessor (k concurrent RegisterBidirectional calls x m
   ReloadSubnets calls).  Only what is observable without touching the code is logged, under
   one global sequence lock:
     ReqStart(p)               before the call        ReqEnd(p, v4, v6)   after it returned
     ReloadStart(p, t)         before ReloadSubnets   ReloadEnd(p, failed) after it returned (failed = it returned an error)
   (v4 / v6 = which subnet file, "A" or "B", the returned address lies in; "-" = absent).
   The lock steps and selections between a call's start and end are internal: the trace spec
   composes them silently (any number of spec steps of STARTED processes between two events),
   so a trace is accepted iff SOME interleaving of the specification explains the observed
   call windows and results.  Several traces are concatenated; "Reset" re-initialises. *)
EXTENDS RegistrarLocks, Json, TLCExt
TraceLog == ndJsonDeserialize("trace.ndjson")
VARIABLES l, started
tvars == <<vars, l, started>>

Mark(n) == TLCSet(1, IF TLCGet(1) < n THEN n ELSE TLCGet(1))

TraceInit == Init /\ l = 1 /\ started = {} /\ TLCSet(1, 0)

TraceReset ==
  /\ l <= Len(TraceLog) /\ TraceLog[l].a = "Reset"
  /\ readers' = 0 /\ writerWaiting' = FALSE /\ writerHolding' = FALSE /\ writer' = "none"
  /\ cur' = "A"
  /\ rpc' = [r \in Requests |-> 1]
  /\ held' = [r \in Requests |-> 0]
  /\ gen' = [r \in Requests |-> [v4 |-> "-", v6 |-> "-"]]
  /\ resp' = [r \in Requests |-> [v4 |-> "-", v6 |-> "-"]]
  /\ mpc' = [m \in Reloads |-> FirstStep]
  /\ loaded' = [m \in Reloads |-> "-"]
  /\ obs' = [a |-> "Init"]
  /\ started' = {}
  /\ l' = l + 1 /\ Mark(l)

TraceEvent ==
  /\ l <= Len(TraceLog) /\ TraceLog[l].a # "Reset"
  /\ LET e == TraceLog[l] IN
       CASE e.a = "ReqStart"    -> e.p \in Requests /\ e.p \notin started /\ started' = started \cup {e.p}
         [] e.a = "ReloadStart" -> e.p \in Reloads /\ e.p \notin started /\ Target(e.p) = e.t
                                   /\ started' = started \cup {e.p}
         [] e.a = "ReqEnd"      -> e.p \in started /\ ReqDone(e.p)
                                   /\ resp[e.p].v4 = e.v4 /\ resp[e.p].v6 = e.v6
                                   /\ started' = started
         [] e.a = "ReloadEnd"   -> e.p \in started /\ mpc[e.p] = "done" /\ e.failed = (e.p \in Bad)
                                   /\ started' = started
         [] OTHER               -> FALSE
  /\ UNCHANGED vars
  /\ l' = l + 1 /\ Mark(l)

\* internal step of a call that has started (and, by ReqDone / mpc = "done", not yet finished its program)
TraceSilent ==
  /\ l <= Len(TraceLog)
  /\ \/ \E r \in started \cap Requests : ReqNext(r)
     \/ \E m \in started \cap Reloads : ReloadNext(m)
  /\ UNCHANGED <<l, started>>

TraceNext == TraceReset \/ TraceEvent \/ TraceSilent
TraceSpec == TraceInit /\ [][TraceNext]_tvars
TraceView == <<view, l, started>>

Reached == PrintT(<<"TRACE_REACHED", TLCGet(1)>>)
Post == Reached /\ TLCGet(1) = Len(TraceLog)
=============================================================================
