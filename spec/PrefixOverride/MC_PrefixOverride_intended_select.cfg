SPECIFICATION Spec
CONSTANTS
  Profile = "select"
  Defects = {}
  Broken = {}
VIEW view
INVARIANTS TypeOK ShareExact I_FieldsInRange I_DeadLinesDoNotDilute
PROPERTIES RejectedLoadChangesNothing A_ParseAgreesWithGrammar A_NothingInvented A_MalformedRejects A_NeverDeadLine A_NoByteWithoutDraw A_OnlyPrefixTransport A_MissingIsAnError A_UntouchedUnlessWritten A_ErrorMeansNoWrite A_ResponseMatchesEntry A_PortRule A_ClientFieldsKept A_ParOnlyNormalised A_FirstErrorStops A_LastWriterWins A_NotWrittenNotChanged A_I_NoSilentTruncation A_I_MalformedNumberRejects A_I_BlankLinesIgnored A_I_PayloadUntouched A_I_ErrorLeavesUntouched A_I_FlagRespected A_I_RandUsesReader A_I_ResponseConsistent 
CHECK_DEADLOCK FALSE
