SPECIFICATION GenSpec
CONSTANTS
  Mutant = "none"
  Mode = "sample"
  SampleSize = 20000
INVARIANT Emit
CHECK_DEADLOCK FALSE
