"""C06 - the station never dials a covert address that policy forbids.

A  TLC exhaustive on spec/CovertPolicy over all abstract inputs x policies x resolver scripts: DialedIsChecked,
   CheckedIsPermitted, ResolvedOnce, PermittedLiteralAccepted, MalformedRejected; the instance in which ingest keeps the
   client's string (re-resolution at dial time) must violate.
B  every row TLC emitted is concretised (several spellings per abstract class, concrete CIDR sets, a scripted DNS server
   answering the n-th lookup with the n-th answer) and run through the real ParseOrResolveBlocklisted: accept / reject,
   the resolved address, the number of lookups, and an independent net/netip containment oracle.  Coupling rows go
   through the real ingestRegistration and the real Proxy with loopback listeners on a permitted and a forbidden address.
C  seeded random strings x policies (incl. the shipped app_config.toml loaded through the real parser).
"""
import json, os
import vlib

PKG = "pkg/station/lib"
FILES = ["common/vcommon_test.go", "pkg_station_lib/ingest_sched_verif_test.go", "pkg_station_lib/covert_verif_test.go"]


def run(ctx):
    thorough = ctx.tier == "thorough"
    sdir = ctx.spec_copy("CovertPolicy")
    r = ctx.tlc(sdir, "CovertPolicy.tla", "MC_CovertPolicy.cfg", timeout=900)
    ctx.require_design_ok(r, "CovertPolicy")
    b = ctx.tlc(sdir, "CovertPolicy.tla", "MC_CovertPolicy_rebind.cfg", timeout=300, count=False)
    if b["inv"] not in ("ResolvedOnce", "DialedIsChecked", "CheckedIsPermitted"):
        raise vlib.InfraError("rebind instance should violate, got %s" % b["inv"])
    b2 = ctx.tlc(sdir, "CovertPolicy.tla", "MC_CovertPolicy_fullmatch.cfg", timeout=300, count=False)
    if b2["inv"] != "CheckedIsPermitted":
        raise vlib.InfraError("the instance whose patterns must match the whole host should violate CheckedIsPermitted, got %s" % b2["inv"])
    b3 = ctx.tlc(sdir, "CovertPolicy.tla", "MC_CovertPolicy_pubskip.cfg", timeout=300, count=False)
    if b3["inv"] != "CheckedIsPermitted":
        raise vlib.InfraError("the instance that skips interface subnets whose address is already covered should violate CheckedIsPermitted, got %s" % b3["inv"])
    ctx.stage("A", nonvacuity="instance that re-resolves at dial time violates %s; instance whose domain patterns must match the whole host "
              "(instead of being searched in it) violates CheckedIsPermitted; instance whose covert_blocklist_public_addrs skips an interface "
              "subnet when a configured entry covers the interface address violates CheckedIsPermitted" % b["inv"])

    g = ctx.tlc(sdir, "Gen_CovertPolicy.tla", "Gen_CovertPolicy.cfg", timeout=900, workers=8, count=False)
    if g["inv"]:
        raise vlib.InfraError("row generator failed: " + g["out"][-1500:])
    rows_file = os.path.join(ctx.scratch, "covert_rows.ndjson")
    n = 0
    keep_every = 1 if thorough else 4
    with open(g["beh_file"]) as fi, open(rows_file, "w") as fo:
        lines = fi.readlines()
        ctx.rng.shuffle(lines)
        for i, line in enumerate(lines):
            row = json.loads(line)
            # names are where the resolver script matters: keep all of them; thin out the rest in the quick tier
            if row["inp"]["form"] in ("name", "blockedname") and (thorough or i % 2 == 0) or i % keep_every == 0:
                fo.write(line)
                n += 1
                if n in (1, 999):
                    ctx.sample(row)
    ctx.log("B: %d of %d rows" % (n, len(lines)))
    outp = os.path.join(ctx.scratch, "covert_out.ndjson")
    res = ctx.go_test(PKG, FILES, "lib", "^TestVerifCovertRows$", env={"VERIF_IN": rows_file, "VERIF_OUT": outp}, timeout=3000)
    rows = ctx.read_results(outp)
    summ = [x for x in rows if x.get("kind") == "summary"]
    if not summ:
        raise vlib.InfraError("covert driver did not finish:\n" + res["out"][-3000:])
    for m in [x for x in rows if x.get("kind") == "mismatch"]:
        row = m["row"]
        ctx.violation("covert-row:%s:form=%s:port=%s" % (m["bad"], row["inp"]["form"], row["inp"]["port"]),
                      "ParseOrResolveBlocklisted(%r) -> %r; spec: %s (lookups %s) under policy %s: %s"
                      % (m["input"], m["got"], row["result"], row["lookups"], json.dumps(row["pol"]), m["bad"]), m)
    ctx.stage("B", rows=summ[0]["rows"], calls=summ[0]["calls"], mismatches=summ[0]["mismatches"])

    # coupling through ingest + proxy
    cp = os.path.join(ctx.scratch, "coupling.ndjson")
    ctx.go_test(PKG, FILES, "lib", "^TestVerifCovertCoupling$", env={"VERIF_OUT": cp}, timeout=600)
    crow = {x["script"]: x for x in ctx.read_results(cp) if x.get("kind") == "coupling"}
    if len(crow) != 5:
        raise vlib.InfraError("coupling driver incomplete: %s" % list(crow))
    def bad(script, what, detail):
        ctx.violation("covert-coupling:%s:%s" % (script, what), "ingest+proxy coupling, script %s: %s (%s)" % (script, what, json.dumps(detail)), detail)
    for s in ("rebind", "stable", "literal"):
        x = crow[s]
        if not x["visible"]:
            bad(s, "permitted-covert-not-admitted", x)
            continue
        if x["hits"]["forbidden"] > 0:
            bad(s, "forbidden-address-dialed", x)
        if x["hits"]["permitted"] != 1:
            bad(s, "permitted-address-not-dialed-once", x)
        if s != "literal" and x["lookups_total"] != 1:
            bad(s, "name-resolved-%d-times" % x["lookups_total"], x)
        if x["stored"] != "127.0.0.2:%d" % x["port"]:
            bad(s, "stored-covert-is-not-the-checked-literal", x)
    for s in ("forbidden", "literal-forbidden"):
        x = crow[s]
        if x["visible"] or x["hits"]["forbidden"] > 0 or x["hits"]["permitted"] > 0:
            bad(s, "forbidden-covert-admitted-or-dialed", x)
    ctx.stage("B", coupling=crow)

    # random strings
    rp = os.path.join(ctx.scratch, "random.ndjson")
    ctx.go_test(PKG, FILES, "lib", "^TestVerifCovertRandom$", env={"VERIF_OUT": rp, "VERIF_N": 300000 if thorough else 30000}, timeout=1800)
    rr = ctx.read_results(rp)
    rs = [x for x in rr if x.get("kind") == "summary"]
    if not rs:
        raise vlib.InfraError("random covert driver did not finish")
    for m in [x for x in rr if x.get("kind") == "mismatch"]:
        ctx.violation("covert-random:%s" % m["bad"], "ParseOrResolveBlocklisted(%r) -> %r under %s: %s" % (m["input"], m["got"], json.dumps(m.get("policy")), m["bad"]), m)
    ctx.stage("C", random_calls=rs[0]["calls"], mismatches=rs[0]["mismatches"])
    ctx.cov["evaluations"] = summ[0]["calls"] + rs[0]["calls"] + 5
    ctx.cov["distinct_nontrivial"] = summ[0]["rows"]
    ctx.cov["traces_validated_against_impl"] = 0
    ctx.cov["rule"] = "distinct = rows of the (input class, port class, address / resolver script, policy) table; all reach at least the parse stage"
    ctx.assumptions += ["'accepted unchanged' is read as: the same IP address and port (textual normalisation such as lower-casing or un-mapping is allowed)",
                        "DNS answers come from an in-process UDP server installed through net.DefaultResolver (PreferGo)",
                        "the dial is observed with loopback listeners (127.0.0.2 permitted, 127.0.0.3 forbidden)"]
