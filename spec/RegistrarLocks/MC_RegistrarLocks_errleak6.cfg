SPECIFICATION Spec
CONSTANTS
  ReqV4 = {}
  ReqV6 = {}
  ReqDual = {"d1"}
  ReqFail = {"u1"}
  ReqFail6 = {"w1"}
  ErrorPath = "leak6"
  Reloads = {"m1", "m2", "m3"}
  ToB = {"m1"}
  Bad = {"m2"}
  ReloadOrder = "load-first"
  Protocol = "single"
INVARIANTS TypeOK WholeGeneration ResponseComplete LockBalance MutualExclusion SelectUnderReadLock NoLeakAtEnd FailedReloadHoldsNothing
PROPERTIES EventuallyAllDone FailedReloadInstallsNothing
CHECK_DEADLOCK TRUE
