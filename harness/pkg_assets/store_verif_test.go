//go:build verif

package assets

// C20 - conformance binding for spec/AtomicStore.
//
// The test binary built from the repository's working tree (plus this file through the overlay) is
// used by checks/C20.py in three roles, selected by VERIF_ROLE:
//
//   child     performs a plan of store operations through the real assets API on one locked OS
//             thread.  It is run under `strace -f -e inject=...` (Crash / Fail at the k-th syscall),
//             with real environment faults (file size limit, unwritable / vanished directory) or
//             uninjected (the strace log is then the implementation trace for Trace_AtomicStore).
//             Marker syscalls (openat of /verif-marker/...) delimit the operations in the strace log.
//   loop      stores configurations in a tight endless loop and reports progress on stdout; the
//             parent SIGKILLs it at a random instant.
//   verifier  long-running oracle: parses a ClientConf file with proto.Unmarshal and tells which of
//             the candidate abstract configurations it equals; computes digests of abstract
//             configurations (to map the child's reported in-memory digests back to spec values).
//
// An abstract configuration is the list of operation ids applied since (and including) the last
// whole replacement, exactly as in AtomicStore.tla:  [0] is the initial file, [2] the result of
// Replace #2, [2,3] the result of Partial #3 applied to it.

import (
	"bufio"
	"crypto/sha256"
	"encoding/binary"
	"encoding/hex"
	"encoding/json"
	"fmt"
	"io"
	"os"
	"os/exec"
	"os/signal"
	"path"
	"runtime"
	"syscall"
	"testing"

	"github.com/refraction-networking/conjure/pkg/station/log"
	pb "github.com/refraction-networking/conjure/proto"
	"google.golang.org/protobuf/proto"
)

type vStoreOp struct {
	Id     int    `json:"id"`
	Kind   string `json:"kind"`   // Replace | Partial | BadMarshal
	Setter string `json:"setter"` // for Partial: gen | pubkey | decoys | subnets
	Size   string `json:"size"`   // small | large (number of decoys)
	// Env is a real environment fault the harness arranges around this op (and undoes afterwards):
	//   rodir    chmod 0555 on the directory (effective because the child then runs as an unprivileged user)
	//   movedir  the directory is renamed away (the path vanishes; the old file survives elsewhere)
	//   filedir  the directory path is replaced by a regular file (ENOTDIR)
	//   rmdir    the directory is removed for good
	//   fsize    RLIMIT_FSIZE = 1 MiB: a large write is cut short, the next write fails with EFBIG
	//   rofs     the file system holding the directory (a tmpfs mounted by the parent) is remounted read-only (EROFS)
	//   immutable  chattr +i on the ClientConf file: the final rename fails (EPERM)
	//   (a full file system needs no step here: the parent mounts a 1 MiB tmpfs and the plan stores megabytes)
	Env string `json:"env"`
}

type vStorePlan struct {
	Seed        int64      `json:"seed"`
	Dir         string     `json:"dir"`
	InitSize    string     `json:"init_size"`
	Ops         []vStoreOp `json:"ops"`
	StopOnError bool       `json:"stop_on_error"`
	Markers     bool       `json:"markers"`
	LargeDecoys int        `json:"large_decoys"`
}

func vH(seed int64, what string, id, k int) []byte {
	h := sha256.Sum256([]byte(fmt.Sprintf("verif-c20-%d-%s-%d-%d", seed, what, id, k)))
	return h[:]
}

func vDecoys(p *vStorePlan, id int, size string) []*pb.TLSDecoySpec {
	n := 3 + id%3
	if size == "large" {
		n = p.LargeDecoys
		if n == 0 {
			n = 60000
		}
		n += id // sizes differ between configurations
	}
	base := binary.BigEndian.Uint32(vH(p.Seed, "ip", id, 0))
	res := make([]*pb.TLSDecoySpec, n)
	for k := 0; k < n; k++ {
		ip := base + uint32(k)
		host := fmt.Sprintf("d%d-%d-%d.verif.example.com", p.Seed, id, k)
		res[k] = &pb.TLSDecoySpec{Hostname: &host, Ipv4Addr: &ip}
	}
	return res
}

func vPubkey(p *vStorePlan, what string, id int) *pb.PubKey {
	kt := pb.KeyType_AES_GCM_128
	return &pb.PubKey{Key: vH(p.Seed, what, id, 0), Type: &kt}
}

func vSubnets(p *vStorePlan, id int) *pb.PhantomSubnetsList {
	w := uint32(1 + id)
	r := id%2 == 0
	return &pb.PhantomSubnetsList{WeightedSubnets: []*pb.PhantomSubnets{
		{Weight: &w, Subnets: []string{fmt.Sprintf("10.%d.0.0/16", id%250), fmt.Sprintf("2001:db8:%x::/48", id)}, RandomizeDstPort: &r},
	}}
}

// vWholeConf is the configuration installed by Replace #id (and, for id 0, the initial file).
func vWholeConf(p *vStorePlan, id int, size string) *pb.ClientConf {
	gen := uint32(1000 + id)
	return &pb.ClientConf{
		DecoyList:     &pb.DecoyList{TlsDecoys: vDecoys(p, id, size)},
		Generation:    &gen,
		DefaultPubkey: vPubkey(p, "default", id),
		ConjurePubkey: vPubkey(p, "conjure", id),
	}
}

// vBadConf cannot be marshalled: DnsRegConf has required fields that are left unset.
func vBadConf(p *vStorePlan, id int) *pb.ClientConf {
	c := vWholeConf(p, id, "small")
	c.DnsRegConf = &pb.DnsRegConf{}
	return c
}

func (p *vStorePlan) op(id int) vStoreOp {
	if id == 0 {
		return vStoreOp{Id: 0, Kind: "Replace", Size: p.InitSize}
	}
	for _, o := range p.Ops {
		if o.Id == id {
			return o
		}
	}
	panic(fmt.Sprintf("no op %d in plan", id))
}

// vApplyModel applies a Partial op to a configuration value (the reference, not the real setters).
func vApplyModel(p *vStorePlan, c *pb.ClientConf, o vStoreOp) {
	switch o.Setter {
	case "gen":
		g := uint32(5000 + o.Id)
		c.Generation = &g
	case "pubkey":
		c.DefaultPubkey = vPubkey(p, "set", o.Id)
	case "decoys":
		if c.DecoyList == nil {
			c.DecoyList = &pb.DecoyList{}
		}
		c.DecoyList.TlsDecoys = vDecoys(p, o.Id, o.Size)
	case "subnets":
		c.PhantomSubnetsList = vSubnets(p, o.Id)
	default:
		panic("unknown setter " + o.Setter)
	}
}

// vBuild turns an abstract configuration into the real message.
func vBuild(p *vStorePlan, abs []int) *pb.ClientConf {
	if len(abs) == 0 {
		return nil
	}
	o := p.op(abs[0])
	var c *pb.ClientConf
	if o.Kind == "BadMarshal" {
		c = vBadConf(p, o.Id)
	} else {
		c = vWholeConf(p, o.Id, o.Size)
	}
	for _, id := range abs[1:] {
		vApplyModel(p, c, p.op(id))
	}
	return c
}

func vDigest(c *pb.ClientConf) string {
	if c == nil {
		return "nil"
	}
	b, err := proto.MarshalOptions{Deterministic: true, AllowPartial: true}.Marshal(c)
	if err != nil {
		return "unmarshalable:" + err.Error()
	}
	h := sha256.Sum256(b)
	return hex.EncodeToString(h[:12])
}

func vMarker(on bool, s string) {
	if on {
		f, err := os.Open("/verif-marker/" + s)
		if err == nil {
			f.Close()
		}
	}
}

// vDiskDigest parses the file as the library would on its next start and digests the message.
func vDiskDigest(fn string) string {
	buf, err := os.ReadFile(fn)
	if err != nil {
		return "missing"
	}
	c := &pb.ClientConf{}
	if err := proto.Unmarshal(buf, c); err != nil {
		return "unparseable"
	}
	return vDigest(c)
}

// vEnvFault arranges a real environment fault and returns the function that undoes it.
func vEnvFault(t vFataler, dir, env string) func() {
	must := func(err error) {
		if err != nil {
			t.Fatalf("env %s: %v", env, err)
		}
	}
	switch env {
	case "":
		return func() {}
	case "rodir":
		must(os.Chmod(dir, 0555))
		return func() { must(os.Chmod(dir, 0755)) }
	case "movedir":
		must(os.Rename(dir, dir+".moved"))
		return func() { must(os.Rename(dir+".moved", dir)) }
	case "filedir":
		must(os.Rename(dir, dir+".moved"))
		must(os.WriteFile(dir, []byte("not a directory"), 0644))
		return func() { must(os.Remove(dir)); must(os.Rename(dir+".moved", dir)) }
	case "rmdir":
		must(os.RemoveAll(dir))
		return func() {}
	case "rofs":
		must(syscall.Mount("none", dir, "", syscall.MS_REMOUNT|syscall.MS_RDONLY, ""))
		return func() { must(syscall.Mount("none", dir, "", syscall.MS_REMOUNT, "")) }
	case "immutable":
		must(exec.Command("chattr", "+i", path.Join(dir, "ClientConf")).Run())
		return func() { must(exec.Command("chattr", "-i", path.Join(dir, "ClientConf")).Run()) }
	case "fsize":
		var old syscall.Rlimit
		must(syscall.Getrlimit(syscall.RLIMIT_FSIZE, &old))
		must(syscall.Setrlimit(syscall.RLIMIT_FSIZE, &syscall.Rlimit{Cur: 1 << 20, Max: old.Max}))
		return func() { must(syscall.Setrlimit(syscall.RLIMIT_FSIZE, &old)) }
	}
	t.Fatalf("unknown env fault %q", env)
	return nil
}

// vDoOp runs one store operation through the real API.
func vDoOp(p *vStorePlan, o vStoreOp) error {
	a := Assets()
	switch o.Kind {
	case "Replace":
		return a.SetClientConf(vWholeConf(p, o.Id, o.Size))
	case "BadMarshal":
		return a.SetClientConf(vBadConf(p, o.Id))
	case "Partial":
		switch o.Setter {
		case "gen":
			return a.SetGeneration(uint32(5000 + o.Id))
		case "pubkey":
			return a.SetPubkey(vPubkey(p, "set", o.Id))
		case "decoys":
			return a.SetDecoys(vDecoys(p, o.Id, o.Size))
		case "subnets":
			return a.SetPhantomSubnets(vSubnets(p, o.Id))
		}
	}
	panic("bad op")
}

func vReadPlan(t vFataler) *vStorePlan {
	var p vStorePlan
	b, err := os.ReadFile(os.Getenv("VERIF_PLAN"))
	if err != nil {
		t.Fatalf("plan: %v", err)
	}
	if err := json.Unmarshal(b, &p); err != nil {
		t.Fatalf("plan: %v", err)
	}
	return &p
}

func errnoName(err error) string {
	if err == nil {
		return ""
	}
	var en syscall.Errno
	for e := err; e != nil; {
		if x, ok := e.(syscall.Errno); ok {
			en = x
			break
		}
		u, ok := e.(interface{ Unwrap() error })
		if !ok {
			break
		}
		e = u.Unwrap()
	}
	names := map[syscall.Errno]string{syscall.ENOSPC: "ENOSPC", syscall.EACCES: "EACCES", syscall.EIO: "EIO", syscall.ENOENT: "ENOENT",
		syscall.ENOTDIR: "ENOTDIR", syscall.EFBIG: "EFBIG", syscall.EROFS: "EROFS", syscall.EPERM: "EPERM", syscall.EXDEV: "EXDEV",
		syscall.EDQUOT: "EDQUOT", syscall.EISDIR: "EISDIR"}
	if n, ok := names[en]; ok {
		return n
	}
	if en != 0 {
		return fmt.Sprintf("errno%d", int(en))
	}
	return "other"
}

// The child roles run inside init(): during package initialisation the main goroutine is locked to the main OS
// thread, so every syscall of the run - the loader's, the runtime's start-up and the stores - is issued by ONE
// thread in a reproducible order.  strace counts syscall invocations per thread (`inject=...:when=k`); this makes
// k computed from an uninjected run valid for the injected one.
func init() {
	role := os.Getenv("VERIF_ROLE")
	if role == "child" || role == "loop" {
		vChildMain(role)
		os.Exit(0)
	}
}

// TestVerifStoreChild exists so that the binary has a test to select; the work happens in init().
func TestVerifStoreChild(t *testing.T) {
	t.Skip("not a child invocation")
}

type vFataler struct{}

func (vFataler) Fatalf(f string, a ...any) {
	fmt.Fprintf(os.Stderr, "child: "+f+"\n", a...)
	os.Exit(4)
}

func vChildMain(role string) {
	t := vFataler{}
	runtime.LockOSThread()
	signal.Ignore(syscall.SIGXFSZ) // a write beyond RLIMIT_FSIZE then fails with EFBIG instead of killing us
	log.SetOutput(io.Discard)
	p := vReadPlan(t)
	if role == "child" {
		// strace counts invocations per thread and applies `when=k` to every thread.  Push this thread's counters
		// far beyond anything the runtime's own threads will ever reach (their netpoll wake-up writes, for
		// instance), so that an injection aimed at a store step cannot also hit a runtime-internal syscall.
		for i := 0; i < 64; i++ {
			if f, err := os.OpenFile("/dev/null", os.O_WRONLY, 0); err == nil {
				f.Write([]byte{0})
				f.Close()
			}
		}
	}

	_, ierr := AssetsSetDir(p.Dir)
	if role == "loop" {
		vLoop(p)
		return
	}

	type opRes struct {
		Kind   string `json:"kind"`
		I      int    `json:"i"`
		Err    string `json:"err"`
		Errno  string `json:"errno"`
		Mem    string `json:"mem"`
		Panic  string `json:"panic,omitempty"`
		MemGen uint32 `json:"mem_gen"`
		Disk   string `json:"disk"`
	}
	var results []any
	results = append(results, map[string]any{"kind": "init", "err": fmt.Sprint(ierr), "mem": vDigest(Assets().GetClientConfPtr())})
	dir := p.Dir
	for _, o := range p.Ops {
		undo := vEnvFault(t, dir, o.Env)
		vMarker(p.Markers, fmt.Sprintf("B/%d/%s", o.Id, o.Kind))
		r := opRes{Kind: "op", I: o.Id}
		var err error
		func() {
			defer func() {
				if x := recover(); x != nil {
					r.Panic = fmt.Sprint(x)
				}
			}()
			err = vDoOp(p, o)
		}()
		if err != nil {
			r.Err = err.Error()
			r.Errno = errnoName(err)
			vMarker(p.Markers, fmt.Sprintf("E/%d/err", o.Id))
		} else {
			vMarker(p.Markers, fmt.Sprintf("E/%d/ok", o.Id))
		}
		undo()
		c := Assets().GetClientConfPtr()
		r.Mem = vDigest(c)
		r.MemGen = c.GetGeneration()
		r.Disk = vDiskDigest(path.Join(dir, "ClientConf"))
		results = append(results, r)
		if (err != nil || r.Panic != "") && p.StopOnError {
			break
		}
	}
	vMarker(p.Markers, "Z/done")
	out, err := os.Create(os.Getenv("VERIF_OUT"))
	if err != nil {
		t.Fatalf("out: %v", err)
	}
	w := bufio.NewWriter(out)
	for _, r := range results {
		b, _ := json.Marshal(r)
		w.Write(b)
		w.WriteByte('\n')
	}
	w.Flush()
	out.Close()
}

// The endless store loop (role "loop").  Operation #j is a whole replacement (small for odd j, multi-megabyte for
// even j) except that every third operation is a partial setter applied to the previous one.  The replacement
// values are taken from a small pool built up front (building 60 000 decoys takes longer than storing them), with
// the generation number making each of them distinct.
const vLoopPool = 4

func vLoopIsPartial(j int) bool { return j%3 == 2 }

func vLoopConf(p *vStorePlan, pool map[int]*pb.ClientConf, j int) *pb.ClientConf {
	size := "small"
	if j%2 == 0 {
		size = "large"
	}
	key := (j % (2 * vLoopPool))
	c, ok := pool[key]
	if !ok {
		c = vWholeConf(p, 100+key, size)
		pool[key] = c
	}
	g := uint32(100000 + j)
	c.Generation = &g
	return c
}

func vLoopPartial(j int) vStoreOp {
	return vStoreOp{Id: j, Kind: "Partial", Setter: []string{"gen", "pubkey", "subnets"}[(j/3)%3]}
}

// vLoopExpected is the configuration on disk after operation #j of the loop succeeded.
func vLoopExpected(p *vStorePlan, pool map[int]*pb.ClientConf, j int) *pb.ClientConf {
	if j <= 0 {
		return vWholeConf(p, 0, p.InitSize)
	}
	if vLoopIsPartial(j) {
		c := proto.Clone(vLoopConf(p, pool, j-1)).(*pb.ClientConf)
		vApplyModel(p, c, vLoopPartial(j))
		return c
	}
	return proto.Clone(vLoopConf(p, pool, j)).(*pb.ClientConf)
}

func vLoop(p *vStorePlan) {
	pool := map[int]*pb.ClientConf{}
	for j := 1; j <= 2*vLoopPool; j++ {
		vLoopConf(p, pool, j)
	}
	// the value for the next replacement is prepared BEFORE the previous operation is reported complete, so that
	// the process spends (almost) all its time between "B j" and "E j"
	next := func(j int) *pb.ClientConf {
		if vLoopIsPartial(j) {
			return nil
		}
		return proto.Clone(vLoopConf(p, pool, j)).(*pb.ClientConf)
	}
	conf := next(1)
	os.Stdout.WriteString("READY\n")
	for j := 1; ; j++ {
		fmt.Fprintf(os.Stdout, "B %d\n", j)
		var err error
		if conf != nil {
			err = Assets().SetClientConf(conf)
		} else {
			err = vDoOp(p, vLoopPartial(j))
		}
		if err != nil {
			fmt.Fprintf(os.Stdout, "F %d %v\n", j, err)
			os.Exit(3)
		}
		conf = next(j + 1)
		fmt.Fprintf(os.Stdout, "E %d\n", j)
	}
}

// TestVerifStoreVerifier: role "verifier".  Requests on stdin (one JSON per line), answers on stdout.
//
//	{"q":"file","plan":{...},"path":"...","cands":[[0],[1]],"loop":[j,...]}  -> exists, parse_ok, size, match (indices into cands)
//	{"q":"digest","plan":{...},"cands":[[0],[1,2]]}                         -> digests
//	{"q":"init","plan":{...}}                                               -> writes the initial ClientConf into plan.dir
func TestVerifStoreVerifier(t *testing.T) {
	if os.Getenv("VERIF_ROLE") != "verifier" {
		t.Skip("not a verifier invocation")
	}
	type req struct {
		Q     string     `json:"q"`
		Plan  vStorePlan `json:"plan"`
		Path  string     `json:"path"`
		Cands [][]int    `json:"cands"`
		Loop  []int      `json:"loop"`
	}
	in := bufio.NewReaderSize(os.Stdin, 1<<20)
	out := bufio.NewWriter(os.Stdout)
	loopPool := map[int]*pb.ClientConf{}
	loopSeed := int64(-1)
	for {
		line, err := in.ReadBytes('\n')
		if len(line) > 1 {
			var r req
			if e := json.Unmarshal(line, &r); e != nil {
				t.Fatalf("bad request: %v", e)
			}
			ans := map[string]any{"q": r.Q}
			p := &r.Plan
			if p.Seed != loopSeed {
				loopPool, loopSeed = map[int]*pb.ClientConf{}, p.Seed
			}
			cands := r.Cands
			var loopMsgs []*pb.ClientConf
			for _, j := range r.Loop {
				loopMsgs = append(loopMsgs, vLoopExpected(p, loopPool, j))
			}
			switch r.Q {
			case "init":
				b, e := proto.Marshal(vBuild(p, []int{0}))
				if e == nil {
					e = os.WriteFile(path.Join(p.Dir, "ClientConf"), b, 0644)
				}
				ans["err"] = fmt.Sprint(e)
			case "digest":
				ds := []string{}
				for _, c := range cands {
					ds = append(ds, vDigest(vBuild(p, c)))
				}
				ans["digests"] = ds
			case "file":
				buf, e := os.ReadFile(r.Path)
				ans["exists"] = e == nil
				ans["size"] = len(buf)
				match := []int{}
				if e == nil {
					got := &pb.ClientConf{}
					pe := proto.Unmarshal(buf, got)
					ans["parse_ok"] = pe == nil
					if pe == nil {
						ans["gen"] = got.GetGeneration()
						ans["ndecoys"] = len(got.GetDecoyList().GetTlsDecoys())
						for i, c := range cands {
							if proto.Equal(got, vBuild(p, c)) {
								match = append(match, i)
							}
						}
						for i, m := range loopMsgs {
							if proto.Equal(got, m) {
								match = append(match, len(cands)+i)
							}
						}
					} else {
						ans["parse_err"] = pe.Error()
					}
				}
				ans["match"] = match
			default:
				t.Fatalf("unknown request %q", r.Q)
			}
			b, _ := json.Marshal(ans)
			out.Write(b)
			out.WriteByte('\n')
			out.Flush()
		}
		if err != nil {
			return
		}
	}
}
