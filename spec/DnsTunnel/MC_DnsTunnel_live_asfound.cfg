\* AS FOUND held to the intended liveness property: one dropped datagram blocks RequestAndRecv for good (must violate)
SPECIFICATION LiveSpec
CONSTANTS
  Clients = {"c1"}
  MaxReq = 2
  JunkKinds = {}
  MaxJunk = 0
  MaxDup = 1
  MaxDrop = 1
  MaxClose = 0
  Faults = {"DropQ", "DupQ", "ReplayQ", "DropR", "DupR"}
  StaleMode = "fail"
  KeyCheck = TRUE
  Timeout = FALSE
PROPERTIES Terminates
CHECK_DEADLOCK FALSE
