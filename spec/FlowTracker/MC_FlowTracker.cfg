\* API level, as found (a due event removes its flow unconditionally); all times by shift symmetry
SPECIFICATION Spec
CONSTANTS
  FlowInfo <- FlowsApi2
  Keys = {"k1"}
  T = 2
  K = 20
  SessTimeouts = {1, 3}
  TickSteps = {1, 2}
  MaxT = 0
  MaxQ = 3
  MaxLag = 2
  StaleEvent = "kills"
  DropRemoves = TRUE
  DueCmp = "le"
  KeepLonger = TRUE
  Level = "api"
  FlagKinds = {"syn"}
  PayloadKinds = {"none"}
  FrameKinds = {"eth"}
VIEW viewRel
CONSTRAINT BoundedRel
INVARIANTS TypeOK TrackedHasEvent QueueSorted EventHorizon PostDropWindow PostDropFresh PostDropPhantoms CountsExact PacketLaws
PROPERTIES RemovedOnlyByStopOrDue PhantomNeverShortened PhantomDroppedOnlyWhenDue DropCountExact
CHECK_DEADLOCK FALSE
