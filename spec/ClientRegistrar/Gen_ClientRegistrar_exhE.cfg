SPECIFICATION GenSpec
CONSTANTS
  Variant = "asfound"
  Configs <- CfgGenE
  ApiOutcomes = {"neterr", "s500", "garbage", "R0", "R1", "R2", "RT", "RB", "RE"}
  DnsOutcomes = {"servfail", "nosuccess", "nobidi", "R1", "R2", "RB"}
  Depth = 40
INVARIANT Emit
CHECK_DEADLOCK FALSE
