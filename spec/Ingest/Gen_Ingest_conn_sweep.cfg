SPECIFICATION GenSpec
CONSTANTS
  Scenario = "conn_sweep"
  Protocol = "atomic"
  SweepRecheck = TRUE
  ShareEnabled = TRUE
  ShareMode = "detached"
  ReloadProtocol = "snapshot"
INVARIANT Emit
CHECK_DEADLOCK FALSE
