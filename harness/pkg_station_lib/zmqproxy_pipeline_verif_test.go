//go:build verif

package lib

// Joint driver for spec/ZmqProxy and spec/Pipeline (extension module X03, stage D): the real RunZMQ/proxyZMQ feed the real
// HandleRegUpdates through regChan under ONE context, exactly as cmd/application/main.go wires them.  Valid registrations
// (C2SWrapper protobufs) are published on real upstream sockets; ingest workers are parked at the repository's
// "ingest.exists" yield point so that the shallow buffer fills and the pipeline drops.  One run produces two event logs:
//
//   log "zmq"  for Trace_ZmqProxy:  Pub, ConsFree, PipeQuiesce{zmq,drp,tot,chan,ingested}, CancelCall/Ret, Returned
//   log "pipe" for Trace_Pipeline:  Offer (one per message RunZMQ put into regChan: zmq - dropped, read from the ZMQ side),
//                                   Finish, Quiesce{ingested,dropped,buf,busy}, Cancel, Returned
//
// The link between the two specifications is checked on both sides: ZmqProxy must agree that exactly `ingested` messages
// left regChan (fwd - Len(chanq)), Pipeline must agree that exactly that many were offered.

import (
	"fmt"
	"io"
	"math/rand"
	"net"
	"os"
	"path/filepath"
	"sync"
	"sync/atomic"
	"testing"
	"time"

	"github.com/refraction-networking/conjure/pkg/core"
	"github.com/refraction-networking/conjure/pkg/station/log"
	"github.com/refraction-networking/conjure/pkg/transports/wrapping/min"
	"github.com/refraction-networking/conjure/pkg/verifhook"
	pb "github.com/refraction-networking/conjure/proto"
	"google.golang.org/protobuf/proto"
)

type vzpLive struct{}

func (vzpLive) PhantomIsLive(addr string, port uint16) (bool, error) {
	return false, fmt.Errorf("scripted: not live")
}
func (vzpLive) PrintAndReset(logger *log.Logger) {}
func (vzpLive) PrintStats(logger *log.Logger)    {}
func (vzpLive) Reset()                           {}

func vzpMsg(i int) []byte {
	secret := vSecret(fmt.Sprintf("zmq-pipe-%d", i))
	tt := pb.TransportType_Min
	gen := uint32(957)
	ver := core.CurrentClientLibraryVersion()
	tr, fl := true, false
	covert := "192.0.2.99:443"
	src := pb.RegistrationSource_API
	c2s := &pb.ClientToStation{Transport: &tt, DecoyListGeneration: &gen, ClientLibVersion: &ver, V4Support: &tr, V6Support: &fl,
		CovertAddress: &covert, Flags: &pb.RegistrationFlags{Prescanned: &tr}}
	c2sw := &pb.C2SWrapper{SharedSecret: secret, RegistrationPayload: c2s, RegistrationSource: &src,
		RegistrationAddress: net.ParseIP("198.51.100.7").To4()}
	raw, err := proto.Marshal(c2sw)
	if err != nil {
		panic(err)
	}
	return raw
}

type vzpPipe struct {
	rm                           *RegistrationManager
	arrivals, released, finished int64
	gate                         chan struct{}
	block                        atomic.Bool
}

func vzpNewPipe(t testing.TB, workers int) *vzpPipe {
	wd, _ := os.Getwd()
	os.Setenv("PHANTOM_SUBNET_LOCATION", filepath.Join(wd, "test", "phantom_subnets.toml"))
	rm := NewRegistrationManager(&RegConfig{EnableIPv4: true, EnableIPv6: true, IngestWorkerCount: workers})
	if rm == nil {
		t.Fatal("no registration manager")
	}
	rm.Logger = log.New(io.Discard, "", 0)
	rm.LivenessTester = vzpLive{}
	_ = rm.AddTransport(pb.TransportType_Min, min.Transport{})
	p := &vzpPipe{rm: rm, gate: make(chan struct{})}
	rm.registeredDecoys.registerForDetector = func(d *DecoyRegistration) { atomic.AddInt64(&p.finished, 1) }
	rm.registeredDecoys.updateInDetector = func(d *DecoyRegistration) {}
	p.block.Store(true)
	verifhook.SetYield(func(point string, id any) {
		if point != "ingest.exists" || !p.block.Load() {
			return
		}
		atomic.AddInt64(&p.arrivals, 1)
		<-p.gate
	})
	return p
}

func TestVerifZmqPipeline(t *testing.T) {
	out := vOpenOut(t)
	defer out.Close()
	rec := &vzRec{out: out}
	const workers = 10
	nworlds := vEnvInt("VERIF_WORLDS", 2)
	chanCap := vEnvInt("VERIF_CAP", 2)
	seed := vSeed()
	msgID := 0
	for wi := 0; wi < nworlds; wi++ {
		rng := rand.New(rand.NewSource(seed*104729 + int64(wi)))
		names := [][]string{{"c1", "n1", "xk1"}, {"n1", "c1", "c2", "xu1"}}[(int(seed)+wi)%2]
		w := vzNewWorld(t, names, chanCap)
		if bad := w.start(); bad != "" {
			rec.log(map[string]any{"kind": "prop", "prop": "Subscribes", "world": w.id,
				"detail": "nothing published on authenticated upstream " + bad + " arrived in regChan within 8 s"})
			w.teardown()
			break
		}
		p := vzpNewPipe(t, workers)
		wg := new(sync.WaitGroup)
		wg.Add(1)
		pipeReturned := make(chan struct{})
		go p.rm.HandleRegUpdates(w.ctx, w.regChan, wg)
		go func() { wg.Wait(); close(pipeReturned) }()
		for p.rm.ingestChan == nil {
			time.Sleep(100 * time.Microsecond)
		}
		rec.log(map[string]any{"log": "zmq", "a": "Reset"})
		rec.log(map[string]any{"log": "zmq", "a": "Start"})
		rec.log(map[string]any{"log": "zmq", "a": "ConsFree"})
		rec.log(map[string]any{"log": "pipe", "a": "Reset"})
		seq := map[string]int{}
		var good []*vzUp
		var badUps []*vzUp
		for _, u := range w.ups {
			if u.good {
				good = append(good, u)
			} else {
				badUps = append(badUps, u)
			}
		}
		pubGood, offered := int64(0), int64(0)
		pub := func(u *vzUp) {
			seq[u.name]++
			msgID++
			rec.log(map[string]any{"log": "zmq", "a": "Pub", "u": u.name, "n": seq[u.name]})
			w.send(u, vzpMsg(msgID))
			if u.good {
				pubGood++
			}
		}
		ok := true
		// quiesce: every good message counted by RunZMQ, every forwarded one taken by the pipeline or still in regChan, the
		// pipeline itself at rest; then both logs get their observation
		quiesce := func(after string) {
			deadline := time.Now().Add(5 * time.Second)
			stable := 0
			var z, tot, ing, drop, taken, rel, fin int64
			var buf, cl int
			for i := 0; ; i++ {
				z, tot = atomic.LoadInt64(&w.zi.zmqMessages), atomic.LoadInt64(&w.zi.totalDroppedZMQMessages)
				cl = len(w.regChan)
				ing, drop = atomic.LoadInt64(&p.rm.totalIngestMessages), atomic.LoadInt64(&p.rm.totalDroppedMessages)
				buf = len(p.rm.ingestChan)
				taken, rel, fin = atomic.LoadInt64(&p.arrivals), atomic.LoadInt64(&p.released), atomic.LoadInt64(&p.finished)
				busy := taken - rel
				if z == pubGood && atomic.LoadInt64(&w.drop.hits) == w.dropsCounted() && ing == z-tot-int64(cl) && cl == 0 &&
					ing == taken+int64(buf)+drop && fin == rel && (buf == 0 || busy == workers) {
					stable++
					if stable >= 3 {
						break
					}
				} else {
					stable = 0
				}
				if time.Now().After(deadline) {
					ok = false
					rec.log(map[string]any{"kind": "prop", "prop": "JointConservation", "world": w.id, "after": after,
						"detail": fmt.Sprintf("not quiescent/conserving 5 s after %s: published(good)=%d zmqMessages=%d zmqDropped=%d len(regChan)=%d pipeline ingested=%d dropped=%d buffered=%d taken=%d released=%d finished=%d",
							after, pubGood, z, tot, cl, ing, drop, buf, taken, rel, fin)})
					return
				}
				vzSpin(i)
			}
			for ; offered < z-tot; offered++ {
				rec.log(map[string]any{"log": "pipe", "a": "Offer"})
			}
			rec.log(map[string]any{"log": "pipe", "a": "Quiesce", "st": map[string]any{"ingested": ing, "dropped": drop, "buf": buf, "busy": taken - rel}})
			rec.log(map[string]any{"log": "zmq", "a": "PipeQuiesce", "zmq": z, "drp": atomic.LoadInt64(&w.zi.droppedZMQMessages), "tot": tot, "chan": cl, "ingested": ing})
		}
		nsteps := 30 + rng.Intn(15)
		for i := 0; i < nsteps && ok; i++ {
			busy := atomic.LoadInt64(&p.arrivals) - atomic.LoadInt64(&p.released)
			r := rng.Intn(100)
			switch {
			case busy > 0 && r < 25:
				atomic.AddInt64(&p.released, 1)
				p.gate <- struct{}{}
				rec.log(map[string]any{"log": "pipe", "a": "Finish"})
				quiesce("Finish")
			case r < 40 && len(badUps) > 0:
				pub(badUps[rng.Intn(len(badUps))])
				quiesce("Pub(unauthenticated)")
			case r < 55:
				for _, u := range good {
					pub(u)
				}
				quiesce("burst")
			default:
				pub(good[rng.Intn(len(good))])
				quiesce("Pub")
			}
		}
		// stop request: ONE context for RunZMQ and HandleRegUpdates (main.go)
		if ok {
			rec.log(map[string]any{"log": "zmq", "a": "CancelCall"})
			w.cancel()
			rec.log(map[string]any{"log": "zmq", "a": "CancelRet"})
			rec.log(map[string]any{"log": "pipe", "a": "Cancel"})
			for atomic.LoadInt64(&p.arrivals)-atomic.LoadInt64(&p.released) > 0 {
				atomic.AddInt64(&p.released, 1)
				p.gate <- struct{}{}
				rec.log(map[string]any{"log": "pipe", "a": "Finish"})
			}
			p.block.Store(false)
			select {
			case <-pipeReturned:
				rec.log(map[string]any{"log": "pipe", "a": "Returned"})
			case <-time.After(3 * time.Second):
				rec.log(map[string]any{"kind": "prop", "prop": "PipelineShutdown", "world": w.id,
					"detail": "HandleRegUpdates had not returned 3 s after the stop request"})
				ok = false
			}
			// as found RunZMQ needs traffic to notice the stop request; nobody reads regChan any more
			for k := 0; ok && !w.isReturned() && k < 3000; k++ {
				pub(good[k%len(good)])
				time.Sleep(300 * time.Microsecond)
			}
			if ok && w.isReturned() {
				rec.log(map[string]any{"log": "zmq", "a": "Returned"})
				time.Sleep(2 * time.Millisecond)
				rec.log(map[string]any{"log": "zmq", "a": "PipeQuiesce", "zmq": atomic.LoadInt64(&w.zi.zmqMessages), "drp": atomic.LoadInt64(&w.zi.droppedZMQMessages),
					"tot": atomic.LoadInt64(&w.zi.totalDroppedZMQMessages), "chan": len(w.regChan), "ingested": atomic.LoadInt64(&p.rm.totalIngestMessages)})
			} else if ok {
				rec.log(map[string]any{"kind": "prop", "prop": "ReturnsOnNextMessage", "world": w.id,
					"detail": "RunZMQ did not return although messages kept arriving after the stop request"})
			}
		}
		if !ok {
			w.cancel()
			p.block.Store(false)
			close(p.gate)
		}
		verifhook.SetYield(nil)
		w.teardown()
	}
	rec.log(map[string]any{"kind": "summary", "events": rec.n})
}
