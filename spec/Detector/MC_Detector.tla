---------------------------- MODULE MC_Detector ----------------------------
EXTENDS Detector
R(id, fam, reg, proto, port) == [id |-> id, fam |-> fam, phantom |-> id, registrant |-> reg,
                               client |-> IF reg = "absent" THEN "::" ELSE IF reg = "v6" THEN "c6" ELSE "c4", proto |-> proto, port |-> port]
\* admitted registration shapes: an IPv4 phantom always comes with an IPv4 registrant (admission rule, C07)
MCRegs == {R("a", "v4", "v4", "tcp", 443), R("b", "v4", "v4mapped", "udp", 443),
           R("c", "v6", "absent", "tcp", 443), R("d", "v6", "v6", "tcp", 8443), R("e", "v6", "v4", "udp", 443)}
\* two of them, for the life-cycle dynamics (packets keeping sessions alive, crash and restart, shutdown)
MCRegs2 == {R("a", "v4", "v4", "tcp", 443), R("c", "v6", "absent", "tcp", 443)}
=============================================================================
