SPECIFICATION Spec
CONSTANTS
  MinTag = 2
  PfxTag = 3
  ObfsMin = 3
  ObfsMax = 6
  MaxRead = 3
  DeadlineSource = "private"
  MarkMode = "release"
  MaxW = 2
  LookupMode = "stale-after-validate"
  MaxConns = 2
  LookupLocks = "single"
  MaxWrites = 0
  Cases <- SessCases
VIEW view
INVARIANTS NeverDropsMatching FoundWhenComplete
CHECK_DEADLOCK FALSE
