//go:build verif

package lib

// Driver for spec/Admission (property C07): every row of the admission table TLC emitted is turned into a real
// C2SWrapper and pushed through the real parseRegMessage + ingestRegistration of a RegistrationManager configured as the
// row says; what becomes visible / tracked / announced / probed / shared is compared with the specification's outcome.

import (
	"encoding/binary"
	"encoding/json"
	"errors"
	"fmt"
	"io"
	"net"
	"net/http"
	"net/http/httptest"
	"os"
	"sync"
	"sync/atomic"
	"syscall"
	"testing"
	"time"

	"github.com/refraction-networking/conjure/pkg/core"
	"github.com/refraction-networking/conjure/pkg/station/log"
	"github.com/refraction-networking/conjure/pkg/transports/wrapping/min"
	pb "github.com/refraction-networking/conjure/proto"
	"google.golang.org/protobuf/proto"
	"google.golang.org/protobuf/types/known/anypb"
)

type vadmRow struct {
	Payload    string `json:"payload"`
	Transport  string `json:"transport"`
	Params     string `json:"params"`
	Gen        string `json:"gen"`
	C4         bool   `json:"c4"`
	C6         bool   `json:"c6"`
	Registrant string `json:"registrant"`
	Source     string `json:"source"`
	Prescanned bool   `json:"prescanned"`
	Covert     string `json:"covert"`
	S4         bool   `json:"s4"`
	S6         bool   `json:"s6"`
	Blocked4   bool   `json:"blocked4"`
	Blocked6   bool   `json:"blocked6"`
	Share      bool   `json:"share"`
	Live       bool   `json:"live"`
	Ovr        string `json:"ovr"`
}

// registrar override addresses: an IPv4 one for the IPv4 half, an IPv6 one for the IPv6 half, and an IPv4 one that a
// registrar put into the Ipv6Addr field ("cross": 4-byte and IPv4-mapped 16-byte encodings alternate)
var (
	vadmOv4    = net.ParseIP("192.122.190.77").To4()
	vadmOv6    = net.ParseIP("2001:48a8:687f:1::77")
	vadmCross4 = net.ParseIP("192.122.190.78").To4()
)

type vadmOut struct {
	Visible   []string `json:"visible"`
	Announced int      `json:"announced"`
	Tracked   []string `json:"tracked"`
	Probes    int      `json:"probes"`
	Shares    int      `json:"shares"`
}

type vadmLine struct {
	Row vadmRow `json:"row"`
	Out vadmOut `json:"out"`
}

var vadmSources = map[string]*pb.RegistrationSource{
	"unspecified": nil,
	"api":         pb.RegistrationSource_API.Enum(),
	"detector":    pb.RegistrationSource_Detector.Enum(),
	"prescan":     pb.RegistrationSource_DetectorPrescan.Enum(),
	"bdapi":       pb.RegistrationSource_BidirectionalAPI.Enum(),
	"dns":         pb.RegistrationSource_DNS.Enum(),
	"bddns":       pb.RegistrationSource_BidirectionalDNS.Enum(),
}

func vadmMessage(r *vadmRow, secret []byte, n int) []byte {
	w := &pb.C2SWrapper{SharedSecret: secret, RegistrationSource: vadmSources[r.Source]}
	switch r.Ovr {
	case "same":
		w.RegistrationResponse = &pb.RegistrationResponse{Ipv4Addr: proto.Uint32(binary.BigEndian.Uint32(vadmOv4)), Ipv6Addr: []byte(vadmOv6)}
	case "cross":
		x := []byte(vadmCross4)
		if n%2 == 1 {
			x = []byte(vadmCross4.To16())
		}
		w.RegistrationResponse = &pb.RegistrationResponse{Ipv4Addr: proto.Uint32(binary.BigEndian.Uint32(vadmOv4)), Ipv6Addr: x}
	}
	switch r.Registrant {
	case "v4":
		w.RegistrationAddress = net.ParseIP("198.51.100.7").To4()
	case "v6":
		w.RegistrationAddress = net.ParseIP("2001:db8::7")
	case "v4mapped":
		w.RegistrationAddress = net.ParseIP("198.51.100.7").To16()
	}
	if r.Payload == "present" {
		var tt pb.TransportType
		switch r.Transport {
		case "enabled":
			tt = pb.TransportType_Min
		case "disabled":
			tt = pb.TransportType_Obfs4
		default:
			tt = pb.TransportType(99)
		}
		gen := uint32(957)
		if r.Gen == "unknown" {
			gen = 123456
		}
		ver := core.CurrentClientLibraryVersion()
		c4, c6, pre := r.C4, r.C6, r.Prescanned
		c2s := &pb.ClientToStation{Transport: &tt, DecoyListGeneration: &gen, ClientLibVersion: &ver, V4Support: &c4, V6Support: &c6,
			Flags: &pb.RegistrationFlags{Prescanned: &pre}}
		switch r.Covert {
		case "ok":
			c2s.CovertAddress = proto.String("192.0.2.5:443")
		case "blocked":
			c2s.CovertAddress = proto.String("10.1.1.1:443")
		case "malformed":
			c2s.CovertAddress = proto.String("not an address")
		}
		switch r.Params {
		case "valid":
			fl := false
			a, _ := anypb.New(&pb.GenericTransportParams{RandomizeDstPort: &fl})
			c2s.TransportParams = a
		case "invalid":
			c2s.TransportParams = &anypb.Any{TypeUrl: "type.googleapis.com/proto.GenericTransportParams", Value: []byte{0xff, 0xff, 0xff, 0xff}}
		}
		w.RegistrationPayload = c2s
	}
	raw, err := proto.Marshal(w)
	if err != nil {
		panic(err)
	}
	return raw
}

func TestVerifAdmission(t *testing.T) {
	out := vOpenOut(t)
	defer out.Close()
	os.Setenv("PHANTOM_SUBNET_LOCATION", vingSubnetFile(t))

	var mu sync.Mutex
	var sharedMsgs []*pb.C2SWrapper
	srv := httptest.NewServer(http.HandlerFunc(func(rw http.ResponseWriter, r *http.Request) {
		b, _ := io.ReadAll(r.Body)
		c := &pb.C2SWrapper{}
		if err := proto.Unmarshal(b, c); err == nil {
			mu.Lock()
			sharedMsgs = append(sharedMsgs, c)
			mu.Unlock()
		}
		rw.WriteHeader(200)
	}))
	defer srv.Close()

	conf := &RegConfig{CovertBlocklistSubnets: []string{"10.0.0.0/8"}, PreshareEndpoint: srv.URL}
	conf.ParseBlocklists()
	rm := NewRegistrationManager(conf)
	if rm == nil {
		t.Fatal("no registration manager")
	}
	rm.Logger = log.New(io.Discard, "", 0)
	live := &vingLive{}
	rm.LivenessTester = live

	secret := vSecret("admission")
	keys, err := core.GenSharedKeys(uint(core.CurrentClientLibraryVersion()), secret, pb.TransportType_Min)
	if err != nil {
		t.Fatal(err)
	}
	p4, err4 := rm.PhantomSelector.Select(keys.ConjureSeed, 957, uint(core.CurrentClientLibraryVersion()), false)
	p6, err6 := rm.PhantomSelector.Select(keys.ConjureSeed, 957, uint(core.CurrentClientLibraryVersion()), true)
	if err4 != nil || err6 != nil {
		t.Fatalf("phantom dry run: %v %v", err4, err6)
	}
	derived := map[string]net.IP{"v4": *p4.IP(), "v6": *p6.IP()}
	host := func(ip net.IP) *net.IPNet {
		if ip.To4() != nil {
			return &net.IPNet{IP: ip.To4(), Mask: net.CIDRMask(32, 32)}
		}
		return &net.IPNet{IP: ip, Mask: net.CIDRMask(128, 128)}
	}

	var announced int32
	nrows, nmis := 0, 0
	vReadLines(t, func(line []byte) {
		var l vadmLine
		if err := json.Unmarshal(line, &l); err != nil {
			t.Fatalf("row: %v", err)
		}
		r := &l.Row
		nrows++
		// the phantom each half of the message will use
		ph := map[string]net.IP{"v4": derived["v4"], "v6": derived["v6"]}
		switch r.Ovr {
		case "same":
			ph["v4"], ph["v6"] = vadmOv4, vadmOv6
		case "cross":
			ph["v4"], ph["v6"] = vadmOv4, vadmCross4
		}
		n4, n6 := host(ph["v4"]), host(ph["v6"])
		// a fresh registry, configured as the row says
		rm.registeredDecoys = NewRegisteredDecoys()
		_ = rm.AddTransport(pb.TransportType_Min, min.Transport{})
		atomic.StoreInt32(&announced, 0)
		rm.registeredDecoys.registerForDetector = func(d *DecoyRegistration) { atomic.AddInt32(&announced, 1) }
		rm.registeredDecoys.updateInDetector = func(d *DecoyRegistration) {}
		rm.EnableIPv4, rm.EnableIPv6, rm.EnableShareOverAPI = r.S4, r.S6, r.Share
		rm.RegConfig.phantomBlocklist = nil
		if r.Blocked4 {
			rm.RegConfig.phantomBlocklist = append(rm.RegConfig.phantomBlocklist, n4)
		}
		if r.Blocked6 {
			rm.RegConfig.phantomBlocklist = append(rm.RegConfig.phantomBlocklist, n6)
		}
		live.live = r.Live
		atomic.StoreInt32(&live.calls, 0)
		mu.Lock()
		sharedMsgs = nil
		mu.Unlock()

		got := map[string]any{}
		func() {
			defer func() {
				if rec := recover(); rec != nil {
					got["panic"] = fmt.Sprint(rec)
				}
			}()
			regs, err := rm.parseRegMessage(vadmMessage(r, secret, nrows))
			if err == nil {
				for _, reg := range regs {
					if reg != nil {
						rm.ingestRegistration(reg)
					}
				}
			}
		}()
		// the share request is sent from its own goroutine
		if r.Source == "detector" && r.Share {
			deadline := time.Now().Add(500 * time.Millisecond)
			for time.Now().Before(deadline) {
				mu.Lock()
				n := len(sharedMsgs)
				mu.Unlock()
				if n >= l.Out.Shares && l.Out.Shares > 0 {
					break
				}
				if l.Out.Shares == 0 && time.Until(deadline) < 495*time.Millisecond {
					break
				}
				time.Sleep(100 * time.Microsecond)
			}
			time.Sleep(300 * time.Microsecond)
		}
		visible, tracked := []string{}, []string{}
		for _, f := range []string{"v4", "v6"} {
			if len(rm.GetRegistrations(ph[f])) > 0 {
				visible = append(visible, f)
			}
			if rm.CountRegistrations(ph[f]) > 0 {
				tracked = append(tracked, f)
			}
		}
		mu.Lock()
		nshare := len(sharedMsgs)
		shareOK := true
		for _, m := range sharedMsgs {
			if !m.GetRegistrationPayload().GetFlags().GetPrescanned() || m.GetRegistrationSource() != pb.RegistrationSource_DetectorPrescan {
				shareOK = false
			}
		}
		mu.Unlock()
		got["visible"], got["tracked"] = visible, tracked
		// with an override in force nothing may be registered on the phantoms the station derived itself
		stray := 0
		if r.Ovr == "same" || r.Ovr == "cross" {
			stray = rm.CountRegistrations(derived["v4"]) + rm.CountRegistrations(derived["v6"])
		}
		got["stray"] = stray
		got["announced"], got["probes"], got["shares"] = int(atomic.LoadInt32(&announced)), int(atomic.LoadInt32(&live.calls)), nshare
		want := map[string]any{"visible": l.Out.Visible, "tracked": l.Out.Tracked, "announced": l.Out.Announced, "probes": l.Out.Probes, "shares": l.Out.Shares, "stray": 0}
		if want["visible"] == nil {
			want["visible"] = []string{}
		}
		if want["tracked"] == nil {
			want["tracked"] = []string{}
		}
		if vCanon(vNorm(got)) != vCanon(vNorm(want)) || !shareOK {
			nmis++
			if nmis <= 300 {
				out.Emit(map[string]any{"kind": "mismatch", "row": r, "want": want, "got": got, "share_marked_prescanned": shareOK})
			}
		}
	})
	out.Emit(map[string]any{"kind": "summary", "rows": nrows, "mismatches": nmis})
}

// ---------------------------------------------------------------- the real liveness probe (spec/Probe)
//
// TestVerifAdmissionProbe executes the rows of spec/Probe on the real code with REAL sockets: the station's own liveness
// tester (liveness.New with an empty configuration = the uncached tester around phantomIsLive) probes loopback endpoints
// that accept, refuse (closed port: RST), are unreachable (an address without a route, if this host has one) or stay
// silent (a listener whose accept queue is full: the kernel drops further SYNs).  Each endpoint's class is established by
// an independent dial of the driver before and after the row.  Two levels: the tester alone, and a complete registration
// (phantom and port pinned to the endpoint by the registrar's overrides) through parseRegMessage + ingestRegistration.

type vprEndpoint struct {
	kind    string
	ip      net.IP
	port    int
	cleanup func()
}

func vprClassify(ip net.IP, port int) string {
	c, err := net.DialTimeout("tcp", net.JoinHostPort(ip.String(), fmt.Sprint(port)), 600*time.Millisecond)
	if err == nil {
		c.Close()
		return "accepts"
	}
	var ne net.Error
	if errors.As(err, &ne) && ne.Timeout() {
		return "silent"
	}
	if errors.Is(err, syscall.ECONNREFUSED) {
		return "refuses"
	}
	if errors.Is(err, syscall.ENETUNREACH) || errors.Is(err, syscall.EHOSTUNREACH) {
		return "unreachable"
	}
	return "other:" + err.Error()
}

func vprAccepting() (*vprEndpoint, error) {
	ln, err := net.Listen("tcp4", "127.0.0.1:0")
	if err != nil {
		return nil, err
	}
	go func() {
		for {
			c, err := ln.Accept()
			if err != nil {
				return
			}
			c.Close()
		}
	}()
	return &vprEndpoint{kind: "accepts", ip: net.ParseIP("127.0.0.1"), port: ln.Addr().(*net.TCPAddr).Port, cleanup: func() { ln.Close() }}, nil
}

func vprRefusing() (*vprEndpoint, error) {
	ln, err := net.Listen("tcp4", "127.0.0.1:0")
	if err != nil {
		return nil, err
	}
	port := ln.Addr().(*net.TCPAddr).Port
	ln.Close() // nobody listens there any more: the kernel answers SYNs with RST
	return &vprEndpoint{kind: "refuses", ip: net.ParseIP("127.0.0.1"), port: port, cleanup: func() {}}, nil
}

// a listener with backlog 0 whose accept queue has been filled: further SYNs are dropped silently
func vprSilent() (*vprEndpoint, error) {
	fd, err := syscall.Socket(syscall.AF_INET, syscall.SOCK_STREAM, 0)
	if err != nil {
		return nil, err
	}
	if err := syscall.Bind(fd, &syscall.SockaddrInet4{Addr: [4]byte{127, 0, 0, 1}}); err != nil {
		syscall.Close(fd)
		return nil, err
	}
	if err := syscall.Listen(fd, 0); err != nil {
		syscall.Close(fd)
		return nil, err
	}
	sa, err := syscall.Getsockname(fd)
	if err != nil {
		syscall.Close(fd)
		return nil, err
	}
	port := sa.(*syscall.SockaddrInet4).Port
	var held []net.Conn
	cleanup := func() {
		for _, c := range held {
			c.Close()
		}
		syscall.Close(fd)
	}
	for i := 0; i < 12; i++ {
		c, err := net.DialTimeout("tcp4", fmt.Sprintf("127.0.0.1:%d", port), 400*time.Millisecond)
		if err != nil {
			var ne net.Error
			if errors.As(err, &ne) && ne.Timeout() {
				return &vprEndpoint{kind: "silent", ip: net.ParseIP("127.0.0.1"), port: port, cleanup: cleanup}, nil
			}
			cleanup()
			return nil, err
		}
		held = append(held, c)
	}
	cleanup()
	return nil, fmt.Errorf("the accept queue never filled up")
}

func vprUnreachable() (*vprEndpoint, error) {
	for _, a := range []string{"192.0.2.1", "198.51.100.1", "203.0.113.1"} {
		if vprClassify(net.ParseIP(a), 443) == "unreachable" {
			return &vprEndpoint{kind: "unreachable", ip: net.ParseIP(a), port: 443, cleanup: func() {}}, nil
		}
	}
	return nil, fmt.Errorf("this host routes the documentation networks somewhere")
}

type vprRow struct {
	Net        string `json:"net"`
	Prescanned bool   `json:"prescanned"`
	Probed     bool   `json:"probed"`
	Live       bool   `json:"live"`
	Admitted   bool   `json:"admitted"`
}

func TestVerifAdmissionProbe(t *testing.T) {
	out := vOpenOut(t)
	defer out.Close()
	os.Setenv("PHANTOM_SUBNET_LOCATION", vingSubnetFile(t))
	conf := &RegConfig{EnableIPv4: true, EnableIPv6: true}
	conf.ParseBlocklists()
	rm := NewRegistrationManager(conf)
	if rm == nil {
		t.Fatal("no registration manager")
	}
	rm.Logger = log.New(io.Discard, "", 0)
	// the station's own tester, as NewRegistrationManager built it from an empty configuration: the uncached real probe
	if got := fmt.Sprintf("%T", rm.LivenessTester); got != "*liveness.UncachedLivenessTester" {
		t.Fatalf("unexpected default liveness tester %s", got)
	}
	_ = rm.AddTransport(pb.TransportType_Min, min.Transport{})
	var announced int32
	rm.registeredDecoys.registerForDetector = func(d *DecoyRegistration) { atomic.AddInt32(&announced, 1) }
	rm.registeredDecoys.updateInDetector = func(d *DecoyRegistration) {}
	mk := map[string]func() (*vprEndpoint, error){"accepts": vprAccepting, "refuses": vprRefusing, "silent": vprSilent, "unreachable": vprUnreachable}
	covered := map[string]bool{}
	nrows := 0
	vReadLines(t, func(line []byte) {
		var r vprRow
		if err := json.Unmarshal(line, &r); err != nil {
			t.Fatalf("row: %v", err)
		}
		ep, err := mk[r.Net]()
		if err != nil {
			out.Emit(map[string]any{"kind": "skipped", "row": r, "why": err.Error()})
			return
		}
		defer ep.cleanup()
		if cls := vprClassify(ep.ip, ep.port); cls != r.Net {
			out.Emit(map[string]any{"kind": "skipped", "row": r, "why": "endpoint behaves as " + cls})
			return
		}
		nrows++
		// level 1: the tester alone
		if !r.Prescanned {
			live, perr := rm.LivenessTester.PhantomIsLive(ep.ip.String(), uint16(ep.port))
			if live != r.Live {
				out.Emit(map[string]any{"kind": "mismatch", "level": "tester", "row": r, "got_live": live, "err": fmt.Sprint(perr)})
			}
		}
		// level 2: a complete registration pinned to the endpoint
		secret := vSecret(fmt.Sprintf("probe-%d", nrows))
		tt := pb.TransportType_Min
		gen := uint32(957)
		ver := core.CurrentClientLibraryVersion()
		tr, fl, pre := true, false, r.Prescanned
		covert := "192.0.2.5:443"
		c2s := &pb.ClientToStation{Transport: &tt, DecoyListGeneration: &gen, ClientLibVersion: &ver, V4Support: &tr, V6Support: &fl,
			CovertAddress: &covert, Flags: &pb.RegistrationFlags{Prescanned: &pre}}
		ip4 := binary.BigEndian.Uint32(ep.ip.To4())
		port := uint32(ep.port)
		w := &pb.C2SWrapper{SharedSecret: secret, RegistrationPayload: c2s, RegistrationSource: pb.RegistrationSource_BidirectionalAPI.Enum(),
			RegistrationAddress: net.ParseIP("198.51.100.7").To4(), RegistrationResponse: &pb.RegistrationResponse{Ipv4Addr: &ip4, DstPort: &port}}
		raw, err := proto.Marshal(w)
		if err != nil {
			t.Fatal(err)
		}
		rm.registeredDecoys = NewRegisteredDecoys()
		_ = rm.AddTransport(pb.TransportType_Min, min.Transport{})
		atomic.StoreInt32(&announced, 0)
		rm.registeredDecoys.registerForDetector = func(d *DecoyRegistration) { atomic.AddInt32(&announced, 1) }
		rm.registeredDecoys.updateInDetector = func(d *DecoyRegistration) {}
		regs, perr := rm.parseRegMessage(raw)
		if perr != nil || len(regs) != 1 {
			out.Emit(map[string]any{"kind": "mismatch", "level": "ingest", "row": r, "err": fmt.Sprint(perr), "what": "registration not built"})
			return
		}
		rm.ingestRegistration(regs[0])
		visible := len(rm.GetRegistrations(ep.ip)) > 0
		ann := int(atomic.LoadInt32(&announced))
		if visible != r.Admitted || (ann == 1) != r.Admitted {
			out.Emit(map[string]any{"kind": "mismatch", "level": "ingest", "row": r, "visible": visible, "announced": ann})
		}
		if cls := vprClassify(ep.ip, ep.port); cls != r.Net {
			out.Emit(map[string]any{"kind": "unstable", "row": r, "now": cls})
			return
		}
		covered[r.Net] = true
	})
	cl := []string{}
	for k := range covered {
		cl = append(cl, k)
	}
	out.Emit(map[string]any{"kind": "summary", "rows": nrows, "covered": cl})
}
