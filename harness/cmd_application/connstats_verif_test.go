//go:build verif

package main

// C19, housekeeping of the fifth statistics module main.go registers: the connection manager (package main, so
// it cannot be reached from the pkg/station/lib driver; it does not depend on the configuration).  Seeded random
// counter activity through every transition method, then the verbose tick (PrintAndReset) and Reset under
// recover() - Config.tla's HousekeepingTotal says every one of them returns.

import (
	"fmt"
	"io"
	"math/rand"
	"testing"

	"github.com/refraction-networking/conjure/pkg/station/log"
)

func TestVerifConnStatsHousekeeping(t *testing.T) {
	out := vOpenOut(t)
	defer out.Close()
	rng := rand.New(rand.NewSource(vSeed()*31 + 19))
	rounds := vEnvInt("VERIF_ROUNDS", 200)
	logger := log.New(io.Discard, "[STATS] ", 0)
	cm := newConnManager(nil)
	trans := []func(uint, string, bool){cm.addCreated, cm.createdToDiscard, cm.createdToCheck, cm.createdToReset, cm.createdToTimeout,
		cm.createdToError, cm.createdToClose, cm.readToCheck, cm.readToTimeout, cm.readToReset, cm.readToError, cm.checkToCreated,
		cm.checkToRead, cm.checkToFound, cm.checkToError, cm.checkToDiscard, cm.discardToReset, cm.discardToTimeout, cm.discardToError,
		cm.discardToClose}
	conn := []func(uint, string, string){cm.AddCreatedConnecting, cm.AddCreatedToListenSuccessfulConnecting, cm.AddCreatedToDialSuccessfulConnecting,
		cm.AddCreatedToSuccessfulConnecting, cm.AddCreatedToTimeoutConnecting, cm.AddSuccessfulToDiscardedConnecting, cm.AddAuthFailConnecting,
		cm.AddOtherFailConnecting}
	asns := []uint{0, 1, 237, 64512, 4294967295}
	ccs := []string{"", "unk", "US", "cn", "IR", "ZZ", "toolong"}
	tps := []string{"dtls", "", "other"}
	panics := []string{}
	try := func(what string, f func()) {
		defer func() {
			if r := recover(); r != nil && len(panics) < 20 {
				panics = append(panics, fmt.Sprintf("%s: %v", what, r))
			}
		}()
		f()
	}
	ticks, calls := 0, 0
	for r := 0; r < rounds; r++ {
		n := 0
		if r > 0 { // the very first tick sees a station that has not handled a single connection
			n = rng.Intn(60)
		}
		for i := 0; i < n; i++ {
			asn, cc := asns[rng.Intn(len(asns))], ccs[rng.Intn(len(ccs))]
			calls++
			if rng.Intn(4) == 0 {
				f := conn[rng.Intn(len(conn))]
				tp := tps[rng.Intn(len(tps))]
				try("connecting counter", func() { f(asn, cc, tp) })
			} else {
				f := trans[rng.Intn(len(trans))]
				v4 := rng.Intn(2) == 0
				try("transition counter", func() { f(asn, cc, v4) })
			}
		}
		ticks++
		try("PrintAndReset", func() { cm.PrintAndReset(logger) })
		if rng.Intn(5) == 0 {
			try("Reset", func() { cm.Reset() })
		}
	}
	out.Emit(map[string]any{"kind": "connstats", "ticks": ticks, "counter_calls": calls, "panics": panics})
}
