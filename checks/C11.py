"""C11 - no externally supplied bytes can crash a station or registrar process.

Level: exploration (DESIGN.md section 6: a TLA+ specification generates the STRUCTURED half of the input space; bytes far
from any well-formed message are not covered).

A  TLC on spec/Wire (Gen_Wire.tla explores Wire.tla's behaviours and prints the rows): every message type is a record of
   fields over shape classes (absent / empty / short / exact / long / wrong type / out of range ...), one entry point per
   external interface, outcome in {error, ignored, accepted}; invariants NeverCrash, NeverHangs, NoFourthValue,
   AlwaysAnswersHTTP (+ AcceptedOnlyWhenComplete, StatusMatchesOutcome, NominalAccepted, TypeOK).  The receiving code is
   modelled as the list of guards between a field class and the dereference / slice / loop that needs it.
   quick: full products of the small entry points + base-choice covering design of strength 2 (all pairs of field classes
   in every mode) of the message-shaped ones + seeded samples; thorough: + strength 3 (all triples) around one base.
   Non-vacuity: the instance "as found" (registerBidirectional without the payload nil check, H-C11-1) must violate
   AlwaysAnswersHTTP; an instance without the DNS compression-pointer limit must violate NeverHangs; every guard the
   specification lists must be exercised by at least one generated row.
B  every row TLC printed is serialised and delivered to the real entry point under recover() + a per-call timeout, plus
   its mutation neighbourhood (nominal rows: truncation at every offset; a seeded subset of the other rows: sampled
   truncations; seeded bit flips):
     station.ingest     lib.parseRegMessage + ingestRegistration, real transports min/obfs4/prefix/dtls registered
     station.wrap       WrapConnection of min / prefix / obfs4 with first-flight classes, registrations present or not
     transport.params   ParseParams / GetDstPort / ParamStrings of min / obfs4 / prefix / dtls
     dtls.connect       dtls.Transport.Connect (real DNAT packet construction, no peer) with every parameter shape
     regproc            RegisterBidirectional / RegisterUnidirectional / processBdReq / processC2SWrapper
     api                raw HTTP requests to a real net/http server routed like APIRegServer.ListenAndServe, real
                        RegProcessor behind it; observed at the client: status line or connection closed without one
     dnsreg             DNSRegServer.processRequest
     responder          real DNSRegServer (NewDNSRegServer) answering on a loopback UDP socket: RecvAndRespond ->
                        dns.MessageFromWireFormat -> msgformat -> Noise -> processRequest; the same bytes also directly
                        into dns.MessageFromWireFormat / WireFormat / DecodeRDataTXT
     msgformat/rdatatxt Remove{Request,Response}Format, DecodeRDataTXT with their complete neighbourhoods
   A panic the harness cannot recover (a goroutine of the code under test) kills the test binary; the row in flight is
   read from the progress marker, reported, and the driver resumed behind it.
Violation keys: <panic|nostatus|hang>:<site>:<entry point>:<field classes the failing rows have in common>
(site = top non-runtime frame of the panic stack; for a hang the innermost frame of the repository's code in the stuck goroutine).
"""
import copy, json, os, re, threading, time
import vlib

COMMON = ["common/vcommon_test.go", "common/wire_common_test.go"]
BRIDGE_RP = ("pkg/regserver/regprocessor", ["pkg_regprocessor/wire_bridge_verif.go"], "regprocessor")
BRIDGE_RESP = ("pkg/registrars/dns-registrar/responder", ["pkg_dnsregistrar_responder/wire_bridge_verif.go"], "responder")

# chains run in parallel (one per package: drivers of one package share an overlay directory)
CHAINS = {
    "lib": dict(pkg="pkg/station/lib", pkgname="lib", files=COMMON + ["pkg_station_lib/wire_verif_test.go"], extra=None,
                drivers=[("station.ingest", "TestVerifWireIngest", ["station.ingest"]),
                         ("station.wrap", "TestVerifWireWrap", ["station.wrap"]),
                         ("transport.params", "TestVerifWireParams", ["transport.params"])]),
    "dtls": dict(pkg="pkg/transports/connecting/dtls", pkgname="dtls", files=COMMON + ["pkg_transports_dtls/wire_dtls_verif_test.go"],
                 extra=[("pkg/dtls/dnat", ["pkg_dtls_dnat/wire_bridge_verif.go"], "dnat")],
                 drivers=[("dtls.connect", "TestVerifWireDtlsConnect", ["dtls.connect"])]),
    "regprocessor": dict(pkg="pkg/regserver/regprocessor", pkgname="regprocessor",
                         files=COMMON + ["pkg_regprocessor/wire_bridge_verif.go", "pkg_regprocessor/wire_verif_test.go"], extra=None,
                         drivers=[("regproc", "TestVerifWireRegproc", ["regproc"])]),
    "apiregserver": dict(pkg="pkg/regserver/apiregserver", pkgname="apiregserver", files=COMMON + ["pkg_regserver_api/wire_api_verif_test.go"],
                         extra=[BRIDGE_RP], drivers=[("api", "TestVerifWireAPI", ["api"])]),
    "dnsregserver": dict(pkg="pkg/regserver/dnsregserver", pkgname="dnsregserver", files=COMMON + ["pkg_regserver_dns/wire_dns_verif_test.go"],
                         extra=[BRIDGE_RP, BRIDGE_RESP],
                         drivers=[("dnsreg", "TestVerifWireDNSReg", ["dnsreg"]),
                                  ("responder", "TestVerifWireResponder", ["responder"]),
                                  ("codecs", "TestVerifWireCodecs", ["msgformat", "rdatatxt"])]),
}
MESSAGE_EPS = ["station.ingest", "regproc", "api", "dnsreg", "responder"]
MAX_RESTARTS = 15
MAX_SAME_SITE = 4


def clean_site(s):
    s = (s or "unknown").replace("(*", "").replace(")", "").replace("(", "")
    return re.sub(r"[^A-Za-z0-9_.\-:]", "_", s)


def top_frame(stack):
    """first frame below the panic machinery that is not runtime / testing (go test output of a dying binary)"""
    lines = stack.split("\n")
    seen_panic = False
    for i, l in enumerate(lines):
        if l.startswith("\t") or not l.strip() or l.startswith("goroutine "):
            continue
        fn = l[:l.rfind("(")] if "(" in l else l
        if fn.startswith("panic") or fn.startswith("runtime."):
            if "panic" in fn:
                seen_panic = True
            continue
        if not seen_panic:
            continue
        if fn.startswith("runtime/debug.") or fn.startswith("testing."):
            continue
        short = fn.strip().split("/")[-1]
        nxt = lines[i + 1] if i + 1 < len(lines) else ""
        return ("harness:" if "_verif" in nxt else "") + short
    return "unknown"


def split_rows(beh_file, scratch, tag):
    """one rows file per driver (ndjson as TLC printed it, de-duplicated); returns per driver (path, n) and statistics"""
    ep2drv = {}
    for ch in CHAINS.values():
        for (name, _t, eps) in ch["drivers"]:
            for e in eps:
                ep2drv[e] = name
    files, counts, seen = {}, {}, set()
    trig = {}
    nominal = {}
    samples = []
    domain = {}
    with open(beh_file) as fi:
        for line in fi:
            h = hash(line)
            if h in seen:
                continue
            seen.add(h)
            row = json.loads(line)
            d = ep2drv[row["ep"]]
            if d not in files:
                files[d] = open(os.path.join(scratch, "rows_%s_%s.ndjson" % (tag, d)), "w")
                counts[d] = 0
            files[d].write(line)
            counts[d] += 1
            for g in row["triggers"]:
                trig[g] = trig.get(g, 0) + 1
            dm = domain.setdefault(row["ep"], {})
            for k, v in row["f"].items():
                dm.setdefault(k, set()).add(v)
            if row["nominal"]:
                nominal.setdefault(row["ep"], []).append(row["f"])
            if len(samples) < 3 and row["triggers"]:
                samples.append(row)
    for f in files.values():
        f.close()
    return {d: (files[d].name, counts[d]) for d in files}, trig, nominal, samples, domain


def run_driver(c, ch, name, test, rows_path, nrows, env, log):
    """crash-resilient execution of one driver; returns (records, crashes, deliveries_lost_estimate)"""
    start, records, crashes = 0, [], []
    for attempt in range(MAX_RESTARTS + 1):
        outp = os.path.join(c.scratch, "out_%s_%d.ndjson" % (name, attempt))
        prog = os.path.join(c.scratch, "progress_%s" % name)
        if os.path.exists(prog):
            os.unlink(prog)
        e = dict(env)
        e.update({"VERIF_IN": rows_path, "VERIF_OUT": outp, "VERIF_PROGRESS": prog, "VERIF_START": start, "VERIF_TMP": c.scratch})
        res = c.go_test(ch["pkg"], ch["files"], ch["pkgname"], "^%s$" % test, env=e, timeout=3000, extra_overlays=ch["extra"])
        recs = []
        if os.path.exists(outp):
            for l in open(outp, errors="replace"):
                l = l.strip()
                if l:
                    try:
                        recs.append(json.loads(l))
                    except ValueError:
                        pass  # a line cut by the crash
        records += recs
        if any(r.get("kind") == "summary" for r in recs):
            return records, crashes
        # the binary died: which row was in flight, and where did it die
        out = res["out"]
        idx, variant = None, ""
        if os.path.exists(prog):
            parts = open(prog).read().split()
            if parts:
                idx = int(parts[0])
                variant = parts[1] if len(parts) > 1 else ""
        m = re.search(r"^(panic: .*|fatal error: .*)$", out, re.M)
        if idx is None or idx < 0 or not m or "test timed out" in m.group(1) and False:
            raise vlib.InfraError("driver %s stopped without a summary and without a panic:\n%s" % (name, out[-3000:]))
        stack = out[m.start():m.start() + 6000]
        what = "hang" if "test timed out" in m.group(1) else "panic"
        crashes.append({"idx": idx, "variant": variant, "panic": m.group(1)[:300], "site": top_frame(stack), "stack": stack, "what": what,
                        "unrecoverable": True})
        log("driver %s died at row %d%s (%s at %s); resuming behind it" % (name, idx, " " + variant if variant else "", m.group(1)[:80], crashes[-1]["site"]))
        start = idx + 1
        same = [x for x in crashes if x["site"] == crashes[-1]["site"]]
        if len(same) >= MAX_SAME_SITE:
            log("driver %s: %d crashes at %s - not resuming this driver (rows behind row %d are not executed in this run)" % (name, len(same), crashes[-1]["site"], idx))
            start = nrows
        if start >= nrows:
            records.append({"kind": "summary", "rows": 0, "deliveries": 0, "counts": {}, "disagreements": 0, "nominal_not_accepted": 0, "partial": True})
            return records, crashes
    raise vlib.InfraError("driver %s died more than %d times" % (name, MAX_RESTARTS))


def combination(fs, domain, nominals, strong=False):
    """the field classes that matter for a set of failing rows.
    Many rows: a field is named when the failing rows do not show all of its classes, with every class they do show
    (payload=absent,clientconf=equal|newer|older).  Few rows (a dying driver is resumed a few times only): the classes all
    failing rows share and that differ from the closest nominal row."""
    if len(fs) >= 30 or not nominals:
        parts = []
        for k in sorted(domain):
            seen = {f.get(k) for f in fs if k in f}
            if strong and len(seen) != 1:
                continue    # the key names only the fields the failing rows pin to ONE class (stable across tiers and seeds)
            if seen and len(seen) < len(domain[k]) and (len(fs) >= 30 or len(seen) == 1):
                parts.append("%s=%s" % (k, "|".join(sorted(seen))))
        return ",".join(parts) or "any"
    common = {k: v for k, v in fs[0].items() if all(f.get(k) == v for f in fs)}
    best = None
    for n in nominals:
        d = sorted("%s=%s" % (k, v) for k, v in common.items() if n.get(k) != v)
        if best is None or (len(d), d) < (len(best), best):
            best = d
    return ",".join(best) or "nominal"


def run(ctx):
    ctx.level = "exploration"
    thorough = ctx.tier == "thorough"
    sdir = ctx.spec_copy("Wire")
    guards = re.findall(r'^\s+"([a-z0-9_.]+)",?\s+\\\*', open(os.path.join(sdir, "Wire.tla")).read().split("Guards == {")[1].split("}")[0], re.M)
    if len(guards) < 10:
        raise vlib.InfraError("could not read the guard list from Wire.tla")

    # ------------------------------------------------------------------ stage A
    cfg = "Gen_Wire.cfg"
    if thorough:
        txt = open(os.path.join(sdir, cfg)).read().replace("NSample = 3000", "NSample = 20000")
        open(os.path.join(sdir, cfg), "w").write(txt)
    g = ctx.tlc(sdir, "Gen_Wire.tla", cfg, timeout=1500, workers=8, extra=["-seed", str(ctx.seed)])
    ctx.require_design_ok(g, "Wire: strength-2 design of every entry point")
    runs = [("s2", g)]
    ctx.log("A: strength-2 design + samples: %d states, %d rows printed, %.0fs" % (g["distinct"], g["nbeh"], g["wall_s"]))
    a1 = ctx.tlc(sdir, "Wire.tla", "MC_Wire_asfound.cfg", timeout=600, workers=4, count=False)
    if a1["inv"] != "AlwaysAnswersHTTP":
        raise vlib.InfraError("the as-found instance (no payload nil check) should violate AlwaysAnswersHTTP, got %s" % a1["inv"])
    a2 = ctx.tlc(sdir, "Wire.tla", "MC_Wire_nolimit.cfg", timeout=600, workers=4, count=False)
    if a2["inv"] != "NeverHangs":
        raise vlib.InfraError("the instance without the pointer limit should violate NeverHangs, got %s" % a2["inv"])
    a3 = ctx.tlc(sdir, "Wire.tla", "MC_Wire_lockleak.cfg", timeout=600, workers=4, count=False)
    if a3["inv"] != "NeverHangs":
        raise vlib.InfraError("the instance whose failed-selection return keeps the selector lock should violate NeverHangs, got %s" % a3["inv"])
    if thorough:
        tcfg = "Gen_Wire_thorough.cfg"
        txt = open(os.path.join(sdir, tcfg)).read()
        txt = re.sub(r"EPs = \{.*\}", "EPs = {%s}" % ", ".join('"%s"' % e for e in MESSAGE_EPS), txt)
        open(os.path.join(sdir, tcfg), "w").write(txt)
        g3 = ctx.tlc(sdir, "Gen_Wire.tla", tcfg, timeout=2400, workers=8, extra=["-seed", str(ctx.seed + 1000)])
        ctx.require_design_ok(g3, "Wire: strength-3 design around one base")
        ctx.log("A: strength-3 design: %d states, %d rows printed, %.0fs" % (g3["distinct"], g3["nbeh"], g3["wall_s"]))
        runs.append(("s3", g3))
    ctx.stage("A", design_rows_strength2=g["nbeh"], exhaustive=True,
              nonvacuity="as-found instance violates AlwaysAnswersHTTP; instance without pointer limit violates NeverHangs")

    # ------------------------------------------------------------------ rows
    work = []          # (chain, driver name, test, rows path, n)
    trig_total, nominals, domains = {}, {}, {}
    for tag, r in runs:
        per, trig, nom, samples, dom = split_rows(r["beh_file"], ctx.scratch, tag)
        for e, dm in dom.items():
            for k, v in dm.items():
                domains.setdefault(e, {}).setdefault(k, set()).update(v)
        os.unlink(r["beh_file"])
        for k, v in trig.items():
            trig_total[k] = trig_total.get(k, 0) + v
        for k, v in nom.items():
            nominals.setdefault(k, []).extend(v)
        for s in samples:
            ctx.sample(s)
        for cname, ch in CHAINS.items():
            for (name, test, eps) in ch["drivers"]:
                if name in per:
                    work.append((cname, name, test, per[name][0], per[name][1], tag))
    missing = [x for x in guards if not trig_total.get(x)]
    if missing:
        raise vlib.InfraError("the generated rows exercise no trigger of guard(s) %s: the covering design is vacuous there" % missing)
    ctx.stage("A", guards=len(guards), rows_per_guard=trig_total)

    # ------------------------------------------------------------------ stage B
    env = {"VERIF_MUT_EVERY": 16 if thorough else 40, "VERIF_MUT_TRUNC": 48 if thorough else 24, "VERIF_MUT_FLIPS": 16 if thorough else 8,
           "VERIF_CALL_TIMEOUT_MS": 10000}
    results, errors = {}, []
    lock = threading.Lock()

    def chain_thread(cname):
        ch = CHAINS[cname]
        c = copy.copy(ctx)
        c.scratch = ctx.sub("chain_" + cname)
        try:
            for (cn, name, test, path, n, tag) in work:
                if cn != cname:
                    continue
                t0 = time.time()
                recs, crashes = run_driver(c, ch, name, test, path, n, env, ctx.log)
                with lock:
                    results[(name, tag)] = (recs, crashes, path, n)
                    ctx.log("B: %s[%s]: %d rows, %.0fs" % (name, tag, n, time.time() - t0))
        except Exception as e:  # noqa
            with lock:
                errors.append((cname, e))

    threads = [threading.Thread(target=chain_thread, args=(cn,)) for cn in CHAINS]
    for t in threads:
        t.start()
    for t in threads:
        t.join()
    if errors:
        cn, e = errors[0]
        if isinstance(e, vlib.InfraError):
            raise vlib.InfraError("chain %s: %s" % (cn, e))
        raise e

    # ------------------------------------------------------------------ verdicts
    total_rows = total_deliv = 0
    counts, disagreements, notes = {}, [], []
    anomalies = {}     # (what, site, ep) -> list of (variant, record)
    accepted_by = {}
    for (name, tag), (recs, crashes, path, n) in sorted(results.items()):
        summ = [r for r in recs if r.get("kind") == "summary"]
        for s in summ:
            total_rows += s.get("rows", 0)
            total_deliv += s.get("deliveries", 0)
            for k, v in s.get("counts", {}).items():
                counts[k] = counts.get(k, 0) + v
            if s.get("nominal_not_accepted"):
                bad = [r for r in recs if r.get("kind") == "disagree" and r.get("nominal")]
                raise vlib.InfraError("driver %s: %d nominal row(s) were not accepted by the real code - the neighbourhood is not anchored on "
                                      "messages the code processes (harness or model error): %s" % (name, s["nominal_not_accepted"], json.dumps(bad[:2])[:1500]))
            for k, v in (s.get("accepted_by_transport") or {}).items():
                accepted_by[k] = accepted_by.get(k, 0) + v
        for r in recs:
            if r.get("kind") == "disagree":
                disagreements.append(r)
            elif r.get("kind") == "anomaly":
                key = (r["what"], clean_site(r.get("site")), r["ep"])
                anomalies.setdefault(key, []).append((r.get("variant", ""), r))
        if crashes:
            rows = None
            for cr in crashes:
                if rows is None:
                    rows = open(path).read().split("\n")
                row = json.loads(rows[cr["idx"]])
                rec = {"what": cr["what"], "ep": row["ep"], "idx": cr["idx"], "f": row["f"], "variant": cr["variant"], "site": cr["site"],
                       "panic": cr["panic"], "stack": cr["stack"], "detail": "the test binary died: the panic was in a goroutine of the code under test"}
                key = (cr["what"], clean_site(cr["site"]), row["ep"])
                anomalies.setdefault(key, []).append((cr["variant"], rec))
    if "station.wrap" in [w[1] for w in work]:
        for tr in ("min", "prefix", "obfs4"):
            if not accepted_by.get(tr):
                raise vlib.InfraError("station.wrap: no genuine %s first flight was accepted - the flight classes are not anchored on valid flights" % tr)
    for (what, site, ep), items in sorted(anomalies.items()):
        plain = [r["f"] for (v, r) in items if not v or v == "parse"]
        if plain:
            combo = combination(plain, domains.get(ep, {}), nominals.get(ep), strong=True)
            full = combination(plain, domains.get(ep, {}), nominals.get(ep))
        else:
            kinds = sorted({re.sub(r"@.*", "", v).replace("parse", "") for (v, r) in items})
            combo = "mut=%s,%s" % ("|".join(kinds), combination([r["f"] for (v, r) in items], domains.get(ep, {}), nominals.get(ep), strong=True))
            full = combo
        rec = next((r for (v, r) in items if r.get("stack") or r.get("panic") or r.get("detail")), items[0][1])
        key = "%s:%s:%s:%s" % (what, site, ep, combo)
        desc = {"panic": "panics", "nostatus": "closes the connection without an HTTP status line", "hang": "does not return"}[what]
        ctx.violation(key, "%s %s (%s) for %s [%d input(s) of this run] %s" %
                      (ep, desc, site, full, len(items), (rec.get("panic") or rec.get("detail") or "")[:200]),
                      {"record": {k: rec.get(k) for k in ("ep", "f", "variant", "panic", "detail", "site")}, "stack": (rec.get("stack") or "")[:4000],
                       "occurrences": len(items)})
    if disagreements:
        ex = disagreements[0]
        ctx.notes.append("%d row(s) where the real outcome is outside the outcomes Wire.tla allows (not a C11 verdict; the model's acceptance "
                         "conditions are necessary conditions only). First: ep=%s got=%s expect=%s f=%s" %
                         (len(disagreements), ex["ep"], ex["got"], ex["expect"], json.dumps(ex["f"])[:600]))
        ctx.log("note: %d outcome disagreements (first: %s got %s, expected %s)" % (len(disagreements), ex["ep"], ex["got"], ex["expect"]))
    ctx.stage("B", rows_executed=total_rows, deliveries=total_deliv, outcome_counts=counts, anomaly_sites=len(anomalies),
              outcome_disagreements=len(disagreements), flights_accepted=accepted_by)
    ctx.log("B: %d rows, %d deliveries (rows + mutation neighbourhood), %d anomaly site(s)" % (total_rows, total_deliv, len(anomalies)))
    ctx.cov["evaluations"] = total_deliv
    ctx.cov["distinct_nontrivial"] = total_rows
    ctx.cov["traces_validated_against_impl"] = 0
    ctx.cov["rule"] = ("distinct_nontrivial = distinct (entry point, field-class assignment) rows TLC printed and the drivers executed (de-duplicated "
                       "before execution; every row sets at least one field); evaluations = rows + truncated / bit-flipped variants delivered")
    ctx.assumptions += [
        "exploration level: structured inputs (complete field-class products / all pairs / all triples around bases) and their truncation / "
        "bit-flip neighbourhoods; bytes far from any well-formed message (deep protobuf wire-format corners) are not covered",
        "ZMQ, the TUN/DNAT device and the DTLS dial are below the driven layer: bytes are handed to parseRegMessage, the processor publishes "
        "into a recording sender; in the ingest driver the dtls transport's Connect returns at once (handleConnectingTpReg and the parameter "
        "handling are real), the real Connect is driven on its own with the real DNAT packet construction writing to /dev/null and no peer",
        "the API server is a net/http server with the three routing lines of APIRegServer.ListenAndServe on a loopback listener",
        "a transport that deliberately holds a failed handshake open (obfs4 library) is given a peer that goes away after 300 ms; "
        "a per-call timeout of 10 s decides 'hang'",
        "GeoIP is the empty database (no MaxMind files offline); liveness scans and covert name resolution are scripted to fail at once",
    ]
