SPECIFICATION Spec
CONSTANTS
  Scenario = "3mixed"
  Protocol = "atomic"
  SweepRecheck = TRUE
  ShareEnabled = TRUE
  ShareMode = "inline"
  ReloadProtocol = "snapshot"
VIEW view
INVARIANTS Serializable NoCrash VisibleOnlyAfterValidate AnnounceOnce ShareOnce
PROPERTY Terminates
CHECK_DEADLOCK FALSE
