# Claims table (exec'd by bin/mkmanifest).  One entry per property that has a working check.
CLAIMS["C08"] = dict(
    category="model_checking",
    technique="TLA+ spec Registry.tla: TLC exhaustive + replay of all bounded paths into real RegisteredDecoys + trace validation of random real histories",
    text="Registry.tla models decoys/decoysTimeouts with one action per locked method; TLC checks PostSweepExact, "
         "OneRecordPerRegistration, NeverRemovedEarly exhaustively (2 secrets x 2 phantoms x 2 transports, <=2..3 tracked). "
         "Every path of depth 4 (quick) / 5 (thorough) plus thousands of simulated depth-16 behaviours are replayed on the "
         "real object with real transports and default lifetimes (state compared after every step), and random real "
         "histories over 8 secrets x 3 phantoms x 3 transports are validated against the spec with all invariants on.",
    note="Time is advanced by back-dating stored registration times to age classes around the 10 min / 6 h limits (+-2 s); "
         "sweeps run to completion (interleavings are C09); TLC bounds as stated in the cfg files.",
)
