//go:build verif

package dnat

import (
	"os"

	"github.com/refraction-networking/conjure/pkg/core/interfaces"
)

// VerifNewDNAT builds the real DNAT object over an arbitrary file instead of a TUN device (C11 driver of the dtls
// transport: packet construction is real, the write goes to /dev/null).  Overlay only.
func VerifNewDNAT(f *os.File) interfaces.DNAT { return &dnat{tun: f} }
