//go:build verif

package dnsregserver

// C12, front-end subset: rows of spec/RegistrarData (IPv6 family: a DNS registration carries no client address, and
// the station builds IPv4 registrations only for clients with a known IPv4 address) executed THROUGH the real
// DNSRegServer.processRequest (request decoding, bidirectional dispatch, DnsResponse encoding) in front of the real
// RegProcessor built by the overlay bridge in package regprocessor.

import (
	"encoding/json"
	"fmt"
	"io"
	"net"
	"testing"
	"time"

	"github.com/refraction-networking/conjure/pkg/metrics"
	"github.com/refraction-networking/conjure/pkg/regserver/regprocessor"
	pb "github.com/refraction-networking/conjure/proto"
	log "github.com/sirupsen/logrus"
	"google.golang.org/protobuf/proto"
)

func TestVerifDNSRows(t *testing.T) {
	out := vOpenOut(t)
	defer out.Close()
	env, err := regprocessor.VerifNewEnv()
	if err != nil {
		t.Fatalf("world: %v", err)
	}
	defer env.Cleanup()
	lg := log.New()
	lg.SetOutput(io.Discard)
	mt := metrics.NewMetrics(log.NewEntry(lg), 24*time.Hour)
	pid := map[string]int32{"pmin": 0, "pget": 1}
	n, nmis, nerr := 0, 0, 0
	vReadLines(t, func(line []byte) {
		var row regprocessor.VerifRow
		if err := json.Unmarshal(line, &row); err != nil {
			t.Fatalf("bad row: %v", err)
		}
		n++
		exec := func(p *regprocessor.RegProcessor, wire []byte, clientAddr net.IP) (*pb.RegistrationResponse, error) {
			s := &DNSRegServer{processor: p, logger: log.NewEntry(lg), metrics: mt, latestCCGen: 1}
			// a DNS client marks its request as bidirectional in the wrapper
			c2sw := &pb.C2SWrapper{}
			if err := proto.Unmarshal(wire, c2sw); err != nil {
				return nil, err
			}
			src := pb.RegistrationSource_BidirectionalDNS
			c2sw.RegistrationSource = &src
			wire2, _ := proto.Marshal(c2sw)
			respBytes, err := s.processRequest(wire2)
			if err != nil {
				return nil, err
			}
			dr := &pb.DnsResponse{}
			if err := proto.Unmarshal(respBytes, dr); err != nil {
				return nil, fmt.Errorf("DnsResponse does not decode: %w", err)
			}
			if !dr.GetSuccess() || dr.GetBidirectionalResponse() == nil {
				return nil, fmt.Errorf("DnsResponse success=%v response=%v", dr.GetSuccess(), dr.GetBidirectionalResponse())
			}
			return dr.GetBidirectionalResponse(), nil
		}
		got, detail, err := env.RunVia(row.Req, row.Cfg, fmt.Sprintf("dns-%d", n), nil, pid[row.Req.Pid], env.DrawSeed(row.U, row.Total), exec)
		if err != nil {
			nerr++
			out.Emit(map[string]any{"kind": "error", "idx": n, "req": row.Req, "cfg": row.Cfg, "u": row.U, "err": err.Error()})
			return
		}
		ok := false
		for _, al := range row.Allowed {
			if vCanon(vNorm(al)) == vCanon(vNorm(got)) {
				ok = true
			}
		}
		if detail["payload_changed"] != nil {
			ok = false
		}
		if !ok {
			nmis++
			if nmis <= 60 {
				out.Emit(map[string]any{"kind": "mismatch", "idx": n, "req": row.Req, "cfg": row.Cfg, "u": row.U, "total": row.Total,
					"want": row.Allowed, "got": got, "detail": detail})
			}
		}
	})
	out.Emit(map[string]any{"kind": "summary", "rows": n, "mismatches": nmis, "errors": nerr})
}
