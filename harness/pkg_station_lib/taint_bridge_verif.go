//go:build verif

package lib

// Bridge for the package-main C17 driver (exists only in the build overlay, never in the repository): the station
// announces registrations to the detector over redis on localhost:6379 while holding the registry lock; without a
// server every announcement costs the client's retry back-off.  The C17 runs do not look at announcements.
func VerifTaintMuteDetector(rm *RegistrationManager) {
	rm.registeredDecoys.m.Lock()
	defer rm.registeredDecoys.m.Unlock()
	rm.registeredDecoys.registerForDetector = func(*DecoyRegistration) {}
	rm.registeredDecoys.updateInDetector = func(*DecoyRegistration) {}
}
