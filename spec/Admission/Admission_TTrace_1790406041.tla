---- MODULE Admission_TTrace_1790406041 ----
EXTENDS Sequences, TLCExt, Toolbox, Naturals, TLC, Admission

_expression ==
    LET Admission_TEExpression == INSTANCE Admission_TEExpression
    IN Admission_TEExpression!expression
----

_trace ==
    LET Admission_TETrace == INSTANCE Admission_TETrace
    IN Admission_TETrace!trace
----

_inv ==
    ~(
        TLCGet("level") = Len(_TETrace)
        /\
        row = ([payload |-> "present", transport |-> "enabled", params |-> "absent", gen |-> "known", c4 |-> FALSE, c6 |-> TRUE, registrant |-> "v4", source |-> "unspecified", prescanned |-> FALSE, covert |-> "absent", s4 |-> FALSE, s6 |-> TRUE, blocked4 |-> FALSE, blocked6 |-> FALSE, share |-> TRUE, live |-> FALSE])
        /\
        done = (TRUE)
        /\
        out = ([visible |-> {"v6"}, announced |-> 1, tracked |-> {"v6"}, probes |-> 0, shares |-> 0])
    )
----

_init ==
    /\ done = _TETrace[1].done
    /\ out = _TETrace[1].out
    /\ row = _TETrace[1].row
----

_next ==
    /\ \E i,j \in DOMAIN _TETrace:
        /\ \/ /\ j = i + 1
              /\ i = TLCGet("level")
        /\ done  = _TETrace[i].done
        /\ done' = _TETrace[j].done
        /\ out  = _TETrace[i].out
        /\ out' = _TETrace[j].out
        /\ row  = _TETrace[i].row
        /\ row' = _TETrace[j].row

\* Uncomment the ASSUME below to write the states of the error trace
\* to the given file in Json format. Note that you can pass any tuple
\* to `JsonSerialize`. For example, a sub-sequence of _TETrace.
    \* ASSUME
    \*     LET J == INSTANCE Json
    \*         IN J!JsonSerialize("Admission_TTrace_1790406041.json", _TETrace)

=============================================================================

 Note that you can extract this module `Admission_TEExpression`
  to a dedicated file to reuse `expression` (the module in the 
  dedicated `Admission_TEExpression.tla` file takes precedence 
  over the module `Admission_TEExpression` below).

---- MODULE Admission_TEExpression ----
EXTENDS Sequences, TLCExt, Toolbox, Naturals, TLC, Admission

expression == 
    [
        \* To hide variables of the `Admission` spec from the error trace,
        \* remove the variables below.  The trace will be written in the order
        \* of the fields of this record.
        done |-> done
        ,out |-> out
        ,row |-> row
        
        \* Put additional constant-, state-, and action-level expressions here:
        \* ,_stateNumber |-> _TEPosition
        \* ,_doneUnchanged |-> done = done'
        
        \* Format the `done` variable as Json value.
        \* ,_doneJson |->
        \*     LET J == INSTANCE Json
        \*     IN J!ToJson(done)
        
        \* Lastly, you may build expressions over arbitrary sets of states by
        \* leveraging the _TETrace operator.  For example, this is how to
        \* count the number of times a spec variable changed up to the current
        \* state in the trace.
        \* ,_doneModCount |->
        \*     LET F[s \in DOMAIN _TETrace] ==
        \*         IF s = 1 THEN 0
        \*         ELSE IF _TETrace[s].done # _TETrace[s-1].done
        \*             THEN 1 + F[s-1] ELSE F[s-1]
        \*     IN F[_TEPosition - 1]
    ]

=============================================================================



Parsing and semantic processing can take forever if the trace below is long.
 In this case, it is advised to uncomment the module below to deserialize the
 trace from a generated binary file.

\*
\*---- MODULE Admission_TETrace ----
\*EXTENDS IOUtils, TLC, Admission
\*
\*trace == IODeserialize("Admission_TTrace_1790406041.bin", TRUE)
\*
\*=============================================================================
\*

---- MODULE Admission_TETrace ----
EXTENDS TLC, Admission

trace == 
    <<
    ([row |-> [payload |-> "present", transport |-> "enabled", params |-> "absent", gen |-> "known", c4 |-> FALSE, c6 |-> TRUE, registrant |-> "v4", source |-> "unspecified", prescanned |-> FALSE, covert |-> "absent", s4 |-> FALSE, s6 |-> TRUE, blocked4 |-> FALSE, blocked6 |-> FALSE, share |-> TRUE, live |-> FALSE],done |-> FALSE,out |-> [none |-> TRUE]]),
    ([row |-> [payload |-> "present", transport |-> "enabled", params |-> "absent", gen |-> "known", c4 |-> FALSE, c6 |-> TRUE, registrant |-> "v4", source |-> "unspecified", prescanned |-> FALSE, covert |-> "absent", s4 |-> FALSE, s6 |-> TRUE, blocked4 |-> FALSE, blocked6 |-> FALSE, share |-> TRUE, live |-> FALSE],done |-> TRUE,out |-> [visible |-> {"v6"}, announced |-> 1, tracked |-> {"v6"}, probes |-> 0, shares |-> 0]])
    >>
----


=============================================================================

---- CONFIG Admission_TTrace_1790406041 ----
CONSTANTS
    Mutant = "skip_covert"

INVARIANT
    _inv

CHECK_DEADLOCK
    \* CHECK_DEADLOCK off because of PROPERTY or INVARIANT above.
    FALSE

INIT
    _init

NEXT
    _next

CONSTANT
    _TETrace <- _trace

ALIAS
    _expression
=============================================================================
\* Generated on Sat Sep 26 07:00:51 UTC 2026