SPECIFICATION Spec
CONSTANTS
  MinTag = 2
  PfxTag = 3
  ObfsMin = 3
  ObfsMax = 6
  MaxRead = 3
  DeadlineSource = "private"
  MarkMode = "leak-on-missing"
  MaxW = 2
  LookupMode = "fresh"
  MaxConns = 1
  LookupLocks = "single"
  MaxWrites = 0
  Cases <- MCCases
VIEW view
INVARIANTS RegistryFree
CHECK_DEADLOCK FALSE
