\* MUST VIOLATE GaugeExact: terminal transitions that keep the source gauge
SPECIFICATION SpecObj
CONSTANTS
  Conns = {"c1", "c2"}
  Kons = {}
  Asns = {"a1"}
  CCs = {"", "US"}
  Variant = "as_found"
  Broken = "terminal_keeps_gauge"
  MaxLoops = 0
  MaxPrints = 2
  MaxAuth = 0
VIEW view
CONSTRAINT Canon
INVARIANTS GaugeExact
CHECK_DEADLOCK FALSE
