----------------------------- MODULE Accounting -----------------------------
(***************************************************************************)
(* The station's connection bookkeeping: cmd/application/conns.go (type    *)
(* connStats, the transition methods addCreated / createdToCheck / ... /   *)
(* discardToClose, PrintAndReset, Reset, reset) and connectingStats.go     *)
(* (AddCreatedConnecting, AddCreatedTo...Connecting, resetConnecting),     *)
(* plus the calls handleNewTCPConn makes into them and into the Stats      *)
(* singleton (AddConn / CloseConn / ConnErr / AddMissedReg).               *)
(*                                                                         *)
(* The accounting object is the product of                                 *)
(*   gauges  - how many connections are in each in-flight state right now  *)
(*             (created, reading, checking, discarding); never reset;      *)
(*   epoch counters - outcomes (found, reset, timeout, closed, err), one   *)
(*             counter per transition, total / new / resolved; zeroed by   *)
(*             reset();                                                    *)
(* kept once per address family (c.ipv4 / c.ipv6, updated with atomics     *)
(* WITHOUT the mutex) and once per (family, ASN) in c.v4geoIPMap /         *)
(* c.v6geoIPMap (updated under c.m, only when the country code is not      *)
(* empty).  Every connection is a small state machine whose every          *)
(* transition is exactly one counter call.                                 *)
(*                                                                         *)
(* Two levels, one module:                                                 *)
(*  OBJECT level (SpecObj): one action per API call / critical section     *)
(*   New        = addCreated                                               *)
(*   T(tr)      = one of the 19 transition methods                         *)
(*   a call made while PrintAndReset holds c.m is split exactly as in the  *)
(*   code: its family-wide atomics take effect at once (the action), its   *)
(*   per-ASN half waits for the mutex and is applied when the printer      *)
(*   unlocks (PFinish)                                                     *)
(*   PBegin / PCont = PrintAndReset, one step per log line it emits for a  *)
(*   family (the values of a line are loaded before the line is written;   *)
(*   the conformance driver parks the real call inside the log writer);    *)
(*   the per-ASN rows, reset() and the unlock are the last step            *)
(*   Reset      = connStats.Reset                                          *)
(*   KNew / KTo / KOtherFail / KAuthFail = connectingStats.go              *)
(*  HANDLER level (SpecHandler): one action per step of handleNewTCPConn   *)
(*   (HEnter, HGeoFail, HRead, HReadErr, HVerdict (+ the loop's tail),     *)
(*   HDrainEnd, HSleepDone, HRelayEnd); each step lists the counter calls  *)
(*   the code makes there, in order.  LegalSeq is the language of call     *)
(*   sequences of one connection, per outcome.                             *)
(*                                                                         *)
(* Variant selects what is modelled:                                       *)
(*   "as_found" - the code as it is (see the divergence list at the end)   *)
(*   "intended" - what a reader of the log lines relies on: print + reset  *)
(*                is atomic with respect to every counter update, every    *)
(*                epoch is printed, reset clears every epoch counter and   *)
(*                no gauge.                                                *)
(* Broken is a deliberate error for the non-vacuity runs.                  *)
(***************************************************************************)
EXTENDS Integers, FiniteSets, Sequences, TLC

CONSTANTS Conns,      \* connection ids (strings)
          Kons,       \* ids of connecting-transport attempts (strings)
          Asns,       \* ASN keys (strings; the driver maps them to numbers)
          CCs,        \* country codes; "" = none known: such a connection is not tabulated per ASN
          Variant,    \* "as_found" | "intended"
          Broken,     \* "none" | "terminal_keeps_gauge" | "reset_clears_gauges" | "double_new" | "found_no_close"
          MaxLoops,   \* bound on check -> read / check -> created returns per connection
          MaxPrints,  \* bound on PrintAndReset + Reset calls
          MaxAuth     \* bound on AddAuthFailConnecting calls

VARIABLES conn,   \* [Conns -> [st, fam, asn, cc, loops, half]]  the connections (st: "idle", a gauge or an outcome)
          glob,   \* [Fams -> [GCells -> Int]]            c.ipv4 / c.ipv6
          tab,    \* [Fams -> [Asns -> None | [cc, n]]]   c.v4geoIPMap / c.v6geoIPMap
          kon,    \* [KCells -> Int]                      c.connectingCounts
          kst,    \* [Kons -> [st, asn, cc]]              connecting attempts
          auth,   \* number of AddAuthFailConnecting calls so far
          pr,     \* printer: [pc, n, fams]  pc: "idle" | "w_v4" | "w_v6" (parked in the write of that family's line)
          gone,   \* [Fams -> [Outcomes -> Int]]  ghost: outcome events the log has reported (or Reset discarded)
          gonea,  \* [Fams -> [Outcomes -> Int]]  ghost: the same for the per-ASN rows
          gonek,  \* [KEvents -> Int]             ghost: connecting events reported
          hs,     \* [Conns -> [ph, alive, todo, got, out, why]]  handler level
          stat,   \* [active, new, err, missed]   the Stats singleton's connection cells (handler level)
          obs     \* observation of the last action

None == [none |-> TRUE]
Fams == {"v4", "v6"}
AsFound == Variant = "as_found"

Gauges   == {"created", "reading", "checking", "discarding"}
Outcomes == {"found", "reset", "timeout", "closed", "err"}
\* transition name |-> <<from, to>>   (names: the method names of conns.go)
TT == [CreatedToDiscard |-> <<"created", "discarding">>, CreatedToCheck   |-> <<"created", "checking">>,
       CreatedToReset   |-> <<"created", "reset">>,      CreatedToTimeout |-> <<"created", "timeout">>,
       CreatedToError   |-> <<"created", "err">>,        CreatedToClose   |-> <<"created", "closed">>,
       ReadToCheck      |-> <<"reading", "checking">>,   ReadToTimeout    |-> <<"reading", "timeout">>,
       ReadToReset      |-> <<"reading", "reset">>,      ReadToError      |-> <<"reading", "err">>,
       CheckToCreated   |-> <<"checking", "created">>,   CheckToRead      |-> <<"checking", "reading">>,
       CheckToFound     |-> <<"checking", "found">>,     CheckToError     |-> <<"checking", "err">>,
       CheckToDiscard   |-> <<"checking", "discarding">>,
       DiscardToReset   |-> <<"discarding", "reset">>,   DiscardToTimeout |-> <<"discarding", "timeout">>,
       DiscardToError   |-> <<"discarding", "err">>,     DiscardToClose   |-> <<"discarding", "closed">>]
TransNames == DOMAIN TT
Misc    == {"total", "new", "resolved"}
GCells  == Gauges \cup Outcomes \cup TransNames \cup Misc
KCells  == {"kCreated", "kDial", "kListen", "kSuccessful", "kTimeout", "kAuthFail", "kOtherFail"}
KPrinted == KCells \ {"kSuccessful"}          \* connectingCounts.string() leaves numSuccessfulConnecting out
KEvents == KCells \ {"kCreated"}
ACells  == GCells \cup KCells                 \* an asnCounts entry embeds statCounts, which embeds connectingCounts
\* counters reset() forgets: as found c.ipvN.numCreatedToClose is never zeroed
Forgotten == IF AsFound THEN {"CreatedToClose"} ELSE {}

Z(S) == [x \in S |-> 0]
Add(v, d) == [x \in DOMAIN v |-> v[x] + (IF x \in DOMAIN d THEN d[x] ELSE 0)]
RECURSIVE SumF(_, _)
SumF(f, S) == IF S = {} THEN 0 ELSE LET e == CHOOSE x \in S : TRUE IN f[e] + SumF(f, S \ {e})

\* what one call adds to a statCounts (family-wide and per ASN alike)
DeltaT(tr) ==
  [x \in GCells |->
     (IF x = TT[tr][1] /\ ~(Broken = "terminal_keeps_gauge" /\ TT[tr][2] \in Outcomes) THEN -1 ELSE 0)
   + (IF x = TT[tr][2] THEN 1 ELSE 0) + (IF x = tr THEN 1 ELSE 0) + (IF x = "total" THEN 1 ELSE 0)
   + (IF x = "resolved" /\ TT[tr][2] \in Outcomes THEN 1 ELSE 0)]
DeltaNew == [x \in GCells |-> IF x = "created" THEN 1 ELSE IF x = "new" THEN (IF Broken = "double_new" THEN 2 ELSE 1) ELSE 0]
Delta(op) == IF op = "new" THEN DeltaNew ELSE DeltaT(op)

Touch(tb, f, a, cc, d) ==
  [tb EXCEPT ![f][a] = IF tb[f][a] = None THEN [cc |-> cc, n |-> Add(Z(ACells), d)]
                       ELSE [cc |-> tb[f][a].cc, n |-> Add(tb[f][a].n, d)]]

\* ------------------------------- projection shared with the Go driver: zero cells are left out
Sparse(v) == [x \in {y \in DOMAIN v : v[y] # 0} |-> v[x]]
TabProj(tb) == {[fam |-> f, asn |-> a, cc |-> tb[f][a].cc, n |-> Sparse(tb[f][a].n)] :
                  <<f, a>> \in {fa \in Fams \X Asns : tb[fa[1]][fa[2]] # None}}
Proj(g, tb, k) == [glob |-> [f \in Fams |-> Sparse(g[f])], tab |-> TabProj(tb), kon |-> Sparse(k)]

IdleConn == [st |-> "idle", fam |-> "v4", asn |-> "", cc |-> "", loops |-> 0, half |-> ""]
IdleH    == [ph |-> "idle", alive |-> {}, todo |-> {}, got |-> 0, out |-> <<>>, why |-> ""]
Init == /\ conn = [c \in Conns |-> IdleConn]
        /\ glob = [f \in Fams |-> Z(GCells)]
        /\ tab = [f \in Fams |-> [a \in Asns |-> None]]
        /\ kon = Z(KCells)
        /\ kst = [k \in Kons |-> [st |-> "idle", asn |-> "", cc |-> ""]]
        /\ auth = 0
        /\ pr = [pc |-> "idle", n |-> 0, fams |-> {}]
        /\ gone = [f \in Fams |-> Z(Outcomes)] /\ gonea = [f \in Fams |-> Z(Outcomes)] /\ gonek = Z(KEvents)
        /\ hs = [c \in Conns |-> IdleH]
        /\ stat = [active |-> 0, new |-> 0, err |-> 0, missed |-> 0]
        /\ obs = [a |-> "Init"]

Locked == pr.pc # "idle"
\* as found the family-wide atomics do not take the mutex, so they run while the printer holds it
MayCall == ~Locked \/ AsFound

\* ---------------------------------------------------------------- OBJECT level
\* one counter call by connection c: family-wide cells now, per-ASN cells now or (printer holds c.m) at unlock
Call(c, op, f, a, cc, st2, lp) ==
  /\ MayCall
  /\ glob' = [glob EXCEPT ![f] = Add(@, Delta(op))]
  /\ IF cc = "" THEN /\ tab' = tab
                     /\ conn' = [conn EXCEPT ![c] = [st |-> st2, fam |-> f, asn |-> a, cc |-> cc, loops |-> lp, half |-> ""]]
     ELSE IF Locked THEN /\ tab' = tab
                         /\ conn' = [conn EXCEPT ![c] = [st |-> st2, fam |-> f, asn |-> a, cc |-> cc, loops |-> lp, half |-> op]]
     ELSE /\ tab' = Touch(tab, f, a, cc, Delta(op))
          /\ conn' = [conn EXCEPT ![c] = [st |-> st2, fam |-> f, asn |-> a, cc |-> cc, loops |-> lp, half |-> ""]]
  /\ UNCHANGED <<kon, kst, auth, pr, gone, gonea, gonek, hs, stat>>

New(c, f, a, cc) ==
  /\ conn[c].st = "idle" /\ conn[c].half = ""
  /\ Call(c, "new", f, a, cc, "created", 0)
  /\ obs' = [a |-> "New", c |-> c, fam |-> f, asn |-> a, cc |-> cc, split |-> (Locked /\ cc # ""),
             st |-> Proj(glob', tab', kon')]

T(c, tr) ==
  /\ conn[c].half = "" /\ conn[c].st = TT[tr][1]
  /\ (tr \in {"CheckToRead", "CheckToCreated"}) => conn[c].loops < MaxLoops
  /\ Call(c, tr, conn[c].fam, conn[c].asn, conn[c].cc, TT[tr][2],
          conn[c].loops + (IF tr \in {"CheckToRead", "CheckToCreated"} THEN 1 ELSE 0))
  /\ obs' = [a |-> "T", c |-> c, tr |-> tr, split |-> (Locked /\ conn[c].cc # ""), st |-> Proj(glob', tab', kon')]

\* ---- connecting transports (connectingStats.go): family-wide atomics + the IPv4 table, whatever the family
KDelta(op) == [x \in KCells |->
  CASE op = "KNew"       -> IF x = "kCreated" THEN 1 ELSE 0
    [] op = "KAuthFail"  -> IF x = "kAuthFail" THEN 1 ELSE 0
    [] op = "KOtherFail" -> IF x = "kOtherFail" THEN 1 ELSE IF x = "kCreated" /\ ~AsFound THEN -1 ELSE 0
    [] op = "kDial"      -> IF x = "kDial" THEN 1 ELSE IF x = "kCreated" THEN -1 ELSE 0
    [] op = "kListen"    -> IF x = "kListen" THEN 1 ELSE IF x = "kCreated" THEN -1 ELSE 0
    [] op = "kSuccessful" -> IF x = "kSuccessful" THEN 1 ELSE IF x = "kCreated" THEN -1 ELSE 0
    [] op = "kTimeout"   -> IF x = "kTimeout" THEN 1 ELSE IF x = "kCreated" THEN -1 ELSE 0]
KCall(op, a, cc) ==
  /\ ~Locked
  /\ kon' = Add(kon, KDelta(op))
  /\ tab' = IF cc = "" THEN tab ELSE Touch(tab, "v4", a, cc, KDelta(op))
  /\ UNCHANGED <<conn, glob, pr, gone, gonea, gonek, hs, stat>>
KNew(k, a, cc) ==
  /\ kst[k].st = "idle" /\ KCall("KNew", a, cc) /\ UNCHANGED auth
  /\ kst' = [kst EXCEPT ![k] = [st |-> "kCreated", asn |-> a, cc |-> cc]]
  /\ obs' = [a |-> "KNew", k |-> k, asn |-> a, cc |-> cc, st |-> Proj(glob', tab', kon')]
KTo(k, to) ==
  /\ kst[k].st = "kCreated" /\ to \in {"kDial", "kListen", "kSuccessful", "kTimeout"}
  /\ KCall(to, kst[k].asn, kst[k].cc) /\ UNCHANGED auth
  /\ kst' = [kst EXCEPT ![k].st = to]
  /\ obs' = [a |-> "KTo", k |-> k, to |-> to, st |-> Proj(glob', tab', kon')]
KOtherFail(k) ==
  /\ kst[k].st = "kCreated" /\ KCall("KOtherFail", kst[k].asn, kst[k].cc) /\ UNCHANGED auth
  /\ kst' = [kst EXCEPT ![k].st = "kOtherFail"]
  /\ obs' = [a |-> "KOtherFail", k |-> k, st |-> Proj(glob', tab', kon')]
KAuthFail(a, cc) ==
  /\ auth < MaxAuth /\ KCall("KAuthFail", a, cc) /\ auth' = auth + 1 /\ UNCHANGED kst
  /\ obs' = [a |-> "KAuthFail", asn |-> a, cc |-> cc, st |-> Proj(glob', tab', kon')]

\* ---- PrintAndReset
HasRows(f) == \E a \in Asns : tab[f][a] # None
PrintsFam(f) == ~AsFound \/ HasRows(f)         \* as found: `if numASNs > 0 { logger.Infof("conn-stats (IPvN) ...`
FamLine(f) == IF f = "v4"
  THEN [k |-> "fam", fam |-> f, n |-> Sparse([x \in Gauges \cup Outcomes |-> glob[f][x]]),
        nasn |-> Cardinality({a \in Asns : tab[f][a] # None}), kon |-> Sparse([x \in KPrinted |-> kon[x]])]
  ELSE [k |-> "fam", fam |-> f, n |-> Sparse([x \in Gauges \cup Outcomes |-> glob[f][x]]),
        nasn |-> Cardinality({a \in Asns : tab[f][a] # None})]
\* a per-ASN row prints the 19 transition counters, totalTransitions, numNewConns / numResolved of the row and -
\* as found for BOTH families - c.ipv6.numNewConns / c.ipv6.numResolved, then the row's connecting counters
RowCells == TransNames \cup Misc \cup KPrinted
Row(g, tb, f, a) == [k |-> "row", fam |-> f, asn |-> a, cc |-> tb[f][a].cc, n |-> Sparse([x \in RowCells |-> tb[f][a].n[x]]),
                     gnew |-> g[IF AsFound THEN "v6" ELSE f]["new"], gres |-> g[IF AsFound THEN "v6" ELSE f]["resolved"]]
Rows(g, tb) == {Row(g, tb, fa[1], fa[2]) : fa \in {x \in Fams \X Asns : tb[x[1]][x[2]] # None}}

ResetGlob(g) == [x \in GCells |-> IF (x \in Gauges /\ Broken # "reset_clears_gauges") \/ x \in Forgotten THEN g[x] ELSE 0]
KeepCells == Gauges \cup {"kCreated"}
ResetTab(tb) ==
  IF AsFound THEN [f \in Fams |-> [a \in Asns |-> None]]            \* c.vNgeoIPMap = make(map[uint]*asnCounts)
  ELSE [f \in Fams |-> [a \in Asns |->
          IF tb[f][a] = None \/ (\A x \in KeepCells : tb[f][a].n[x] = 0) THEN None
          ELSE [cc |-> tb[f][a].cc, n |-> [x \in ACells |-> IF x \in KeepCells THEN tb[f][a].n[x] ELSE 0]]]]
ResetKon(k) == [x \in KCells |-> IF x = "kCreated" /\ ~AsFound THEN k[x] ELSE 0]   \* c.connectingCounts = connectingCounts{}

\* the per-ASN halves of the calls that were made while the printer held the mutex (they commute)
Pending(f, a) == {c \in Conns : conn[c].half # "" /\ conn[c].fam = f /\ conn[c].asn = a}
PendDelta(f, a) == [x \in ACells |-> SumF([c \in Conns |-> IF x \in GCells THEN Delta(conn[c].half)[x] ELSE 0], Pending(f, a))]
AfterUnlock(tb) ==
  [f \in Fams |-> [a \in Asns |->
     IF Pending(f, a) = {} THEN tb[f][a]
     ELSE LET cc0 == (CHOOSE c \in Pending(f, a) : TRUE) IN
          IF tb[f][a] = None THEN [cc |-> conn[cc0].cc, n |-> PendDelta(f, a)]
          ELSE [cc |-> tb[f][a].cc, n |-> Add(tb[f][a].n, PendDelta(f, a))]]]

TabSum(tb, f, x) == SumF([a \in Asns |-> IF tb[f][a] = None THEN 0 ELSE tb[f][a].n[x]], Asns)

\* last step of PrintAndReset: the rows, reset(), unlock; then the parked halves run.  printed = families whose line was written
PFinishWith(printed, lines) ==
  /\ glob' = [f \in Fams |-> ResetGlob(glob[f])]
  /\ tab' = AfterUnlock(ResetTab(tab))
  /\ kon' = ResetKon(kon)
  /\ conn' = [c \in Conns |-> [conn[c] EXCEPT !.half = ""]]
  /\ pr' = [pc |-> "idle", n |-> pr.n + 1, fams |-> {}]
  /\ gonea' = [f \in Fams |-> [x \in Outcomes |-> gonea[f][x] + TabSum(tab, f, x)]]
  /\ UNCHANGED <<kst, auth, hs, stat>>
  /\ obs' = [a |-> "Print", lines |-> lines, rows |-> Rows(glob, tab), done |-> TRUE, st |-> Proj(glob', tab', kon')]

Report(f) == [gone EXCEPT ![f] = [x \in Outcomes |-> gone[f][x] + glob[f][x]]]
ReportK == [x \in KEvents |-> gonek[x] + kon[x]]
Park(f, lines) ==
  /\ pr' = [pc |-> "w_" \o f, n |-> pr.n, fams |-> pr.fams \cup {f}]
  /\ gone' = Report(f)
  /\ gonek' = IF f = "v4" THEN ReportK ELSE gonek
  /\ UNCHANGED <<conn, glob, tab, kon, kst, auth, gonea, hs, stat>>
  /\ obs' = [a |-> "Print", lines |-> lines, rows |-> {}, done |-> FALSE, st |-> Proj(glob, tab, kon)]

PBegin ==
  /\ pr.pc = "idle" /\ pr.n < MaxPrints
  /\ IF PrintsFam("v4") THEN Park("v4", <<FamLine("v4")>>)
     ELSE IF PrintsFam("v6") THEN Park("v6", <<FamLine("v6")>>)
     ELSE PFinishWith({}, <<>>) /\ UNCHANGED <<gone, gonek>>
PCont ==
  \/ /\ pr.pc = "w_v4"
     /\ IF PrintsFam("v6") THEN Park("v6", <<FamLine("v6")>>)
        ELSE PFinishWith(pr.fams, <<>>) /\ UNCHANGED <<gone, gonek>>
  \/ /\ pr.pc = "w_v6"
     /\ PFinishWith(pr.fams, <<>>) /\ UNCHANGED <<gone, gonek>>

\* connStats.Reset(): the caller discards the epoch on purpose (gone counts what was discarded)
Reset ==
  /\ pr.pc = "idle" /\ pr.n < MaxPrints
  /\ glob' = [f \in Fams |-> ResetGlob(glob[f])]
  /\ tab' = ResetTab(tab)
  /\ kon' = ResetKon(kon)
  /\ pr' = [pr EXCEPT !.n = @ + 1]
  /\ gone' = [f \in Fams |-> [x \in Outcomes |-> gone[f][x] + glob[f][x]]]
  /\ gonea' = [f \in Fams |-> [x \in Outcomes |-> gonea[f][x] + TabSum(tab, f, x)]]
  /\ gonek' = ReportK
  /\ UNCHANGED <<conn, kst, auth, hs, stat>>
  /\ obs' = [a |-> "Reset", st |-> Proj(glob', tab', kon')]

NextObj == \/ \E c \in Conns, f \in Fams, a \in Asns, cc \in CCs : New(c, f, a, cc)
           \/ \E c \in Conns, tr \in TransNames : T(c, tr)
           \/ \E k \in Kons, a \in Asns, cc \in CCs : KNew(k, a, cc)
           \/ \E k \in Kons, to \in KCells : KTo(k, to)
           \/ \E k \in Kons : KOtherFail(k)
           \/ \E a \in Asns, cc \in CCs : KAuthFail(a, cc)
           \/ PBegin \/ PCont \/ Reset
vars == <<conn, glob, tab, kon, kst, auth, pr, gone, gonea, gonek, hs, stat, obs>>
view == <<conn, glob, tab, kon, kst, auth, pr, gone, gonea, gonek, hs, stat>>
SpecObj == Init /\ [][NextObj]_vars

\* --------------------------------------------------------------- HANDLER level
\* handleNewTCPConn, one action per step; `calls` = the counter calls of the step in program order.
\* "S.x" = cj.Stat().x(); anything else is a connStats method (new = addCreated).
Transports == {"min", "prefix", "obfs4"}
ErrKinds == {"rst", "timeout", "closed", "other"}

\* effect of a call sequence on one connection's accounting state; "BAD" if a transition is called from the wrong state
RECURSIVE StAfter(_, _)
StAfter(st, calls) ==
  IF calls = <<>> THEN st
  ELSE LET x == Head(calls) IN
       IF x \in {"S.AddConn", "S.CloseConn", "S.ConnErr", "S.AddMissedReg"} THEN StAfter(st, Tail(calls))
       ELSE IF x = "new" THEN (IF st = "idle" THEN StAfter("created", Tail(calls)) ELSE "BAD")
       ELSE IF st = TT[x][1] THEN StAfter(TT[x][2], Tail(calls)) ELSE "BAD"
RECURSIVE DeltaSeq(_)
DeltaSeq(calls) ==
  IF calls = <<>> THEN Z(GCells)
  ELSE LET x == Head(calls) IN
       IF x \in {"S.AddConn", "S.CloseConn", "S.ConnErr", "S.AddMissedReg"} THEN DeltaSeq(Tail(calls))
       ELSE Add(DeltaSeq(Tail(calls)), Delta(x))
Count(calls, x) == Cardinality({i \in DOMAIN calls : calls[i] = x})
StatAfter(s, calls) ==
  [active |-> s.active + Count(calls, "S.AddConn") - Count(calls, "S.CloseConn") - Count(calls, "S.ConnErr"),
   new |-> s.new + Count(calls, "S.AddConn"), err |-> s.err + Count(calls, "S.ConnErr"),
   missed |-> s.missed + Count(calls, "S.AddMissedReg")]

\* a handler step: the calls are applied to the connection, both tables and the singleton
HStep(c, f, a, cc, calls, h2) ==
  /\ ~Locked
  /\ conn' = [conn EXCEPT ![c] = [st |-> StAfter(conn[c].st, calls), fam |-> f, asn |-> a, cc |-> cc, loops |-> 0, half |-> ""]]
  /\ glob' = [glob EXCEPT ![f] = Add(@, DeltaSeq(calls))]
  /\ tab' = IF cc = "" \/ DeltaSeq(calls) = Z(GCells) THEN tab ELSE Touch(tab, f, a, cc, DeltaSeq(calls))
  /\ stat' = StatAfter(stat, calls)
  /\ hs' = [hs EXCEPT ![c] = [h2 EXCEPT !.out = hs[c].out \o calls]]
  /\ UNCHANGED <<kon, kst, auth, pr, gone, gonea, gonek>>
HSame(c, calls, h2) == HStep(c, conn[c].fam, conn[c].asn, conn[c].cc, calls, h2)

\* entry: GeoIP lookups succeeded; occ = registrations tracked on the phantom (CountRegistrations)
HEnter(c, f, a, cc, occ) ==
  /\ hs[c].ph = "idle"
  /\ LET calls == <<"S.AddConn", "new">> \o (IF occ = 0 THEN <<"S.AddMissedReg", "S.CloseConn", "CreatedToDiscard">> ELSE <<>>) IN
     /\ HStep(c, f, a, cc, calls, [ph |-> IF occ = 0 THEN "drain" ELSE "read", alive |-> Transports, todo |-> {}, got |-> 0, out |-> <<>>, why |-> ""])
     /\ obs' = [a |-> "Enter", c |-> c, calls |-> calls]
\* GeoIP lookup failed (or the peer address is not an IP): the handler returns before anything is counted
HGeoFail(c) ==
  /\ hs[c].ph = "idle"
  /\ HStep(c, "v4", "", "", <<>>, [IdleH EXCEPT !.ph = "done", !.why = "uncounted"])
  /\ obs' = [a |-> "GeoFail", c |-> c, calls |-> <<>>]
\* clientConn.Read returned n bytes, no error
HRead(c, n) ==
  /\ hs[c].ph = "read" /\ hs[c].alive # {}
  /\ LET calls == <<IF hs[c].got = 0 THEN "CreatedToCheck" ELSE "ReadToCheck">> IN
     /\ HSame(c, calls, [hs[c] EXCEPT !.ph = "offer", !.todo = hs[c].alive, !.got = IF hs[c].got + n > 2 THEN 2 ELSE hs[c].got + n])
     /\ obs' = [a |-> "Read", c |-> c, n |-> n, calls |-> calls]
\* clientConn.Read returned an error.  As found a peer close after the first byte is filed as an error (there is no readToClose)
ReadErrCall(got, kind) ==
  IF got = 0 THEN (CASE kind = "rst" -> "CreatedToReset" [] kind = "timeout" -> "CreatedToTimeout"
                     [] kind = "closed" -> "CreatedToClose" [] OTHER -> "CreatedToError")
  ELSE (CASE kind = "rst" -> "ReadToReset" [] kind = "timeout" -> "ReadToTimeout" [] OTHER -> "ReadToError")
HReadErr(c, kind) ==
  /\ hs[c].ph = "read" /\ hs[c].alive # {}
  /\ LET calls == <<ReadErrCall(hs[c].got, kind), "S.ConnErr">> IN
     /\ HSame(c, calls, [hs[c] EXCEPT !.ph = "done", !.why = kind])
     /\ obs' = [a |-> "ReadErr", c |-> c, kind |-> kind, calls |-> calls]
\* one WrapConnection answer; after the last transport of the round the loop's tail runs in the same step
\* (no transport left: checkToDiscard, then the top of the loop files the connection as an error and starts draining)
LoopTail(alive, got) == IF alive = {} THEN <<"CheckToDiscard", "S.ConnErr">> ELSE IF got = 0 THEN <<"CheckToCreated">> ELSE <<"CheckToRead">>
HVerdict(c, t, r) ==
  /\ hs[c].ph = "offer" /\ t \in hs[c].todo
  /\ LET alive2 == IF r = "not" THEN hs[c].alive \ {t} ELSE hs[c].alive
         todo2 == hs[c].todo \ {t}
         calls == CASE r = "match" -> <<"CheckToFound">>
                    [] r = "error" -> <<"S.ConnErr", "CheckToError">>
                    [] OTHER -> IF todo2 = {} THEN LoopTail(alive2, hs[c].got) ELSE <<>>
         h2 == CASE r = "match" -> [hs[c] EXCEPT !.ph = "found", !.todo = {}]
                 [] r = "error" -> [hs[c] EXCEPT !.ph = "sleep", !.todo = {}]
                 [] OTHER -> [hs[c] EXCEPT !.alive = alive2, !.todo = todo2,
                                          !.ph = IF todo2 # {} THEN "offer" ELSE IF alive2 = {} THEN "drain" ELSE "read"] IN
     /\ r \in {"again", "not", "match", "error"}
     /\ HSame(c, calls, h2)
     /\ obs' = [a |-> "Verdict", c |-> c, t |-> t, r |-> r, calls |-> calls]
\* io.Copy(io.Discard, clientConn) returned (nil = the peer closed)
HDrainEnd(c, kind) ==
  /\ hs[c].ph = "drain"
  /\ LET calls == <<CASE kind = "rst" -> "DiscardToReset" [] kind = "timeout" -> "DiscardToTimeout"
                      [] kind = "closed" -> "DiscardToClose" [] OTHER -> "DiscardToError">> IN
     /\ HSame(c, calls, [hs[c] EXCEPT !.ph = "done", !.why = kind])
     /\ obs' = [a |-> "DrainEnd", c |-> c, kind |-> kind, calls |-> calls]
HSleepDone(c) ==
  /\ hs[c].ph = "sleep"
  /\ HSame(c, <<>>, [hs[c] EXCEPT !.ph = "done", !.why = "terr"])
  /\ obs' = [a |-> "SleepDone", c |-> c, calls |-> <<>>]
\* cj.Proxy returned
HRelayEnd(c) ==
  /\ hs[c].ph = "found"
  /\ LET calls == IF Broken = "found_no_close" THEN <<>> ELSE <<"S.CloseConn">> IN
     /\ HSame(c, calls, [hs[c] EXCEPT !.ph = "done", !.why = "match"])
     /\ obs' = [a |-> "RelayEnd", c |-> c, calls |-> calls]

NextHandler ==
  \/ \E c \in Conns, f \in Fams, a \in Asns, cc \in CCs, occ \in {0, 1} : HEnter(c, f, a, cc, occ)
  \/ \E c \in Conns : HGeoFail(c) \/ HSleepDone(c) \/ HRelayEnd(c)
  \/ \E c \in Conns, n \in {0, 1} : hs[c].out # <<>> /\ Len(hs[c].out) < 2 + 4 * (MaxLoops + 1) /\ HRead(c, n)
  \/ \E c \in Conns, k \in ErrKinds : HReadErr(c, k) \/ HDrainEnd(c, k)
  \/ \E c \in Conns, t \in Transports, r \in {"again", "not", "match", "error"} : HVerdict(c, t, r)
  \/ (Reset /\ \A c \in Conns : hs[c].ph \in {"idle", "done", "read", "drain"})
SpecHandler == Init /\ [][NextHandler]_vars

\* ---- the language of one connection's calls, per outcome (what the handler may emit, as found)
ConnCalls(out) == SelectSeq(out, LAMBDA x : x \notin {"S.AddConn", "S.CloseConn", "S.ConnErr", "S.AddMissedReg"})
StatCalls(out) == SelectSeq(out, LAMBDA x : x \in {"S.AddConn", "S.CloseConn", "S.ConnErr", "S.AddMissedReg"})
LastOf(s) == s[Len(s)]
LegalSeq(out, why) ==
  IF why = "uncounted" THEN out = <<>>
  ELSE LET cs == ConnCalls(out)  ss == StatCalls(out) IN
   /\ Len(cs) >= 2 /\ cs[1] = "new"
   /\ StAfter("idle", cs) \in Outcomes                                \* a path of the machine from created to an outcome
   /\ \A i \in 1..(Len(cs) - 1) : StAfter("idle", SubSeq(cs, 1, i)) \notin Outcomes   \* nothing after the outcome
   /\ CASE why = "timeout" -> LastOf(cs) \in {"CreatedToTimeout", "ReadToTimeout", "DiscardToTimeout"}
        [] why = "rst"     -> LastOf(cs) \in {"CreatedToReset", "ReadToReset", "DiscardToReset"}
        [] why = "closed"  -> LastOf(cs) \in {"CreatedToClose", "DiscardToClose"} \cup (IF AsFound THEN {"ReadToError"} ELSE {})
        [] why = "other"   -> LastOf(cs) \in {"CreatedToError", "ReadToError", "DiscardToError"}
        [] why = "terr"    -> LastOf(cs) = "CheckToError"
        [] why = "match"   -> LastOf(cs) = "CheckToFound"
        [] OTHER -> FALSE
   \* the singleton: counted once on entry, released exactly once - at once when nothing is registered on the phantom
   \* (with a miss), as an error when classification fails, by CloseConn after the relay
   /\ ss[1] = "S.AddConn" /\ Count(ss, "S.AddConn") = 1
   /\ Count(ss, "S.CloseConn") + Count(ss, "S.ConnErr") = 1
   /\ (Count(ss, "S.AddMissedReg") = 1) <=> (Len(cs) >= 2 /\ cs[2] = "CreatedToDiscard")
   /\ (Count(ss, "S.AddMissedReg") = 1) => ss = <<"S.AddConn", "S.AddMissedReg", "S.CloseConn">>
   /\ (why = "match") <=> (LastOf(ss) = "S.CloseConn" /\ Count(ss, "S.AddMissedReg") = 0)

\* symmetry breaking for the bounded configurations: ids start in order (c2 only once c1 has, k2 only once k1 has)
Order == <<"c1", "c2", "c3", "k1", "k2">>
Canon == \A i \in 1..(Len(Order) - 1) :
           /\ (Order[i] \in Conns /\ Order[i + 1] \in Conns) => (conn[Order[i + 1]].st # "idle" => conn[Order[i]].st # "idle")
           /\ (Order[i] \in Kons /\ Order[i + 1] \in Kons) => (kst[Order[i + 1]].st # "idle" => kst[Order[i]].st # "idle")

\* ------------------------------------------------------------------ properties
Terminal(c) == conn[c].st \in Outcomes
InState(f, s) == Cardinality({c \in Conns : conn[c].st = s /\ conn[c].fam = f})
NoHalf == \A c \in Conns : conn[c].half = ""
Quiet == pr.pc = "idle" /\ NoHalf
CellRange == -8..64
TypeOK == /\ \A f \in Fams, x \in GCells : glob[f][x] \in CellRange
          /\ \A f \in Fams, a \in Asns : tab[f][a] = None \/ (tab[f][a].cc \in CCs \ {""} /\ \A x \in ACells : tab[f][a].n[x] \in CellRange)
          /\ \A x \in KCells : kon[x] \in CellRange
          /\ pr.pc \in {"idle", "w_v4", "w_v6"}

\* each family-wide gauge is exactly the number of connections in that state (so it is never negative, and zero at
\* quiescence); holds for the code as found
GaugeExact == \A f \in Fams, s \in Gauges : glob[f][s] = InState(f, s)
\* reported + current never exceeds what happened: nothing is counted twice (as found and intended)
NoDoubleCount == Quiet => \A f \in Fams, x \in Outcomes : gone[f][x] + glob[f][x] <= InState(f, x)
\* ... and nothing is lost: over all epochs the log accounts for every outcome exactly once (INTENDED; as found an
\* update between a line's loads and reset() is zeroed unseen, and a family with an empty ASN table is never printed)
Ledger == Quiet => \A f \in Fams, x \in Outcomes : gone[f][x] + glob[f][x] = InState(f, x)
\* the per-ASN rows are printed and replaced under the mutex: exact as found
AsnLedger == Quiet => \A f \in Fams, x \in Outcomes :
               gonea[f][x] + TabSum(tab, f, x) = Cardinality({c \in Conns : conn[c].st = x /\ conn[c].fam = f /\ conn[c].cc # ""})
\* per epoch: resolved = sum of the outcomes, total = sum of the transitions.  (Granularity: the 4-5 atomic adds of one
\* call are one step here; in the code reset()'s stores can fall between them, so on the real object these two hold at
\* quiescence only for epochs in which no call straddled a reset - stage C does not rely on them.)
OutcomeSum == Quiet => \A f \in Fams : glob[f]["resolved"] = SumF(glob[f], Outcomes)
TotalIsSum == Quiet => \A f \in Fams : glob[f]["total"] = SumF(glob[f], TransNames)      \* INTENDED (CreatedToClose is forgotten)
\* arrivals = resolved + in flight, over all epochs (needs new / resolved of an epoch to be cleared together: holds)
InFlight(f) == SumF(glob[f], Gauges)
\* the per-ASN tables add up to the family-wide counters when every connection has a country code
AllTabulated == \A c \in Conns : conn[c].st # "idle" => conn[c].cc # ""
AsnSumsEpoch == (Quiet /\ AllTabulated /\ pr.n = 0) => \A f \in Fams, x \in GCells : TabSum(tab, f, x) = glob[f][x]
AsnSums == (Quiet /\ AllTabulated) => \A f \in Fams, x \in GCells : TabSum(tab, f, x) = glob[f][x]             \* INTENDED
AsnGaugesNonNeg == \A f \in Fams, a \in Asns, s \in Gauges : tab[f][a] # None => tab[f][a].n[s] >= 0          \* INTENDED
\* connecting gauge = attempts in flight (INTENDED: as found it is cleared with the epoch and not released by OtherFail)
KonGaugeExact == kon["kCreated"] = Cardinality({k \in Kons : kst[k].st = "kCreated"})
KonLedger == Quiet => \A x \in KEvents \ {"kAuthFail"} : gonek[x] + kon[x] = Cardinality({k \in Kons : kst[k].st = x})
\* printing does not change a gauge
PrintKeepsGauges == [][(pr.pc # "idle" \/ pr'.pc # "idle" \/ obs'.a \in {"Print", "Reset"}) /\ obs'.a \in {"Print", "Reset"}
                        => \A f \in Fams, s \in Gauges : glob'[f][s] = glob[f][s]]_vars
\* quiescence: every connection resolved => every in-flight gauge is zero
AllDone == \A c \in Conns : conn[c].st \in Outcomes \cup {"idle"}
QuiescentZero == (Quiet /\ AllDone) => \A f \in Fams, s \in Gauges : glob[f][s] = 0

\* handler level
NoBadCall == \A c \in Conns : conn[c].st # "BAD"
PhaseMatches == \A c \in Conns :
  CASE hs[c].ph = "idle"  -> conn[c].st = "idle"
    [] hs[c].ph = "read"  -> hs[c].alive # {} /\ conn[c].st = (IF hs[c].got = 0 THEN "created" ELSE "reading")
    [] hs[c].ph = "offer" -> conn[c].st = "checking"
    [] hs[c].ph = "drain" -> conn[c].st = "discarding"
    [] hs[c].ph = "found" -> conn[c].st = "found"
    [] hs[c].ph = "sleep" -> conn[c].st = "err"
    [] hs[c].ph = "done"  -> conn[c].st \in Outcomes \cup {"idle"}
    [] OTHER -> FALSE
LegalWhenDone == \A c \in Conns : hs[c].ph = "done" => LegalSeq(hs[c].out, hs[c].why)
\* the singleton's gauge = connections being classified or relayed (released BEFORE the drain / the penalty sleep)
StatActiveExact == stat.active = Cardinality({c \in Conns : hs[c].ph \in {"read", "offer", "found"}})
StatBalanced == (\A c \in Conns : hs[c].ph \in {"idle", "done"}) => stat.active = 0
\* a finished, counted connection was new once and resolved once
OncePerConn == \A c \in Conns : (hs[c].ph = "done" /\ hs[c].why # "uncounted") =>
                  (Count(hs[c].out, "new") = 1 /\ DeltaSeq(hs[c].out)["resolved"] = 1 /\ \A s \in Gauges : DeltaSeq(hs[c].out)[s] = 0)

\* ---- the same conservation laws over a recorded ledger (stage C: real concurrent runs judged at quiescence).
\* e.ev = events per cell from the per-goroutine logs, e.rep = sum of the printed values over all epochs,
\* e.cur = final snapshot, e.inflight = connections the drivers left in each state
LedgerRecOK(e) ==
  /\ \A f \in Fams, s \in Gauges : e.cur[f][s] = e.inflight[f][s]
  /\ \A f \in Fams, x \in Outcomes : e.rep[f][x] + e.cur[f][x] <= e.ev[f][x]
  /\ (~AsFound) => \A f \in Fams, x \in Outcomes : e.rep[f][x] + e.cur[f][x] = e.ev[f][x]
  \* the per-ASN rows are exact (arrivals and every outcome), so per family: tabulated arrivals = tabulated outcomes + in flight
  /\ \A f \in Fams, x \in Outcomes \cup {"new"} : e.repa[f][x] + e.cura[f][x] = e.eva[f][x]
  /\ \A f \in Fams : e.ev[f]["new"] - SumF(e.ev[f], Outcomes) = SumF(e.inflight[f], Gauges)
=============================================================================
\* Divergences of the code from "intended" that the as_found variant models (each is demonstrated on the real
\* code by stage B of checks/X04.py, which replays as_found behaviours and must match exactly):
\*  D1 lost update   outcome counters are loaded for the family line, then zeroed by reset(): an atomic add in between
\*                   (the adds do not take c.m) is neither printed nor kept.
\*  D2 silent epoch  the family line is only printed when that family's ASN table is non-empty; with the default
\*                   EmptyDatabase GeoIP (cc "") the table stays empty and conn-stats are never printed, only zeroed.
\*  D3 forgotten     reset() never zeroes numCreatedToClose (either family).
\*  D4 ASN gauges    reset() replaces the ASN tables, dropping the in-flight gauges kept there: a connection that
\*                   outlives the epoch drives its table's gauge negative.
\*  D5 rows          every conn-stats-verbose row, IPv4 too, prints c.ipv6.numNewConns / c.ipv6.numResolved.
\*  D6 connecting    resetConnecting clears the numCreatedConnecting gauge and AddOtherFailConnecting does not
\*                   release it.
\*  D7 ReadToError   a peer close after the first byte is filed as an error (no readToClose exists).
