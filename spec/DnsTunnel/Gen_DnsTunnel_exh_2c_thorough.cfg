\* every path: two concurrent clients, one response duplicated / re-addressed (cross-talk scenarios)
SPECIFICATION GenSpec
CONSTANTS
  Clients = {"c1", "c2"}
  MaxReq = 1
  JunkKinds = {}
  MaxJunk = 0
  MaxDup = 1
  MaxDrop = 0
  MaxClose = 0
  Faults = {"DupR"}
  StaleMode = "fail"
  KeyCheck = TRUE
  Timeout = FALSE
  Depth = 10
INVARIANT Emit
CHECK_DEADLOCK FALSE
