"""C10 - every detector announcement is acceptable to it and matches the registration.

A  TLC exhaustive on spec/Detector (station announcements New/Update/Clear, the detector's acceptance rules transcribed from
   src/sessions.rs in the order the Rust code applies them, session map with keep-the-longer and expiry):
   EveryAnnouncementAccepted, SessionMatchesRegistration, DetectorOutlivesStation, ClearEmpties; the instance in which Clear
   must first parse as a session (pre-fix Rust) must violate.
B/C both sides of the wire are real code.  Go: admitted registrations of every shape (transport x family x registrant form x
   port / phantom overrides) come out of the real ingest, are marked active, and the station shuts down; the bytes the real
   sendToDetector / clearDetector publish are captured by an in-process RESP server standing in for Redis, decoded, and
   compared with the registration's fields.  Rust: the repository's src/sessions.rs is compiled UNMODIFIED with rustc behind
   stub crates and fed the captured payloads through its own ingest_from_pubsub path; its session map is dumped after every
   message.  The combined event log (Publish, DetState) is validated against Detector.tla.
"""
import json, os, subprocess, copy
import vlib

PKG = "pkg/station/lib"
FILES = ["common/vcommon_test.go", "pkg_station_lib/ingest_sched_verif_test.go", "pkg_station_lib/detector_verif_test.go"]
TU_NS, TA_NS = 600 * 10**9, 21600 * 10**9


def pb_decode(b):
    """minimal protobuf decoder for StationToDetector: {field: value}"""
    i, out = 0, {}
    def varint():
        nonlocal i
        v = s = 0
        while True:
            x = b[i]; i += 1
            v |= (x & 0x7f) << s
            if not x & 0x80:
                return v
            s += 7
    while i < len(b):
        key = varint()
        f, wt = key >> 3, key & 7
        if wt == 0:
            out[f] = varint()
        elif wt == 2:
            n = varint()
            out[f] = b[i:i + n].decode("utf-8", "replace"); i += n
        elif wt == 1:
            i += 8
        elif wt == 5:
            i += 4
        else:
            raise ValueError("wire type")
    return out


def ipform(s):
    import ipaddress
    if s == "":
        return "empty"
    try:
        return "v4" if ipaddress.ip_address(s).version == 4 else "v6"
    except ValueError:
        return "invalid"


def abstract_msg(m):
    """the decoded real payload in the terms of Detector.tla"""
    op = {1: "New", 2: "Update", 3: "Clear"}.get(m.get(4, 0), "Unknown")
    proto = {1: "tcp", 2: "udp"}.get(m.get(12, 0), "unk")
    phantom, client = m.get(1, ""), m.get(2, "")
    pf = ipform(phantom)
    t = m.get(3, 0)
    msg = {"op": op, "phantomFam": pf if pf in ("v4", "v6") else "invalid", "clientForm": ipform(client), "proto": proto,
           "timeout": 600 if t == TU_NS else 21600 if t == TA_NS else (t // 10**9 if op != "Clear" else 0)}
    if op != "Clear":
        msg["tag"] = {"proto": proto, "client": "_" if pf == "v6" else client, "phantom": phantom, "port": m.get(10, 0)}
    return msg


def parse_tag(tag):
    # "<t-|u-><client|_>-<phantom>-:<port>"
    proto = {"t-": "tcp", "u-": "udp"}.get(tag[:2], "?")
    rest = tag[2:] if proto != "?" else tag
    body, port = rest.rsplit("-:", 1)
    client, phantom = body.split("-", 1)
    return {"proto": proto, "client": client, "phantom": phantom, "port": int(port)}


def run(ctx):
    sdir = ctx.spec_copy("Detector")
    r = ctx.tlc(sdir, "MC_Detector.tla", "MC_Detector.cfg", timeout=900)
    ctx.require_design_ok(r, "Detector")
    b = ctx.tlc(sdir, "MC_Detector.tla", "MC_Detector_asimpl.cfg", timeout=300, count=False)
    if b["inv"] not in ("EveryAnnouncementAccepted", "ClearEmpties"):
        raise vlib.InfraError("as-implemented detector instance should violate, got %s" % b["inv"])
    ctx.stage("A", nonvacuity="instance where Clear must parse as a session violates %s" % b["inv"])

    # ---- Go side
    outp = os.path.join(ctx.scratch, "detector_pub.ndjson")
    res = ctx.go_test(PKG, FILES, "lib", "^TestVerifDetectorAnnouncements$", env={"VERIF_OUT": outp}, timeout=900)
    rows = ctx.read_results(outp)
    if not any(x.get("kind") == "summary" for x in rows):
        raise vlib.InfraError("detector driver did not finish:\n" + res["out"][-3000:])
    for x in rows:
        if x["kind"] == "notadmitted":
            raise vlib.InfraError("driver could not create an admitted registration: %s" % x)
        if x["kind"] == "nopublish":
            ctx.violation("publish:missing:%s" % x["op"], "the station published %s message(s) for %s (expected exactly one)" % (x["published"], x["op"]), x)
    pubs = [x for x in rows if x["kind"] == "publish"]
    if len(pubs) < 20:
        raise vlib.InfraError("too few announcements captured (%d)" % len(pubs))
    regs = {}
    events = []
    for p in pubs:
        raw = bytes.fromhex(p["hex"])
        m = pb_decode(raw)
        am = abstract_msg(m)
        p["decoded"], p["abstract"] = m, am
        if p["op"] != "Clear":
            rg = p["reg"]
            regs[p["id"]] = {"id": p["id"], "fam": "v6" if rg["v6"] else "v4", "phantom": rg["phantom"],
                             "registrant": rg["registrant_class"], "client": rg["registrant"] or "::",
                             "proto": {"Tcp": "tcp", "Udp": "udp"}.get(rg["proto"], "unk"), "port": rg["port"]}
            # field-by-field: the message carries this registration's phantom, port, protocol, registrant and the station's lifetime
            want = {1: rg["phantom"], 2: rg["registrant"] or "::", 10: rg["port"], 12: {"Tcp": 1, "Udp": 2}.get(rg["proto"], 0),
                    3: p["station_lifetime_ns"], 4: {"New": 1, "Update": 2}[p["op"]]}
            for f, v in want.items():
                if m.get(f, 0 if isinstance(v, int) else "") != v:
                    name = {1: "phantom_ip", 2: "client_ip", 10: "dst_port", 12: "proto", 3: "timeout_ns", 4: "operation"}[f]
                    ctx.violation("message:%s:%s:%s" % (p["op"], name, rg["registrant_class"] if f == 2 else rg["transport"]),
                                  "published %s message for %s has %s = %r, the registration says %r" % (p["op"], rg, name, m.get(f), v), p)
    ctx.sample({"published": pubs[0]["decoded"], "registration": pubs[0]["reg"]})

    # ---- Rust side: the real sessions.rs behind stub crates
    rdir = ctx.sub("rust")
    bres = subprocess.run([os.path.join(vlib.VERIF, "rust", "build.sh"), ctx.repo, rdir], stdout=subprocess.PIPE, stderr=subprocess.STDOUT, text=True)
    if bres.returncode != 0 or not os.path.exists(os.path.join(rdir, "detector")):
        raise vlib.InfraError("could not build the detector harness from %s/src/sessions.rs:\n%s" % (ctx.repo, bres.stdout[-3000:]))
    s2d = os.path.join(rdir, "s2d.hex")
    open(s2d, "w").write("".join(p["hex"] + "\n" for p in pubs))
    dres = subprocess.run(["timeout", "60", os.path.join(rdir, "detector")], env=dict(os.environ, VERIF_S2D_FILE=s2d), stdout=subprocess.PIPE,
                          stderr=subprocess.PIPE, text=True)
    dumps = [json.loads(l) for l in dres.stdout.splitlines() if l.startswith("{")]
    if dres.returncode != 0 or len(dumps) != len(pubs):
        raise vlib.InfraError("detector harness failed (rc %s, %d dumps for %d messages): %s" % (dres.returncode, len(dumps), len(pubs), dres.stderr[-2000:]))

    def cls(ns):
        for name, v in ((600, TU_NS), (21600, TA_NS)):
            if 0.97 * v <= ns <= v:
                return name
        return ns // 10**9
    trace = [{"a": "Regs", "regs": list(regs.values())}]
    for p, d in zip(pubs, dumps):
        trace.append({"a": "Publish", "id": p["id"], "msg": p["abstract"]})
        sess = []
        for s in d["sessions"]:
            try:
                sess.append({"tag": parse_tag(s["tag"]), "exp": cls(s["remaining_ns"])})
            except Exception:
                sess.append({"tag": {"proto": "?", "client": s["tag"], "phantom": "?", "port": 0}, "exp": 0})
        trace.append({"a": "DetState", "sessions": sess})
    ok, reached, total, tr = ctx.validate_traces(sdir, "Trace_Detector.tla", "Trace_Detector.cfg", [trace], timeout=600, reset=False)
    ctx.log("C: %d announcements (%d registrations), detector dumps %d; trace accepted=%s reached=%d/%d"
            % (len(pubs), len(regs), len(dumps), ok, reached, total))
    if not ok:
        ev = trace[reached] if reached < len(trace) else None
        prev = trace[reached - 1] if reached > 0 else None
        if tr["inv"]:
            kind = "invariant:%s" % tr["inv"]
        elif ev and ev["a"] == "DetState":
            kind = "detector-state-after:%s:%s" % (prev["msg"]["op"], prev["msg"]["clientForm"] + "-client-" + prev["msg"]["phantomFam"] + "-phantom")
        else:
            kind = "publish:%s" % (ev or {}).get("msg", {}).get("op")
        ctx.violation("trace:%s" % kind, "station/detector exchange is not a behaviour of Detector.tla at event %d: %s (previous: %s)"
                      % (reached, json.dumps(ev)[:400], json.dumps(prev)[:300]), {"event": ev, "previous": prev, "tlc": tr["out"][-1500:]})
    else:
        bad = copy.deepcopy(trace)
        for e in bad:
            if e["a"] == "DetState" and e["sessions"]:
                e["sessions"][0]["exp"] = 21600 if e["sessions"][0]["exp"] == 600 else 600
                break
        ok2, r2, _, _ = ctx.validate_traces(sdir, "Trace_Detector.tla", "Trace_Detector.cfg", [bad], timeout=300, reset=False)
        if ok2:
            raise vlib.InfraError("binding is vacuous: corrupted detector trace accepted")
        ctx.stage("C", corrupted_trace_rejected_at=r2)
    # ---- H: lifetimes over time.  TLC-simulated histories (validate, DUPLICATE delivery, activate, time passing) over two registrations
    # are replayed on the real station; every published message is applied by the real detector logic under the logical clock at which it
    # was sent; the station's own view of each registration (tracked / used) and the detector's session map after every step must be the
    # specification's - whose invariant DetectorOutlivesStation is evaluated on every state of the validated trace.
    rlife = ctx.tlc(sdir, "MC_Detector.tla", "MC_Detector_life.cfg", timeout=300)
    ctx.require_design_ok(rlife, "Detector with packets keeping sessions alive, crash / restart and shutdown")
    rcw = ctx.tlc(sdir, "MC_Detector.tla", "MC_Detector_clearifftracking.cfg", timeout=300, count=False)
    if rcw["inv"] != "ClearEmpties":
        raise vlib.InfraError("the instance that only clears when its own table is non-empty should violate ClearEmpties, got %s" % rcw["inv"])
    rd = ctx.tlc(sdir, "MC_Detector.tla", "MC_Detector_duprestart.cfg", timeout=300, count=False)
    if rd["inv"] != "DetectorOutlivesStation":
        raise vlib.InfraError("the instance where a duplicate restarts the station's clock should violate DetectorOutlivesStation, got %s" % rd["inv"])
    thorough = ctx.tier == "thorough"
    gh = ctx.tlc(sdir, "Gen_Detector.tla", "Gen_Detector.cfg", timeout=600, workers=2, count=False, simulate="num=%d" % (1500 if thorough else 150),
                 depth=10, deadlock=False, extra=["-seed", str(ctx.seed)])
    hin = os.path.join(ctx.scratch, "life_beh.ndjson")
    seen = set()
    with open(hin, "w") as fo:
        for line in open(gh["beh_file"]):
            if line not in seen:
                seen.add(line)
                fo.write(line)
    hout = os.path.join(ctx.scratch, "life_out.ndjson")
    resh = ctx.go_test(PKG, FILES, "lib", "^TestVerifDetectorLifetime$", env={"VERIF_IN": hin, "VERIF_OUT": hout}, timeout=900)
    try:
        hrows = ctx.read_results(hout)
    except ValueError:
        raise vlib.InfraError("lifetime driver died:\n" + resh["out"][-3000:])
    if not any(x.get("kind") == "summary" for x in hrows):
        raise vlib.InfraError("lifetime driver did not finish:\n" + resh["out"][-3000:])
    hists = [x for x in hrows if x.get("kind") == "history"]
    if len(hists) < 30:
        raise vlib.InfraError("too few lifetime histories (%d)" % len(hists))
    canon_regs = None
    big = []
    ndup = ntick = npk = ncrash = nclear = 0
    for h in hists:
        evs = h["events"]
        ri = {r["id"]: r for r in evs[0]["regs"]}
        ph = {ri[i]["phantom"]: "P" + i for i in ri}           # canonical phantom names: all histories share the two abstract registrations
        regs_abs = [{"id": i, "fam": "v6" if ri[i]["v6"] else "v4", "phantom": "P" + i, "registrant": ri[i]["registrant_class"],
                     "client": ri[i]["registrant"], "proto": {"Tcp": "tcp", "Udp": "udp"}.get(ri[i]["proto"], "unk"), "port": ri[i]["port"]} for i in sorted(ri)]
        canon_regs = canon_regs or regs_abs
        if regs_abs != canon_regs:
            raise vlib.InfraError("lifetime histories do not share their registrations: %s vs %s" % (regs_abs, canon_regs))
        lines, kinds = [], []
        for e in evs[1:]:
            if e["a"] == "Publish":
                lines.append("@%d %s" % (e["clock"], e["hex"]))
                kinds.append(e)
            elif e["a"] == "Tick":
                lines.append("@%d" % e["clock"])
                kinds.append(e)
            elif e["a"] == "Packets":
                lines.append("@%d !" % e["clock"])
                kinds.append(e)
            elif e["a"] == "PublishCount" and e["op"] == "Clear" and e["n"] == 0:
                lines.append("@%d" % e["clock"])          # nothing was said: look at the detector all the same
                kinds.append(e)
        s2dh = os.path.join(rdir, "life.hex")
        open(s2dh, "w").write("".join(l + "\n" for l in lines))
        dr = subprocess.run(["timeout", "60", os.path.join(rdir, "detector")], env=dict(os.environ, VERIF_S2D_FILE=s2dh, VERIF_LOGICAL_CLOCK="1"),
                            stdout=subprocess.PIPE, stderr=subprocess.PIPE, text=True)
        dd = [json.loads(l) for l in dr.stdout.splitlines() if l.startswith("{")]
        if dr.returncode != 0 or len(dd) != len(lines):
            raise vlib.InfraError("detector harness failed on a lifetime history (rc %s, %d dumps for %d lines): %s" % (dr.returncode, len(dd), len(lines), dr.stderr[-1500:]))
        di = 0
        big.append({"a": "Reset"})

        def detstate(clock, d):
            sess = []
            for sx in d["sessions"]:
                tg = parse_tag(sx["tag"])
                tg["phantom"] = ph.get(tg["phantom"], tg["phantom"])
                sess.append({"tag": tg, "exp": clock + sx["remaining_ns"] // 10**9})
            return {"a": "DetState", "sessions": sess}
        for e in evs[1:]:
            if e["a"] == "Publish":
                if e["op"] == "unexpected":
                    ctx.violation("lifetime:duplicate-published", "a duplicate delivery of a tracked registration made the station publish a message", e)
                    continue
                am = abstract_msg(pb_decode(bytes.fromhex(e["hex"])))
                if am.get("tag"):
                    am["tag"]["phantom"] = ph.get(am["tag"]["phantom"], am["tag"]["phantom"])
                if e["op"] == "Clear":
                    nclear += 1
                big.append({"a": "Publish", "id": e["id"], "msg": am})
                big.append(detstate(e["clock"], dd[di]))
                di += 1
            elif e["a"] == "Tick":
                ntick += 1
                big.append({"a": "Tick", "d": e["d"]})
                big.append(detstate(e["clock"], dd[di]))
                di += 1
            elif e["a"] == "Packets":
                npk += 1
                big.append({"a": "Packets"})
                big.append(detstate(e["clock"], dd[di]))
                di += 1
            elif e["a"] == "Crash":
                ncrash += 1
                big.append({"a": "Crash"})
            elif e["a"] == "Dup":
                ndup += 1
                big.append({"a": "Dup", "id": e["id"]})
            elif e["a"] == "StState":
                big.append({"a": "StState", "tracked": e["tracked"], "used": e["used"]})
            elif e["a"] == "PublishCount":
                if e["op"] == "Clear" and e["n"] == 0:
                    left = dd[di]["sessions"]
                    di += 1
                    ctx.violation("lifetime:no-clear-at-shutdown", "the station shut down gracefully without publishing the Clear request%s"
                                  % ("; the real detector still forwards %d session(s) nobody knows about: %s" % (len(left), [x["tag"] for x in left]) if left
                                     else ""), {"event": e, "detector_sessions": left, "history": [x for x in evs[1:] if x["a"] != "StState"][:20]})
                    break       # the rest of this history is not the specification's any more
                ctx.violation("lifetime:publish-count:%s" % e["op"], "the station published %d messages for one %s" % (e["n"], e["op"]), e)
    htrace = [{"a": "Regs", "regs": canon_regs}] + big
    okh, reachedh, totalh, trh = ctx.validate_traces(sdir, "Trace_Detector.tla", "Trace_Detector.cfg", [htrace], timeout=900, reset=False)
    ctx.log("H: %d lifetime histories (%d duplicate deliveries, %d time steps), %d events; accepted=%s reached=%d/%d"
            % (len(hists), ndup, ntick, len(htrace), okh, reachedh, totalh))
    if (ndup < 20 or ntick < 50 or npk < 10 or ncrash < 10 or nclear < 10) and not ctx.violations:
        raise vlib.InfraError("lifetime histories are vacuous (%d duplicates, %d time steps, %d packet steps, %d crashes, %d shutdowns)" % (ndup, ntick, npk, ncrash, nclear))
    if not okh:
        ev = htrace[reachedh] if reachedh < len(htrace) else None
        prev = htrace[max(0, reachedh - 6):reachedh]
        kind = "invariant:%s" % trh["inv"] if trh["inv"] else "%s" % (ev or {}).get("a")
        what = {"StState": "the REAL station's view of its registrations (tracked / used) is not the specification's: the station and the detector "
                           "no longer agree on how long the session lives",
                "DetState": "the real detector's session map is not the specification's"}.get((ev or {}).get("a"), "not a behaviour of Detector.tla")
        ctx.violation("lifetime:%s" % kind, "lifetime history: %s at event %d: %s (previous: %s)" % (what, reachedh, json.dumps(ev)[:300], json.dumps(prev)[:500]),
                      {"event": ev, "previous": prev})
    ctx.stage("H", packet_steps=npk, crashes=ncrash, shutdowns=nclear, histories=len(hists), duplicate_deliveries=ndup, time_steps=ntick, events=len(htrace), accepted=okh,
              nonvacuity="DupMode=restart violates DetectorOutlivesStation")
    ctx.cov["traces_validated_against_impl"] = 1
    shapes = {(x["reg"]["transport"], x["reg"]["v6"], x["reg"]["registrant_class"], x["op"], x["reg"]["port"] != 443) for x in pubs if x["op"] != "Clear"}
    ctx.cov["evaluations"] = len(pubs)
    ctx.cov["distinct_nontrivial"] = len(shapes) + 1
    ctx.cov["rule"] = "distinct = (transport, family, registrant form, operation, overridden port); plus the clear message"
    ctx.stage("C", announcements=len(pubs), registrations=len(regs), accepted=ok)
    ctx.assumptions += ["the detector's session logic is the repository's src/sessions.rs compiled unmodified with rustc against stub crates (log, pnet, "
                        "protobuf, redis) and stub util/flow_tracker/signalling modules (cargo cannot fetch the real dependencies offline); "
                        "packet-path code (flow_tracker.rs, process_packet.rs) is not exercised",
                        "Redis is replaced by an in-process RESP server; the station's client is pointed at it in-package",
                        "stage C compares remaining lifetimes with 3% tolerance (wall clock); stage H drives time: the station by back-dating its expiry records, the detector "
                        "by a logical clock in the harness (drop_stale_sessions runs after every step)"]
