SPECIFICATION Spec
CONSTANTS
  TPI = 2
  MaxTicks = 12
  Mode = "asimpl"
VIEW view
INVARIANTS TypeOK DeadPeerCloses
PROPERTIES NoEarlyClose
CHECK_DEADLOCK FALSE
