\* as-found variant, exhaustive: the properties that hold of the code as it is
SPECIFICATION Spec
CONSTANTS
  Variant = "asfound"
  Configs <- CfgMC
  ApiOutcomes = {"neterr", "s404", "s500", "garbage", "R0", "R1", "R2", "RT", "RB", "RE"}
  DnsOutcomes = {"servfail", "garbage", "nosuccess", "nobidi", "R0", "R1", "R2", "RT", "RB", "RE"}
VIEW view
INVARIANTS TypeOK AttemptBound FallbackAtMostOnce SecondaryUntouchedWithoutFallback ErrIffNoAccept UniIsLocal
           AddrFromAccepted OverridesOnlyFromAccepted PromptAfterCancel ApiNoWireAfterCancel
PROPERTIES NothingAfterResult FallbackOnlyAfterGiveUp
CHECK_DEADLOCK FALSE
