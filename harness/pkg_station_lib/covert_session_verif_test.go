//go:build verif

package lib

// Driver for spec/CovertPolicy/CovertSession.tla (property C06, multi-message histories of one session).
//
//   TestVerifCovertSessions  every history TLC emitted (Gen_CovertSession: a first registration message of some policy
//                            class, later messages for the SAME session - same shared secret, hence same phantom and
//                            transport identifier - of every policy class, the first worker's release, connections, in
//                            every order) is run through the real parseRegMessage / ingestRegistration / GetRegistrations /
//                            Proxy.  After every step the driver records what the real code holds: whether the session is
//                            tracked / parked before AddRegistration / visible to connections, what the tracked
//                            registration's Covert contains, how often the scripted DNS server was asked for each message's
//                            name, and which of three loopback listeners (two permitted addresses, one forbidden) the proxy
//                            dialed.  The recording is judged by Trace_CovertSession (checks/C06.py).
//
// The first message's worker is parked at a verifhook gate after the covert step (ingest.liveness / ingest.add), so that
// duplicates and connections also arrive while the registration is tracked, checked, and not yet valid.

import (
	"bytes"
	"encoding/json"
	"fmt"
	"io"
	"net"
	"net/netip"
	"os"
	"sync"
	"sync/atomic"
	"testing"
	"time"

	"github.com/refraction-networking/conjure/pkg/core"
	"github.com/refraction-networking/conjure/pkg/station/log"
	"github.com/refraction-networking/conjure/pkg/transports/wrapping/min"
	"github.com/refraction-networking/conjure/pkg/verifhook"
	pb "github.com/refraction-networking/conjure/proto"
	"google.golang.org/protobuf/proto"
)

var vsessAddr = map[string]string{"P1": "127.0.0.2", "P2": "127.0.0.4", "F": "127.0.0.3"}

type vsessObs struct {
	A  string `json:"a"`
	C  string `json:"c"`
	Pk string `json:"pk"`
}

type vsessGate struct {
	reg     *DecoyRegistration
	point   string
	parked  chan struct{}
	release chan struct{}
}

type vsessListeners struct {
	mu   sync.Mutex
	hits map[string]int
	ch   chan string
	port int
	lns  []net.Listener
}

func vsessListen(t testing.TB) *vsessListeners {
	for attempt := 0; attempt < 20; attempt++ {
		l := &vsessListeners{hits: map[string]int{}, ch: make(chan string, 64)}
		first, err := net.Listen("tcp", vsessAddr["P1"]+":0")
		if err != nil {
			t.Fatalf("listen: %v", err)
		}
		l.port = first.Addr().(*net.TCPAddr).Port
		l.lns = []net.Listener{first}
		ok := true
		for _, k := range []string{"P2", "F"} {
			ln, err := net.Listen("tcp", fmt.Sprintf("%s:%d", vsessAddr[k], l.port))
			if err != nil {
				ok = false
				break
			}
			l.lns = append(l.lns, ln)
		}
		if !ok {
			l.close()
			continue
		}
		for i, k := range []string{"P1", "P2", "F"} {
			go func(ln net.Listener, who string) {
				for {
					c, err := ln.Accept()
					if err != nil {
						return
					}
					l.mu.Lock()
					l.hits[who]++
					l.mu.Unlock()
					select {
					case l.ch <- who:
					default:
					}
					c.Close()
				}
			}(l.lns[i], k)
		}
		return l
	}
	t.Fatalf("environment: no port free on all of 127.0.0.2 / .3 / .4")
	return nil
}

func (l *vsessListeners) close() {
	for _, ln := range l.lns {
		ln.Close()
	}
}

func (l *vsessListeners) drain() {
	for {
		select {
		case <-l.ch:
		default:
			return
		}
	}
}

// the concrete covert string of a message of class c (spellings rotate with the history and message number)
func vsessCovert(c string, hist, idx, port int, dns *vdns) (covert, name string) {
	rot := hist + idx
	lit := func(a string) string {
		if rot%3 == 2 {
			return fmt.Sprintf("[::ffff:%s]:%d", a, port) // v4-mapped spelling of the same address
		}
		return fmt.Sprintf("%s:%d", a, port)
	}
	answers := func(seq ...string) []string {
		r := []string{}
		for _, a := range seq {
			r = append(r, vsessAddr[a])
		}
		return r
	}
	switch c {
	case "litP1":
		return lit(vsessAddr["P1"]), ""
	case "litP2":
		return lit(vsessAddr["P2"]), ""
	case "litF":
		return lit(vsessAddr["F"]), ""
	case "nameP":
		name = fmt.Sprintf("h%dm%d.namep.verif.test", hist, idx)
		dns.set(name, answers("P2", "P2", "P2", "P2", "P2", "P2"))
	case "nameRebind":
		name = fmt.Sprintf("h%dm%d.rebind.verif.test", hist, idx)
		dns.set(name, answers("P1", "F", "F", "F", "F", "F"))
	case "nameF":
		name = fmt.Sprintf("h%dm%d.namef.verif.test", hist, idx)
		dns.set(name, answers("F", "F", "F", "F", "F", "F"))
	case "nameFlip":
		name = fmt.Sprintf("h%dm%d.flip.verif.test", hist, idx)
		dns.set(name, answers("F", "P1", "P1", "P1", "P1", "P1"))
	case "nameNx":
		name = fmt.Sprintf("h%dm%d.nx.verif.test", hist, idx)
		dns.set(name, []string{})
	case "blocked":
		name = []string{fmt.Sprintf("h%dm%d.blocked.test", hist, idx), fmt.Sprintf("h%dm%d.partial.example.test", hist, idx),
			fmt.Sprintf("intra.h%dm%d.test", hist, idx), fmt.Sprintf("h%dm%d.internal", hist, idx)}[rot%4]
		dns.set(name, answers("P1", "P1", "P1", "P1", "P1", "P1"))
	case "malformed":
		f := vsessAddr["F"]
		return []string{f, fmt.Sprintf("[%s:%d", f, port), f + ":65536", f + ":", "not an address", fmt.Sprintf("%s:%d:1", f, port)}[rot%6], ""
	}
	return fmt.Sprintf("%s:%d", name, port), name
}

func vsessManager(t testing.TB, pk string) *RegistrationManager {
	conf := &RegConfig{EnableIPv4: true, EnableIPv6: true, CovertBlocklistDomains: append([]string(nil), vcovPatterns...)}
	switch pk {
	case "block":
		conf.CovertBlocklistSubnets = []string{vsessAddr["F"] + "/32", "10.0.0.0/8"}
	case "allow":
		conf.CovertAllowlistSubnets = []string{vsessAddr["P1"] + "/32", vsessAddr["P2"] + "/32"}
		conf.CovertBlocklistSubnets = []string{"10.0.0.0/8"}
	default:
		t.Fatalf("policy kind %q", pk)
	}
	conf.ParseBlocklists()
	rm := NewRegistrationManager(conf)
	if rm == nil {
		t.Fatalf("no registration manager")
	}
	rm.Logger = log.New(io.Discard, "", 0)
	rm.LivenessTester = &vingLive{}
	if err := rm.AddTransport(pb.TransportType_Min, min.Transport{}); err != nil {
		t.Fatal(err)
	}
	rm.registeredDecoys.registerForDetector = func(*DecoyRegistration) {}
	rm.registeredDecoys.updateInDetector = func(*DecoyRegistration) {}
	return rm
}

func TestVerifCovertSessions(t *testing.T) {
	out := vOpenOut(t)
	defer out.Close()
	dns := vdnsStart(t)
	os.Setenv("PHANTOM_SUBNET_LOCATION", vingSubnetFile(t))
	ls := vsessListen(t)
	defer ls.close()
	rms := map[string]*RegistrationManager{}

	var gate atomic.Pointer[vsessGate]
	verifhook.SetYield(func(point string, id any) {
		g := gate.Load()
		r, ok := id.(*DecoyRegistration)
		if g == nil || !ok || r != g.reg || point != g.point {
			return
		}
		g.parked <- struct{}{}
		<-g.release
	})
	defer verifhook.SetYield(nil)

	nh, nsteps, nconn := 0, 0, 0
	vReadLines(t, func(line []byte) {
		var beh []vsessObs
		if err := json.Unmarshal(line, &beh); err != nil || len(beh) == 0 {
			t.Fatalf("history: %v %s", err, line)
		}
		nh++
		hist := nh
		pk := "block"
		for _, o := range beh {
			if o.A == "First" {
				pk = o.Pk
			}
		}
		rm := rms[pk]
		if rm == nil {
			rm = vsessManager(t, pk)
			rms[pk] = rm
		}
		secret := vSecret(fmt.Sprintf("session-%d", hist))
		var firstReg *DecoyRegistration
		var g *vsessGate
		var workerDone chan struct{}
		parked := false
		names := []string{}   // per message: its host name ("" for literals)
		dialLookups := 0      // lookups made during connections
		dialed := []string{}
		events := []map[string]any{}

		mkReg := func(covert string) *DecoyRegistration {
			tt := pb.TransportType_Min
			gen := uint32(957)
			ver := core.CurrentClientLibraryVersion()
			tr, fl := true, false
			pre := hist%2 == 0 // with and without the liveness scan (the scripted tester never reports a live phantom)
			c2s := &pb.ClientToStation{Transport: &tt, DecoyListGeneration: &gen, ClientLibVersion: &ver, V4Support: &tr, V6Support: &fl,
				CovertAddress: &covert, Flags: &pb.RegistrationFlags{Prescanned: &pre}}
			src := pb.RegistrationSource_API
			if len(names)%2 == 1 {
				src = pb.RegistrationSource_DNS // a repeat through another registrar
			}
			raw, _ := proto.Marshal(&pb.C2SWrapper{SharedSecret: secret, RegistrationPayload: c2s, RegistrationSource: &src,
				RegistrationAddress: net.ParseIP("198.51.100.7").To4()})
			regs, err := rm.parseRegMessage(raw)
			if err != nil || len(regs) != 1 || regs[0] == nil {
				t.Fatalf("parseRegMessage(%q): %v (%d)", covert, err, len(regs))
			}
			return regs[0]
		}
		visible := func() *DecoyRegistration {
			if firstReg == nil {
				return nil
			}
			for _, tr := range rm.GetRegistrations(firstReg.PhantomIp) {
				if r, ok := tr.(*DecoyRegistration); ok && r != nil && r.Keys != nil && bytes.Equal(r.Keys.SharedSecret, secret) {
					return r
				}
			}
			return nil
		}
		totalLookups := func() int {
			n := 0
			for _, nm := range names {
				if nm != "" {
					n += dns.lookups(nm)
				}
			}
			return n
		}
		observe := func() map[string]any {
			phase, stored := "none", "none"
			var tracked *DecoyRegistration
			if firstReg != nil {
				tracked = rm.registeredDecoys.RegistrationExists(firstReg)
			}
			v := visible()
			switch {
			case v != nil:
				phase = "valid"
				tracked = v
			case tracked != nil && parked:
				phase = "pending"
			case tracked != nil:
				phase = "dropped"
			}
			raw := ""
			if phase == "valid" || phase == "pending" {
				raw = tracked.Covert
				stored = "raw"
				if ap, err := netip.ParseAddrPort(raw); err == nil && int(ap.Port()) == ls.port {
					for k, a := range vsessAddr {
						if ap.Addr().Unmap().WithZone("") == netip.MustParseAddr(a) {
							stored = k
						}
					}
				}
			}
			lk := []int{}
			for _, nm := range names {
				if nm == "" {
					lk = append(lk, 0)
				} else {
					lk = append(lk, dns.lookups(nm))
				}
			}
			return map[string]any{"phase": phase, "stored": stored, "lookups": lk, "dialLookups": dialLookups,
				"dialed": append([]string{}, dialed...), "stored_raw": raw}
		}

		for _, o := range beh {
			nsteps++
			ev := map[string]any{"a": o.A}
			switch o.A {
			case "First", "Dup":
				idx := len(names) + 1
				covert, name := vsessCovert(o.C, hist, idx, ls.port, dns)
				reg := mkReg(covert)
				names = append(names, name)
				ev["c"], ev["covert"] = o.C, covert
				if firstReg == nil {
					firstReg = reg
					g = &vsessGate{reg: reg, point: []string{"ingest.add", "ingest.liveness"}[hist%2], parked: make(chan struct{}, 1), release: make(chan struct{})}
					gate.Store(g)
					workerDone = make(chan struct{})
					go func() { rm.ingestRegistration(reg); close(workerDone) }()
					select {
					case <-g.parked:
						parked = true
					case <-workerDone:
					case <-time.After(20 * time.Second):
						t.Fatalf("first ingest neither parked nor returned")
					}
				} else {
					rm.ingestRegistration(reg)
				}
			case "Admit":
				if parked {
					parked = false
					close(g.release)
					select {
					case <-workerDone:
					case <-time.After(20 * time.Second):
						t.Fatalf("first ingest did not finish")
					}
				}
			case "Connect":
				nconn++
				ls.drain()
				before := totalLookups()
				if reg := visible(); reg == nil {
					dialed = append(dialed, "nothing")
				} else {
					a, b := net.Pipe()
					done := make(chan struct{})
					go func() { Proxy(reg, b, rm.Logger); close(done) }()
					who := ""
					select {
					case who = <-ls.ch:
					case <-done:
						// the dial reached nothing, or everything was torn down before the accept loop reported
						select {
						case who = <-ls.ch:
						case <-time.After(100 * time.Millisecond):
						}
					case <-time.After(10 * time.Second):
					}
					a.Close()
					select {
					case <-done:
					case <-time.After(10 * time.Second):
						t.Fatalf("Proxy did not return")
					}
					b.Close()
					if who == "" {
						who = "failed"
					}
					dialed = append(dialed, who)
				}
				dialLookups += totalLookups() - before
			default:
				t.Fatalf("action %q", o.A)
			}
			ev["st"] = observe()
			events = append(events, ev)
		}
		// let a still parked worker finish
		if parked {
			close(g.release)
			<-workerDone
		}
		gate.Store(nil)
		out.Emit(map[string]any{"kind": "hist", "id": hist, "pk": pk, "events": events})
	})
	out.Emit(map[string]any{"kind": "summary", "histories": nh, "steps": nsteps, "connections": nconn, "port": ls.port})
}
