//go:build verif

package regprocessor

// Driver for spec/Wire (property C11), entry point "regproc": RegisterBidirectional / RegisterUnidirectional /
// processBdReq / processC2SWrapper of a real RegProcessor with every wrapper shape, processor configuration and
// front-end client address class; plus the mutation neighbourhood of the wire bytes (what decodes is delivered).

import (
	"fmt"
	"io"
	"os"
	"path/filepath"
	"testing"
	"time"

	"github.com/refraction-networking/conjure/pkg/metrics"
	pb "github.com/refraction-networking/conjure/proto"
	log "github.com/sirupsen/logrus"
	"google.golang.org/protobuf/proto"
)

func vwTomlFile(t testing.TB) string {
	dir, err := os.MkdirTemp(os.Getenv("VERIF_TMP"), "verif_c11_")
	if err != nil {
		t.Fatal(err)
	}
	p := filepath.Join(dir, "phantom_subnets.toml")
	if err := os.WriteFile(p, []byte(vwPhantomToml), 0o644); err != nil {
		t.Fatal(err)
	}
	t.Cleanup(func() { os.RemoveAll(dir) })
	return p
}

func TestVerifWireRegproc(t *testing.T) {
	r := vwNewRunner(t)
	toml := vwTomlFile(t)
	lg := log.New()
	lg.SetOutput(io.Discard)
	mt := metrics.NewMetrics(log.NewEntry(lg), 24*time.Hour)
	procs := map[string]*RegProcessor{}
	snds := map[string]*VerifWireSender{}
	get := func(f map[string]string) (*RegProcessor, *VerifWireSender) {
		k := f["auth"] + "/" + f["ovr"] + "/" + f["enforce"]
		if p, ok := procs[k]; ok {
			return p, snds[k]
		}
		p, s, err := VerifWireProcessor(VerifWireCfg{Auth: f["auth"] == "on", Ovr: f["ovr"], Enforce: f["enforce"] == "on"}, toml, mt, vSeed())
		if err != nil {
			t.Fatalf("processor: %v", err)
		}
		procs[k], snds[k] = p, s
		return p, s
	}
	published := 0
	r.each([]string{"regproc"}, func(row *vwRow) {
		f := row.F
		p, snd := get(f)
		raw := vwWrapperBytes(f, fmt.Sprintf("rp-%d", row.idx))
		addr := vwAddr(f["clientaddr"])
		deliver := func(variant string, b []byte) {
			r.mark(row.idx, variant)
			res := vwGuard(func() (string, string) {
				var w *pb.C2SWrapper
				if f["wrapper"] != "nil" {
					w = &pb.C2SWrapper{}
					if err := proto.Unmarshal(b, w); err != nil {
						return "error", "front end: does not decode"
					}
				}
				before := snd.N
				var err error
				switch f["op"] {
				case "bd":
					var rr *pb.RegistrationResponse
					rr, err = p.RegisterBidirectional(w, pb.RegistrationSource_BidirectionalAPI, addr)
					if err == nil {
						if rr == nil {
							return "accepted", "nil response without an error"
						}
						if _, e2 := proto.Marshal(rr); e2 != nil {
							return "error", "response does not marshal"
						}
					}
				case "uni":
					err = p.RegisterUnidirectional(w, pb.RegistrationSource_API, addr)
				case "bdreq":
					_, err = p.processBdReq(w)
				case "c2sw":
					_, err = p.processC2SWrapper(w, addr, pb.RegistrationSource_API)
				}
				if err != nil {
					return "error", ""
				}
				published += snd.N - before
				return "accepted", ""
			})
			if res.Outcome != "hang" && res.Outcome != "panic" {
				// whatever the call answered, it must have let go of the selector lock: a read lock left behind blocks the next
				// reload for ever and, behind the waiting writer, every later registration
				if p.selectorMutex.TryLock() {
					p.selectorMutex.Unlock()
				} else {
					res = vwResult{Outcome: "hang", Detail: "the call returned (" + res.Outcome + ") but still holds the phantom-selector lock: the next reload and every registration after it block",
						Site: "regprocessor.selectorMutex"}
					// a fresh processor for the rows that follow
					delete(procs, f["auth"]+"/"+f["ovr"]+"/"+f["enforce"])
				}
			}
			r.record(row, variant, res)
		}
		deliver("", raw)
		if r.wantMut(row) && f["wrapper"] != "nil" {
			for _, m := range r.muts(row, raw) {
				deliver(fmt.Sprintf("%s@%d", m.Kind, m.Pos), m.Raw)
			}
		}
	})
	r.finish(map[string]any{"driver": "regproc", "published": published})
}
