SPECIFICATION Spec
CONSTANTS
  StationLegacySkip = 104
  StationRandMinVer = 3
  ClientPortSource = "dialer"
INVARIANTS Agreement
CHECK_DEADLOCK FALSE
