---------------------------- MODULE Gen_Classify ----------------------------
(* History generator for stage B (spec -> implementation replay) of the table dimension of Classify.tla: enumerates every
   HISTORY of one phantom - up to MaxConns connections (R's own flight / another client's flight / a probe), with up to
   MaxOps table operations (Validate, SweepIdle, Retrack) between two connections and the sweeper's removal between a
   matching verdict and MarkActive (Swept) - and prints, per history, the table-level steps with what the specification says
   after each: the table's entry for R, whether the connection was matched, whether R was marked used.
   What happens INSIDE a connection (segmentation, pacing, deadline) is the standalone cases' dimension: here every stream
   arrives in one segment and a peer that was not matched closes once everything it sent has been read. *)
EXTENDS Classify, Json
CONSTANT MaxOps
VARIABLES hist, ops
Case(t, ok, total, own) == [t |-> t, ok |-> ok, terr |-> FALSE, H |-> IF t = "none" THEN 0 ELSE MinTag, pofs |-> 0, total |-> total, occ |-> 1, own |-> own]
GenCases == {Case("min", TRUE, MinTag, TRUE), Case("min", TRUE, MinTag, FALSE), Case("none", FALSE, MinTag, FALSE)}
Kind(d) == IF d.own THEN "own" ELSE IF d.ok THEN "other" ELSE "probe"
TableOps == {"Validate", "SweepIdle", "Retrack"}
Logged == TableOps \cup {"NextConn", "Swept", "Found", "Return"}
GenInit == Init /\ ops = 0 /\ hist = <<[a |-> "Start", kind |-> Kind(c), tab |-> tab]>>
Rec == IF obs'.a = "NextConn" THEN [a |-> "NextConn", kind |-> Kind(c'), tab |-> tab']
       ELSE IF obs'.a = "Return" THEN [a |-> "Return", why |-> obs'.why, tab |-> tab', matched |-> matched' # None, used |-> used']
       ELSE [a |-> obs'.a, tab |-> tab']
GenNext == /\ Next
           /\ obs'.a \notin {"LegacyReg", "Write", "Expire"}
           /\ (obs'.a = "Send" => obs'.k = c.total)
           /\ (obs'.a = "PeerClose" => (sent = c.total /\ readn = sent /\ phase \in {"read", "drain"}))
           /\ ops' = IF obs'.a \in TableOps THEN ops + 1 ELSE IF obs'.a = "NextConn" THEN 0 ELSE ops
           /\ ops' <= MaxOps
           /\ hist' = IF obs'.a \in Logged THEN Append(hist, Rec) ELSE hist
GenSpec == GenInit /\ [][GenNext]_<<vars, hist, ops>>
Done == conns = MaxConns /\ phase = "returned"
Emit == ~Done \/ PrintT(ToJson(hist))
=============================================================================
